// Command instrument is the source side of tie T3 (schedule replay for lock-free protocols).
// From the CURRENT source of one Go file it writes a copy in which
//
//   - every statement whose own expressions (not its nested blocks) contain a call
//     `atomic.<Op>(...)` (or a method call Load/Store/Add/Swap/CompareAndSwap on a field
//     listed with -fields, for typed atomics) is preceded by `verifYield("<Func>:<k>")` (k = ordinal of the yield in
//     that function, in source order), and
//   - every statement `<x>.<mutex>.Lock()` for a listed mutex field is replaced by
//     `verifLock(&<x>.<mutex>, "<Func>:lock")`.
//
// The copy replaces the original through `go build -overlay`; /repo is not modified.
// verifYield / verifLock are defined in the package's export shim: without a scheduler installed
// they are a no-op / a plain Lock, so every other user of the package behaves as before.
// Because the copy is regenerated on every run, the sequence of yield labels a goroutine passes
// through IS what the code does now: removing a re-check, an undo or a store changes the label
// trace and breaks the correspondence with the Lean model's program points.
//
// Constructs the tool does not handle (an atomic call in an `else if` condition, in a `for`
// header, in a `switch` tag or in a `defer`/`go` statement) make it fail loudly.
package main

import (
	"flag"
	"fmt"
	"go/ast"
	"go/parser"
	"go/printer"
	"go/token"
	"os"
	"strings"
)

func fail(f string, a ...any) {
	fmt.Fprintf(os.Stderr, "instrument: "+f+"\n", a...)
	os.Exit(1)
}

var mutexes = map[string]bool{}

// fields of typed atomics (atomic.Int32, atomic.Bool, …): x.<field>.<Method>(...) is an access
var atomicFields = map[string]bool{}
var atomicMethods = map[string]bool{"Load": true, "Store": true, "Add": true, "Swap": true, "CompareAndSwap": true, "And": true, "Or": true}

func hasAtomic(n ast.Node) bool {
	found := false
	if n == nil {
		return false
	}
	ast.Inspect(n, func(x ast.Node) bool {
		if _, ok := x.(*ast.FuncLit); ok {
			return false
		}
		if c, ok := x.(*ast.CallExpr); ok {
			if s, ok := c.Fun.(*ast.SelectorExpr); ok {
				if p, ok := s.X.(*ast.Ident); ok && p.Name == "atomic" {
					found = true
				}
				if atomicMethods[s.Sel.Name] {
					switch r := s.X.(type) {
					case *ast.SelectorExpr:
						if atomicFields[r.Sel.Name] {
							found = true
						}
					case *ast.Ident:
						if atomicFields[r.Name] {
							found = true
						}
					}
				}
			}
		}
		return true
	})
	return found
}

func isNil(e ast.Expr) bool { return e == nil }

// ownAtomic: does the statement itself (excluding nested blocks) contain an atomic call?
func ownAtomic(s ast.Stmt) bool {
	switch x := s.(type) {
	case *ast.ExprStmt:
		return hasAtomic(x.X)
	case *ast.AssignStmt:
		for _, e := range x.Rhs {
			if hasAtomic(e) {
				return true
			}
		}
		for _, e := range x.Lhs {
			if hasAtomic(e) {
				return true
			}
		}
	case *ast.ReturnStmt:
		for _, e := range x.Results {
			if hasAtomic(e) {
				return true
			}
		}
	case *ast.IfStmt:
		if x.Init != nil && ownAtomic(x.Init) {
			return true
		}
		return hasAtomic(x.Cond)
	case *ast.IncDecStmt:
		return hasAtomic(x.X)
	case *ast.DeclStmt:
		return hasAtomic(x.Decl)
	case *ast.SendStmt:
		return hasAtomic(x.Chan) || hasAtomic(x.Value)
	}
	return false
}

type ctx struct {
	fn string
	k  int
}

func yieldStmt(label string) ast.Stmt {
	return &ast.ExprStmt{X: &ast.CallExpr{Fun: ast.NewIdent("verifYield"),
		Args: []ast.Expr{&ast.BasicLit{Kind: token.STRING, Value: fmt.Sprintf("%q", label)}}}}
}

// lockCall: x.<mutex>.Lock() → (&x.<mutex>, true)
func lockCall(s ast.Stmt) (ast.Expr, bool) {
	es, ok := s.(*ast.ExprStmt)
	if !ok {
		return nil, false
	}
	c, ok := es.X.(*ast.CallExpr)
	if !ok || len(c.Args) != 0 {
		return nil, false
	}
	sel, ok := c.Fun.(*ast.SelectorExpr)
	if !ok || sel.Sel.Name != "Lock" {
		return nil, false
	}
	mu, ok := sel.X.(*ast.SelectorExpr)
	if !ok || !mutexes[mu.Sel.Name] {
		return nil, false
	}
	return mu, true
}

func (c *ctx) block(b *ast.BlockStmt) {
	if b == nil {
		return
	}
	var out []ast.Stmt
	for _, s := range b.List {
		if mu, ok := lockCall(s); ok {
			out = append(out, &ast.ExprStmt{X: &ast.CallExpr{Fun: ast.NewIdent("verifLock"),
				Args: []ast.Expr{&ast.UnaryExpr{Op: token.AND, X: mu},
					&ast.BasicLit{Kind: token.STRING, Value: fmt.Sprintf("%q", c.fn+":lock")}}}})
			continue
		}
		if ownAtomic(s) {
			out = append(out, yieldStmt(fmt.Sprintf("%s:%d", c.fn, c.k)))
			c.k++
		}
		c.nested(s)
		out = append(out, s)
	}
	b.List = out
}

func (c *ctx) nested(s ast.Stmt) {
	switch x := s.(type) {
	case *ast.BlockStmt:
		c.block(x)
	case *ast.IfStmt:
		c.block(x.Body)
		switch e := x.Else.(type) {
		case *ast.BlockStmt:
			c.block(e)
		case *ast.IfStmt:
			if ownAtomic(e) {
				fail("%s: atomic call in an `else if` header is not supported", c.fn)
			}
			c.nested(e)
		}
	case *ast.ForStmt:
		if (x.Init != nil && ownAtomic(x.Init)) || hasAtomic(x.Cond) || (x.Post != nil && ownAtomic(x.Post)) {
			fail("%s: atomic call in a `for` header is not supported", c.fn)
		}
		c.block(x.Body)
	case *ast.RangeStmt:
		if hasAtomic(x.X) {
			fail("%s: atomic call in a `range` header is not supported", c.fn)
		}
		c.block(x.Body)
	case *ast.SwitchStmt:
		if (x.Init != nil && ownAtomic(x.Init)) || hasAtomic(x.Tag) {
			fail("%s: atomic call in a `switch` header is not supported", c.fn)
		}
		for _, cc := range x.Body.List {
			cl := cc.(*ast.CaseClause)
			for _, e := range cl.List {
				if hasAtomic(e) {
					fail("%s: atomic call in a `case` expression is not supported", c.fn)
				}
			}
			b := &ast.BlockStmt{List: cl.Body}
			c.block(b)
			cl.Body = b.List
		}
	case *ast.SelectStmt:
		for _, cc := range x.Body.List {
			cl := cc.(*ast.CommClause)
			b := &ast.BlockStmt{List: cl.Body}
			c.block(b)
			cl.Body = b.List
		}
	case *ast.DeferStmt:
		if hasAtomic(x.Call) {
			fail("%s: atomic call in a `defer` is not supported", c.fn)
		}
	case *ast.GoStmt:
		if hasAtomic(x.Call) {
			fail("%s: atomic call in a `go` statement is not supported", c.fn)
		}
	case *ast.LabeledStmt:
		c.nested(x.Stmt)
	}
}

func main() {
	in := flag.String("in", "", "")
	out := flag.String("out", "", "")
	mus := flag.String("mutex", "", "comma-separated mutex field names")
	afs := flag.String("fields", "", "comma-separated names of typed-atomic fields/variables")
	flag.Parse()
	for _, m := range strings.Split(*afs, ",") {
		if m != "" {
			atomicFields[m] = true
		}
	}
	for _, m := range strings.Split(*mus, ",") {
		if m != "" {
			mutexes[m] = true
		}
	}
	fset := token.NewFileSet()
	f, err := parser.ParseFile(fset, *in, nil, parser.ParseComments)
	if err != nil {
		fail("%v", err)
	}
	// comments are dropped: positions of inserted nodes would otherwise misplace them
	f.Comments = nil
	var labels []string
	for _, d := range f.Decls {
		fd, ok := d.(*ast.FuncDecl)
		if !ok || fd.Body == nil {
			continue
		}
		fd.Doc = nil
		c := &ctx{fn: fd.Name.Name}
		c.block(fd.Body)
		for i := 0; i < c.k; i++ {
			labels = append(labels, fmt.Sprintf("%s:%d", c.fn, i))
		}
	}
	var b strings.Builder
	b.WriteString("// Code generated by /verif/tools/instrument from the current source. DO NOT EDIT.\n")
	fmt.Fprintf(&b, "// yield points: %s\n\n", strings.Join(labels, " "))
	if err := printer.Fprint(&b, fset, f); err != nil {
		fail("%v", err)
	}
	if err := os.WriteFile(*out, []byte(b.String()), 0o644); err != nil {
		fail("%v", err)
	}
}
