#!/bin/sh
# tools/runall.sh [ids…]  — run the quick checks and print one line each
cd "$(dirname "$0")/.."
ids="$*"
[ -z "$ids" ] && ids=$(ls props | grep -E '^C[0-9]+\.py$' | sed 's/\.py//')
for p in $ids; do
  ./check $p --tier quick 2>&1 | grep -E "^\[$p\]|^VIOLATION" | cut -c1-200
done
