#!/bin/bash
# tools/verify_seed.sh <outdir of one seeded change> <seed id>  — confirm the change myself:
# demo passes on a clean tree, fails with the patch; then keep it under seeded/<id>/.
set -u
OUT=$1; ID=$2
ROOT="$(cd "$(dirname "$0")/.." && pwd)"
WT=/tmp/verify-seed-$ID
git -C /repo worktree remove --force $WT 2>/dev/null
git -C /repo worktree add -q $WT HEAD || exit 2
cd $WT
bash $OUT/demo/run.sh >/tmp/verify-seed-$ID.clean.log 2>&1; rc_clean=$?
if ! git apply $OUT/patch.diff; then echo "$ID: patch does not apply"; cd /; git -C /repo worktree remove --force $WT; exit 1; fi
bash $OUT/demo/run.sh >/tmp/verify-seed-$ID.patched.log 2>&1; rc_patched=$?
files=$(git diff --name-only | xargs -n1 dirname | sort -u | sed 's|^|./|' | tr '\n' ' ')
G=/root/go/pkg/mod/golang.org/toolchain@v0.0.1-go1.25.0.linux-amd64/bin/go
GOTOOLCHAIN=local GOFLAGS=-mod=mod GOPROXY=off GOSUMDB=off $G test -count=1 $files >/tmp/verify-seed-$ID.tests.log 2>&1; rc_tests=$?
cd /; git -C /repo worktree remove --force $WT
echo "$ID: demo clean rc=$rc_clean patched rc=$rc_patched; existing tests of [$files] with patch rc=$rc_tests"
if [ $rc_clean -eq 0 ] && [ $rc_patched -ne 0 ] && [ $rc_tests -eq 0 ]; then
  mkdir -p $ROOT/seeded/$ID
  cp -r $OUT/patch.diff $OUT/demo $OUT/notes.md $ROOT/seeded/$ID/
  echo "$ID: CONFIRMED -> seeded/$ID"
else
  echo "$ID: NOT confirmed (see /tmp/verify-seed-$ID.*.log)"
fi
