#!/usr/bin/env python3
"""Runs the registered checks against every seeded change under seeded/<id>/ (patch.diff + meta.json).

    tools/run_seeded.py [id ...]          # default: all

For each change: a scratch git worktree of /repo is created under /tmp, the patch applied there,
the property's quick check run with VERIF_REPO pointing at it (so /repo itself is never touched),
and the worktree removed. Results go to seeded/RESULTS.json and a table on stdout:
caught (VIOLATION with a failing input), caught-nfi (VIOLATION … no-failing-input-found), MISSED.
"""
import json
import os
import subprocess
import sys
import time

root = os.path.dirname(os.path.dirname(os.path.abspath(__file__)))
sd = os.path.join(root, "seeded")
ids = sys.argv[1:] or sorted(d for d in os.listdir(sd) if os.path.isdir(os.path.join(sd, d)))
res_path = os.path.join(sd, "RESULTS.json")
results = json.load(open(res_path)) if os.path.exists(res_path) else {}
for sid in ids:
    d = os.path.join(sd, sid)
    meta = json.load(open(os.path.join(d, "meta.json")))
    prop = meta["property"]
    wt = "/tmp/seeded-wt-%s" % sid
    subprocess.run(["git", "-C", "/repo", "worktree", "remove", "--force", wt], capture_output=True)
    subprocess.run(["git", "-C", "/repo", "worktree", "add", "-q", wt, "HEAD"], check=True)
    try:
        p = subprocess.run(["git", "-C", wt, "apply", os.path.join(d, "patch.diff")], capture_output=True, text=True)
        if p.returncode != 0:
            results[sid] = {"property": prop, "result": "patch-does-not-apply", "detail": p.stderr[-300:]}
            print("%-28s %-5s patch does not apply" % (sid, prop))
            continue
        t0 = time.time()
        tier = meta.get("tier", "quick")
        p = subprocess.run([os.path.join(root, "check"), prop, "--tier", tier], env=dict(os.environ, VERIF_REPO=wt, VERIF_EVIDENCE_DIR="/tmp/seeded-evidence"),
                           capture_output=True, text=True, cwd=root)
        line = [l for l in p.stdout.splitlines() if l.startswith("VIOLATION")]
        if p.returncode == 1 and line:
            r = "caught-nfi" if line[0].endswith("no-failing-input-found") else "caught"
        elif p.returncode == 0:
            r = "MISSED"
        else:
            r = "check-error"
        results[sid] = {"property": prop, "result": r, "line": line[0] if line else "", "wall_s": round(time.time() - t0, 1),
                        "needs": meta.get("needs", ""), "tier": tier}
        print("%-28s %-5s %-11s %s" % (sid, prop, r, line[0] if line else p.stdout[-200:].replace("\n", " ")))
    finally:
        subprocess.run(["git", "-C", "/repo", "worktree", "remove", "--force", wt], capture_output=True)
    json.dump(results, open(res_path, "w"), indent=1, sort_keys=True)
