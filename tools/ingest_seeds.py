#!/usr/bin/env python3
"""tools/ingest_seeds.py /tmp/seedN-out ...  — verify every <ID>/ under the given output dirs with
tools/verify_seed.sh and register confirmed ones under seeded/<ID>-<tag>/ with a meta.json."""
import json, os, re, subprocess, sys
root = os.path.dirname(os.path.dirname(os.path.abspath(__file__)))
for out in sys.argv[1:]:
    tag = os.path.basename(out.rstrip("/")).replace("-out", "")
    for pid in sorted(os.listdir(out)):
        d = os.path.join(out, pid)
        if not re.match(r"^C\d+$", pid) or not os.path.exists(os.path.join(d, "patch.diff")):
            continue
        sid = "%s-%s" % (pid, tag)
        if os.path.exists(os.path.join(root, "seeded", sid, "meta.json")) or any(
                x.startswith(pid + "-") and os.path.exists(os.path.join(root, "seeded", x, "notes.md")) and
                open(os.path.join(root, "seeded", x, "notes.md")).read() == open(os.path.join(d, "notes.md")).read()
                for x in os.listdir(os.path.join(root, "seeded")) if os.path.isdir(os.path.join(root, "seeded", x))):
            continue
        p = subprocess.run([os.path.join(root, "tools", "verify_seed.sh"), d, sid], capture_output=True, text=True)
        print(p.stdout.strip().splitlines()[-1] if p.stdout.strip() else p.stderr[-200:])
        if os.path.isdir(os.path.join(root, "seeded", sid)):
            notes = open(os.path.join(d, "notes.md")).read()
            m = re.search(r"(?is)(needs?[^\n]*manifest[^\n]*\n+|what it needs[^\n]*\n+|## needs[^\n]*\n+)(.{20,600}?)(\n\n|\n#|$)", notes)
            needs = " ".join((m.group(2) if m else notes[:500]).split())[:600]
            json.dump({"property": pid, "needs": needs,
                       "source": "fresh sub-agent (%s) given only the property text and a scratch worktree" % tag,
                       "confirmed": "tools/verify_seed.sh: demo/run.sh exits 0 on clean HEAD and non-zero with patch.diff applied; `go test` of the touched packages passes with the patch"},
                      open(os.path.join(root, "seeded", sid, "meta.json"), "w"), indent=1)
