// Command extract is tie T4: it regenerates, from /repo's CURRENT source, the constants
// and tables the Lean models depend on.
//
//	extract -repo /repo -spec tools/t4/X.json -out lean/GrpcModel/Generated/X.lean
//
// Spec: {"items":[{"lean":"name","file":"rel/path.go","kind":K, ...}]}, kinds:
//
//	const_int     {"name":"maxTimeoutValue"}            → def name : Int/Nat := <value>
//	case_strings  {"func":"isReservedHeader"}            → def name : List String (all string
//	                literals in `case` clauses of the function's switch statements, in order)
//	case_ints     {"func":"f"}                           → same for integer-constant case labels
//	map_pairs     {"name":"http2ErrConvTab"}             → List (String × String) of a map
//	                composite literal's key/value source text (selectors reduced to their Sel)
//	iota_names    {"type":"outStreamState"}              → List String: names of the const block
//	                whose first entry has the given type
//	func_src_hash {"func":"name"}                        → String: normalised source of a function
//	                (used only as a change detector in evidence, never in a theorem)
//
// Only integer arithmetic on literals, previously defined constants of the same file,
// time.<Unit> and math.Max/MinIntN is evaluated; anything else fails loudly (exit 1),
// which the check reports as a broken tie.
package main

import (
	"encoding/json"
	"flag"
	"fmt"
	"go/ast"
	"go/parser"
	"go/printer"
	"go/token"
	"math/big"
	"os"
	"path/filepath"
	"strconv"
	"strings"
)

type item struct {
	Lean string `json:"lean"`
	File string `json:"file"`
	Kind string `json:"kind"`
	Name string `json:"name"`
	Func string `json:"func"`
	Type string `json:"type"`
	Recv string `json:"recv"`
	Nat  bool   `json:"nat"`
}

type spec struct {
	Items []item `json:"items"`
}

var builtin = map[string]string{
	"time.Nanosecond": "1", "time.Microsecond": "1000", "time.Millisecond": "1000000",
	"time.Second": "1000000000", "time.Minute": "60000000000", "time.Hour": "3600000000000",
	"math.MaxInt64": "9223372036854775807", "math.MaxInt32": "2147483647", "math.MaxUint32": "4294967295",
	"math.MaxInt": "9223372036854775807", "math.MinInt64": "-9223372036854775808", "math.MaxUint16": "65535",
	"math.MaxUint64": "18446744073709551615", "math.MaxInt16": "32767", "math.MaxUint8": "255",
}

func fail(f string, a ...any) {
	fmt.Fprintf(os.Stderr, "extract: "+f+"\n", a...)
	os.Exit(1)
}

type fileCtx struct {
	fset   *token.FileSet
	f      *ast.File
	consts map[string]*big.Int
	iota   map[string]int
}

func load(path string) *fileCtx {
	fset := token.NewFileSet()
	f, err := parser.ParseFile(fset, path, nil, parser.ParseComments)
	if err != nil {
		fail("%v", err)
	}
	c := &fileCtx{fset: fset, f: f, consts: map[string]*big.Int{}}
	// evaluate every const in source order (best effort; failures are only fatal when requested)
	for _, d := range f.Decls {
		gd, ok := d.(*ast.GenDecl)
		if !ok || gd.Tok != token.CONST {
			continue
		}
		var lastExprs []ast.Expr
		for i, s := range gd.Specs {
			vs := s.(*ast.ValueSpec)
			exprs := vs.Values
			if len(exprs) == 0 {
				exprs = lastExprs
			} else {
				lastExprs = exprs
			}
			for j, n := range vs.Names {
				if j >= len(exprs) {
					continue
				}
				if v, err := c.eval(exprs[j], i); err == nil {
					c.consts[n.Name] = v
				}
			}
		}
	}
	return c
}

func (c *fileCtx) eval(e ast.Expr, iota int) (*big.Int, error) {
	switch x := e.(type) {
	case *ast.BasicLit:
		switch x.Kind {
		case token.INT:
			v, ok := new(big.Int).SetString(strings.ReplaceAll(x.Value, "_", ""), 0)
			if !ok {
				return nil, fmt.Errorf("bad int %s", x.Value)
			}
			return v, nil
		case token.CHAR:
			r, _, _, err := strconv.UnquoteChar(x.Value[1:len(x.Value)-1], '\'')
			if err != nil {
				return nil, err
			}
			return big.NewInt(int64(r)), nil
		}
	case *ast.Ident:
		if x.Name == "iota" {
			return big.NewInt(int64(iota)), nil
		}
		if v, ok := c.consts[x.Name]; ok {
			return v, nil
		}
	case *ast.SelectorExpr:
		if p, ok := x.X.(*ast.Ident); ok {
			if s, ok := builtin[p.Name+"."+x.Sel.Name]; ok {
				v, _ := new(big.Int).SetString(s, 10)
				return v, nil
			}
		}
	case *ast.ParenExpr:
		return c.eval(x.X, iota)
	case *ast.CallExpr: // conversions like int64(x), uint32(x), time.Duration(x)
		if len(x.Args) == 1 {
			return c.eval(x.Args[0], iota)
		}
	case *ast.UnaryExpr:
		v, err := c.eval(x.X, iota)
		if err != nil {
			return nil, err
		}
		switch x.Op {
		case token.SUB:
			return new(big.Int).Neg(v), nil
		case token.ADD:
			return v, nil
		}
	case *ast.BinaryExpr:
		a, err := c.eval(x.X, iota)
		if err != nil {
			return nil, err
		}
		b, err := c.eval(x.Y, iota)
		if err != nil {
			return nil, err
		}
		switch x.Op {
		case token.ADD:
			return new(big.Int).Add(a, b), nil
		case token.SUB:
			return new(big.Int).Sub(a, b), nil
		case token.MUL:
			return new(big.Int).Mul(a, b), nil
		case token.QUO:
			if b.Sign() == 0 {
				return nil, fmt.Errorf("div by zero")
			}
			return new(big.Int).Quo(a, b), nil
		case token.REM:
			if b.Sign() == 0 {
				return nil, fmt.Errorf("div by zero")
			}
			return new(big.Int).Rem(a, b), nil
		case token.SHL:
			return new(big.Int).Lsh(a, uint(b.Uint64())), nil
		case token.SHR:
			return new(big.Int).Rsh(a, uint(b.Uint64())), nil
		}
	}
	return nil, fmt.Errorf("cannot evaluate %T", e)
}

func (c *fileCtx) findFunc(name, recv string) *ast.FuncDecl {
	for _, d := range c.f.Decls {
		fd, ok := d.(*ast.FuncDecl)
		if !ok || fd.Name.Name != name {
			continue
		}
		if recv != "" {
			if fd.Recv == nil || len(fd.Recv.List) == 0 {
				continue
			}
			t := fd.Recv.List[0].Type
			if s, ok := t.(*ast.StarExpr); ok {
				t = s.X
			}
			if ix, ok := t.(*ast.IndexExpr); ok {
				t = ix.X
			}
			if id, ok := t.(*ast.Ident); !ok || id.Name != recv {
				continue
			}
		}
		return fd
	}
	return nil
}

func leanStr(s string) string {
	var b strings.Builder
	b.WriteByte('"')
	for _, r := range s {
		switch {
		case r == '"':
			b.WriteString("\\\"")
		case r == '\\':
			b.WriteString("\\\\")
		case r == '\n':
			b.WriteString("\\n")
		case r == '\t':
			b.WriteString("\\t")
		case r < 0x20 || r == 0x7f:
			fmt.Fprintf(&b, "\\x%02x", r)
		default:
			b.WriteRune(r)
		}
	}
	b.WriteByte('"')
	return b.String()
}

func src(fset *token.FileSet, n ast.Node) string {
	var b strings.Builder
	printer.Fprint(&b, fset, n)
	return b.String()
}

func shortExpr(fset *token.FileSet, e ast.Expr) string {
	switch x := e.(type) {
	case *ast.SelectorExpr:
		return x.Sel.Name
	case *ast.BasicLit:
		if x.Kind == token.STRING {
			s, _ := strconv.Unquote(x.Value)
			return s
		}
		return x.Value
	}
	return src(fset, e)
}

func main() {
	repo := flag.String("repo", "/repo", "")
	specPath := flag.String("spec", "", "")
	out := flag.String("out", "", "")
	flag.Parse()
	raw, err := os.ReadFile(*specPath)
	if err != nil {
		fail("%v", err)
	}
	var sp spec
	if err := json.Unmarshal(raw, &sp); err != nil {
		fail("%s: %v", *specPath, err)
	}
	files := map[string]*fileCtx{}
	var b strings.Builder
	b.WriteString("-- GENERATED by tools/extract from the Go source on every check run (tie T4). Do not edit.\n")
	fmt.Fprintf(&b, "-- spec: tools/t4/%s\n", filepath.Base(*specPath))
	b.WriteString("namespace GrpcModel.Generated\n\n")
	for _, it := range sp.Items {
		c := files[it.File]
		if c == nil {
			c = load(filepath.Join(*repo, it.File))
			files[it.File] = c
		}
		fmt.Fprintf(&b, "/-- %s: %s %s%s%s -/\n", it.File, it.Kind, it.Name, it.Func, it.Type)
		switch it.Kind {
		case "const_int":
			v, ok := c.consts[it.Name]
			if !ok {
				// maybe a package-level var with a constant initialiser
				for _, d := range c.f.Decls {
					gd, ok2 := d.(*ast.GenDecl)
					if !ok2 || gd.Tok != token.VAR {
						continue
					}
					for _, s := range gd.Specs {
						vs := s.(*ast.ValueSpec)
						for j, n := range vs.Names {
							if n.Name == it.Name && j < len(vs.Values) {
								if vv, err := c.eval(vs.Values[j], 0); err == nil {
									v, ok = vv, true
								}
							}
						}
					}
				}
			}
			if !ok {
				fail("%s: constant %s not found or not evaluable", it.File, it.Name)
			}
			ty := "Int"
			if v.Sign() >= 0 {
				ty = "Nat"
			}
			fmt.Fprintf(&b, "def %s : %s := %s\n\n", it.Lean, ty, v.String())
		case "case_strings", "case_ints":
			fd := c.findFunc(it.Func, it.Recv)
			if fd == nil {
				fail("%s: func %s not found", it.File, it.Func)
			}
			var vals []string
			ast.Inspect(fd.Body, func(n ast.Node) bool {
				cc, ok := n.(*ast.CaseClause)
				if !ok {
					return true
				}
				for _, e := range cc.List {
					if it.Kind == "case_strings" {
						if bl, ok := e.(*ast.BasicLit); ok && bl.Kind == token.STRING {
							s, _ := strconv.Unquote(bl.Value)
							vals = append(vals, leanStr(s))
						} else {
							fail("%s: %s: non-literal case %s", it.File, it.Func, src(c.fset, e))
						}
					} else {
						v, err := c.eval(e, 0)
						if err != nil {
							fail("%s: %s: case %s: %v", it.File, it.Func, src(c.fset, e), err)
						}
						vals = append(vals, v.String())
					}
				}
				return true
			})
			ty := "String"
			if it.Kind == "case_ints" {
				ty = "Int"
			}
			fmt.Fprintf(&b, "def %s : List %s := [%s]\n\n", it.Lean, ty, strings.Join(vals, ", "))
		case "map_pairs":
			var lit *ast.CompositeLit
			ast.Inspect(c.f, func(n ast.Node) bool {
				vs, ok := n.(*ast.ValueSpec)
				if !ok {
					return true
				}
				for j, nm := range vs.Names {
					if nm.Name == it.Name && j < len(vs.Values) {
						if cl, ok := vs.Values[j].(*ast.CompositeLit); ok {
							lit = cl
						}
					}
				}
				return true
			})
			if lit == nil {
				fail("%s: map literal %s not found", it.File, it.Name)
			}
			var vals []string
			for _, e := range lit.Elts {
				kv, ok := e.(*ast.KeyValueExpr)
				if !ok {
					fail("%s: %s: non key-value element", it.File, it.Name)
				}
				vals = append(vals, fmt.Sprintf("(%s, %s)", leanStr(shortExpr(c.fset, kv.Key)), leanStr(shortExpr(c.fset, kv.Value))))
			}
			fmt.Fprintf(&b, "def %s : List (String × String) := [%s]\n\n", it.Lean, strings.Join(vals, ", "))
		case "iota_names":
			var names []string
			for _, d := range c.f.Decls {
				gd, ok := d.(*ast.GenDecl)
				if !ok || gd.Tok != token.CONST || len(gd.Specs) == 0 {
					continue
				}
				first := gd.Specs[0].(*ast.ValueSpec)
				id, ok := first.Type.(*ast.Ident)
				if !ok || id.Name != it.Type {
					continue
				}
				for _, s := range gd.Specs {
					for _, n := range s.(*ast.ValueSpec).Names {
						names = append(names, leanStr(n.Name))
					}
				}
			}
			if names == nil {
				fail("%s: const block of type %s not found", it.File, it.Type)
			}
			fmt.Fprintf(&b, "def %s : List String := [%s]\n\n", it.Lean, strings.Join(names, ", "))
		case "func_src_hash":
			fd := c.findFunc(it.Func, it.Recv)
			if fd == nil {
				fail("%s: func %s not found", it.File, it.Func)
			}
			fd.Doc = nil
			s := strings.Join(strings.Fields(src(c.fset, fd)), " ")
			fmt.Fprintf(&b, "def %s : String := %s\n\n", it.Lean, leanStr(s))
		default:
			fail("unknown kind %q", it.Kind)
		}
	}
	b.WriteString("end GrpcModel.Generated\n")
	if old, err := os.ReadFile(*out); err == nil && string(old) == b.String() {
		return // unchanged: keep lake incremental
	}
	if err := os.WriteFile(*out, []byte(b.String()), 0o644); err != nil {
		fail("%v", err)
	}
}
