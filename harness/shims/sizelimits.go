//go:build verif

package grpc

// VerifGetMaxSize exposes getMaxSize (service_config.go) to the verification harness.
func VerifGetMaxSize(mcMax, doptMax *int, defaultVal int) int {
	return *getMaxSize(mcMax, doptMax, defaultVal)
}

// VerifMinPointers exposes minPointers.
func VerifMinPointers(a, b int) int { return *minPointers(&a, &b) }

// VerifParseSCLimits parses a service config and returns the message-size limits of the method
// config registered under `path` ("" = the catch-all entry).
func VerifParseSCLimits(js, path string) (req, resp *int, err error) {
	r := parseServiceConfig(js, defaultMaxCallAttempts)
	if r.Err != nil {
		return nil, nil, r.Err
	}
	mc, ok := r.Config.(*ServiceConfig).Methods[path]
	if !ok {
		return nil, nil, nil
	}
	return mc.MaxReqSize, mc.MaxRespSize, nil
}
