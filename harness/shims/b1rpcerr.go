//go:build verif

package grpc

// VerifToRPCErr exposes toRPCErr (how the RPC layer maps a transport read error to the RPC's status).
func VerifToRPCErr(err error) error { return toRPCErr(err) }
