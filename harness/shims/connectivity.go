//go:build verif

package grpc

// Export shim for C30: read-only accessor for the real sub-channel state.

import (
	"google.golang.org/grpc/balancer"
	"google.golang.org/grpc/connectivity"
)

// VerifSubConnState returns addrConn.state (read under ac.mu) and whether ac.transport is set.
func VerifSubConnState(sc balancer.SubConn) (connectivity.State, bool, bool) {
	acbw, ok := sc.(*acBalancerWrapper)
	if !ok {
		return 0, false, false
	}
	acbw.ac.mu.Lock()
	defer acbw.ac.mu.Unlock()
	return acbw.ac.state, acbw.ac.transport != nil, true
}
