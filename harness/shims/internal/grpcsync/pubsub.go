//go:build verif

package grpcsync

// VerifPubSubSerializer exposes the PubSub's private CallbackSerializer so that the verification
// harness can park its run goroutine behind a gate callback (which makes "deliveries still
// queued" a state the harness can hold deterministically).
func VerifPubSubSerializer(ps *PubSub) *CallbackSerializer { return ps.cs }
