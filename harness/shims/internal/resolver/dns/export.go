//go:build verif

package dns

import (
	"net/netip"

	"google.golang.org/grpc/internal/resolver/dns/internal"
)

// VerifNetResolver re-exports the nested internal interface.
type VerifNetResolver = internal.NetResolver

// VerifSetNetResolver makes every resolver built from now on use r.
func VerifSetNetResolver(r VerifNetResolver) {
	internal.NewNetResolver = func(string) (internal.NetResolver, error) { return r, nil }
}

// VerifParseTarget exposes parseTarget; the error is mapped to a small enum.
func VerifParseTarget(target, defaultPort string) (host, port, errKind string) {
	h, p, err := parseTarget(target, defaultPort)
	switch {
	case err == nil:
		return h, p, ""
	case err == internal.ErrMissingAddr:
		return "", "", "missing"
	case err == internal.ErrEndsWithColon:
		return "", "", "colon"
	}
	return "", "", "invalid"
}

// VerifFormatIP exposes formatIP.
func VerifFormatIP(a string) (string, bool) {
	s, err := formatIP(a)
	return s, err == nil
}

// VerifIPKind is netip.ParseAddr's verdict: 0 not an IP, 4, 6.
func VerifIPKind(a string) int {
	ip, err := netip.ParseAddr(a)
	if err != nil {
		return 0
	}
	if ip.Is4() {
		return 4
	}
	return 6
}
