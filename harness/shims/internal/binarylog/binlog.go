//go:build verif

package binarylog

import (
	binlogpb "google.golang.org/grpc/binarylog/grpc_binarylog_v1"
	"google.golang.org/grpc/metadata"
)

// Export shims for the verification harness (C55).

// VerifMaxUInt is the "no limit" value of the header/message limits.
const VerifMaxUInt = maxUInt

// VerifMetadataKeyOmit exposes metadataKeyOmit.
func VerifMetadataKeyOmit(k string) bool { return metadataKeyOmit(k) }

// VerifMdToMetadataProto exposes mdToMetadataProto.
func VerifMdToMetadataProto(md metadata.MD) *binlogpb.Metadata { return mdToMetadataProto(md) }

// VerifTruncateMetadata exposes (*TruncatingMethodLogger).truncateMetadata.
func (ml *TruncatingMethodLogger) VerifTruncateMetadata(m *binlogpb.Metadata) bool {
	return ml.truncateMetadata(m)
}

// VerifTruncateMessage exposes (*TruncatingMethodLogger).truncateMessage.
func (ml *TruncatingMethodLogger) VerifTruncateMessage(m *binlogpb.Message) bool {
	return ml.truncateMessage(m)
}
