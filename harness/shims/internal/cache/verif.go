//go:build verif

package cache

// Export shims for the synctest harness (component s_timeoutcache, C57). The only way to observe
// the window "timer has fired, its goroutine is waiting for c.mu" is to hold c.mu while virtual
// time passes the deadline; VerifLock/VerifUnlock give the harness that, and
// VerifRemoveInternal runs the real removeInternal (the `deleted` flag logic) under that lock.

// VerifLock acquires the cache mutex.
func (c *TimeoutCache) VerifLock() { c.mu.Lock() }

// VerifUnlock releases the cache mutex.
func (c *TimeoutCache) VerifUnlock() { c.mu.Unlock() }

// VerifRemoveInternal calls removeInternal; the caller holds the mutex (VerifLock).
func (c *TimeoutCache) VerifRemoveInternal(key any) (item any, callback func(), ok bool) {
	e, ok := c.removeInternal(key)
	if !ok {
		return nil, nil, false
	}
	return e.item, e.callback, true
}

// VerifKeys lists the keys currently in the map; the caller holds the mutex.
func (c *TimeoutCache) VerifKeys() []any {
	var ks []any
	for k := range c.cache {
		ks = append(ks, k)
	}
	return ks
}
