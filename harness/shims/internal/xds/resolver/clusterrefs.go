//go:build verif

package resolver

import (
	"context"
	"sort"

	"google.golang.org/grpc/resolver"
)

// VerifPauseSerializer schedules a callback on the resolver's callback serializer that blocks until
// the returned function is called: everything scheduled meanwhile (Update callbacks from the
// dependency manager) waits behind it, exactly as it would behind any slow callback.
func VerifPauseSerializer(r resolver.Resolver) (release func()) {
	xr := r.(*xdsResolver)
	ch := make(chan struct{})
	xr.serializer.TrySchedule(func(context.Context) { <-ch })
	return func() { close(ch) }
}

// VerifActiveClusters returns "name:refCount" of activeClusters, sorted. Only called when the
// serializer is idle or blocked in a pause callback.
func VerifActiveClusters(r resolver.Resolver) []string {
	xr := r.(*xdsResolver)
	done := make(chan []string, 1)
	read := func() []string {
		var out []string
		for k, ci := range xr.activeClusters {
			out = append(out, k+"="+itoa(int(ci.refCount.Load())))
		}
		sort.Strings(out)
		return out
	}
	_ = done
	return read()
}

// VerifActivePlugins returns "name=refCount" of activePlugins, sorted.
func VerifActivePlugins(r resolver.Resolver) []string {
	xr := r.(*xdsResolver)
	var out []string
	for k, ci := range xr.activePlugins {
		out = append(out, k+"="+itoa(int(ci.refCount.Load())))
	}
	sort.Strings(out)
	return out
}

func itoa(n int) string {
	if n == 0 {
		return "0"
	}
	neg := n < 0
	if neg {
		n = -n
	}
	var b []byte
	for n > 0 {
		b = append([]byte{byte('0' + n%10)}, b...)
		n /= 10
	}
	if neg {
		b = append([]byte{'-'}, b...)
	}
	return string(b)
}
