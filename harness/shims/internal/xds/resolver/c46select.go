//go:build verif

package resolver

import (
	"context"

	iresolver "google.golang.org/grpc/internal/resolver"
	iringhash "google.golang.org/grpc/internal/ringhash"
	"google.golang.org/grpc/internal/xds/balancer/clustermanager"
	"google.golang.org/grpc/internal/xds/bootstrap"
	"google.golang.org/grpc/internal/xds/clusterspecifier"
	"google.golang.org/grpc/internal/xds/httpfilter"
	"google.golang.org/grpc/internal/xds/xdsclient"
	"google.golang.org/grpc/internal/xds/xdsclient/xdsresource"
)

type verifXDSClient struct {
	xdsclient.XDSClient
	cfg *bootstrap.Config
}

func (c verifXDSClient) BootstrapConfig() *bootstrap.Config { return c.cfg }

// VerifSelector wraps a configSelector built by the REAL newConfigSelector (C46).
type VerifSelector struct {
	r  *xdsResolver
	cs *configSelector
}

// VerifNewSelector runs the real xdsResolver.newConfigSelector on a resolver whose xDS configuration consists of
// the given virtual host (no HTTP filters). Every referenced cluster is pre-registered as active so that no CDS
// subscription (dependency manager) is needed.
func VerifNewSelector(vh *xdsresource.VirtualHost, channelID uint64, plugins map[string]clusterspecifier.BalancerConfig) (*VerifSelector, error) {
	cfg, err := bootstrap.NewConfigFromContents([]byte(`{"xds_servers":[{"server_uri":"verif","channel_creds":[{"type":"insecure"}]}],"node":{"id":"verif-node"}}`))
	if err != nil {
		return nil, err
	}
	r := &xdsResolver{
		xdsClient:      verifXDSClient{cfg: cfg},
		channelID:      channelID,
		activeClusters: map[string]*clusterInfo{},
		activePlugins:  map[string]*clusterInfo{},
		httpFilters:    map[clientFilterKey]httpfilter.ClientFilter{},
		xdsConfig: &xdsresource.XDSConfig{
			Listener:    &xdsresource.ListenerUpdate{APIListener: &xdsresource.HTTPConnectionManagerConfig{}},
			RouteConfig: &xdsresource.RouteConfigUpdate{VirtualHosts: []*xdsresource.VirtualHost{vh}, ClusterSpecifierPlugins: plugins},
			VirtualHost: vh,
		},
	}
	for _, rt := range vh.Routes {
		for _, wc := range rt.WeightedClusters {
			r.activeClusters[clusterPrefix+wc.Name] = &clusterInfo{unsubscribe: func() {}}
		}
	}
	cs, err := r.newConfigSelector()
	if err != nil {
		return nil, err
	}
	return &VerifSelector{r: r, cs: cs}, nil
}

// VerifSelect runs the real SelectConfig and reports the picked cluster name and request hash.
func (s *VerifSelector) VerifSelect(ctx context.Context, method string) (cluster string, hash uint64, err error) {
	rc, err := s.cs.SelectConfig(iresolver.RPCInfo{Context: ctx, Method: method})
	if err != nil {
		return "", 0, err
	}
	if rc.OnCommitted != nil {
		rc.OnCommitted()
	}
	h, _ := iringhash.XDSRequestHash(rc.Context)
	return clustermanager.PickedCluster(rc.Context), h, nil
}

// VerifRouteIndex reports which route's matcher the real code would pick first, by asking the selector's own
// route list (same loop as SelectConfig) — used only to print the route index next to the cluster.
func (s *VerifSelector) VerifRouteCount() int { return len(s.cs.routes) }

var (
	VerifErrNoMatch = errNoMatchedRouteFound
	VerifErrAction  = errUnsupportedClientRouteAction
)
