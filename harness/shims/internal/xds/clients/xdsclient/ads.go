//go:build verif

package xdsclient

import (
	"errors"
	"sort"
	"time"

	"google.golang.org/grpc/internal/xds/clients"
	"google.golang.org/grpc/internal/xds/clients/xdsclient/internal/xdsresource"
	"google.golang.org/protobuf/proto"

	v3corepb "github.com/envoyproxy/go-control-plane/envoy/config/core/v3"
	v3discoverypb "github.com/envoyproxy/go-control-plane/envoy/service/discovery/v3"
)

// VerifADSHandler receives the stream's callbacks (adsStreamEventHandler is unexported).
type VerifADSHandler struct {
	// OnResponse decides what the xdsChannel would answer: the names it reports as received and
	// the verdict: "ack", "nack" (an error → NACK) or "unsup" (ErrorTypeResourceTypeUnsupported).
	OnResponse    func(typeURL, version string, onDone func()) (names []string, verdict string)
	OnStreamError func(afterRecv bool)
	OnWatchExpiry func(typeURL, name string)
}

type verifADSAdapter struct{ h *VerifADSHandler }

func (a verifADSAdapter) onStreamError(err error) {
	a.h.OnStreamError(xdsresource.ErrType(err) == xdsresource.ErrTypeStreamFailedAfterRecv)
}
func (a verifADSAdapter) onWatchExpiry(t ResourceType, name string) { a.h.OnWatchExpiry(t.TypeURL, name) }
func (a verifADSAdapter) onResponse(r response, onDone func()) ([]string, error) {
	names, verdict := a.h.OnResponse(r.typeURL, r.version, onDone)
	switch verdict {
	case "nack":
		return names, errors.New("verif: rejected")
	case "unsup":
		return nil, xdsresource.NewErrorf(xdsresource.ErrorTypeResourceTypeUnsupported, "unsupported %q", r.typeURL)
	}
	return names, nil
}

// VerifADS wraps a real adsStreamImpl.
type VerifADS struct{ s *adsStreamImpl }

// VerifNewADS creates the real ADS stream implementation over the given transport.
func VerifNewADS(tr clients.Transport, h *VerifADSHandler, backoff func(int) time.Duration, watchExpiry time.Duration) *VerifADS {
	return &VerifADS{s: newADSStreamImpl(adsStreamOpts{
		transport:          tr,
		eventHandler:       verifADSAdapter{h},
		backoff:            backoff,
		nodeProto:          &v3corepb.Node{Id: "verif-node"},
		watchExpiryTimeout: watchExpiry,
		logPrefix:          "[verif] ",
	})}
}

func (v *VerifADS) Subscribe(t ResourceType, name string)   { v.s.subscribe(t, name) }
func (v *VerifADS) Unsubscribe(t ResourceType, name string) { v.s.unsubscribe(t, name) }
func (v *VerifADS) Stop()                                   { v.s.Stop() }

// VerifRequest is a decoded DiscoveryRequest.
type VerifRequest struct {
	TypeURL, Version, Nonce string
	Names                   []string
	Node, Err               bool
}

// VerifDecodeRequest decodes what the stream sent.
func VerifDecodeRequest(b []byte) (VerifRequest, error) {
	var r v3discoverypb.DiscoveryRequest
	if err := proto.Unmarshal(b, &r); err != nil {
		return VerifRequest{}, err
	}
	n := append([]string(nil), r.GetResourceNames()...)
	sort.Strings(n)
	return VerifRequest{TypeURL: r.GetTypeUrl(), Version: r.GetVersionInfo(), Nonce: r.GetResponseNonce(), Names: n,
		Node: r.GetNode() != nil, Err: r.GetErrorDetail() != nil}, nil
}

// VerifEncodeResponse builds a DiscoveryResponse.
func VerifEncodeResponse(typeURL, version, nonce string) []byte {
	b, _ := proto.Marshal(&v3discoverypb.DiscoveryResponse{TypeUrl: typeURL, VersionInfo: version, Nonce: nonce})
	return b
}
