//go:build verif

package xdsclient

import (
	"context"
	"sort"
	"time"

	xdsclientinternal "google.golang.org/grpc/internal/xds/clients/xdsclient/internal"
	"google.golang.org/grpc/internal/xds/clients/xdsclient/internal/xdsresource"
	"google.golang.org/protobuf/proto"
	"google.golang.org/protobuf/types/known/anypb"

	v3discoverypb "github.com/envoyproxy/go-control-plane/envoy/service/discovery/v3"
)

// Export shim for component s_xdsauth (C43, C44): accessors only, no behaviour.

// VerifXASetStreamBackoff sets the backoff function picked up by newClient.
func VerifXASetStreamBackoff(f func(int) time.Duration) { xdsclientinternal.StreamBackoff = f }

// VerifXAErrKind maps a watcher error to a small enum.
func VerifXAErrKind(err error) string {
	switch xdsresource.ErrType(err) {
	case xdsresource.ErrorTypeConnection:
		return "conn"
	case xdsresource.ErrorTypeResourceNotFound:
		return "notfound"
	case xdsresource.ErrorTypeNACKed:
		return "nack"
	case xdsresource.ErrorTypeResourceTypeUnsupported:
		return "unsup"
	case xdsresource.ErrTypeStreamFailedAfterRecv:
		return "afterrecv"
	}
	return "other"
}

// VerifXAHold blocks the top-level authority's serializer (as if it were busy) until the
// returned function is called or the authority is closed: events queue up behind it in order.
func VerifXAHold(c *XDSClient) (release func()) {
	ch := make(chan struct{})
	c.topLevelAuthority.xdsClientSerializer.TrySchedule(func(ctx context.Context) {
		select {
		case <-ch:
		case <-ctx.Done():
		}
	})
	return func() { close(ch) }
}

// VerifXARes is one resourceState of the top-level authority.
type VerifXARes struct {
	Type, Name      string
	Watchers        []ResourceWatcher // unwrapped
	Cached          bool
	Cache           []byte
	Status          string
	Version         string
	HasErr          bool
	Err, ErrVersion string
	DeletionIgnored bool
	Chans           []int
}

// VerifXAAuth is a snapshot of the top-level authority. Only call while the client is quiescent.
type VerifXAAuth struct {
	Active int // -1 = none
	Open   []bool
	Res    []VerifXARes
}

func verifXAStatus(s xdsresource.ServiceStatus) string {
	switch s {
	case xdsresource.ServiceStatusRequested:
		return "requested"
	case xdsresource.ServiceStatusNotExist:
		return "notexist"
	case xdsresource.ServiceStatusACKed:
		return "acked"
	case xdsresource.ServiceStatusNACKed:
		return "nacked"
	}
	return "unknown"
}

// VerifXAAuthState reads authority.resources / xdsChannelConfigs / activeXDSChannel of the top-level authority.
func VerifXAAuthState(c *XDSClient) VerifXAAuth { return VerifXAAuthStateOf(c, "") }

// VerifXAAuthStateOf does the same for the authority `name` of Config.Authorities ("" = top-level).
func VerifXAAuthStateOf(c *XDSClient, name string) VerifXAAuth {
	a := c.topLevelAuthority
	if name != "" {
		a = c.authorities[name]
	}
	out := VerifXAAuth{Active: -1}
	idx := map[*xdsChannelWithConfig]int{}
	for i, cfg := range a.xdsChannelConfigs {
		idx[cfg] = i
		out.Open = append(out.Open, cfg.channel != nil)
		if cfg == a.activeXDSChannel {
			out.Active = i
		}
	}
	for rt, m := range a.resources {
		for name, st := range m {
			r := VerifXARes{Type: rt.TypeURL, Name: name, Status: verifXAStatus(st.md.Status), Version: st.md.Version,
				DeletionIgnored: st.deletionIgnored}
			for w := range st.watchers {
				if ww, ok := w.(*wrappingWatcher); ok {
					w = ww.ResourceWatcher
				}
				r.Watchers = append(r.Watchers, w)
			}
			if st.cache != nil {
				r.Cached = true
				r.Cache = st.cache.Bytes()
			}
			if es := st.md.ErrState; es != nil {
				r.HasErr = true
				if es.Err != nil {
					r.Err = es.Err.Error()
				}
				r.ErrVersion = es.Version
			}
			for xc := range st.xdsChannelConfigs {
				r.Chans = append(r.Chans, idx[xc])
			}
			sort.Ints(r.Chans)
			out.Res = append(out.Res, r)
		}
	}
	return out
}

// VerifXASub is the ADS watch state of one subscribed resource on one channel.
type VerifXASub struct {
	Type, Name string
	State      string // started | requested | received | timeout
	Timer      bool
}

// VerifXAChanSubs reads adsStreamImpl.resourceTypeState of the channel to server idx (nil if no channel).
func VerifXAChanSubs(c *XDSClient, i int) []VerifXASub {
	a := c.topLevelAuthority
	if i >= len(a.xdsChannelConfigs) || a.xdsChannelConfigs[i].channel == nil {
		return nil
	}
	s := a.xdsChannelConfigs[i].channel.ads
	s.mu.Lock()
	defer s.mu.Unlock()
	out := []VerifXASub{}
	for rt, ts := range s.resourceTypeState {
		for name, ws := range ts.subscribedResources {
			st := "?"
			switch ws.State {
			case xdsresource.ResourceWatchStateStarted:
				st = "started"
			case xdsresource.ResourceWatchStateRequested:
				st = "requested"
			case xdsresource.ResourceWatchStateReceived:
				st = "received"
			case xdsresource.ResourceWatchStateTimeout:
				st = "timeout"
			}
			out = append(out, VerifXASub{Type: rt.TypeURL, Name: name, State: st, Timer: ws.ExpiryTimer != nil})
		}
	}
	return out
}

// VerifXAFlowPending reports adsFlowControl.pending of the channel to server idx.
func VerifXAFlowPending(c *XDSClient, i int) bool {
	a := c.topLevelAuthority
	if i >= len(a.xdsChannelConfigs) || a.xdsChannelConfigs[i].channel == nil {
		return false
	}
	fc := a.xdsChannelConfigs[i].channel.ads.fc
	fc.mu.Lock()
	defer fc.mu.Unlock()
	return fc.pending
}

// VerifXARequest is a decoded DiscoveryRequest.
type VerifXARequest struct {
	TypeURL string
	Names   []string
}

// VerifXADecodeRequest decodes what a stream sent.
func VerifXADecodeRequest(b []byte) (VerifXARequest, error) {
	var r v3discoverypb.DiscoveryRequest
	if err := proto.Unmarshal(b, &r); err != nil {
		return VerifXARequest{}, err
	}
	n := append([]string(nil), r.GetResourceNames()...)
	sort.Strings(n)
	return VerifXARequest{TypeURL: r.GetTypeUrl(), Names: n}, nil
}

// VerifXAEncodeResponse builds a DiscoveryResponse whose resources are Any{typeURL, value}.
func VerifXAEncodeResponse(typeURL, version, nonce string, values [][]byte) []byte {
	resp := &v3discoverypb.DiscoveryResponse{TypeUrl: typeURL, VersionInfo: version, Nonce: nonce}
	for _, v := range values {
		resp.Resources = append(resp.Resources, &anypb.Any{TypeUrl: typeURL, Value: v})
	}
	b, _ := proto.Marshal(resp)
	return b
}

// VerifXAValue returns the raw bytes of a resource handed to a Decoder.
func VerifXAValue(a *AnyProto) []byte { return a.value }

// VerifXAHoldNamed is VerifXAHold for the authority `name` of Config.Authorities.
func VerifXAHoldNamed(c *XDSClient, name string) (release func()) {
	ch := make(chan struct{})
	c.authorities[name].xdsClientSerializer.TrySchedule(func(ctx context.Context) {
		select {
		case <-ch:
		case <-ctx.Done():
		}
	})
	return func() { close(ch) }
}

// VerifXAChannelFlow reports, for the client-level channel to server uri: whether it exists, how many
// authorities reference it and whether its ADS flow control is pending.
func VerifXAChannelFlow(c *XDSClient, uri string) (exists bool, refs int, pending bool) {
	c.channelsMu.Lock()
	defer c.channelsMu.Unlock()
	for sc, st := range c.xdsActiveChannels {
		if sc.ServerIdentifier.ServerURI == uri {
			fc := st.channel.ads.fc
			fc.mu.Lock()
			p := fc.pending
			fc.mu.Unlock()
			return true, len(st.interestedAuthorities), p
		}
	}
	return false, 0, false
}

// VerifXAChan is the client-level channel to one server (shared by the authorities that reference it).
type VerifXAChan struct {
	Exists  bool
	Refs    []string // names of the interested authorities ("" = top-level)
	Pending bool     // adsFlowControl.pending
	Subs    []VerifXASub
}

// VerifXAChannel reads XDSClient.xdsActiveChannels for the server with this URI.
func VerifXAChannel(c *XDSClient, uri string) VerifXAChan {
	c.channelsMu.Lock()
	defer c.channelsMu.Unlock()
	for sc, st := range c.xdsActiveChannels {
		if sc.ServerIdentifier.ServerURI != uri {
			continue
		}
		out := VerifXAChan{Exists: true}
		for a := range st.interestedAuthorities {
			out.Refs = append(out.Refs, a.name)
		}
		sort.Strings(out.Refs)
		ads := st.channel.ads
		ads.fc.mu.Lock()
		out.Pending = ads.fc.pending
		ads.fc.mu.Unlock()
		ads.mu.Lock()
		for rt, ts := range ads.resourceTypeState {
			for name, ws := range ts.subscribedResources {
				stt := "?"
				switch ws.State {
				case xdsresource.ResourceWatchStateStarted:
					stt = "started"
				case xdsresource.ResourceWatchStateRequested:
					stt = "requested"
				case xdsresource.ResourceWatchStateReceived:
					stt = "received"
				case xdsresource.ResourceWatchStateTimeout:
					stt = "timeout"
				}
				out.Subs = append(out.Subs, VerifXASub{Type: rt.TypeURL, Name: name, State: stt, Timer: ws.ExpiryTimer != nil})
			}
		}
		ads.mu.Unlock()
		return out
	}
	return VerifXAChan{}
}
