//go:build verif

package outlierdetection

import (
	"sort"
	"time"

	"google.golang.org/grpc/balancer"
)

// VerifEp is the observable part of one endpointInfo.
type VerifEp struct {
	Addr     string // first address of the endpoint
	Ejected  bool
	Ts       time.Time // latestEjectionTimestamp
	Mult     int64
	ActS     uint32
	ActF     uint32
	InS      uint32
	InF      uint32
	NumSws   int
	AllAddrs int
}

// VerifSnap is the observable part of the balancer state guarded by b.mu.
type VerifSnap struct {
	NumEjected int
	TimerStart time.Time
	HasCfg     bool
	Noop       bool
	Eps        []VerifEp // sorted by Addr
}

// VerifSnapshot reads the state of an outlier detection balancer. With lock=false the caller
// must be running on the goroutine that currently holds b.mu (metrics callbacks).
func VerifSnapshot(bal balancer.Balancer, lock bool) VerifSnap {
	b := bal.(*outlierDetectionBalancer)
	if lock {
		b.mu.Lock()
		defer b.mu.Unlock()
	}
	s := VerifSnap{NumEjected: b.numEndpointsEjected, TimerStart: b.timerStartTime, HasCfg: b.cfg != nil}
	if b.cfg != nil {
		s.Noop = b.noopConfig()
	}
	for ep, info := range b.endpoints.All() {
		e := VerifEp{
			Ejected: !info.latestEjectionTimestamp.IsZero(), Ts: info.latestEjectionTimestamp,
			Mult: info.ejectionTimeMultiplier, NumSws: len(info.sws), AllAddrs: len(ep.Addresses),
			InS: info.callCounter.inactiveBucket.numSuccesses, InF: info.callCounter.inactiveBucket.numFailures,
		}
		if len(ep.Addresses) > 0 {
			e.Addr = ep.Addresses[0].Addr
		}
		ab := info.callCounter.activeBucket.Load()
		e.ActS, e.ActF = ab.numSuccesses, ab.numFailures
		s.Eps = append(s.Eps, e)
	}
	sort.Slice(s.Eps, func(i, j int) bool { return s.Eps[i].Addr < s.Eps[j].Addr })
	return s
}

// VerifFire runs the interval timer algorithm now (what the timer callback does).
func VerifFire(bal balancer.Balancer) { bal.(*outlierDetectionBalancer).intervalTimerAlgorithm() }

// VerifSetAfterFunc replaces the package's afterFunc (nil restores time.AfterFunc).
func VerifSetAfterFunc(f func(time.Duration, func()) *time.Timer) {
	if f == nil {
		f = time.AfterFunc
	}
	afterFunc = f
}

// VerifSetNow replaces the package's now (nil restores time.Now).
func VerifSetNow(f func() time.Time) {
	if f == nil {
		f = time.Now
	}
	now = f
}

// VerifNoop reports the no-op bit of a picker sent to the parent.
func (wp *wrappedPicker) VerifNoop() bool { return wp.noopPicker }
