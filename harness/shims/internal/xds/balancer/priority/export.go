//go:build verif

package priority

import (
	"sort"
	"time"

	"google.golang.org/grpc/balancer"
)

// VerifChild is the observable part of one childBalancer.
type VerifChild struct {
	Name         string
	BalancerName string
	Started      bool
	State        balancer.State
	ReportedTF   bool
	HasTimer     bool
}

// VerifSnap is the observable part of the priority balancer's state guarded by b.mu.
type VerifSnap struct {
	ChildInUse string
	Priorities []string
	Inhibit    bool
	Children   []VerifChild // sorted by name
}

// VerifSnapshot reads the state of a priority balancer.
func VerifSnapshot(bal balancer.Balancer) VerifSnap {
	b := bal.(*priorityBalancer)
	b.mu.Lock()
	defer b.mu.Unlock()
	s := VerifSnap{ChildInUse: b.childInUse, Priorities: append([]string(nil), b.priorities...), Inhibit: b.inhibitPickerUpdates}
	for _, c := range b.children {
		s.Children = append(s.Children, VerifChild{Name: c.name, BalancerName: c.balancerName, Started: c.started,
			State: c.state, ReportedTF: c.reportedTF, HasTimer: c.initTimer != nil})
	}
	sort.Slice(s.Children, func(i, j int) bool { return s.Children[i].Name < s.Children[j].Name })
	return s
}

// VerifSetTimeAfterFunc replaces the package's timeAfterFunc (nil restores time.AfterFunc).
func VerifSetTimeAfterFunc(f func(time.Duration, func()) *time.Timer) {
	if f == nil {
		f = time.AfterFunc
	}
	timeAfterFunc = f
}
