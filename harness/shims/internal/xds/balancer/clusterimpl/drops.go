//go:build verif

package clusterimpl

import (
	"google.golang.org/grpc/internal/xds/xdsclient/xdsresource"
	"google.golang.org/grpc/balancer"
	"google.golang.org/grpc/internal/xds/clients"
	"google.golang.org/grpc/internal/xds/xdsclient"
)

// VerifMillion exposes the drop denominator.
const VerifMillion = million

// VerifGcd exposes gcd.
func VerifGcd(a, b uint32) uint32 { return gcd(a, b) }

// VerifDropRequestsPerMillion exposes dropRequestsPerMillion.
func VerifDropRequestsPerMillion(numerator, denominator uint32) uint32 {
	return dropRequestsPerMillion(numerator, denominator)
}

// VerifDropper wraps a real dropper.
type VerifDropper struct{ d *dropper }

// VerifNewDropper runs the real newDropper.
func VerifNewDropper(c DropConfig) *VerifDropper { return &VerifDropper{d: newDropper(c)} }

// Drop runs the real dropper.drop.
func (v *VerifDropper) Drop() bool { return v.d.drop() }

// VerifLoadReporter is the (unexported) loadReporter interface.
type VerifLoadReporter interface {
	CallStarted(locality clients.Locality)
	CallFinished(locality clients.Locality, err error)
	CallServerLoad(locality clients.Locality, name string, val float64)
	CallDropped(category string)
}

// VerifNewPicker builds a real picker the way newPickerLocked does.
func VerifNewPicker(drops []DropConfig, s balancer.State, ls VerifLoadReporter, counter *xdsclient.ClusterRequestsCounter, countMax uint32) balancer.Picker {
	p := &picker{s: s, counter: counter, countMax: countMax, clusterName: "verif"}
	if ls != nil {
		p.loadStore = ls
	}
	for _, c := range drops {
		p.drops = append(p.drops, newDropper(c))
	}
	return p
}

// VerifBalancer wraps a bare clusterImplBalancer whose cluster configuration is driven through the
// real handleClusterConfigLocked (the EDS-update path) and whose pickers come from the real
// newPickerLocked.
type VerifBalancer struct{ b *clusterImplBalancer }

// VerifNewBalancer returns a balancer with no configuration yet.
func VerifNewBalancer() *VerifBalancer {
	return &VerifBalancer{b: &clusterImplBalancer{}}
}

// VerifDrop is one EDS drop overload.
type VerifDrop struct {
	Category               string
	Numerator, Denominator uint32
}

// ApplyClusterConfig runs the real handleClusterConfigLocked for an EDS cluster with the given drop
// overloads and max_requests (nil = default), records the child state, and returns the picker the
// real newPickerLocked builds, with the load store replaced by ls.
func (v *VerifBalancer) ApplyClusterConfig(cluster string, drops []VerifDrop, maxRequests *uint32, s balancer.State, ls VerifLoadReporter) (balancer.Picker, bool) {
	var ds []xdsresource.OverloadDropConfig
	for _, d := range drops {
		ds = append(ds, xdsresource.OverloadDropConfig{Category: d.Category, Numerator: d.Numerator, Denominator: d.Denominator})
	}
	cc := xdsresource.ClusterConfig{
		Cluster:        &xdsresource.ClusterUpdate{ClusterType: xdsresource.ClusterTypeEDS, ClusterName: cluster, MaxRequests: maxRequests},
		EndpointConfig: &xdsresource.EndpointConfig{EDSUpdate: &xdsresource.EndpointsUpdate{Drops: ds}},
	}
	v.b.mu.Lock()
	defer v.b.mu.Unlock()
	changed := v.b.handleClusterConfigLocked(cc)
	v.b.childState = s
	p := v.b.newPickerLocked()
	if ls != nil {
		p.loadStore = ls
	} else {
		p.loadStore = nil
	}
	return p, changed
}

// Counter is the request counter the balancer selected for its cluster.
func (v *VerifBalancer) Counter() *xdsclient.ClusterRequestsCounter { return v.b.requestCounter }
