//go:build verif

package clusterimpl

import (
	"google.golang.org/grpc/balancer"
	"google.golang.org/grpc/internal/xds/clients"
	"google.golang.org/grpc/internal/xds/xdsclient"
)

// VerifMillion exposes the drop denominator.
const VerifMillion = million

// VerifGcd exposes gcd.
func VerifGcd(a, b uint32) uint32 { return gcd(a, b) }

// VerifDropRequestsPerMillion exposes dropRequestsPerMillion.
func VerifDropRequestsPerMillion(numerator, denominator uint32) uint32 {
	return dropRequestsPerMillion(numerator, denominator)
}

// VerifDropper wraps a real dropper.
type VerifDropper struct{ d *dropper }

// VerifNewDropper runs the real newDropper.
func VerifNewDropper(c DropConfig) *VerifDropper { return &VerifDropper{d: newDropper(c)} }

// Drop runs the real dropper.drop.
func (v *VerifDropper) Drop() bool { return v.d.drop() }

// VerifLoadReporter is the (unexported) loadReporter interface.
type VerifLoadReporter interface {
	CallStarted(locality clients.Locality)
	CallFinished(locality clients.Locality, err error)
	CallServerLoad(locality clients.Locality, name string, val float64)
	CallDropped(category string)
}

// VerifNewPicker builds a real picker the way newPickerLocked does.
func VerifNewPicker(drops []DropConfig, s balancer.State, ls VerifLoadReporter, counter *xdsclient.ClusterRequestsCounter, countMax uint32) balancer.Picker {
	p := &picker{s: s, counter: counter, countMax: countMax, clusterName: "verif"}
	if ls != nil {
		p.loadStore = ls
	}
	for _, c := range drops {
		p.drops = append(p.drops, newDropper(c))
	}
	return p
}
