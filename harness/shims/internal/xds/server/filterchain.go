//go:build verif

package server

import (
	"net/netip"

	"google.golang.org/grpc/internal/xds/xdsclient/xdsresource"
)

// VerifFilterChainManager exposes filterChainManager construction and lookup to the verification harness.
type VerifFilterChainManager struct{ m *filterChainManager }

// VerifNewFilterChainManager builds the manager the listener wrapper builds from a validated listener update.
func VerifNewFilterChainManager(l *xdsresource.InboundListenerConfig) *VerifFilterChainManager {
	return &VerifFilterChainManager{m: newFilterChainManager(&l.FilterChains, &l.DefaultFilterChain)}
}

// Lookup runs filterChainManager.lookup and identifies the chosen chain by its route configuration name.
func (v *VerifFilterChainManager) Lookup(wild bool, dst, src netip.Addr, port int) (routeName string, isDefault bool, err error) {
	fc, err := v.m.lookup(lookupParams{isUnspecifiedListener: wild, dstAddr: dst, srcAddr: src, srcPort: port})
	if err != nil {
		return "", false, err
	}
	return fc.routeConfigName, fc == v.m.defaultFilterChain, nil
}
