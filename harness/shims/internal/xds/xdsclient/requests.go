//go:build verif

package xdsclient

import "sync/atomic"

// VerifNumRequests reads the in-flight request count of a ClusterRequestsCounter.
func VerifNumRequests(c *ClusterRequestsCounter) uint32 { return atomic.LoadUint32(&c.numRequests) }
