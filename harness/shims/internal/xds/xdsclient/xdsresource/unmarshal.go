//go:build verif

package xdsresource

import (
	"google.golang.org/grpc/internal/xds/bootstrap"
	"google.golang.org/protobuf/types/known/anypb"
)

// Verif… expose the four resource unmarshalling entry points (the functions the resource
// decoders call; no panic recovery on this path) to the verification harness.

func VerifUnmarshalEndpoints(r *anypb.Any) (string, EndpointsUpdate, error) {
	return unmarshalEndpointsResource(r)
}

func VerifUnmarshalRouteConfig(r *anypb.Any, bc *bootstrap.Config, sc *bootstrap.ServerConfig) (string, RouteConfigUpdate, error) {
	return unmarshalRouteConfigResource(r, bc, sc)
}

func VerifUnmarshalCluster(r *anypb.Any, sc *bootstrap.ServerConfig) (string, ClusterUpdate, error) {
	return unmarshalClusterResource(r, sc)
}

func VerifUnmarshalListener(r *anypb.Any, bc *bootstrap.Config, sc *bootstrap.ServerConfig) (string, ListenerUpdate, error) {
	return unmarshalListenerResource(r, bc, sc)
}
