//go:build verif

package xdsresource

import "regexp"

// VerifPathMatch builds the real (unexported) path matcher of the given kind and evaluates it
// (C47): kind "exact" | "prefix" | "regex".
func VerifPathMatch(kind, pat string, caseInsensitive bool, re *regexp.Regexp, path string) bool {
	var pm pathMatcher
	switch kind {
	case "exact":
		pm = newPathExactMatcher(pat, caseInsensitive)
	case "prefix":
		pm = newPathPrefixMatcher(pat, caseInsensitive)
	case "regex":
		pm = newPathRegexMatcher(re)
	default:
		panic("VerifPathMatch: bad kind " + kind)
	}
	return pm.match(path)
}
