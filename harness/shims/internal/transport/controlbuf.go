//go:build verif

package transport

import "sync"

// VerifControlBuf wraps a real controlBuffer for the verification harness (C16): items are
// identified by small integers, clientHeaders record their orphaning.
type VerifControlBuf struct {
	cb   *controlBuffer
	done chan struct{}

	mu   sync.Mutex
	ids  map[any]int
	orph []int

	// OnOrphan, if set, is called from inside every clientHeaders.onOrphaned callback (i.e. from
	// inside finish()) after the orphaning was recorded: the harness uses it to hold finish() in
	// the middle of its orphan sweep while other goroutines operate on the buffer.
	OnOrphan func(id int)
}

// VerifNewControlBuf makes a controlBuffer with the given throttle limit
// (maxQueuedControlBufferItems is a package variable; the harness runs one case at a time).
func VerifNewControlBuf(limit int) *VerifControlBuf {
	maxQueuedControlBufferItems = limit
	d := make(chan struct{})
	return &VerifControlBuf{cb: newControlBuffer(d), done: d, ids: map[any]int{}}
}

// Put queues an item of the given kind: 't' throttled (ping), 'u' unthrottled (serverHeaders),
// 'h' clientHeaders with an onOrphaned hook.
func (v *VerifControlBuf) Put(kind byte, id int) error {
	var it cbItem
	switch kind {
	case 't':
		it = &ping{}
	case 'u':
		it = &serverHeaders{}
	case 'h':
		it = &clientHeaders{onOrphaned: func(error) {
			v.mu.Lock()
			v.orph = append(v.orph, id)
			hook := v.OnOrphan
			v.mu.Unlock()
			if hook != nil {
				hook(id)
			}
		}}
	default:
		panic("bad kind")
	}
	v.mu.Lock()
	v.ids[it] = id
	v.mu.Unlock()
	return v.cb.put(it)
}

// Get calls controlBuffer.get(block): (id, "got") | (0, "none") | (0, "err") | (0, "doneerr").
func (v *VerifControlBuf) Get(block bool) (int, string) {
	it, err := v.cb.get(block)
	if err == ErrConnClosing {
		return 0, "err"
	}
	if err != nil {
		return 0, "doneerr"
	}
	if it == nil {
		return 0, "none"
	}
	v.mu.Lock()
	defer v.mu.Unlock()
	id, ok := v.ids[it]
	if !ok {
		return -1, "got"
	}
	return id, "got"
}

// Throttle calls controlBuffer.throttle().
func (v *VerifControlBuf) Throttle() { v.cb.throttle() }

// Finish calls controlBuffer.finish() and returns the ids orphaned by this call, in order.
func (v *VerifControlBuf) Finish() []int {
	v.mu.Lock()
	v.orph = nil
	v.mu.Unlock()
	v.cb.finish()
	v.mu.Lock()
	defer v.mu.Unlock()
	return append([]int(nil), v.orph...)
}

// CloseDone closes the transport-done channel the controlBuffer was created with.
func (v *VerifControlBuf) CloseDone() {
	select {
	case <-v.done:
	default:
		close(v.done)
	}
}
