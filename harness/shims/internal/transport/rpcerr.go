//go:build verif

package transport

// VerifNewConnectionError builds a ConnectionError (unexported fields) for the verification harness.
func VerifNewConnectionError(desc string, inner error) ConnectionError {
	return ConnectionError{Desc: desc, temp: true, err: inner}
}
