//go:build verif

package transport

// VerifServerStreams reads len(activeStreams) (-1 once Close niled the map) under t.mu, and
// maxStreamID under maxStreamMu, of an http2Server (C12 harness).
func VerifServerStreams(st ServerTransport) (active int, maxStreamID uint32, maxStreams uint32) {
	t, ok := st.(*http2Server)
	if !ok {
		return -2, 0, 0
	}
	// operateHeaders holds maxStreamMu while it calls handle(s), which can block in the server's
	// handler quota: never wait for it (a blocked mutex is not a durable block for synctest).
	if t.maxStreamMu.TryLock() {
		maxStreamID = t.maxStreamID
		t.maxStreamMu.Unlock()
	} else {
		maxStreamID = ^uint32(0)
	}
	t.mu.Lock()
	active = len(t.activeStreams)
	if t.activeStreams == nil {
		active = -1
	}
	maxStreams = t.maxStreams
	t.mu.Unlock()
	return
}

// VerifDecodeBinHeader exposes decodeBinHeader (C12: the model's base64 acceptance is tied to it).
func VerifDecodeBinHeader(v string) ([]byte, error) { return decodeBinHeader(v) }
