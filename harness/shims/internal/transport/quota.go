//go:build verif

package transport

import "sync/atomic"

// VerifWriteQuota wraps a real writeQuota (C17).
type VerifWriteQuota struct {
	wq   writeQuota
	done chan struct{}
}

// VerifNewWriteQuota returns an initialised writeQuota of the given size with its own done channel.
func VerifNewWriteQuota(sz int32) *VerifWriteQuota {
	v := &VerifWriteQuota{done: make(chan struct{})}
	v.wq.init(sz, v.done)
	return v
}

// Get is writeQuota.get.
func (v *VerifWriteQuota) Get(sz int32) error { return v.wq.get(sz) }

// Replenish is writeQuota.replenish (realReplenish).
func (v *VerifWriteQuota) Replenish(n int) { v.wq.replenish(n) }

// Quota reads the current quota.
func (v *VerifWriteQuota) Quota() int32 { return atomic.LoadInt32(&v.wq.quota) }

// CloseDone closes the stream-done channel.
func (v *VerifWriteQuota) CloseDone() {
	select {
	case <-v.done:
	default:
		close(v.done)
	}
}

// VerifClientStreamQuota reads streamQuota and waitingStreams of a client transport under
// controlBuf.mu (the lock that guards them).
func VerifClientStreamQuota(ct ClientTransport) (quota int64, waiting uint32) {
	t := ct.(*http2Client)
	t.controlBuf.executeAndPut(func() bool {
		quota, waiting = t.streamQuota, t.waitingStreams
		return false
	}, nil)
	return
}
