//go:build verif

package transport

import "sync/atomic"

// VerifClientConnInfo is a snapshot of the http2Client fields the C11/C14 model predicts.
// Only read after the bubble has settled (every transport goroutine durably blocked).
type VerifClientConnInfo struct {
	State        int // 0 reachable, 1 closing, 2 draining (transportState iota order)
	Active       int // len(activeStreams), -1 if nil
	PrevGoAwayID uint32
	NextID       uint32
	StreamQuota  int64
	Waiting      uint32
	MaxConc      uint32
	MaxSendHdr   int64 // -1 if unset
	GoAwayClosed bool
	CtxDone      bool
	Reason       int
	DebugMsg     string
}

// VerifClientInfo exposes unexported http2Client state (read-only).
func VerifClientInfo(ct ClientTransport) VerifClientConnInfo {
	t := ct.(*http2Client)
	t.mu.Lock()
	defer t.mu.Unlock()
	r := VerifClientConnInfo{
		State:        int(t.state),
		Active:       len(t.activeStreams),
		PrevGoAwayID: t.prevGoAwayID,
		NextID:       t.nextID,
		StreamQuota:  t.streamQuota,
		Waiting:      t.waitingStreams,
		MaxConc:      t.maxConcurrentStreams,
		MaxSendHdr:   -1,
		Reason:       int(t.goAwayReason),
		DebugMsg:     t.goAwayDebugMessage,
	}
	if t.activeStreams == nil {
		r.Active = -1
	}
	if t.maxSendHeaderListSize != nil {
		r.MaxSendHdr = int64(*t.maxSendHeaderListSize)
	}
	select {
	case <-t.goAway:
		r.GoAwayClosed = true
	default:
	}
	select {
	case <-t.ctxDone:
		r.CtxDone = true
	default:
	}
	return r
}

// VerifStreamInfo is a snapshot of a ClientStream.
type VerifStreamInfo struct {
	ID            uint32
	State         int // 0 active, 1 writeDone, 2 readDone, 3 done
	HdrClosed     bool
	HeaderValid   bool
	NoHeaders     bool
	NonGRPC       bool
	NonGRPCLen    int
	BytesReceived bool
	Unprocessed   bool
	HasStatus     bool
	InActive      bool // still present in t.activeStreams
	PendingData   uint32
	PendingUpdate uint32
}

// VerifClientStreamInfo exposes unexported ClientStream state (read-only).
func VerifClientStreamInfo(s *ClientStream) VerifStreamInfo {
	r := VerifStreamInfo{
		ID:            s.id,
		State:         int(s.getState()),
		HdrClosed:     atomic.LoadUint32(&s.headerChanClosed) == 1,
		HeaderValid:   s.headerValid,
		NoHeaders:     s.noHeaders,
		NonGRPC:       s.nonGRPCStatus != nil,
		NonGRPCLen:    len(s.nonGRPCDataBuf),
		BytesReceived: s.bytesReceived.Load(),
		Unprocessed:   s.unprocessed.Load(),
		HasStatus:     s.status != nil,
	}
	s.fc.mu.Lock()
	r.PendingData = s.fc.pendingData
	r.PendingUpdate = s.fc.pendingUpdate
	s.fc.mu.Unlock()
	t := s.ct
	t.mu.Lock()
	if t.activeStreams != nil {
		r.InActive = t.activeStreams[s.id] == s
	}
	t.mu.Unlock()
	return r
}
