//go:build verif

package transport

// VerifInFlow / VerifTrInFlow expose the unexported inbound flow-control bookkeeping
// (flowcontrol.go) to the verification harness (property C04).
type VerifInFlow struct{ f inFlow }

// VerifNewInFlow is what newStream / operateHeaders do: inFlow{limit: initialWindowSize}.
func VerifNewInFlow(limit uint32) *VerifInFlow { return &VerifInFlow{f: inFlow{limit: limit}} }

func (v *VerifInFlow) OnData(n uint32) error       { return v.f.onData(n) }
func (v *VerifInFlow) OnRead(n uint32) uint32      { return v.f.onRead(n) }
func (v *VerifInFlow) MaybeAdjust(n uint32) uint32 { return v.f.maybeAdjust(n) }
func (v *VerifInFlow) NewLimit(n uint32)           { v.f.newLimit(n) }
func (v *VerifInFlow) Fields() (limit, pendingData, pendingUpdate, delta uint32) {
	v.f.mu.Lock()
	defer v.f.mu.Unlock()
	return v.f.limit, v.f.pendingData, v.f.pendingUpdate, v.f.delta
}

type VerifTrInFlow struct{ f trInFlow }

// VerifNewTrInFlow is what newHTTP2Client / NewServerTransport do: &trInFlow{limit: icwz}.
func VerifNewTrInFlow(limit uint32) *VerifTrInFlow { return &VerifTrInFlow{f: trInFlow{limit: limit}} }

func (v *VerifTrInFlow) OnData(n uint32) uint32   { return v.f.onData(n) }
func (v *VerifTrInFlow) Reset() uint32            { return v.f.reset() }
func (v *VerifTrInFlow) NewLimit(n uint32) uint32 { return v.f.newLimit(n) }
func (v *VerifTrInFlow) Fields() (limit, unacked, effectiveWindowSize uint32) {
	return v.f.limit, v.f.unacked, v.f.getSize()
}

// VerifFlowConsts returns maxWindowSize, defaultWindowSize, bdpLimit.
func VerifFlowConsts() (int64, int64, int64) { return maxWindowSize, defaultWindowSize, bdpLimit }
