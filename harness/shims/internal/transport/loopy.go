//go:build verif

package transport

import (
	"bytes"
	"errors"
	"net"
	"time"

	"golang.org/x/net/http2"
	"golang.org/x/net/http2/hpack"
	"google.golang.org/grpc/mem"
)

// Export shim for the loopy writer (C01, C02, C03): builds a REAL loopyWriter over a REAL
// framer on an in-memory conn and exposes handle(item)/processData() one call at a time,
// plus read-only accessors for the writer's state. Only wrappers and accessors live here.

// verifMemConn is a net.Conn whose Write side appends to a buffer (nothing is ever read).
type verifMemConn struct{ w bytes.Buffer }

func (c *verifMemConn) Read([]byte) (int, error)         { return 0, errors.New("verif: no reads") }
func (c *verifMemConn) Write(b []byte) (int, error)      { return c.w.Write(b) }
func (c *verifMemConn) Close() error                     { return nil }
func (c *verifMemConn) LocalAddr() net.Addr              { return nil }
func (c *verifMemConn) RemoteAddr() net.Addr             { return nil }
func (c *verifMemConn) SetDeadline(time.Time) error      { return nil }
func (c *verifMemConn) SetReadDeadline(time.Time) error  { return nil }
func (c *verifMemConn) SetWriteDeadline(time.Time) error { return nil }

// VerifLoopy wraps one loopyWriter.
type VerifLoopy struct {
	l     *loopyWriter
	conn  *verifMemConn
	done  chan struct{}
	wqs   map[uint32]*writeQuota
	pool  mem.BufferPool
	async bool
	ofc   chan uint32
}

// VerifNewLoopy builds a loopy writer exactly as http2Client/http2Server do (newFramer with the
// default 32 KiB write buffer, newLoopyWriter). goAway is the side-specific ssGoAwayHandler
// (nil = none); it is an environment function of loopy and is supplied by the harness.
func VerifNewLoopy(server bool, gaHandler func(headsUp bool, code uint32, closeConn bool) (bool, error)) *VerifLoopy {
	v := &VerifLoopy{conn: &verifMemConn{}, done: make(chan struct{}), wqs: map[uint32]*writeQuota{}, pool: mem.DefaultBufferPool()}
	fr := newFramer(v.conn, 32*1024, 32*1024, false, 0, v.pool)
	cbuf := newControlBuffer(v.done)
	sd := clientSide
	if server {
		sd = serverSide
	}
	var h func(*goAway) (bool, error)
	if gaHandler != nil {
		h = func(g *goAway) (bool, error) { return gaHandler(g.headsUp, uint32(g.code), g.closeConn != nil) }
	}
	v.l = newLoopyWriter(sd, fr, cbuf, &bdpEstimator{}, v.conn, nil, h, v.pool)
	return v
}

// VerifWriteGoAway lets the harness' ssGoAwayHandler stand-in write a GOAWAY frame through loopy's framer
// (as both real outgoingGoAwayHandler implementations do).
func (v *VerifLoopy) VerifWriteGoAway(last uint32, code uint32) error {
	return v.l.framer.fr.WriteGoAway(last, http2.ErrCode(code), nil)
}

// VerifStartRun starts the real loopyWriter.run() goroutine; from then on items are put into the real controlBuffer
// (VerifHandle* become controlBuf.put) and run() consumes them. The returned channel yields run()'s error when it returns.
func (v *VerifLoopy) VerifStartRun() <-chan error {
	v.async = true
	ch := make(chan error, 1)
	go func() { ch <- v.l.run() }()
	return ch
}

// VerifCloseDone closes the transport's done channel (unblocks controlBuffer.get, as Close of the transport does).
func (v *VerifLoopy) VerifCloseDone() { close(v.done) }

// dispatch hands one control item to loopy: directly (handle) or through the controlBuffer.
func (v *VerifLoopy) dispatch(it cbItem) error {
	if v.async {
		return v.l.cbuf.put(it)
	}
	return v.l.handle(it)
}

func (v *VerifLoopy) newWQ(id uint32, sz int32) *writeQuota {
	wq := &writeQuota{}
	wq.init(sz, v.done)
	v.wqs[id] = wq
	return wq
}

func (v *VerifLoopy) VerifHandleIncomingWindowUpdate(id, inc uint32) error {
	return v.dispatch(&incomingWindowUpdate{streamID: id, increment: inc})
}
func (v *VerifLoopy) VerifHandleOutgoingWindowUpdate(id, inc uint32) error {
	return v.dispatch(&outgoingWindowUpdate{streamID: id, increment: inc})
}
func (v *VerifLoopy) VerifHandleIncomingSettings(ss []http2.Setting) error {
	return v.dispatch(&incomingSettings{ss: ss})
}
func (v *VerifLoopy) VerifHandleOutgoingSettings(ss []http2.Setting) error {
	return v.dispatch(&outgoingSettings{ss: ss})
}
func (v *VerifLoopy) VerifHandleRegisterStream(id uint32, wq int32) error {
	return v.dispatch(&registerStream{streamID: id, wq: v.newWQ(id, wq)})
}
func (v *VerifLoopy) VerifHandleClientHeaders(id uint32, hf []hpack.HeaderField, wq int32, initStream func(uint32) error, onWrite func(), onOrphaned func(error)) error {
	return v.dispatch(&clientHeaders{streamID: id, hf: hf, initStream: initStream, onWrite: onWrite, wq: v.newWQ(id, wq), onOrphaned: onOrphaned})
}
func (v *VerifLoopy) VerifHandleServerHeaders(id uint32, hf []hpack.HeaderField, endStream bool, onWrite func(), rst bool, rstCode uint32, cleanupOnWrite func()) error {
	sh := &serverHeaders{streamID: id, hf: hf, endStream: endStream, onWrite: onWrite}
	if endStream {
		sh.cleanup = &cleanupStream{streamID: id, rst: rst, rstCode: http2.ErrCode(rstCode), onWrite: cleanupOnWrite}
	}
	return v.dispatch(sh)
}
func (v *VerifLoopy) VerifHandleCleanupStream(id uint32, rst bool, rstCode uint32, onWrite func()) error {
	return v.dispatch(&cleanupStream{streamID: id, rst: rst, rstCode: http2.ErrCode(rstCode), onWrite: onWrite})
}
func (v *VerifLoopy) VerifHandleEarlyAbort(id uint32, rst bool, hf []hpack.HeaderField) error {
	return v.dispatch(&earlyAbortStream{streamID: id, rst: rst, hf: hf})
}

// VerifHandleData hands loopy a dataFrame whose payload is split over the given chunks (each chunk becomes
// one mem.Buffer of the BufferSlice, pooled when large enough, exactly one reference held by the item).
func (v *VerifLoopy) VerifHandleData(id uint32, h []byte, chunks [][]byte, endStream bool, onEachWrite func()) error {
	var bs mem.BufferSlice
	for _, c := range chunks {
		bs = append(bs, mem.Copy(c, v.pool))
	}
	return v.dispatch(&dataFrame{streamID: id, endStream: endStream, h: h, data: bs, onEachWrite: onEachWrite})
}
func (v *VerifLoopy) VerifHandleIncomingGoAway() error { return v.dispatch(&incomingGoAway{}) }
func (v *VerifLoopy) VerifHandleGoAway(headsUp bool, code uint32, closeConn bool) error {
	g := &goAway{code: http2.ErrCode(code), headsUp: headsUp}
	if closeConn {
		g.closeConn = errors.New("verif: closeConn")
	}
	return v.dispatch(g)
}
func (v *VerifLoopy) VerifHandlePing(ack bool, data [8]byte) error {
	return v.dispatch(&ping{ack: ack, data: data})
}
func (v *VerifLoopy) VerifHandleCloseConnection() error { return v.dispatch(closeConnection{}) }
func (v *VerifLoopy) VerifHandleOutFlowControlSizeRequest() (uint32, error) {
	ch := make(chan uint32, 1)
	err := v.dispatch(&outFlowControlSizeRequest{resp: ch})
	if v.async {
		v.ofc = ch
		return 0, err
	}
	select {
	case q := <-ch:
		return q, err
	default:
		return 0, err
	}
}

// VerifOutFlowControlSizeAnswer returns the answer to the last outFlowControlSizeRequest put in async mode (after quiescence).
func (v *VerifLoopy) VerifOutFlowControlSizeAnswer() (uint32, bool) {
	select {
	case q := <-v.ofc:
		return q, true
	default:
		return 0, false
	}
}

// VerifTake returns (and clears) everything written to the conn, without flushing.
func (v *VerifLoopy) VerifTake() []byte {
	b := append([]byte(nil), v.conn.w.Bytes()...)
	v.conn.w.Reset()
	return b
}
func (v *VerifLoopy) VerifHandleUnknown() error { return v.l.handle(struct{}{}) }

func (v *VerifLoopy) VerifProcessData() (bool, error) { return v.l.processData() }

// VerifFlushAndTake flushes loopy's bufWriter and returns (and clears) everything written to the conn.
func (v *VerifLoopy) VerifFlushAndTake() []byte {
	v.l.framer.writer.Flush()
	b := append([]byte(nil), v.conn.w.Bytes()...)
	v.conn.w.Reset()
	return b
}

func (v *VerifLoopy) VerifSendQuota() uint32 { return v.l.sendQuota }
func (v *VerifLoopy) VerifOIWS() uint32      { return v.l.oiws }
func (v *VerifLoopy) VerifDraining() bool    { return v.l.draining }

// VerifActive returns the ids on the activeStreams list, head first.
func (v *VerifLoopy) VerifActive() []uint32 {
	var r []uint32
	for s := v.l.activeStreams.head.next; s != nil && s != v.l.activeStreams.tail; s = s.next {
		r = append(r, s.id)
	}
	return r
}

// VerifStream is a read-only snapshot of one established outStream.
type VerifStream struct {
	ID             uint32
	State          int
	BytesOut       int
	NItems         int
	HeadIsData     bool
	HeadH, HeadD   int
	HeadEndStream  bool
	TrailersQueued int
	WQ             int32
}

func (v *VerifLoopy) VerifStreams() []VerifStream {
	var r []VerifStream
	for id, s := range v.l.estdStreams {
		vs := VerifStream{ID: id, State: int(s.state), BytesOut: s.bytesOutStanding}
		if wq := s.wq; wq != nil {
			vs.WQ = wq.quota
		}
		first := true
		for n := s.itl.head; n != nil; n = n.next {
			vs.NItems++
			switch it := n.it.(type) {
			case *dataFrame:
				if first {
					vs.HeadIsData = true
					vs.HeadH = len(it.h)
					vs.HeadEndStream = it.endStream
					if it.processing {
						vs.HeadD = s.reader.Remaining()
					} else {
						vs.HeadD = it.data.Len()
					}
				}
			case *serverHeaders:
				vs.TrailersQueued++
			}
			first = false
		}
		r = append(r, vs)
	}
	return r
}

// VerifStateNames: numeric values of the outStreamState constants (cross-checked against T4).
func VerifStateValues() (activeV, emptyV, waitingV int) {
	return int(active), int(empty), int(waitingOnStreamQuota)
}
