//go:build verif

package transport

import "sort"

// VerifStreamInflow is one active client stream's receive bookkeeping.
type VerifStreamInflow struct {
	ID                                       uint32
	Limit, PendingData, PendingUpdate, Delta uint32
}

// VerifClientInflow reads, from a quiescent client transport, t.initialWindowSize (under the
// controlBuf lock that guards it), the connection trInFlow and the inFlow of every stream in
// t.activeStreams (sorted by id) — property C04, connection level.
func VerifClientInflow(ct ClientTransport) (iws int32, connLimit, connUnacked uint32, streams []VerifStreamInflow) {
	t := ct.(*http2Client)
	t.controlBuf.executeAndPut(func() bool {
		iws = t.initialWindowSize
		return false
	}, nil)
	connLimit, connUnacked = t.fc.limit, t.fc.unacked
	t.mu.Lock()
	for id, s := range t.activeStreams {
		s.fc.mu.Lock()
		streams = append(streams, VerifStreamInflow{id, s.fc.limit, s.fc.pendingData, s.fc.pendingUpdate, s.fc.delta})
		s.fc.mu.Unlock()
	}
	t.mu.Unlock()
	sort.Slice(streams, func(i, j int) bool { return streams[i].ID < streams[j].ID })
	return
}

// VerifClientStreamID is s.id (0 until the stream is registered).
func VerifClientStreamID(s *ClientStream) uint32 { return s.id }

// VerifServerInflow is VerifClientInflow for a quiescent server transport.
func VerifServerInflow(st ServerTransport) (iws int32, connLimit, connUnacked uint32, streams []VerifStreamInflow) {
	t := st.(*http2Server)
	connLimit, connUnacked = t.fc.limit, t.fc.unacked
	t.mu.Lock()
	iws = t.initialWindowSize
	for id, s := range t.activeStreams {
		s.fc.mu.Lock()
		streams = append(streams, VerifStreamInflow{id, s.fc.limit, s.fc.pendingData, s.fc.pendingUpdate, s.fc.delta})
		s.fc.mu.Unlock()
	}
	t.mu.Unlock()
	sort.Slice(streams, func(i, j int) bool { return streams[i].ID < streams[j].ID })
	return
}
