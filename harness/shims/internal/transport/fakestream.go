//go:build verif

package transport

import (
	"context"

	"google.golang.org/grpc/metadata"
	"google.golang.org/grpc/status"
)

// VerifFakeClientStream builds a finished ClientStream (done and headerChan closed) carrying
// the given trailer, status, trailers-only flag and unprocessed flag, so that the real
// accessors Done/Unprocessed/TrailersOnly/Trailer/Status can be driven without a connection.
func VerifFakeClientStream(ctx context.Context, trailer metadata.MD, st *status.Status, trailersOnly, unprocessed bool) *ClientStream {
	s := &ClientStream{
		Stream:     Stream{ctx: ctx, trailer: trailer},
		done:       make(chan struct{}),
		headerChan: make(chan struct{}),
		status:     st,
		noHeaders:  trailersOnly,
	}
	s.headerValid = !trailersOnly
	s.headerChanClosed = 1
	close(s.done)
	close(s.headerChan)
	s.unprocessed.Store(unprocessed)
	return s
}
