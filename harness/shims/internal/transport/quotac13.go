//go:build verif

package transport

// VerifQuotaState reads the client's stream-admission ledger (C13) under the locks that guard it:
// streamQuota, waitingStreams, maxConcurrentStreams, whether the one-slot wake-up channel holds a
// token (all guarded by controlBuf.mu), nextID and len(activeStreams) (guarded by t.mu).
func VerifQuotaState(ct ClientTransport) (quota int64, waiting uint32, maxC uint32, token int, nextID uint32, active int, isDraining bool) {
	t := ct.(*http2Client)
	t.controlBuf.mu.Lock()
	quota, waiting, maxC, token = t.streamQuota, t.waitingStreams, t.maxConcurrentStreams, len(t.streamsQuotaAvailable)
	t.controlBuf.mu.Unlock()
	t.mu.Lock()
	nextID, active, isDraining = t.nextID, len(t.activeStreams), t.state == draining
	if t.activeStreams == nil {
		active = -1
	}
	t.mu.Unlock()
	return
}

// VerifStreamID returns the id the transport assigned to a client stream.
func VerifStreamID(s *ClientStream) uint32 { return s.id }
