//go:build verif

package transport

import "time"

// VerifDecodeTimeout exposes decodeTimeout to the verification harness.
func VerifDecodeTimeout(s string) (time.Duration, error) { return decodeTimeout(s) }
