//go:build verif

package transport

import "sort"

// VerifServerInfo is a snapshot of the http2Server fields the C14 server-drain model predicts.
type VerifServerInfo struct {
	State        int // 0 reachable, 1 closing, 2 draining
	Active       []uint32
	MaxStreamID  uint32
	DrainStarted bool
	DrainFired   bool
	Done         bool
}

// VerifServerInfoOf exposes unexported http2Server state (read-only; call only when the bubble is settled).
func VerifServerInfoOf(st ServerTransport) VerifServerInfo {
	t := st.(*http2Server)
	// maxStreamMu may be held by a reader goroutine the harness has parked inside operateHeaders (every goroutine is
	// durably blocked when this is called, so the unlocked read is race-free)
	locked := t.maxStreamMu.TryLock()
	t.mu.Lock()
	r := VerifServerInfo{State: int(t.state), MaxStreamID: t.maxStreamID}
	for id := range t.activeStreams {
		r.Active = append(r.Active, id)
	}
	if t.drainEvent != nil {
		r.DrainStarted = true
		r.DrainFired = t.drainEvent.HasFired()
	}
	t.mu.Unlock()
	if locked {
		t.maxStreamMu.Unlock()
	}
	sort.Slice(r.Active, func(i, j int) bool { return r.Active[i] < r.Active[j] })
	select {
	case <-t.done:
		r.Done = true
	default:
	}
	return r
}

// VerifServerStreamDone reports whether the stream's state is streamDone.
func VerifServerStreamDone(s *ServerStream) bool { return s.getState() == streamDone }

// (VerifServerStreamID lives in srv.go)
