//go:build verif

package transport

// VerifServerStreamID exposes the HTTP/2 stream id of a ServerStream to the T2 harness.
func VerifServerStreamID(s *ServerStream) uint32 { return s.id }
