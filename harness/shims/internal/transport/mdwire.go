//go:build verif

package transport

// Export shims for the metadata/status wire codecs (properties C09, C10).

func VerifMdwEncodeGrpcMessage(s string) string { return encodeGrpcMessage(s) }
func VerifMdwDecodeGrpcMessage(s string) string { return decodeGrpcMessage(s) }
func VerifMdwEncodeBinHeader(b []byte) string   { return encodeBinHeader(b) }
func VerifMdwDecodeBinHeader(s string) ([]byte, error) {
	return decodeBinHeader(s)
}
func VerifMdwIsReservedHeader(s string) bool    { return isReservedHeader(s) }
func VerifMdwIsWhitelistedHeader(s string) bool { return isWhitelistedHeader(s) }
func VerifMdwEncodeMetadataHeader(k, v string) string {
	return encodeMetadataHeader(k, v)
}
func VerifMdwDecodeMetadataHeader(k, v string) (string, error) {
	return decodeMetadataHeader(k, v)
}
