//go:build verif

package transport

// Verif… expose the grpc-message percent-codec to the verification harness (C08).
func VerifEncodeGrpcMessage(s string) string          { return encodeGrpcMessage(s) }
func VerifEncodeGrpcMessageUnchecked(s string) string { return encodeGrpcMessageUnchecked(s) }
func VerifDecodeGrpcMessage(s string) string          { return decodeGrpcMessage(s) }
func VerifDecodeGrpcMessageUnchecked(s string) string { return decodeGrpcMessageUnchecked(s) }
