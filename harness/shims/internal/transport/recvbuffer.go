//go:build verif

package transport

import (
	"google.golang.org/grpc/mem"
)

// VerifRecv is a real recvBuffer with a real server-flavour recvBufferReader (no ctx, no
// clientStream) on top of it, driven step by step from one goroutine by the verification
// harness (property C05).
type VerifRecv struct {
	b recvBuffer
	r recvBufferReader
}

// VerifRecvMsg is an exported view of a recvMsg taken off the channel.
type VerifRecvMsg struct{ m recvMsg }

// VerifNewRecv is what newStream does for a server stream: buf.init(pool); reader{recv: &buf}.
func VerifNewRecv(pool mem.BufferPool) *VerifRecv {
	v := &VerifRecv{}
	v.b.init(pool)
	v.r.recv = &v.b
	return v
}

// Put is recvBuffer.put(recvMsg{buffer: buf, err: err}).
func (v *VerifRecv) Put(buf mem.Buffer, err error) { v.b.put(recvMsg{buffer: buf, err: err}) }

// Load is recvBuffer.load().
func (v *VerifRecv) Load() { v.b.load() }

// ChanLen is len(b.c): 1 when a receive from get() would not block.
func (v *VerifRecv) ChanLen() int { return len(v.b.c) }

// TryRecv is a non-blocking `m := <-r.recv.get()`.
func (v *VerifRecv) TryRecv() (VerifRecvMsg, bool) {
	select {
	case m := <-v.b.get():
		return VerifRecvMsg{m}, true
	default:
		return VerifRecvMsg{}, false
	}
}

// Read is recvBufferReader.Read(n). The caller must make sure it cannot block
// (r.err != nil || r.last != nil || ChanLen() == 1).
func (v *VerifRecv) Read(n int) (mem.Buffer, error) { return v.r.Read(n) }

// ReadMessageHeader is recvBufferReader.ReadMessageHeader(header); same precondition.
func (v *VerifRecv) ReadMessageHeader(header []byte) (int, error) {
	return v.r.ReadMessageHeader(header)
}

// ReadAdditional is the tail of Read after the channel receive: `buf, r.err = r.readAdditional(m, n)`.
func (v *VerifRecv) ReadAdditional(m VerifRecvMsg, n int) (mem.Buffer, error) {
	var buf mem.Buffer
	buf, v.r.err = v.r.readAdditional(m.m, n)
	return buf, v.r.err
}

// ReadHeaderAdditional is the tail of ReadMessageHeader after the channel receive.
func (v *VerifRecv) ReadHeaderAdditional(m VerifRecvMsg, header []byte) (int, error) {
	var n int
	n, v.r.err = v.r.readMessageHeaderAdditional(m.m, header)
	return n, v.r.err
}

// ReaderErr is r.err; ReaderLast is len(r.last) or -1 when r.last == nil.
func (v *VerifRecv) ReaderErr() error { return v.r.err }
func (v *VerifRecv) ReaderLast() int {
	if v.r.last == nil {
		return -1
	}
	return v.r.last.Len()
}

// Ledger returns len(backlog), payload bytes in the backlog, uncompactedSuffixLen, uncompactedBytes.
func (v *VerifRecv) Ledger() (backlog, backlogBytes, sufLen, sufBytes int) {
	v.b.mu.Lock()
	defer v.b.mu.Unlock()
	for _, m := range v.b.backlog {
		if m.buffer != nil {
			backlogBytes += m.buffer.Len()
		}
	}
	return len(v.b.backlog), backlogBytes, v.b.uncompactedSuffixLen, v.b.uncompactedBytes
}

// Describe renders a held message as d<len> or e.
func (m VerifRecvMsg) Describe() (isErr bool, err error, n int) {
	if m.m.err != nil {
		return true, m.m.err, 0
	}
	return false, nil, m.m.buffer.Len()
}

// VerifRecvConsts returns recvMsgSize, utilizationFactor, compactionThreshold.
func VerifRecvConsts() (int, int, int) { return recvMsgSize, utilizationFactor, compactionThreshold }
