//go:build verif

package wrr

// VerifSetRandInt64n overrides the package's random source (randInt64n) and returns a restore func.
func VerifSetRandInt64n(f func(int64) int64) func() {
	old := randInt64n
	randInt64n = f
	return func() { randInt64n = old }
}
