//go:build verif

package wrr

// VerifSetRandInt64nC46 replaces the random source of randomWRR.Next and returns a restore function (C46).
func VerifSetRandInt64nC46(f func(int64) int64) (restore func()) {
	old := randInt64n
	randInt64n = f
	return func() { randInt64n = old }
}
