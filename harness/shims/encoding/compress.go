//go:build verif

package encoding

import "google.golang.org/grpc/internal/grpcutil"

// VerifSetCompressors replaces the process-wide compressor registry (registeredCompressor and
// grpcutil.RegisteredCompressorNames) by exactly cs, registered in order through the real
// RegisterCompressor, and returns a function restoring the previous registry. Verification
// harness only (single-threaded use between RPCs).
func VerifSetCompressors(cs []Compressor) (restore func()) {
	oldMap := registeredCompressor
	oldNames := grpcutil.RegisteredCompressorNames
	registeredCompressor = make(map[string]Compressor)
	grpcutil.RegisteredCompressorNames = nil
	for _, c := range cs {
		RegisterCompressor(c)
	}
	return func() {
		registeredCompressor = oldMap
		grpcutil.RegisteredCompressorNames = oldNames
	}
}
