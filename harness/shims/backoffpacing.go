//go:build verif

package grpc

import internalbackoff "google.golang.org/grpc/internal/backoff"

// VerifWrapBackoff lets the verification harness observe the calls the subchannel makes to its
// backoff strategy (dialOptions.bs): the strategy installed so far (e.g. by WithConnectParams) is
// replaced by wrap(strategy).
func VerifWrapBackoff(wrap func(internalbackoff.Strategy) internalbackoff.Strategy) DialOption {
	return newFuncDialOption(func(o *dialOptions) { o.bs = wrap(o.bs) })
}
