//go:build verif

package alts

import (
	"net"

	core "google.golang.org/grpc/credentials/alts/internal"
	"google.golang.org/grpc/credentials/alts/internal/conn"
)

// VerifNewConn re-exports conn.NewConnWithMaxFrameSize (nested internal package) with the
// rekeying AES-GCM record protocol; server = false gives the client side.
func VerifNewConn(c net.Conn, server bool, key []byte, maxFrame int) (net.Conn, error) {
	side := core.ClientSide
	if server {
		side = core.ServerSide
	}
	return conn.NewConnWithMaxFrameSize(c, side, "ALTSRP_GCM_AES128_REKEY", key, nil, maxFrame)
}

// VerifCounterInc applies Counter.Inc `times` times to a counter with the given initial value.
func VerifCounterInc(value []byte, overflowLen, times int) ([]byte, bool) {
	c := conn.CounterFromValue(value, overflowLen)
	for i := 0; i < times; i++ {
		c.Inc()
	}
	v, err := c.Value()
	if err != nil {
		return nil, true
	}
	return append([]byte(nil), v...), false
}
