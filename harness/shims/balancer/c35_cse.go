//go:build verif

package balancer

// VerifCounters exposes the evaluator's counters (ready, connecting, transient failure, idle).
func (cse *ConnectivityStateEvaluator) VerifCounters() [4]uint64 {
	return [4]uint64{cse.numReady, cse.numConnecting, cse.numTransientFailure, cse.numIdle}
}
