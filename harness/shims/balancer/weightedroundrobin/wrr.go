//go:build verif

package weightedroundrobin

import (
	"time"

	v3orcapb "github.com/cncf/xds/go/xds/data/orca/v3"
	"google.golang.org/grpc/balancer/weightedroundrobin/internal"
	istats "google.golang.org/grpc/internal/stats"
	iserviceconfig "google.golang.org/grpc/internal/serviceconfig"
)

// VerifMaxWeight exposes the scheduler constant.
const VerifMaxWeight = maxWeight

// VerifSetTimeNow overrides the package clock (internal.TimeNow) and returns a restore func.
func VerifSetTimeNow(f func() time.Time) func() {
	old := internal.TimeNow
	internal.TimeNow = f
	return func() { internal.TimeNow = old }
}

// VerifNewEDF builds a real edfScheduler over the given weights and sequence source.
func VerifNewEDF(weights []uint16, inc func() uint32) func() int {
	s := &edfScheduler{weights: weights, inc: inc}
	return s.nextIndex
}

// VerifNewRR builds a real rrScheduler.
func VerifNewRR(numSCs uint32, inc func() uint32) func() int {
	s := &rrScheduler{numSCs: numSCs, inc: inc}
	return s.nextIndex
}

// VerifEW wraps a real endpointWeight.
type VerifEW struct{ w *endpointWeight }

// VerifCfg is the part of lbConfig the weight computation reads.
type VerifCfg struct {
	Blackout, Expiration time.Duration
	Penalty              float64
}

func (c VerifCfg) cfg() *lbConfig {
	return &lbConfig{
		BlackoutPeriod:          iserviceconfig.Duration(c.Blackout),
		WeightExpirationPeriod:  iserviceconfig.Duration(c.Expiration),
		ErrorUtilizationPenalty: c.Penalty,
	}
}

// VerifNewEW builds an endpointWeight the way updateEndpointsLocked does (zero weight state).
func VerifNewEW(c VerifCfg) *VerifEW {
	return &VerifEW{w: &endpointWeight{
		logger:          nil,
		metricsRecorder: istats.NewMetricsRecorderList(nil),
		cfg:             c.cfg(),
	}}
}


// OnLoadReport feeds one ORCA report to the real OnLoadReport.
func (e *VerifEW) OnLoadReport(appUtil, cpuUtil, rps, eps float64) {
	e.w.OnLoadReport(&v3orcapb.OrcaLoadReport{ApplicationUtilization: appUtil, CpuUtilization: cpuUtil, RpsFractional: rps, Eps: eps})
}

// Weight calls the real weight().
func (e *VerifEW) Weight(now time.Time, exp, blackout time.Duration, recordMetrics bool) float64 {
	return e.w.weight(now, exp, blackout, recordMetrics)
}

// Fields returns the mutex-protected state.
func (e *VerifEW) Fields() (weightVal float64, nonEmptySince, lastUpdated time.Time) {
	e.w.mu.Lock()
	defer e.w.mu.Unlock()
	return e.w.weightVal, e.w.nonEmptySince, e.w.lastUpdated
}

// SetFields sets the weight state directly (used to feed newScheduler arbitrary float weights).
func (e *VerifEW) SetFields(weightVal float64, nonEmptySince, lastUpdated time.Time) {
	e.w.mu.Lock()
	defer e.w.mu.Unlock()
	e.w.weightVal, e.w.nonEmptySince, e.w.lastUpdated = weightVal, nonEmptySince, lastUpdated
}

// VerifPicker wraps a real picker (no child pickers: only the scheduler side is driven).
type VerifPicker struct {
	p     *picker
	sched scheduler
	// Guard, when set, is called before every real picker.inc() made by the scheduler, so that
	// the harness can bound a nextIndex call that would otherwise spin forever.
	Guard func()
}

// VerifNewPicker builds a picker over the endpoints, with the sequence counter at idx.
func VerifNewPicker(c VerifCfg, eps []*VerifEW, idx uint32) *VerifPicker {
	p := &picker{cfg: c.cfg(), metricsRecorder: istats.NewMetricsRecorderList(nil)}
	for _, e := range eps {
		p.weightedPickers = append(p.weightedPickers, pickerWeightedEndpoint{weightedEndpoint: e.w})
	}
	p.idx.Store(idx)
	return &VerifPicker{p: p}
}

// NewScheduler runs the real picker.newScheduler and describes the result:
// kind "nil" | "rr" (numSCs) | "edf" (weights).
func (vp *VerifPicker) NewScheduler(recordMetrics bool) (kind string, numSCs uint32, weights []uint16) {
	vp.sched = vp.p.newScheduler(recordMetrics)
	guarded := func() uint32 {
		if vp.Guard != nil {
			vp.Guard()
		}
		return vp.p.inc() // the real sequence source
	}
	switch s := vp.sched.(type) {
	case nil:
		return "nil", 0, nil
	case *rrScheduler:
		s.inc = guarded
		return "rr", s.numSCs, nil
	case *edfScheduler:
		s.inc = guarded
		return "edf", 0, append([]uint16(nil), s.weights...)
	}
	return "unknown", 0, nil
}

// EndpointWeights runs the real picker.endpointWeights.
func (vp *VerifPicker) EndpointWeights() []float64 { return vp.p.endpointWeights(false) }

// Next calls nextIndex on the scheduler built by NewScheduler (driven by the real picker.inc).
func (vp *VerifPicker) Next() int { return vp.sched.nextIndex() }

// Idx is the current value of the picker's sequence counter.
func (vp *VerifPicker) Idx() uint32 { return vp.p.idx.Load() }

// SetIdx sets the picker's sequence counter.
func (vp *VerifPicker) SetIdx(v uint32) { vp.p.idx.Store(v) }
