//go:build verif

package rls

import (
	"sort"
	"time"

	"google.golang.org/grpc/balancer/rls/internal/adaptive"
	"google.golang.org/grpc/balancer/rls/internal/keys"
	internalgrpclog "google.golang.org/grpc/internal/grpclog"
	rlspb "google.golang.org/grpc/internal/proto/grpc_lookup_v1"
)

// Export shims (C41): re-exports of the nested internal packages keys and adaptive, and a wrapper
// around the unexported dataCache.

func VerifMakeBuilderMap(cfg *rlspb.RouteLookupConfig) (keys.BuilderMap, error) {
	return keys.MakeBuilderMap(cfg)
}

func VerifSetClock(f func() time.Time) { adaptive.VerifSetClock(f) }
func VerifSetRand(f func() float64)    { adaptive.VerifSetRand(f) }
func VerifNewLookback(bins int64, d time.Duration) *adaptive.VerifLookback {
	return adaptive.VerifNewLookback(bins, d)
}
func VerifNewThrottler() *adaptive.Throttler { return adaptive.New() }

// VerifCache wraps dataCache; entries are addressed by (path, keys) exactly as the picker does.
type VerifCache struct{ dc *dataCache }

func VerifNewCache(size int64) *VerifCache {
	return &VerifCache{dc: newDataCache(size, internalgrpclog.NewPrefixLogger(logger, "[verif] "), "target")}
}

// VerifEntry describes a cache entry to add (times are absolute; zero = time.Time{}).
type VerifEntry struct {
	Size                                 int64
	EarliestEvict, Expiry, BackoffExpiry time.Time
	HasBackoff                           bool
	Timer                                *time.Timer
}

func (v *VerifCache) Add(path, ks string, e VerifEntry) (backoffCancelled, ok bool) {
	ce := &cacheEntry{size: e.Size, earliestEvictTime: e.EarliestEvict, expiryTime: e.Expiry, backoffExpiryTime: e.BackoffExpiry}
	if e.HasBackoff {
		ce.backoffState = &backoffState{bs: defaultBackoffStrategy, timer: e.Timer}
	}
	return v.dc.addEntry(cacheKey{path: path, keys: ks}, ce)
}

func (v *VerifCache) Get(path, ks string) (size int64, found bool) {
	e := v.dc.getEntry(cacheKey{path: path, keys: ks})
	if e == nil {
		return 0, false
	}
	return e.size, true
}

func (v *VerifCache) Resize(size int64) bool { return v.dc.resize(size) }
func (v *VerifCache) EvictExpired() bool     { return v.dc.evictExpiredEntries() }
func (v *VerifCache) UpdateSize(path, ks string, n int64) bool {
	e, ok := v.dc.entries[cacheKey{path: path, keys: ks}]
	if !ok {
		return false
	}
	v.dc.updateEntrySize(e, n)
	return true
}
func (v *VerifCache) Remove(path, ks string) {
	v.dc.removeEntryForTesting(cacheKey{path: path, keys: ks})
}
func (v *VerifCache) ResetBackoff() bool {
	return v.dc.resetBackoffState(&backoffState{bs: defaultBackoffStrategy})
}
func (v *VerifCache) Stop() { v.dc.stop() }

// State: accounted size, max size, the LRU order (front first) as keys strings, Σ entry sizes, len(entries).
func (v *VerifCache) State() (cur, max int64, lru []string, sum int64, n int) {
	for e := v.dc.keys.ll.Front(); e != nil; e = e.Next() {
		lru = append(lru, e.Value.(cacheKey).keys)
	}
	var ks []string
	for k, e := range v.dc.entries {
		sum += e.size
		ks = append(ks, k.keys)
	}
	sort.Strings(ks)
	return v.dc.currentSize, v.dc.maxSize, lru, sum, len(v.dc.entries)
}
