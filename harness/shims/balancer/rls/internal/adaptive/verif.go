//go:build verif

package adaptive

import "time"

// Export shims (C41). Package adaptive is a nested internal package: package rls re-exports these.

// VerifSetClock / VerifSetRand replace the package's clock and random source (the unit tests do the same).
func VerifSetClock(f func() time.Time) { timeNowFunc = f }
func VerifSetRand(f func() float64)    { randFunc = f }

// VerifLookback wraps the unexported lookback.
type VerifLookback struct{ l *lookback }

func VerifNewLookback(bins int64, d time.Duration) *VerifLookback {
	return &VerifLookback{l: newLookback(bins, d)}
}
func (v *VerifLookback) Add(t time.Time, x int64) { v.l.add(t, x) }
func (v *VerifLookback) Sum(t time.Time) int64    { return v.l.sum(t) }
func (v *VerifLookback) State() (head, total int64, buf []int64) {
	return v.l.head, v.l.total, append([]int64(nil), v.l.buf...)
}

// VerifPeek reads the two lookbacks without advancing them.
func (t *Throttler) VerifPeek() (accHead, accTotal, thrHead, thrTotal int64) {
	t.mu.Lock()
	defer t.mu.Unlock()
	return t.accepts.head, t.accepts.total, t.throttles.head, t.throttles.total
}
