//go:build verif

package pickfirst

import (
	"time"

	"google.golang.org/grpc/balancer"
	"google.golang.org/grpc/balancer/pickfirst/internal"
	"google.golang.org/grpc/resolver"
)

// VerifPreprocess is what UpdateClientConnState does to the flattened address list.
func VerifPreprocess(addrs []resolver.Address) []resolver.Address {
	return interleaveAddresses(deDupAddresses(addrs))
}

// VerifAddressFamily exposes addressFamily (0 unknown, 1 v4, 2 v6).
func VerifAddressFamily(a string) int { return int(addressFamily(a)) }

// VerifSetRandShuffle pins internal.RandShuffle (a nested internal package the harness cannot import).
func VerifSetRandShuffle(f func(n int, swap func(i, j int))) func() {
	old := internal.RandShuffle
	internal.RandShuffle = f
	return func() { internal.RandShuffle = old }
}

// VerifSetTimeAfterFunc replaces internal.TimeAfterFunc (the happy-eyeballs timer) so that the harness decides when
// a timer fires — including a timer that fired just before it was stopped and whose callback runs afterwards.
func VerifSetTimeAfterFunc(f func(time.Duration, func()) func()) func() {
	old := internal.TimeAfterFunc
	internal.TimeAfterFunc = f
	return func() { internal.TimeAfterFunc = old }
}

// VerifConnectionDelay is the delay the timer is armed with.
const VerifConnectionDelay = connectionDelayInterval

// VerifPickerInfo describes a picker handed out by pick_first without calling Pick (the idle picker's
// Pick has a side effect): kind "picker" (result/err fields) or "idle".
func VerifPickerInfo(p balancer.Picker) (kind string, sc balancer.SubConn, err error) {
	switch v := p.(type) {
	case *picker:
		return "picker", v.result.SubConn, v.err
	case *idlePicker:
		return "idle", nil, nil
	}
	return "other", nil, nil
}
