//go:build verif

package weightedaggregator

import (
	"google.golang.org/grpc/balancer"
	"google.golang.org/grpc/internal/wrr"
)

// VerifCounters exposes the counters of the aggregator's ConnectivityStateEvaluator
// (ready, connecting, transient failure, idle).
func (wbsa *Aggregator) VerifCounters() [4]uint64 {
	wbsa.mu.Lock()
	defer wbsa.mu.Unlock()
	return wbsa.csEvltr.VerifCounters()
}

// VerifGroupWRR returns the WRR behind a picker built by newWeightedPickerGroup.
func VerifGroupWRR(p balancer.Picker) (wrr.WRR, bool) {
	g, ok := p.(*weightedPickerGroup)
	if !ok {
		return nil, false
	}
	return g.w, true
}
