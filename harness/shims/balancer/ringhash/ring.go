//go:build verif

package ringhash

import (
	"context"
	"fmt"

	"google.golang.org/grpc/balancer"
	"google.golang.org/grpc/connectivity"
	iringhash "google.golang.org/grpc/internal/ringhash"
	"google.golang.org/grpc/resolver"
)

// VerifEndpoint is what newRing / the picker read of an endpointState.
type VerifEndpoint struct {
	HashKey string
	Weight  uint32
	State   connectivity.State
}

// VerifItem is a ring entry.
type VerifItem struct {
	Idx     int
	Hash    uint64
	HashKey string
	Weight  uint32
}

// VerifRing wraps a real ring together with the endpoint map it was built from.
type VerifRing struct {
	r   *ring
	eps *resolver.EndpointMap[*endpointState]
}

// VerifNewRing runs the real newRing on an EndpointMap holding the given endpoints.
func VerifNewRing(eps []VerifEndpoint, minRingSize, maxRingSize uint64) *VerifRing {
	m := resolver.NewEndpointMap[*endpointState]()
	for _, e := range eps {
		m.Set(resolver.Endpoint{Addresses: []resolver.Address{{Addr: e.HashKey}}}, &endpointState{hashKey: e.HashKey, weight: e.Weight})
	}
	return &VerifRing{r: newRing(m, minRingSize, maxRingSize, nil), eps: m}
}

// Items returns the ring in order.
func (v *VerifRing) Items() []VerifItem {
	out := make([]VerifItem, len(v.r.items))
	for i, it := range v.r.items {
		out[i] = VerifItem{Idx: it.idx, Hash: it.hash, HashKey: it.hashKey, Weight: it.weight}
	}
	return out
}

// Pick runs the real ring.pick and returns the index of the entry.
func (v *VerifRing) Pick(h uint64) int { return v.r.pick(h).idx }

// Next runs the real ring.next on the entry at idx.
func (v *VerifRing) Next(idx int) int { return v.r.next(v.r.items[idx]).idx }

type verifChild struct{ key string }

func (c verifChild) Pick(balancer.PickInfo) (balancer.PickResult, error) {
	return balancer.PickResult{}, fmt.Errorf("EP:%s", c.key)
}

// PickerPick builds a picker with the real newPickerLocked over the given endpoint states and runs
// the real picker.Pick with request hash h (random=false: the hash comes from the xDS context;
// random=true: no request-hash header value is present, so the picker draws h from randUint64).
// Returns the error of the delegated child picker ("EP:<hashKey>"), or the picker's own error, and
// the hash keys whose exitIdle was called, in order.
func (v *VerifRing) PickerPick(states map[string]connectivity.State, random bool, h uint64) (string, []string) {
	var exited []string
	for _, es := range v.eps.Values() {
		key := es.hashKey
		es.state = balancer.State{ConnectivityState: states[key], Picker: verifChild{key: key}}
		es.exitIdle = func() { exited = append(exited, key) }
	}
	b := &ringhashBalancer{endpointStates: v.eps, ring: v.r, config: &iringhash.LBConfig{}}
	ctx := context.Background()
	if random {
		b.config.RequestHashHeader = "x-verif-hash"
	} else {
		ctx = iringhash.SetXDSRequestHash(ctx, h)
	}
	p := b.newPickerLocked()
	p.randUint64 = func() uint64 { return h }
	_, err := p.Pick(balancer.PickInfo{Ctx: ctx})
	if err == nil {
		return "nil-error", exited
	}
	return err.Error(), exited
}

// VerifBalancerRing returns the ring currently held by a ringhash balancer built with the real
// builder (nil if none yet).
func VerifBalancerRing(b balancer.Balancer) []VerifItem {
	rb := b.(*ringhashBalancer)
	rb.mu.Lock()
	defer rb.mu.Unlock()
	if rb.ring == nil {
		return nil
	}
	out := make([]VerifItem, len(rb.ring.items))
	for i, it := range rb.ring.items {
		out[i] = VerifItem{Idx: it.idx, Hash: it.hash, HashKey: it.hashKey, Weight: it.weight}
	}
	return out
}
