//go:build verif

package endpointsharding

import (
	"reflect"
	"sync/atomic"
	"unsafe"

	"google.golang.org/grpc/balancer"
)

// VerifSetRandIntN pins the package's random source and returns a function restoring it.
func VerifSetRandIntN(f func(int) int) func() {
	old := randIntN
	randIntN = f
	return func() { randIntN = old }
}

// verifIndex finds the round-robin position a picker built by updateStateLocked uses, wherever it is
// kept: a uint32 field of the picker named `next`, or a pointer to one.
func verifIndex(pp *pickerWithChildStates) *uint32 {
	f := reflect.ValueOf(pp).Elem().FieldByName("next")
	if !f.IsValid() {
		return nil
	}
	switch f.Kind() {
	case reflect.Uint32:
		return (*uint32)(unsafe.Pointer(f.UnsafeAddr()))
	case reflect.Ptr:
		if f.IsNil() || f.Type().Elem().Kind() != reflect.Uint32 {
			return nil
		}
		return (*uint32)(unsafe.Pointer(f.Pointer()))
	}
	return nil
}

// VerifPickerInternals returns the delegate list and the current index of a picker built by
// updateStateLocked.
func VerifPickerInternals(p balancer.Picker) ([]balancer.Picker, uint32, bool) {
	pp, ok := p.(*pickerWithChildStates)
	if !ok {
		return nil, 0, false
	}
	ix := verifIndex(pp)
	if ix == nil {
		return pp.pickers, 0, false
	}
	return pp.pickers, atomic.LoadUint32(ix), true
}

// VerifSetPickerNext overwrites the round-robin index of a picker built by updateStateLocked.
func VerifSetPickerNext(p balancer.Picker, v uint32) bool {
	pp, ok := p.(*pickerWithChildStates)
	if !ok {
		return false
	}
	ix := verifIndex(pp)
	if ix == nil {
		return false
	}
	atomic.StoreUint32(ix, v)
	return true
}
