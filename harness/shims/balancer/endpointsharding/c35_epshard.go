//go:build verif

package endpointsharding

import (
	"sync/atomic"

	"google.golang.org/grpc/balancer"
)

// VerifSetRandIntN pins the package's random source and returns a function restoring it.
func VerifSetRandIntN(f func(int) int) func() {
	old := randIntN
	randIntN = f
	return func() { randIntN = old }
}

// VerifPickerInternals returns the delegate list and the current index of a picker built by
// updateStateLocked.
func VerifPickerInternals(p balancer.Picker) ([]balancer.Picker, uint32, bool) {
	pp, ok := p.(*pickerWithChildStates)
	if !ok {
		return nil, 0, false
	}
	return pp.pickers, atomic.LoadUint32(&pp.next), true
}

// VerifSetPickerNext overwrites the round-robin index of a picker built by updateStateLocked.
func VerifSetPickerNext(p balancer.Picker, v uint32) bool {
	pp, ok := p.(*pickerWithChildStates)
	if !ok {
		return false
	}
	atomic.StoreUint32(&pp.next, v)
	return true
}
