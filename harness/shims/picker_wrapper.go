//go:build verif

package grpc

// Export shim for C32 (picker_wrapper.go). Only wrappers/accessors; no behaviour of its own.

import (
	"context"

	"google.golang.org/grpc/balancer"
	"google.golang.org/grpc/connectivity"
	"google.golang.org/grpc/internal/transport"
	"google.golang.org/grpc/stats"
)

// VerifPickerWrapper exposes the real pickerWrapper.
type VerifPickerWrapper struct{ pw *pickerWrapper }

// VerifNewPickerWrapper = newPickerWrapper().
func VerifNewPickerWrapper() *VerifPickerWrapper {
	return &VerifPickerWrapper{pw: newPickerWrapper()}
}

// UpdatePicker = pw.updatePicker(p).
func (v *VerifPickerWrapper) UpdatePicker(p balancer.Picker) { v.pw.updatePicker(p) }

// Reset = pw.reset() (idle entry).
func (v *VerifPickerWrapper) Reset() { v.pw.reset() }

// Close = pw.close().
func (v *VerifPickerWrapper) Close() { v.pw.close() }

// VerifPick is the exported view of the unexported `pick` struct.
type VerifPick struct {
	Transport transport.ClientTransport
	Result    balancer.PickResult
	Blocked   bool
}

// Pick = pw.pick(ctx, failfast, info).
func (v *VerifPickerWrapper) Pick(ctx context.Context, failfast bool, info balancer.PickInfo) (VerifPick, error) {
	p, err := v.pw.pick(ctx, failfast, info)
	return VerifPick{Transport: p.transport, Result: p.result, Blocked: p.blocked}, err
}

// VerifDropError reports whether err is a dropError and returns the wrapped error.
func VerifDropError(err error) (error, bool) {
	de, ok := err.(dropError)
	if !ok {
		return nil, false
	}
	return de.error, true
}

// VerifNewFakeSubConn returns an *acBalancerWrapper (the only SubConn type pick accepts) around
// a bare addrConn of which only the fields read by getReadyTransport (mu, state, transport) are
// ever touched. The zero state is IDLE.
func VerifNewFakeSubConn() balancer.SubConn {
	return &acBalancerWrapper{ac: &addrConn{}}
}

// VerifSetFakeSubConnState sets addrConn.state / addrConn.transport under ac.mu, the way
// updateConnectivityState's callers do.
func VerifSetFakeSubConnState(sc balancer.SubConn, s connectivity.State, t transport.ClientTransport) {
	ac := sc.(*acBalancerWrapper).ac
	ac.mu.Lock()
	ac.state = s
	ac.transport = t
	ac.mu.Unlock()
}

type verifPickStats struct{ delayed bool }

func (h *verifPickStats) TagRPC(ctx context.Context, _ *stats.RPCTagInfo) context.Context   { return ctx }
func (h *verifPickStats) TagConn(ctx context.Context, _ *stats.ConnTagInfo) context.Context { return ctx }
func (h *verifPickStats) HandleConn(context.Context, stats.ConnStats)                       {}
func (h *verifPickStats) HandleRPC(_ context.Context, s stats.RPCStats) {
	if _, ok := s.(*stats.DelayedPickComplete); ok {
		h.delayed = true
	}
}

// GetTransport runs the real csAttempt.getTransport (stream.go) — the call site of pick for
// every attempt of an RPC — on a clientStream whose call-site-visible fields are the given ones:
// callInfo.failFast (the RPC is NOT wait-for-ready), numRetries, firstAttempt. Returns what the
// attempt stored (transport, pick result), whether a DelayedPickComplete was reported, a.drop
// and the error getTransport returned (a dropError is unwrapped by getTransport itself).
func (v *VerifPickerWrapper) GetTransport(ctx context.Context, failFast bool, numRetries int, firstAttempt bool, method string) (VerifPick, bool, error) {
	cc := &ClientConn{pickerWrapper: v.pw}
	cs := &clientStream{
		cc:           cc,
		callHdr:      &transport.CallHdr{Method: method},
		callInfo:     &callInfo{failFast: failFast},
		ctx:          ctx,
		firstAttempt: firstAttempt,
		numRetries:   numRetries,
	}
	sh := &verifPickStats{}
	a := &csAttempt{ctx: ctx, cs: cs, statsHandler: sh}
	err := a.getTransport()
	return VerifPick{Transport: a.transport, Result: a.pickResult, Blocked: sh.delayed}, a.drop, err
}
