//go:build verif

package grpc

// VerifToRPCErr exposes toRPCErr (rpc_util.go) to the verification harness.
func VerifToRPCErr(err error) error { return toRPCErr(err) }
