//go:build verif

package grpc

import "google.golang.org/grpc/internal/transport"

// VerifServerTransports returns the server transports currently registered with the server (C12 harness).
func VerifServerTransports(s *Server) []transport.ServerTransport {
	s.mu.Lock()
	defer s.mu.Unlock()
	var out []transport.ServerTransport
	for _, m := range s.conns {
		for st := range m {
			out = append(out, st)
		}
	}
	return out
}
