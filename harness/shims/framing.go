//go:build verif

package grpc

import (
	"io"

	"google.golang.org/grpc/encoding"
	"google.golang.org/grpc/mem"
)

// Export shim for C06 (message framing): only wrappers around the unexported parser / compress /
// msgHeader / decompress / checkRecvPayload / gzipDecompressor.doWithMaxSize of rpc_util.go.

// VerifStreamReader is the (unexported) streamReader contract.
type VerifStreamReader interface {
	ReadMessageHeader(header []byte) error
	Read(n int) (mem.BufferSlice, error)
}

// VerifParser wraps a real parser reading from r.
type VerifParser struct{ p *parser }

func VerifNewParser(r VerifStreamReader) *VerifParser {
	return &VerifParser{p: &parser{r: r, bufferPool: mem.DefaultBufferPool()}}
}

func (v *VerifParser) RecvMsg(maxReceiveMessageSize int) (uint8, mem.BufferSlice, error) {
	pf, d, err := v.p.recvMsg(maxReceiveMessageSize)
	return uint8(pf), d, err
}

type verifRecvCompress string

func (s verifRecvCompress) RecvCompress() string { return string(s) }

func (v *VerifParser) RecvAndDecompress(recvCompress string, dc Decompressor, maxReceiveMessageSize int, compressor encoding.Compressor, isServer bool) (mem.BufferSlice, error) {
	return recvAndDecompress(v.p, verifRecvCompress(recvCompress), dc, maxReceiveMessageSize, nil, compressor, isServer)
}

func VerifCompress(in mem.BufferSlice, cp Compressor, compressor encoding.Compressor) (mem.BufferSlice, uint8, error) {
	out, pf, err := compress(in, cp, compressor, mem.DefaultBufferPool())
	return out, uint8(pf), err
}

func VerifMsgHeader(data, compData mem.BufferSlice, pf uint8) ([]byte, mem.BufferSlice) {
	return msgHeader(data, compData, payloadFormat(pf))
}

func VerifDecompress(compressor encoding.Compressor, d mem.BufferSlice, dc Decompressor, maxReceiveMessageSize int) (mem.BufferSlice, error) {
	return decompress(compressor, d, dc, maxReceiveMessageSize, mem.DefaultBufferPool())
}

// VerifCheckRecvPayload returns (status code, false) or (0, true) when the status is nil.
func VerifCheckRecvPayload(pf uint8, recvCompress string, haveCompressor, isServer bool) (uint32, bool) {
	st := checkRecvPayload(payloadFormat(pf), recvCompress, haveCompressor, isServer)
	if st == nil {
		return 0, true
	}
	return uint32(st.Code()), false
}

// VerifGzipDoWithMaxSize calls (*gzipDecompressor).doWithMaxSize on a fresh built-in decompressor.
func VerifGzipDoWithMaxSize(r io.Reader, maxMessageSize int64) ([]byte, error) {
	return NewGZIPDecompressor().(*gzipDecompressor).doWithMaxSize(r, maxMessageSize)
}
