//go:build verif

package grpc

import (
	"context"
	"sort"
	"time"

	"google.golang.org/grpc/codes"
	internalserviceconfig "google.golang.org/grpc/internal/serviceconfig"
	"google.golang.org/grpc/internal/transport"
	"google.golang.org/grpc/metadata"
	"google.golang.org/grpc/status"
)

// Export shims for the retry machinery (C18, C19, C23). Only wrappers/accessors: every
// decision is taken by the real parseServiceConfig / applyServiceConfigAndBalancer /
// retryThrottler / csAttempt.shouldRetry code.

// VerifParseSC runs the real parseServiceConfig with the given channel attempt limit.
func VerifParseSC(js string, maxAttempts int) (*ServiceConfig, error) {
	r := parseServiceConfig(js, maxAttempts)
	if r.Err != nil {
		return nil, r.Err
	}
	return r.Config.(*ServiceConfig), nil
}

// VerifChannelMaxAttempts returns what WithMaxCallAttempts(n) stores in the dial options.
func VerifChannelMaxAttempts(n int) int {
	o := defaultDialOptions()
	WithMaxCallAttempts(n).apply(&o)
	return o.maxCallAttempts
}

// VerifDefaultMaxRetryRPCBufferSize returns the default replay buffer limit.
func VerifDefaultMaxRetryRPCBufferSize() int { return defaultCallInfo().maxRetryRPCBufferSize }

// VerifRetryPolicy returns the converted retry policy of the method config stored under path.
func VerifRetryPolicy(sc *ServiceConfig, path string) (present bool, maxAttempts int, initial, max time.Duration, mult float64, cs []int) {
	mc, ok := sc.Methods[path]
	if !ok || mc.RetryPolicy == nil {
		return false, 0, 0, 0, 0, nil
	}
	rp := mc.RetryPolicy
	for c, v := range rp.RetryableStatusCodes {
		if v {
			cs = append(cs, int(c))
		}
	}
	sort.Ints(cs)
	return true, rp.MaxAttempts, rp.InitialBackoff, rp.MaxBackoff, rp.BackoffMultiplier, cs
}

// VerifThrottler wraps the real *retryThrottler (which may be nil).
type VerifThrottler struct{ rt *retryThrottler }

// VerifNewThrottler applies sc through the real applyServiceConfigAndBalancer on a bare
// ClientConn and returns the throttler the channel stored.
func VerifNewThrottler(sc *ServiceConfig) *VerifThrottler {
	cc := &ClientConn{}
	cc.applyServiceConfigAndBalancer(sc, nil)
	return &VerifThrottler{rt: cc.retryThrottler.Load().(*retryThrottler)}
}

func (t *VerifThrottler) IsNil() bool    { return t.rt == nil }
func (t *VerifThrottler) Throttle() bool { return t.rt.throttle() }
func (t *VerifThrottler) SuccessfulRPC() { t.rt.successfulRPC() }
func (t *VerifThrottler) State() (tokens, max, thresh, ratio float64) {
	t.rt.mu.Lock()
	defer t.rt.mu.Unlock()
	return t.rt.tokens, t.rt.max, t.rt.thresh, t.rt.ratio
}

// VerifSRIn is everything csAttempt.shouldRetry reads.
type VerifSRIn struct {
	Ctx                                            context.Context
	Finished, Committed, Drop                      bool
	HasStream, AllowTransparent                    bool
	Unprocessed, TrailersOnly                      bool
	Pushback                                       []string // values of grpc-retry-pushback-ms in the trailer
	Code                                           codes.Code
	FirstAttempt, DisableRetry                     bool
	HasPolicy                                      bool
	MaxAttempts                                    int
	InitialBackoff, MaxBackoff                     time.Duration
	Multiplier                                     float64
	Codes                                          []int
	NumRetries, SincePushback                      int
	Throttler                                      *VerifThrottler
}

// VerifSROut is what shouldRetry returned and the counters it left behind.
type VerifSROut struct {
	Transparent               bool
	Err                       error
	SameErr                   bool // Err is the error that was passed in
	NumRetries, SincePushback int
}

// VerifShouldRetry runs the real csAttempt.shouldRetry on an attempt in the described state.
func VerifShouldRetry(in VerifSRIn) VerifSROut {
	cc := &ClientConn{}
	cc.dopts.disableRetry = in.DisableRetry
	mc := &MethodConfig{}
	if in.HasPolicy {
		rp := &internalserviceconfig.RetryPolicy{
			MaxAttempts:          in.MaxAttempts,
			InitialBackoff:       in.InitialBackoff,
			MaxBackoff:           in.MaxBackoff,
			BackoffMultiplier:    in.Multiplier,
			RetryableStatusCodes: map[codes.Code]bool{},
		}
		for _, c := range in.Codes {
			rp.RetryableStatusCodes[codes.Code(c)] = true
		}
		mc.RetryPolicy = rp
	}
	cs := &clientStream{
		ctx:                     in.Ctx,
		cc:                      cc,
		methodConfig:            mc,
		finished:                in.Finished,
		committed:               in.Committed,
		firstAttempt:            in.FirstAttempt,
		numRetries:              in.NumRetries,
		numRetriesSincePushback: in.SincePushback,
	}
	if in.Throttler != nil {
		cs.retryThrottler = in.Throttler.rt
	}
	a := &csAttempt{cs: cs, ctx: in.Ctx, drop: in.Drop, allowTransparentRetry: in.AllowTransparent}
	st := status.New(in.Code, "scripted")
	if in.HasStream {
		var tr metadata.MD
		if in.Pushback != nil {
			tr = metadata.MD{"grpc-retry-pushback-ms": in.Pushback}
		}
		a.transportStream = transport.VerifFakeClientStream(in.Ctx, tr, st, in.TrailersOnly, in.Unprocessed)
	}
	inErr := st.Err()
	if in.Code == codes.OK {
		inErr = status.Error(codes.Unknown, "placeholder")
	}
	tr, err := a.shouldRetry(inErr)
	return VerifSROut{Transparent: tr, Err: err, SameErr: err == inErr, NumRetries: cs.numRetries, SincePushback: cs.numRetriesSincePushback}
}
