// Package loopyh drives one REAL loopyWriter through the line protocol of the loopy* components. It is shared by
// cmd/impl (T1: the harness calls handle(item)/processData() itself) and by synct (T2: the real loopyWriter.run()
// goroutine consumes the items from a real controlBuffer inside a testing/synctest bubble).
package loopyh

import (
	"bytes"
	"encoding/hex"
	"errors"
	"fmt"
	"io"
	"sort"
	"strconv"
	"strings"

	"golang.org/x/net/http2"
	"golang.org/x/net/http2/hpack"
	"google.golang.org/grpc/internal/transport"
)

// components loopy (C01), loopyord (C02), loopylive (C03): one REAL loopyWriter over a REAL framer on an
// in-memory conn, driven one control item / one processData call per op line. Everything written to the
// conn is decoded with an independent golang.org/x/net/http2 Framer.
//
//	side c|s                              (re)create the writer, client or server side
//	wu <id> <inc>                         incomingWindowUpdate
//	set <id=val,...|->                    incomingSettings (4 = INITIAL_WINDOW_SIZE, 1 = HEADER_TABLE_SIZE)
//	reg <id>                              registerStream
//	ch <id> <fields> <initErr>            clientHeaders
//	sh <id> <es> <fields> <rst> <code>    serverHeaders (+ cleanup when es)
//	data <id> <hlen> <dlen> <es> <nchunk> dataFrame; bytes are gen(id, offset in the stream's byte stream)
//	cl <id> <rst> <code>                  cleanupStream
//	ea <id> <rst> <fields>                earlyAbortStream
//	iga | ga <headsUp> <code> <closeConn> <retDraining> <retErr> | ping <ack> <hex8> | owu <id> <inc>
//	oset <id=val,...> | close | ofc | unk
//	tick                                  one processData() call
//
// Output: `<ret> F=<frames> C=<callbacks> Q=<sendQuota> W=<oiws> D=<draining> A=<activeStreams> S=<streams> HB=<hpack block len>`

func unhex(s string) []byte {
	if s == "-" || s == "" {
		return nil
	}
	b, err := hex.DecodeString(s)
	if err != nil {
		panic("bad hex " + s)
	}
	return b
}

func tohex(b []byte) string {
	if len(b) == 0 {
		return "-"
	}
	return hex.EncodeToString(b)
}

func atoi(s string) int {
	n, err := strconv.Atoi(s)
	if err != nil {
		panic("bad int " + s)
	}
	return n
}

func atou64(s string) uint64 {
	n, err := strconv.ParseUint(s, 10, 64)
	if err != nil {
		panic("bad uint64 " + s)
	}
	return n
}

func genByte(id uint32, p uint64) byte {
	x := (uint32(p) + id*7919) * 2654435761
	return byte(x >> 24)
}

func fnv32(b []byte) uint32 {
	h := uint32(2166136261)
	for _, c := range b {
		h ^= uint32(c)
		h *= 16777619
	}
	return h
}

// H is one harness instance (one case).
type H struct {
	// Async: items are put into the controlBuffer and consumed by the real run() goroutine; Settle waits for quiescence.
	Async  bool
	Settle func()

	v        *transport.VerifLoopy
	server   bool
	closed   bool
	runErr   <-chan error
	cbs      []string
	hb       int
	shadow   *hpack.Encoder
	shadowB  bytes.Buffer
	wr       map[uint32]uint64 // bytes written so far to the stream's application byte stream (since it was opened)
	gaDrain  bool
	gaErr    bool
	stA, stE int
	stW      int
}

func b01(s string) bool { return s == "1" }

func parseSettings(s string) []http2.Setting {
	var r []http2.Setting
	if s == "-" {
		return r
	}
	for _, p := range strings.Split(s, ",") {
		kv := strings.Split(p, "=")
		r = append(r, http2.Setting{ID: http2.SettingID(atoi(kv[0])), Val: uint32(atou64(kv[1]))})
	}
	return r
}

func parseFields(s string) []hpack.HeaderField {
	var r []hpack.HeaderField
	if s == "-" {
		return r
	}
	for _, p := range strings.Split(s, ",") {
		kv := strings.Split(p, ".")
		k, n := atoi(kv[0]), atoi(kv[1])
		switch k {
		case 0:
			r = append(r, hpack.HeaderField{Name: ":status", Value: "200"})
		case 1:
			r = append(r, hpack.HeaderField{Name: "content-type", Value: "application/grpc"})
		default:
			r = append(r, hpack.HeaderField{Name: "x-h" + strconv.Itoa(k), Value: strings.Repeat(string(rune('a'+k%26)), n)})
		}
	}
	return r
}

func errEnum(err error) string {
	if err == nil {
		return "ok"
	}
	m := err.Error()
	switch {
	case err == transport.ErrConnClosing:
		return "e:closing"
	case strings.Contains(m, "finished processing active streams while in draining mode"):
		return "e:draindone"
	case strings.Contains(m, "received GOAWAY with no active streams"):
		return "e:goaway-idle"
	case strings.Contains(m, "earlyAbortStream not handled on client"):
		return "e:ea-client"
	case strings.Contains(m, "verif: init"):
		return "e:init"
	case strings.Contains(m, "verif: ga"):
		return "e:ga"
	case strings.Contains(m, "unknown control message type"):
		return "e:unknown"
	}
	return "e:other:" + strings.ReplaceAll(m, " ", "_")
}

func (h *H) create(server bool) {
	h.Close() // Async: the previous writer's run() goroutine must be gone
	h.server = server
	h.closed = false
	h.cbs = nil
	h.hb = -1
	h.wr = map[uint32]uint64{}
	h.shadowB.Reset()
	h.shadow = hpack.NewEncoder(&h.shadowB)
	h.v = transport.VerifNewLoopy(server, func(headsUp bool, code uint32, closeConn bool) (bool, error) {
		// stand-in for http2Client/http2Server.outgoingGoAwayHandler (environment of loopy): writes a GOAWAY
		// and returns what the op line says.
		last := uint32(0)
		if headsUp {
			last = 1<<31 - 1
		}
		if err := h.v.VerifWriteGoAway(last, code); err != nil {
			return false, err
		}
		if h.gaErr {
			return false, errors.New("verif: ga")
		}
		return h.gaDrain, nil
	})
	h.stA, h.stE, h.stW = transport.VerifStateValues()
	if h.Async {
		h.runErr = h.v.VerifStartRun()
	}
}

// shadowLen encodes the fields with an independent encoder kept in lockstep with loopy's (same table size
// updates) and returns the header block length: the model's HPACK oracle.
func (h *H) shadowLen(hf []hpack.HeaderField) int {
	h.shadowB.Reset()
	for _, f := range hf {
		h.shadow.WriteField(f)
	}
	return h.shadowB.Len()
}

func (h *H) frames(b []byte) string {
	if len(b) == 0 {
		return "-"
	}
	fr := http2.NewFramer(io.Discard, bytes.NewReader(b))
	fr.SetMaxReadFrameSize(1<<24 - 1)
	var out []string
	for {
		f, err := fr.ReadFrame()
		if err == io.EOF {
			break
		}
		if err != nil {
			out = append(out, "ERR:"+strings.ReplaceAll(err.Error(), " ", "_"))
			break
		}
		id := f.Header().StreamID
		switch f := f.(type) {
		case *http2.DataFrame:
			out = append(out, fmt.Sprintf("D:%d:%d:%d:%08x", id, len(f.Data()), bi(f.StreamEnded()), fnv32(f.Data())))
		case *http2.HeadersFrame:
			out = append(out, fmt.Sprintf("H:%d:%d:%d:%d", id, bi(f.StreamEnded()), bi(f.HeadersEnded()), len(f.HeaderBlockFragment())))
		case *http2.ContinuationFrame:
			out = append(out, fmt.Sprintf("K:%d:%d:%d", id, bi(f.HeadersEnded()), len(f.HeaderBlockFragment())))
		case *http2.RSTStreamFrame:
			out = append(out, fmt.Sprintf("R:%d:%d", id, uint32(f.ErrCode)))
		case *http2.SettingsFrame:
			if f.IsAck() {
				out = append(out, "SA")
			} else {
				var ss []string
				f.ForeachSetting(func(s http2.Setting) error {
					ss = append(ss, fmt.Sprintf("%d=%d", uint16(s.ID), s.Val))
					return nil
				})
				out = append(out, "S:"+strings.Join(ss, ";"))
			}
		case *http2.PingFrame:
			out = append(out, fmt.Sprintf("P:%d:%s", bi(f.IsAck()), tohex(f.Data[:])))
		case *http2.WindowUpdateFrame:
			out = append(out, fmt.Sprintf("W:%d:%d", id, f.Increment))
		case *http2.GoAwayFrame:
			out = append(out, fmt.Sprintf("G:%d:%d", f.LastStreamID, uint32(f.ErrCode)))
		default:
			out = append(out, fmt.Sprintf("X:%d:%d", f.Header().Type, id))
		}
	}
	return strings.Join(out, ",")
}

func bi(b bool) int {
	if b {
		return 1
	}
	return 0
}

func (h *H) state() string {
	act := h.v.VerifActive()
	as := make([]string, len(act))
	for i, a := range act {
		as[i] = strconv.Itoa(int(a))
	}
	ss := h.v.VerifStreams()
	sort.Slice(ss, func(i, j int) bool { return ss[i].ID < ss[j].ID })
	st := make([]string, len(ss))
	for i, s := range ss {
		hk := 0 // head item kind: 0 none, 1 data, 2 not data
		if s.NItems > 0 {
			hk = 2
			if s.HeadIsData {
				hk = 1
			}
		}
		st[i] = fmt.Sprintf("%d:%d:%d:%d:%d:%d:%d:%d:%d:%d", s.ID, s.State, s.BytesOut, s.NItems, s.TrailersQueued, hk, s.HeadH, s.HeadD, bi(s.HeadEndStream), s.WQ)
	}
	j := func(l []string) string {
		if len(l) == 0 {
			return "-"
		}
		return strings.Join(l, ",")
	}
	return fmt.Sprintf("Q=%d W=%d D=%d A=%s S=%s", h.v.VerifSendQuota(), h.v.VerifOIWS(), bi(h.v.VerifDraining()), j(as), j(st))
}

// Op executes one op line.
func (h *H) Op(f []string) string {
	if f[0] == "side" {
		h.create(f[1] == "s")
		return "ok " + h.tail()
	}
	if h.v == nil {
		h.create(false)
	}
	if h.closed {
		return "closed"
	}
	h.cbs = nil
	h.hb = -1
	cb := func(tag string, id uint32) func() {
		return func() { h.cbs = append(h.cbs, tag+strconv.Itoa(int(id))) }
	}
	hdrCB := func(id uint32, hf []hpack.HeaderField) func() {
		return func() {
			h.cbs = append(h.cbs, "w"+strconv.Itoa(int(id)))
			h.hb = h.shadowLen(hf)
		}
	}
	var err error
	ret := ""
	switch f[0] {
	case "wu":
		err = h.v.VerifHandleIncomingWindowUpdate(uint32(atou64(f[1])), uint32(atou64(f[2])))
	case "owu":
		err = h.v.VerifHandleOutgoingWindowUpdate(uint32(atou64(f[1])), uint32(atou64(f[2])))
	case "set":
		ss := parseSettings(f[1])
		for _, s := range ss {
			if s.ID == http2.SettingHeaderTableSize {
				h.shadow.SetMaxDynamicTableSizeLimit(s.Val)
			}
		}
		err = h.v.VerifHandleIncomingSettings(ss)
	case "oset":
		err = h.v.VerifHandleOutgoingSettings(parseSettings(f[1]))
	case "reg":
		id := uint32(atou64(f[1]))
		h.wr[id] = 0
		err = h.v.VerifHandleRegisterStream(id, 0)
	case "ch":
		id := uint32(atou64(f[1]))
		hf := parseFields(f[2])
		initErr := b01(f[3])
		err = h.v.VerifHandleClientHeaders(id, hf, 0, func(sid uint32) error {
			h.cbs = append(h.cbs, "i"+strconv.Itoa(int(sid)))
			if initErr {
				return errors.New("verif: init")
			}
			return nil
		}, func() { hdrCB(id, hf)(); h.wr[id] = 0 }, func(error) { cb("o", id)() })
	case "sh":
		id := uint32(atou64(f[1]))
		hf := parseFields(f[3])
		err = h.v.VerifHandleServerHeaders(id, hf, b01(f[2]), hdrCB(id, hf), b01(f[4]), uint32(atou64(f[5])), cb("c", id))
	case "data":
		id := uint32(atou64(f[1]))
		hl, dl, nch := atoi(f[2]), atoi(f[3]), atoi(f[5])
		off := h.wr[id]
		h.wr[id] = off + uint64(hl+dl)
		var hb []byte
		if hl > 0 {
			hb = make([]byte, hl)
			for i := range hb {
				hb[i] = genByte(id, off+uint64(i))
			}
		}
		var chunks [][]byte
		if nch > 0 {
			base := dl / nch
			pos := 0
			for c := 0; c < nch; c++ {
				n := base
				if c == nch-1 {
					n = dl - pos
				}
				b := make([]byte, n)
				for i := range b {
					b[i] = genByte(id, off+uint64(hl+pos+i))
				}
				chunks = append(chunks, b)
				pos += n
			}
		} else if dl != 0 {
			panic("data: dlen>0 needs nchunk>0")
		}
		err = h.v.VerifHandleData(id, hb, chunks, b01(f[4]), cb("e", id))
	case "cl":
		id := uint32(atou64(f[1]))
		err = h.v.VerifHandleCleanupStream(id, b01(f[2]), uint32(atou64(f[3])), cb("c", id))
	case "ea":
		id := uint32(atou64(f[1]))
		hf := parseFields(f[3])
		if h.server {
			h.hb = h.shadowLen(hf) // earlyAbortStream has no onWrite; writeHeader runs iff server side
		}
		err = h.v.VerifHandleEarlyAbort(id, b01(f[2]), hf)
	case "iga":
		err = h.v.VerifHandleIncomingGoAway()
	case "ga":
		h.gaDrain, h.gaErr = b01(f[4]), b01(f[5])
		err = h.v.VerifHandleGoAway(b01(f[1]), uint32(atou64(f[2])), b01(f[3]))
	case "ping":
		var d [8]byte
		copy(d[:], unhex(f[2]))
		err = h.v.VerifHandlePing(b01(f[1]), d)
	case "close":
		err = h.v.VerifHandleCloseConnection()
	case "ofc":
		var q uint32
		q, err = h.v.VerifHandleOutFlowControlSizeRequest()
		if err == nil {
			ret = "q:" + strconv.FormatUint(uint64(q), 10)
		}
	case "unk":
		if h.Async {
			return "bad-op"
		}
		err = h.v.VerifHandleUnknown()
	case "tick":
		if h.Async {
			return "bad-op"
		}
		var isEmpty bool
		isEmpty, err = h.v.VerifProcessData()
		if err == nil {
			ret = "t:" + strconv.Itoa(bi(isEmpty))
		}
	default:
		return "bad-op"
	}
	if h.Async {
		// the item is in the controlBuffer: let the real run() goroutine work until it blocks again (or returns)
		h.Settle()
		if f[0] == "ofc" {
			if q, ok := h.v.VerifOutFlowControlSizeAnswer(); ok {
				ret = "q:" + strconv.FormatUint(uint64(q), 10)
			}
		}
		select {
		case err = <-h.runErr:
			ret = ""
		default:
		}
	}
	if ret == "" {
		ret = errEnum(err)
	}
	if err != nil {
		h.closed = true // run() returns on the first error: no further item is handled
	}
	return ret + " " + h.tail()
}

func (h *H) tail() string {
	var wire []byte
	if h.Async {
		wire = h.v.VerifTake() // run() flushes by itself before it blocks and when it returns
	} else {
		wire = h.v.VerifFlushAndTake()
	}
	fr := h.frames(wire)
	cbs := "-"
	if len(h.cbs) > 0 {
		cbs = strings.Join(h.cbs, ",")
	}
	hb := "-"
	if h.hb >= 0 {
		hb = strconv.Itoa(h.hb)
	}
	return fmt.Sprintf("F=%s C=%s %s HB=%s", fr, cbs, h.state(), hb)
}

// Close ends a case in Async mode: the run() goroutine must be gone afterwards.
func (h *H) Close() {
	if !h.Async || h.v == nil {
		return
	}
	if !h.closed {
		h.v.VerifHandleCloseConnection()
		h.Settle()
		select {
		case <-h.runErr:
		default:
		}
		h.closed = true
	}
}
