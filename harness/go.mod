module google.golang.org/grpc/verif/harness

go 1.25.0

require google.golang.org/grpc v1.82.0

require (
	github.com/cncf/xds/go v0.0.0-20260202195803-dba9d589def2 // indirect
	github.com/envoyproxy/go-control-plane/envoy v1.39.0 // indirect
	github.com/envoyproxy/protoc-gen-validate v1.3.3 // indirect
	golang.org/x/net v0.58.0 // indirect
	golang.org/x/sys v0.47.0 // indirect
	golang.org/x/text v0.41.0 // indirect
	google.golang.org/genproto/googleapis/rpc v0.0.0-20260817212433-ac3dfec99bb1 // indirect
	google.golang.org/protobuf v1.36.12 // indirect
)

replace google.golang.org/grpc => /repo
