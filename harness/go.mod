module google.golang.org/grpc/verif/harness

go 1.25.0

// All of /repo's requirements are listed so that `go build -mod=mod` never has to rewrite this file.
require google.golang.org/grpc v1.83.0

require (
	cel.dev/expr v0.25.3
	cloud.google.com/go/auth v0.23.1
	cloud.google.com/go/compute/metadata v0.9.0
	github.com/GoogleCloudPlatform/opentelemetry-operations-go/detectors/gcp v1.35.0
	github.com/cespare/xxhash/v2 v2.3.0
	github.com/cncf/xds/go v0.0.0-20260202195803-dba9d589def2
	github.com/envoyproxy/go-control-plane v0.14.0
	github.com/envoyproxy/go-control-plane/envoy v1.39.0
	github.com/envoyproxy/go-control-plane/ratelimit v0.1.0
	github.com/envoyproxy/protoc-gen-validate v1.3.3
	github.com/felixge/httpsnoop v1.1.0
	github.com/go-jose/go-jose/v4 v4.1.4
	github.com/go-logr/logr v1.4.4
	github.com/go-logr/stdr v1.2.2
	github.com/golang/glog v1.2.5
	github.com/golang/protobuf v1.5.4
	github.com/google/go-cmp v0.7.0
	github.com/google/s2a-go v0.1.9
	github.com/google/uuid v1.6.0
	github.com/googleapis/enterprise-certificate-proxy v0.3.21
	github.com/googleapis/gax-go/v2 v2.23.0
	github.com/planetscale/vtprotobuf v0.6.1-0.20240319094008-0393e58bdf10
	github.com/spiffe/go-spiffe/v2 v2.8.1
	go.opentelemetry.io/auto/sdk v1.2.1
	go.opentelemetry.io/contrib/detectors/gcp v1.45.0
	go.opentelemetry.io/contrib/instrumentation/net/http/otelhttp v0.70.0
	go.opentelemetry.io/otel v1.45.0
	go.opentelemetry.io/otel/metric v1.45.0
	go.opentelemetry.io/otel/sdk v1.45.0
	go.opentelemetry.io/otel/sdk/metric v1.45.0
	go.opentelemetry.io/otel/trace v1.45.0
	golang.org/x/crypto v0.55.0
	golang.org/x/net v0.58.0
	golang.org/x/oauth2 v0.36.0
	golang.org/x/sync v0.22.0
	golang.org/x/sys v0.47.0
	golang.org/x/text v0.41.0
	gonum.org/v1/gonum v0.17.0
	google.golang.org/api v0.293.0
	google.golang.org/genproto/googleapis/api v0.0.0-20260817212433-ac3dfec99bb1
	google.golang.org/genproto/googleapis/rpc v0.0.0-20260817212433-ac3dfec99bb1
	google.golang.org/protobuf v1.36.12
)

replace google.golang.org/grpc => /repo
