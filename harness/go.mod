module google.golang.org/grpc/verif/harness

go 1.25.0

require (
	golang.org/x/net v0.58.0
	google.golang.org/grpc v0.0.0
)

require (
	golang.org/x/sys v0.47.0 // indirect
	golang.org/x/text v0.41.0 // indirect
	google.golang.org/genproto/googleapis/rpc v0.0.0-20260817212433-ac3dfec99bb1 // indirect
	google.golang.org/protobuf v1.36.12 // indirect
)

replace google.golang.org/grpc => /repo
