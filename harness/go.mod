module google.golang.org/grpc/verif/harness

go 1.25.0

require (
	github.com/envoyproxy/go-control-plane/envoy v1.39.0
	google.golang.org/grpc v1.83.0
	google.golang.org/protobuf v1.36.12
)

require (
	cel.dev/expr v0.25.3 // indirect
	cloud.google.com/go/auth v0.23.1 // indirect
	cloud.google.com/go/compute/metadata v0.9.0 // indirect
	github.com/cespare/xxhash/v2 v2.3.0 // indirect
	github.com/cncf/xds/go v0.0.0-20260202195803-dba9d589def2 // indirect
	github.com/envoyproxy/protoc-gen-validate v1.3.3 // indirect
	github.com/felixge/httpsnoop v1.1.0 // indirect
	github.com/go-jose/go-jose/v4 v4.1.4 // indirect
	github.com/go-logr/logr v1.4.4 // indirect
	github.com/go-logr/stdr v1.2.2 // indirect
	github.com/google/s2a-go v0.1.9 // indirect
	github.com/googleapis/enterprise-certificate-proxy v0.3.21 // indirect
	github.com/googleapis/gax-go/v2 v2.23.0 // indirect
	github.com/spiffe/go-spiffe/v2 v2.8.1 // indirect
	go.opentelemetry.io/auto/sdk v1.2.1 // indirect
	go.opentelemetry.io/contrib/instrumentation/net/http/otelhttp v0.70.0 // indirect
	go.opentelemetry.io/otel v1.45.0 // indirect
	go.opentelemetry.io/otel/metric v1.45.0 // indirect
	go.opentelemetry.io/otel/trace v1.45.0 // indirect
	golang.org/x/crypto v0.55.0 // indirect
	golang.org/x/net v0.58.0 // indirect
	golang.org/x/oauth2 v0.36.0 // indirect
	golang.org/x/sync v0.22.0 // indirect
	golang.org/x/sys v0.47.0 // indirect
	golang.org/x/text v0.41.0 // indirect
	google.golang.org/api v0.293.0 // indirect
	google.golang.org/genproto/googleapis/api v0.0.0-20260817212433-ac3dfec99bb1 // indirect
	google.golang.org/genproto/googleapis/rpc v0.0.0-20260817212433-ac3dfec99bb1 // indirect
)

replace google.golang.org/grpc => /repo
