package synct

import (
	"fmt"
	"strings"
	"time"

	"google.golang.org/grpc/balancer/rls"
)

// component s_rlscache (C41): the real rls.dataCache (through the shim wrapper) in a synctest bubble so
// that time.Now() inside resize / evictExpiredEntries is the virtual clock. Model time = 1000 + seconds
// since the start of the case; an absolute time of 0 means time.Time{}.
//
//	new <max>
//	add <key> <size> <earliestEvict> <expiry> <backoffExpiry> <hasBackoff 0|1> <timerAt|0>  -> bc=<0|1> ok=<0|1>
//	get <key>  -> hit <size> | miss        resize <n> -> bc=      evict -> ev=      upd <key> <size> -> ok|absent
//	rm <key>   rbo (resetBackoffState) -> r=      stop      sleep <sec>
//
// Every answer ends with ` cur=<currentSize> max=<maxSize> lru=<keys, LRU first> sum=<Σ entry sizes> n=<len(entries)>`.
type rlsCacheH struct {
	c  *rls.VerifCache
	t0 time.Time
}

func init() {
	register("s_rlscache", func() SHandler { return &rlsCacheH{t0: time.Now()} })
}

func (h *rlsCacheH) abs(sec int) time.Time {
	if sec == 0 {
		return time.Time{}
	}
	return h.t0.Add(time.Duration(sec-1000) * time.Second)
}

func (h *rlsCacheH) dump() string {
	cur, max, lru, sum, n := h.c.State()
	l := "-"
	if len(lru) > 0 {
		for i := range lru {
			lru[i] = strings.TrimPrefix(lru[i], "k")
		}
		l = strings.Join(lru, ",")
	}
	return fmt.Sprintf(" cur=%d max=%d lru=%s sum=%d n=%d", cur, max, l, sum, n)
}

func rlsB(b bool) int {
	if b {
		return 1
	}
	return 0
}

func (h *rlsCacheH) Op(f []string) string {
	if f[0] == "new" {
		h.c = rls.VerifNewCache(int64(tcAtoi(f[1])))
		return "ok" + h.dump()
	}
	if h.c == nil {
		return "bad-op"
	}
	const path = "/s/m"
	key := func(s string) string { return "k" + s }
	res := "ok"
	switch f[0] {
	case "add":
		e := rls.VerifEntry{Size: int64(tcAtoi(f[2])), EarliestEvict: h.abs(tcAtoi(f[3])), Expiry: h.abs(tcAtoi(f[4])),
			BackoffExpiry: h.abs(tcAtoi(f[5])), HasBackoff: f[6] == "1"}
		if at := tcAtoi(f[7]); at != 0 && e.HasBackoff {
			e.Timer = time.AfterFunc(time.Until(h.abs(at)), func() {})
			settle()
		}
		bc, ok := h.c.Add(path, key(f[1]), e)
		res = fmt.Sprintf("bc=%d ok=%d", rlsB(bc), rlsB(ok))
	case "get":
		if sz, ok := h.c.Get(path, key(f[1])); ok {
			res = fmt.Sprintf("hit %d", sz)
		} else {
			res = "miss"
		}
	case "resize":
		res = fmt.Sprintf("bc=%d", rlsB(h.c.Resize(int64(tcAtoi(f[1])))))
	case "evict":
		res = fmt.Sprintf("ev=%d", rlsB(h.c.EvictExpired()))
	case "upd":
		if !h.c.UpdateSize(path, key(f[1]), int64(tcAtoi(f[2]))) {
			res = "absent"
		}
	case "rm":
		h.c.Remove(path, key(f[1]))
	case "rbo":
		res = fmt.Sprintf("r=%d", rlsB(h.c.ResetBackoff()))
	case "stop":
		h.c.Stop()
	case "sleep":
		time.Sleep(time.Duration(tcAtoi(f[1])) * time.Second)
		settle()
	default:
		return "bad-op"
	}
	return res + h.dump()
}

func (h *rlsCacheH) Close() {}
