package synct

import (
	"bytes"
	"context"
	"fmt"
	"io"
	"net"
	"sort"
	"strconv"
	"strings"
	"sync"
	"time"

	"golang.org/x/net/http2"
	"golang.org/x/net/http2/hpack"
	"google.golang.org/grpc/codes"
	"google.golang.org/grpc/internal/transport"
	"google.golang.org/grpc/mem"
	"google.golang.org/grpc/status"
)

// component s_srvord (C02, tie T2): a REAL http2Server (NewServerTransport, HandleStreams, loopy writer, flow control, deadline
// timers) over net.Pipe inside a synctest bubble. The peer is a raw x/net/http2 Framer driven by the ops; the application side
// is the harness calling ServerStream.Write / WriteStatus. After every op the bubble is settled and everything the server put
// on the wire since the previous op is reported, together with the application calls that completed in the meantime:
//
//	open <id> <timeoutMs|0> <mode>   peer HEADERS opening stream id; mode h = the handler just parks the stream for the ops,
//	                                  mode d = the handler waits for its context to end and then calls WriteStatus(DeadlineExceeded)
//	write <id> <dlen>                ServerStream.Write(5-byte prefix, dlen payload bytes) in its own goroutine (it may block)
//	status <id> <code>               ServerStream.WriteStatus in its own goroutine
//	pwu <id> <inc> | pset <iws> | prst <id> <code> | pdata <id> <n> <es>     frames from the peer
//	sleep <ms>                       advance virtual time
//
// Output: `F=<frames> WOK=<id:len,…> WERR=<id,…> SOK=<id,…> SERR=<id,…>` (writes / statuses that returned since the last op, in order).
// Message bytes are genByte(id, offset in the stream's byte stream) as in the T1 components.

func sGenByte(id uint32, p uint64) byte {
	x := (uint32(p) + id*7919) * 2654435761
	return byte(x >> 24)
}

func sFnv32(b []byte) uint32 {
	h := uint32(2166136261)
	for _, c := range b {
		h ^= uint32(c)
		h *= 16777619
	}
	return h
}

type srvOrd struct {
	mu      sync.Mutex
	stop    chan struct{}
	wch     chan func() // the peer's writes, executed by one writer goroutine (no mutex is ever held across a blocking pipe write)
	modeOf  map[uint32]string
	queue   map[uint32]chan func() // per stream: the handler's calls run one after the other, like a real handler goroutine
	st      transport.ServerTransport
	peer    net.Conn
	fr      *http2.Framer // peer side framer (writes); reads happen in the reader goroutine
	henc    *hpack.Encoder
	hbuf    bytes.Buffer
	frames  []string
	streams map[uint32]*transport.ServerStream
	wr      map[uint32]uint64
	wok     []string
	werr    []string
	sok     []string
	serr    []string
	ctx     context.Context
	cancel  context.CancelFunc
	rdDone  chan struct{}
	hsDone  chan struct{}
	err     string
}

func bi01(b bool) int {
	if b {
		return 1
	}
	return 0
}

func newSrvOrd() *srvOrd {
	s := &srvOrd{stop: make(chan struct{}), wch: make(chan func(), 4096), queue: map[uint32]chan func(){}, modeOf: map[uint32]string{}, streams: map[uint32]*transport.ServerStream{}, wr: map[uint32]uint64{}, rdDone: make(chan struct{}), hsDone: make(chan struct{})}
	s.ctx, s.cancel = context.WithCancel(context.Background())
	srvConn, peer := net.Pipe()
	s.peer = peer
	s.fr = http2.NewFramer(peer, peer)
	s.fr.SetMaxReadFrameSize(1<<24 - 1)
	s.henc = hpack.NewEncoder(&s.hbuf)
	// reader: decode everything the server writes
	go func() {
		defer close(s.rdDone)
		for {
			f, err := s.fr.ReadFrame()
			if err != nil {
				if err != io.EOF && err != io.ErrClosedPipe {
					s.mu.Lock()
					s.frames = append(s.frames, "ERR:"+strings.ReplaceAll(err.Error(), " ", "_"))
					s.mu.Unlock()
				}
				io.Copy(io.Discard, peer) // never let the server block on a peer that stopped reading
				return
			}
			s.record(f)
		}
	}()
	go func() {
		for {
			select {
			case f := <-s.wch:
				f()
			case <-s.stop:
				return
			}
		}
	}()
	// client preface + SETTINGS, then the server transport
	go func() {
		io.WriteString(peer, http2.ClientPreface)
		s.fr.WriteSettings()
	}()
	st, err := transport.NewServerTransport(srvConn, &transport.ServerConfig{MaxStreams: 1000, BufferPool: mem.DefaultBufferPool()})
	if err != nil {
		s.err = "newserver:" + err.Error()
		close(s.hsDone)
		return s
	}
	s.st = st
	go func() {
		defer close(s.hsDone)
		st.HandleStreams(s.ctx, func(str *transport.ServerStream) {
			id := transport.VerifServerStreamID(str)
			q := make(chan func(), 1024)
			s.mu.Lock()
			s.streams[id] = str
			s.queue[id] = q
			mode := s.modeOf[id]
			s.mu.Unlock()
			go func() {
				for f := range q {
					f()
				}
			}()
			if mode == "d" {
				go func() {
					<-str.Context().Done()
					s.enqueue(id, func() { s.doStatus(str, id, uint32(codes.DeadlineExceeded)) })
				}()
			}
		})
	}()
	settle()
	s.take() // the server's own SETTINGS / ACK / window updates of the handshake are not part of any case
	return s
}

func (s *srvOrd) record(f http2.Frame) {
	id := f.Header().StreamID
	var out string
	switch f := f.(type) {
	case *http2.DataFrame:
		out = fmt.Sprintf("D:%d:%d:%d:%08x", id, len(f.Data()), bi01(f.StreamEnded()), sFnv32(f.Data()))
	case *http2.HeadersFrame:
		out = fmt.Sprintf("H:%d:%d:%d:%d", id, bi01(f.StreamEnded()), bi01(f.HeadersEnded()), len(f.HeaderBlockFragment()))
	case *http2.ContinuationFrame:
		out = fmt.Sprintf("K:%d:%d:%d", id, bi01(f.HeadersEnded()), len(f.HeaderBlockFragment()))
	case *http2.RSTStreamFrame:
		out = fmt.Sprintf("R:%d:%d", id, uint32(f.ErrCode))
	case *http2.SettingsFrame:
		if f.IsAck() {
			out = "SA"
		} else {
			out = "S"
		}
	case *http2.PingFrame:
		out = fmt.Sprintf("P:%d", bi01(f.IsAck()))
		if !f.IsAck() {
			// answer BDP / keepalive pings like a real peer would (from a fresh goroutine: the reader must keep reading)
			d := f.Data
			s.send(func() { s.fr.WritePing(true, d) })
		}
	case *http2.WindowUpdateFrame:
		out = fmt.Sprintf("W:%d:%d", id, f.Increment)
	case *http2.GoAwayFrame:
		out = fmt.Sprintf("G:%d:%d", f.LastStreamID, uint32(f.ErrCode))
	default:
		out = fmt.Sprintf("X:%d:%d", f.Header().Type, id)
	}
	s.mu.Lock()
	s.frames = append(s.frames, out)
	s.mu.Unlock()
}

func (s *srvOrd) take() string {
	s.mu.Lock()
	defer s.mu.Unlock()
	j := func(l []string) string {
		if len(l) == 0 {
			return "-"
		}
		return strings.Join(l, ",")
	}
	// frames that do not belong to a stream's outbound data path are dropped here (SETTINGS acks, pings, window updates)
	var fr []string
	for _, f := range s.frames {
		if strings.HasPrefix(f, "D:") || strings.HasPrefix(f, "H:") || strings.HasPrefix(f, "K:") || strings.HasPrefix(f, "R:") || strings.HasPrefix(f, "ERR:") {
			fr = append(fr, f)
		}
	}
	sort.Strings(s.werr)
	out := fmt.Sprintf("F=%s WOK=%s WERR=%s SOK=%s SERR=%s", j(fr), j(s.wok), j(s.werr), j(s.sok), j(s.serr))
	s.frames, s.wok, s.werr, s.sok, s.serr = nil, nil, nil, nil, nil
	return out
}

func (s *srvOrd) Op(f []string) string {
	if s.err != "" {
		return "ERR " + s.err
	}
	u32 := func(x string) uint32 {
		n, err := strconv.ParseUint(x, 10, 32)
		if err != nil {
			panic("bad number " + x)
		}
		return uint32(n)
	}
	switch f[0] {
	case "open":
		id := u32(f[1])
		s.mu.Lock()
		s.modeOf[id] = f[3]
		s.wr[id] = 0
		s.mu.Unlock()
		s.hbuf.Reset()
		fields := []hpack.HeaderField{{Name: ":method", Value: "POST"}, {Name: ":scheme", Value: "http"}, {Name: ":path", Value: "/s/m"},
			{Name: ":authority", Value: "x"}, {Name: "content-type", Value: "application/grpc"}, {Name: "te", Value: "trailers"}}
		if ms := u32(f[2]); ms > 0 {
			fields = append(fields, hpack.HeaderField{Name: "grpc-timeout", Value: strconv.Itoa(int(ms)) + "m"})
		}
		for _, hf := range fields {
			s.henc.WriteField(hf)
		}
		blk := append([]byte(nil), s.hbuf.Bytes()...)
		s.send(func() { s.fr.WriteHeaders(http2.HeadersFrameParam{StreamID: id, BlockFragment: blk, EndHeaders: true}) })
	case "write":
		id := u32(f[1])
		n := int(u32(f[2]))
		s.mu.Lock()
		str := s.streams[id]
		off := s.wr[id]
		s.mu.Unlock()
		if str == nil {
			return "nostream " + s.take()
		}
		hdr := make([]byte, 5)
		for i := range hdr {
			hdr[i] = sGenByte(id, off+uint64(i))
		}
		data := make([]byte, n)
		for i := range data {
			data[i] = sGenByte(id, off+uint64(5+i))
		}
		// the bytes belong to the stream's byte stream only if Write accepts them: reserve the offsets now, give them back on error
		s.mu.Lock()
		s.wr[id] = off + uint64(5+n)
		s.mu.Unlock()
		s.enqueue(id, func() {
			bs := mem.BufferSlice{mem.SliceBuffer(data)}
			err := str.Write(hdr, bs, &transport.WriteOptions{})
			s.mu.Lock()
			if err == nil {
				s.wok = append(s.wok, fmt.Sprintf("%d:%d:%d", id, off, 5+n))
			} else {
				s.werr = append(s.werr, fmt.Sprintf("%d:%d", id, off))
			}
			s.mu.Unlock()
		})
	case "status":
		id := u32(f[1])
		s.mu.Lock()
		str := s.streams[id]
		s.mu.Unlock()
		if str == nil {
			return "nostream " + s.take()
		}
		code := u32(f[2])
		s.enqueue(id, func() { s.doStatus(str, id, code) })
	case "pwu":
		s.send(func() { s.fr.WriteWindowUpdate(u32(f[1]), u32(f[2])) })
	case "pset":
		s.send(func() { s.fr.WriteSettings(http2.Setting{ID: http2.SettingInitialWindowSize, Val: u32(f[1])}) })
	case "prst":
		s.send(func() { s.fr.WriteRSTStream(u32(f[1]), http2.ErrCode(u32(f[2]))) })
	case "pdata":
		s.send(func() { s.fr.WriteData(u32(f[1]), f[3] == "1", make([]byte, u32(f[2]))) })
	case "sleep":
		time.Sleep(time.Duration(u32(f[1])) * time.Millisecond)
	default:
		return "bad-op"
	}
	settle()
	return "ok " + s.take()
}

func (s *srvOrd) send(f func()) {
	select {
	case s.wch <- f:
	case <-s.stop:
	}
}

func (s *srvOrd) enqueue(id uint32, f func()) {
	s.mu.Lock()
	q := s.queue[id]
	s.mu.Unlock()
	if q != nil {
		q <- f
	}
}

func (s *srvOrd) doStatus(str *transport.ServerStream, id uint32, code uint32) {
	err := str.WriteStatus(status.New(codes.Code(code), "m"))
	s.mu.Lock()
	if err == nil {
		s.sok = append(s.sok, strconv.Itoa(int(id)))
	} else {
		s.serr = append(s.serr, strconv.Itoa(int(id)))
	}
	s.mu.Unlock()
}

func (s *srvOrd) Close() {
	s.mu.Lock()
	for _, q := range s.queue {
		close(q)
	}
	s.queue = map[uint32]chan func(){}
	s.mu.Unlock()
	if s.st != nil {
		s.st.Close(fmt.Errorf("verif: end of case"))
	}
	s.cancel()
	close(s.stop)
	s.peer.Close()
	<-s.rdDone
	<-s.hsDone
}

func init() {
	register("s_srvord", func() SHandler { return newSrvOrd() })
}
