package synct

import (
	"context"
	"errors"
	"fmt"
	"math"
	"net"
	"strconv"
	"strings"
	"sync"
	"time"

	"google.golang.org/grpc"
	"google.golang.org/grpc/balancer"
	"google.golang.org/grpc/connectivity"
	"google.golang.org/grpc/resolver"
	gbackoff "google.golang.org/grpc/backoff"
	"google.golang.org/grpc/credentials/insecure"
	ibackoff "google.golang.org/grpc/internal/backoff"
	"google.golang.org/grpc/test/bufconn"
)

// component s_backoff (C20): a real ClientConn (pick_first, one address) whose dialer is scripted
// (fail at once / hang until the connect deadline / connect to a real grpc.Server over bufconn);
// the subchannel's backoff strategy is the real internal/backoff.Exponential wrapped by a
// recorder. Every op prints the events that became visible, with virtual timestamps:
//
//	<t>:bo:<idx>:<d>   the subchannel called Backoff(idx) and got d
//	<t>:dial           the dialer was called
//	<t>:fail           the dialer returned an error
//	<t>:ok             the dialer returned a connection
//	st=<channel state>
type sBackoff struct {
	mu    sync.Mutex
	t0    time.Time
	ev    []string
	mode  string
	cc    *grpc.ClientConn
	srv   *grpc.Server
	lis   *bufconn.Listener
	conns []net.Conn
}

type recStrategy struct {
	s     *sBackoff
	inner ibackoff.Strategy
}

func (r recStrategy) Backoff(retries int) time.Duration {
	d := r.inner.Backoff(retries)
	r.s.log(fmt.Sprintf("bo:%d:%d", retries, int64(d)))
	return d
}

func (s *sBackoff) log(e string) {
	s.mu.Lock()
	s.ev = append(s.ev, strconv.FormatInt(int64(time.Since(s.t0)), 10)+":"+e)
	s.mu.Unlock()
}

func (s *sBackoff) flush() string {
	settle()
	s.mu.Lock()
	ev := s.ev
	s.ev = nil
	s.mu.Unlock()
	st := "-"
	if s.cc != nil {
		st = s.cc.GetState().String()
	}
	return strings.TrimSpace(strings.Join(ev, " ") + " st=" + st)
}

// boLB is a one-subchannel LB policy with pick_first's observable behaviour (connect at once, stay
// TRANSIENT_FAILURE and reconnect as soon as the subchannel is IDLE again after a failure, go IDLE when a
// READY connection is lost) that additionally lets the harness call SubConn.UpdateAddresses, the
// (deprecated but supported) API grpclb uses.
type boLB struct {
	cc     balancer.ClientConn
	sc     balancer.SubConn
	sticky bool
}

var boCurLB *boLB

type boLBB struct{}

func (boLBB) Name() string { return "verif_onesc" }
func (boLBB) Build(cc balancer.ClientConn, _ balancer.BuildOptions) balancer.Balancer {
	b := &boLB{cc: cc}
	boCurLB = b
	return b
}

type boPicker struct{ err error }

func (p boPicker) Pick(balancer.PickInfo) (balancer.PickResult, error) {
	return balancer.PickResult{}, p.err
}

func (b *boLB) UpdateClientConnState(s balancer.ClientConnState) error {
	if b.sc != nil || len(s.ResolverState.Addresses) == 0 {
		return nil
	}
	sc, err := b.cc.NewSubConn([]resolver.Address{{Addr: "backoff-0"}}, balancer.NewSubConnOptions{StateListener: b.onState})
	if err != nil {
		return err
	}
	b.sc = sc
	sc.Connect()
	return nil
}

func (b *boLB) onState(st balancer.SubConnState) {
	switch st.ConnectivityState {
	case connectivity.Connecting:
		if !b.sticky {
			b.cc.UpdateState(balancer.State{ConnectivityState: connectivity.Connecting, Picker: boPicker{balancer.ErrNoSubConnAvailable}})
		}
	case connectivity.TransientFailure:
		b.sticky = true
		b.cc.UpdateState(balancer.State{ConnectivityState: connectivity.TransientFailure, Picker: boPicker{st.ConnectionError}})
	case connectivity.Idle:
		if b.sticky {
			b.sc.Connect()
		} else {
			b.cc.UpdateState(balancer.State{ConnectivityState: connectivity.Idle, Picker: boPicker{balancer.ErrNoSubConnAvailable}})
		}
	case connectivity.Ready:
		b.sticky = false
		b.cc.UpdateState(balancer.State{ConnectivityState: connectivity.Ready, Picker: boPicker{balancer.ErrNoSubConnAvailable}})
	}
}
func (b *boLB) ResolverError(error)                                          {}
func (b *boLB) UpdateSubConnState(balancer.SubConn, balancer.SubConnState) {}
func (b *boLB) Close()                                                       {}
func (b *boLB) ExitIdle() {
	if b.sc != nil {
		b.sc.Connect()
	}
}

func init() {
	balancer.Register(boLBB{})
	register("s_backoff", func() SHandler { boCurLB = nil; return &sBackoff{t0: time.Now(), mode: "fail"} })
}

func (s *sBackoff) dial(ctx context.Context, _ string) (net.Conn, error) {
	s.mu.Lock()
	mode := s.mode
	s.mu.Unlock()
	s.log("dial")
	switch mode {
	case "ok":
		c, err := s.lis.DialContext(ctx)
		if err == nil {
			s.mu.Lock()
			s.conns = append(s.conns, c)
			s.mu.Unlock()
			s.log("ok")
			return c, nil
		}
		s.log("fail")
		return nil, err
	case "hang":
		<-ctx.Done()
		if ctx.Err() == context.Canceled {
			// the attempt was abandoned (UpdateAddresses restart, channel close), not failed: the
			// subchannel records no failure and arms no backoff for it
			return nil, ctx.Err()
		}
		s.log("fail")
		return nil, ctx.Err()
	}
	s.log("fail")
	return nil, errors.New("scripted dial failure")
}

func (s *sBackoff) Op(f []string) string {
	if s.cc == nil && f[0] != "new" && f[0] != "newlb" && f[0] != "newdef" {
		return "nochan" // (a shrunk case may have lost its `new`)
	}
	switch f[0] {
	case "new", "newlb", "newdef": // newlb = new with the one-subchannel policy below instead of pick_first; new <base ns> <mult float64 bits> <jitter float64 bits> <max ns> <minConnectTimeout ns> | newdef (default dial options)
		s.lis = bufconn.Listen(1 << 16)
		s.srv = grpc.NewServer()
		go s.srv.Serve(s.lis)
		opts := []grpc.DialOption{
			grpc.WithTransportCredentials(insecure.NewCredentials()),
			grpc.WithContextDialer(s.dial),
			grpc.WithIdleTimeout(0), // channel idleness would tear the subchannel down during long sleeps
		}
		if f[0] == "newlb" {
			opts = append(opts, grpc.WithDefaultServiceConfig(`{"loadBalancingConfig":[{"verif_onesc":{}}]}`))
		}
		if f[0] == "new" || f[0] == "newlb" {
			cfg := gbackoff.Config{
				BaseDelay:  time.Duration(boInt64(f[1])),
				Multiplier: math.Float64frombits(boUint64(f[2])),
				Jitter:     math.Float64frombits(boUint64(f[3])),
				MaxDelay:   time.Duration(boInt64(f[4])),
			}
			opts = append(opts, grpc.WithConnectParams(grpc.ConnectParams{Backoff: cfg, MinConnectTimeout: time.Duration(boInt64(f[5]))}))
		}
		opts = append(opts, grpc.VerifWrapBackoff(func(in ibackoff.Strategy) ibackoff.Strategy { return recStrategy{s, in} }))
		cc, err := grpc.NewClient("passthrough:///backoff", opts...)
		if err != nil {
			return "err " + err.Error()
		}
		s.cc = cc
		return s.flush()
	case "mode":
		s.mu.Lock()
		s.mode = f[1]
		s.mu.Unlock()
		return s.flush()
	case "connect":
		s.cc.Connect()
		return s.flush()
	case "sleep":
		time.Sleep(time.Duration(boInt64(f[1])))
		return s.flush()
	case "resetbo":
		s.cc.ResetConnectBackoff()
		return s.flush()
	case "addrs": // the LB policy calls SubConn.UpdateAddresses with the one-element list [address k]
		lb := boCurLB
		if lb == nil || lb.sc == nil {
			return "nolb"
		}
		lb.sc.UpdateAddresses([]resolver.Address{{Addr: "backoff-" + f[1]}})
		return s.flush()
	case "kill":
		s.mu.Lock()
		cs := s.conns
		s.conns = nil
		s.mu.Unlock()
		for _, c := range cs {
			c.Close()
		}
		return s.flush()
	}
	return "bad-op"
}

func (s *sBackoff) Close() {
	if s.cc != nil {
		s.cc.Close()
	}
	if s.srv != nil {
		s.srv.Stop()
	}
	if s.lis != nil {
		s.lis.Close()
	}
}

func boInt64(x string) int64 {
	n, err := strconv.ParseInt(x, 10, 64)
	if err != nil {
		panic("bad int64 " + x)
	}
	return n
}

func boUint64(x string) uint64 {
	n, err := strconv.ParseUint(x, 10, 64)
	if err != nil {
		panic("bad uint64 " + x)
	}
	return n
}
