package synct

import (
	"fmt"
	"strconv"

	"google.golang.org/grpc/connectivity"
)

// helpers shared by the load-balancing components (s_epshard, s_gsw, s_pickfirst)

func lbState(s string) connectivity.State {
	switch s {
	case "I":
		return connectivity.Idle
	case "C":
		return connectivity.Connecting
	case "R":
		return connectivity.Ready
	case "T":
		return connectivity.TransientFailure
	case "S":
		return connectivity.Shutdown
	}
	panic("bad state " + s)
}

func lbLetter(s connectivity.State) string {
	switch s {
	case connectivity.Idle:
		return "I"
	case connectivity.Connecting:
		return "C"
	case connectivity.Ready:
		return "R"
	case connectivity.TransientFailure:
		return "T"
	case connectivity.Shutdown:
		return "S"
	}
	return fmt.Sprintf("?%d", int(s))
}

func lbAtoi(s string) int {
	n, err := strconv.Atoi(s)
	if err != nil {
		panic("bad int " + s)
	}
	return n
}

func lbJoin(l []string) string {
	if len(l) == 0 {
		return "-"
	}
	r := l[0]
	for _, x := range l[1:] {
		r += "," + x
	}
	return r
}
