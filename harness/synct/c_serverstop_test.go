package synct

// component s_serverstop (C25, tie T2): a real grpc.Server with MaxConcurrentStreams(N) and real
// ClientConns over bufconn; handlers log entry/exit and return only when told.
//
//	serve <N> [wait] [w<k>]  start the server (wait = grpc.WaitForHandlers(true), w<k> = grpc.NumStreamWorkers(k))
//	dial c<i>             new ClientConn i, connected
//	start c<i> r<j>       begin RPC j on conn i (client goroutine: NewStream, then RecvMsg until the end)
//	cancel r<j>           the client cancels RPC j
//	finish r<j> <code>    handler j returns status <code> (0 = OK)
//	gstop | stop          call GracefulStop / Stop on a goroutine
//	rawdial p<i>          a hand-written HTTP/2 client connection i: it acks SETTINGS and PINGs but IGNORES
//	                      GOAWAY and the MAX_CONCURRENT_STREAMS setting (a peer that does not cooperate, or
//	                      whose frames cross the server's on the wire)
//	rawstart p<i> r<j>    that peer opens a new stream for RPC j (HEADERS only); its result is the
//	                      grpc-status of the trailers, RST (RST_STREAM) or EOF (connection closed)
//
// After every op the bubble is settled and the whole observable state is printed:
//
//	run=<handlers entered and not returned, entry order> ctx=<running handlers whose ctx is cancelled>
//	cli=<r<j>:<CODE>,… results the clients have seen, by j> stop=<none|pending|returned>
import (
	"context"
	"fmt"
	"os"
	"sort"
	"strings"
	"sync"
	"sync/atomic"
	"time"

	"bytes"
	"io"

	"golang.org/x/net/http2"
	"golang.org/x/net/http2/hpack"
	"google.golang.org/grpc"
	"google.golang.org/grpc/codes"
	"google.golang.org/grpc/credentials/insecure"
	"google.golang.org/grpc/status"
	"google.golang.org/grpc/test/bufconn"
	"net"
)

type ssRPC struct {
	id     string
	cancel context.CancelFunc
	finish chan codes.Code
	hctx   context.Context // the handler's context (nil until the handler was entered)
}

// ssRaw is a raw HTTP/2 client connection that ignores GOAWAY.
type ssRaw struct {
	conn   net.Conn
	wmu    sync.Mutex
	fr     *http2.Framer
	henc   *hpack.Encoder
	hbuf   bytes.Buffer
	nextID uint32
	open   map[uint32]string // stream id -> rpc id, streams without a result
	done   chan struct{}
}

func (s *serverstopH) rawResult(id, res string) {
	s.mu.Lock()
	if _, ok := s.cli[id]; !ok {
		s.cli[id] = res
	}
	s.mu.Unlock()
}

func (s *serverstopH) rawRead(r *ssRaw) {
	defer close(r.done)
	dec := hpack.NewDecoder(4096, nil)
	for {
		f, err := r.fr.ReadFrame()
		if err != nil {
			r.wmu.Lock()
			for _, id := range r.open {
				s.rawResult(id, "EOF")
			}
			r.open = map[uint32]string{}
			r.wmu.Unlock()
			return
		}
		switch f := f.(type) {
		case *http2.SettingsFrame:
			if !f.IsAck() {
				r.wmu.Lock()
				r.fr.WriteSettingsAck()
				r.wmu.Unlock()
			}
		case *http2.PingFrame:
			if !f.IsAck() {
				r.wmu.Lock()
				r.fr.WritePing(true, f.Data)
				r.wmu.Unlock()
			}
		case *http2.HeadersFrame:
			hs, err := dec.DecodeFull(f.HeaderBlockFragment())
			if err != nil || !f.StreamEnded() {
				continue
			}
			st := "?"
			for _, h := range hs {
				if h.Name == "grpc-status" {
					var c int
					fmt.Sscan(h.Value, &c)
					st = ssCode(status.Error(codes.Code(c), ""))
					if c == 0 {
						st = "OK"
					}
				}
			}
			r.wmu.Lock()
			id, ok := r.open[f.StreamID]
			delete(r.open, f.StreamID)
			r.wmu.Unlock()
			if ok {
				s.rawResult(id, st)
			}
		case *http2.RSTStreamFrame:
			r.wmu.Lock()
			id, ok := r.open[f.StreamID]
			delete(r.open, f.StreamID)
			r.wmu.Unlock()
			if ok {
				s.rawResult(id, "RST")
			}
		}
	}
}

type serverstopH struct {
	raws    map[string]*ssRaw
	mu      sync.Mutex
	srv     *grpc.Server
	lis     *bufconn.Listener
	served  chan struct{}
	conns   map[string]*grpc.ClientConn
	rpcs    map[string]*ssRPC
	running []string
	cli     map[string]string
	stop    string
	wg      sync.WaitGroup
}

// Watchdog (a goroutine OUTSIDE the bubble, so it sees real time): an op that makes no progress for
// 25 s of real time means some goroutine of the bubble is blocked on a sync.Mutex (not a durable
// block, synctest.Wait never returns); the process exits and the check attributes a CRASH to the case.
var (
	ssBusy atomic.Bool
	ssOps  atomic.Int64
)

func init() {
	go func() {
		last, since := int64(-1), time.Now()
		for {
			time.Sleep(time.Second)
			if !ssBusy.Load() {
				last, since = -1, time.Now()
				continue
			}
			if n := ssOps.Load(); n != last {
				last, since = n, time.Now()
				continue
			}
			if time.Since(since) > 25*time.Second {
				fmt.Fprintln(os.Stderr, "s_serverstop watchdog: an op did not settle within 25s of real time (goroutine blocked on a sync.Mutex?)")
				os.Exit(3)
			}
		}
	}()
	register("s_serverstop", func() SHandler {
		return &serverstopH{raws: map[string]*ssRaw{}, conns: map[string]*grpc.ClientConn{}, rpcs: map[string]*ssRPC{}, cli: map[string]string{}, stop: "none"}
	})
}

func (s *serverstopH) rpc(id string) *ssRPC {
	s.mu.Lock()
	defer s.mu.Unlock()
	r := s.rpcs[id]
	if r == nil {
		r = &ssRPC{id: id, finish: make(chan codes.Code, 1)}
		s.rpcs[id] = r
	}
	return r
}

func (s *serverstopH) handler(_ any, stream grpc.ServerStream) error {
	m, _ := grpc.Method(stream.Context())
	id := strings.TrimPrefix(m, "/s/")
	r := s.rpc(id)
	s.mu.Lock()
	r.hctx = stream.Context()
	s.running = append(s.running, id)
	s.mu.Unlock()
	code := <-r.finish
	s.mu.Lock()
	for i, x := range s.running {
		if x == id {
			s.running = append(s.running[:i:i], s.running[i+1:]...)
			break
		}
	}
	s.mu.Unlock()
	if code == codes.OK {
		return nil
	}
	return status.Error(code, "told to")
}

func ssCode(err error) string {
	if err == nil {
		return "OK"
	}
	c := status.Code(err)
	switch c {
	case codes.OK:
		return "OK"
	case codes.Canceled:
		return "CANCELLED"
	case codes.Unavailable:
		return "UNAVAILABLE"
	case codes.Internal:
		return "INTERNAL"
	case codes.Unknown:
		return "UNKNOWN"
	case codes.NotFound:
		return "NOT_FOUND"
	case codes.DeadlineExceeded:
		return "DEADLINE_EXCEEDED"
	}
	return fmt.Sprintf("CODE_%d", int(c))
}

func (s *serverstopH) Op(f []string) string {
	ssOps.Add(1)
	ssBusy.Store(true)
	defer ssBusy.Store(false)
	switch {
	case f[0] == "serve" && len(f) >= 2 && s.srv == nil:
		var n uint32
		fmt.Sscan(f[1], &n)
		opts := []grpc.ServerOption{grpc.MaxConcurrentStreams(n), grpc.UnknownServiceHandler(s.handler)}
		for _, o := range f[2:] {
			switch {
			case o == "wait":
				opts = append(opts, grpc.WaitForHandlers(true))
			case len(o) > 1 && o[0] == 'w':
				var k uint32
				fmt.Sscan(o[1:], &k)
				opts = append(opts, grpc.NumStreamWorkers(k))
			default:
				return "bad-op"
			}
		}
		s.srv = grpc.NewServer(opts...)
		s.lis = bufconn.Listen(1 << 16)
		s.served = make(chan struct{})
		go func() { s.srv.Serve(s.lis); close(s.served) }()
	case f[0] == "dial" && len(f) == 2 && s.srv != nil:
		lis := s.lis
		cc, err := grpc.NewClient("passthrough:///bufnet",
			grpc.WithContextDialer(func(ctx context.Context, _ string) (net.Conn, error) { return lis.DialContext(ctx) }),
			grpc.WithTransportCredentials(insecure.NewCredentials()))
		if err != nil {
			return "dialerr"
		}
		s.conns[f[1]] = cc
		cc.Connect()
	case f[0] == "start" && len(f) == 3 && s.conns[f[1]] != nil:
		cc := s.conns[f[1]]
		r := s.rpc(f[2])
		ctx, cancel := context.WithTimeout(context.Background(), 1000*time.Hour)
		r.cancel = cancel
		s.wg.Add(1)
		go func() {
			defer s.wg.Done()
			defer cancel()
			var err error
			cs, err := cc.NewStream(ctx, &grpc.StreamDesc{ClientStreams: true, ServerStreams: true}, "/s/"+r.id)
			if err == nil {
				var b []byte
				err = cs.RecvMsg(&b)
				if err == nil {
					err = status.Error(codes.Internal, "unexpected message")
				}
				if err.Error() == "EOF" {
					err = nil
				}
			}
			s.mu.Lock()
			s.cli[r.id] = ssCode(err)
			s.mu.Unlock()
		}()
	case f[0] == "rawdial" && len(f) == 2 && s.srv != nil:
		conn, err := s.lis.DialContext(context.Background())
		if err != nil {
			s.raws[f[1]] = nil
			break
		}
		r := &ssRaw{conn: conn, nextID: 1, open: map[uint32]string{}, done: make(chan struct{})}
		io.WriteString(conn, http2.ClientPreface)
		r.fr = http2.NewFramer(conn, conn)
		r.fr.SetMaxReadFrameSize(1 << 20)
		r.henc = hpack.NewEncoder(&r.hbuf)
		r.fr.WriteSettings()
		s.raws[f[1]] = r
		go s.rawRead(r)
	case f[0] == "rawstart" && len(f) == 3:
		r, ok := s.raws[f[1]]
		if !ok {
			return "bad-op"
		}
		s.rpc(f[2])
		if r == nil {
			s.rawResult(f[2], "EOF")
			break
		}
		r.wmu.Lock()
		id := r.nextID
		r.nextID += 2
		r.open[id] = f[2]
		r.hbuf.Reset()
		for _, kv := range [][2]string{{":method", "POST"}, {":scheme", "http"}, {":path", "/s/" + f[2]}, {":authority", "verif.test"},
			{"content-type", "application/grpc"}, {"te", "trailers"}} {
			r.henc.WriteField(hpack.HeaderField{Name: kv[0], Value: kv[1]})
		}
		err := r.fr.WriteHeaders(http2.HeadersFrameParam{StreamID: id, BlockFragment: r.hbuf.Bytes(), EndHeaders: true})
		if err != nil {
			delete(r.open, id)
		}
		r.wmu.Unlock()
		if err != nil {
			s.rawResult(f[2], "EOF")
		}
	case f[0] == "cancel" && len(f) == 2 && s.rpcs[f[1]] != nil && s.rpcs[f[1]].cancel != nil:
		s.rpcs[f[1]].cancel()
	case f[0] == "finish" && len(f) == 3 && s.rpcs[f[1]] != nil:
		var c int
		fmt.Sscan(f[2], &c)
		select {
		case s.rpcs[f[1]].finish <- codes.Code(c):
		default:
		}
	case (f[0] == "gstop" || f[0] == "stop") && s.srv != nil:
		s.mu.Lock()
		s.stop = "pending"
		s.mu.Unlock()
		graceful := f[0] == "gstop"
		s.wg.Add(1)
		go func() {
			defer s.wg.Done()
			if graceful {
				s.srv.GracefulStop()
			} else {
				s.srv.Stop()
			}
			s.mu.Lock()
			s.stop = "returned"
			s.mu.Unlock()
		}()
	default:
		return "bad-op"
	}
	settle()
	if len(s.raws) > 0 {
		// a peer that ignores GOAWAY does not close its side: the server closes such a connection
		// one (virtual) second after its writer finished
		time.Sleep(1500 * time.Millisecond)
		settle()
	}
	return s.show()
}

func (s *serverstopH) show() string {
	s.mu.Lock()
	defer s.mu.Unlock()
	run := append([]string(nil), s.running...)
	var ctxc []string
	for _, id := range run {
		if r := s.rpcs[id]; r != nil && r.hctx != nil && r.hctx.Err() != nil {
			ctxc = append(ctxc, id)
		}
	}
	var cl []string
	for id, c := range s.cli {
		cl = append(cl, id+":"+c)
	}
	sort.Slice(cl, func(i, j int) bool {
		var a, b int
		fmt.Sscanf(cl[i], "r%d", &a)
		fmt.Sscanf(cl[j], "r%d", &b)
		return a < b
	})
	j := func(l []string) string {
		if len(l) == 0 {
			return "-"
		}
		return strings.Join(l, ",")
	}
	return "run=" + j(run) + " ctx=" + j(ctxc) + " cli=" + j(cl) + " stop=" + s.stop
}

func (s *serverstopH) Close() {
	// let everything finish: cancel clients, release handlers, stop the server
	s.mu.Lock()
	for _, r := range s.rpcs {
		if r.cancel != nil {
			r.cancel()
		}
		select {
		case r.finish <- codes.OK:
		default:
		}
	}
	s.mu.Unlock()
	settle()
	for _, cc := range s.conns {
		cc.Close()
	}
	for _, r := range s.raws {
		if r != nil {
			r.conn.Close()
			<-r.done
		}
	}
	if s.srv != nil {
		s.srv.Stop()
		<-s.served
	}
	// handlers that start late (a stream dispatched after everything else) still need their token
	for i := 0; i < 8; i++ {
		settle()
		s.mu.Lock()
		for _, r := range s.rpcs {
			select {
			case r.finish <- codes.OK:
			default:
			}
		}
		s.mu.Unlock()
	}
	s.wg.Wait()
}
