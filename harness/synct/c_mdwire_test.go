package synct

// component s_mdwire (C09): one real RPC per op, with metadata in both directions.
//
//	rpc|probe|probeae <path> <md> <added> <hapi> <hmd> <tapi> <tmd> <code>   (probe* = rpc; only the monitor differs)
//
//	path   u  client Invoke on the unary method U         (header/trailer via grpc.Header/grpc.Trailer)
//	       b0 client stream on B, handler sends no message (trailers-only unless it sends headers)
//	       b1 client stream on B, handler sends one message (headers + data + trailers)
//	md     `-` (no NewOutgoingContext) | keyhex=v,v;keyhex=v  a RAW metadata.MD literal handed to
//	       metadata.NewOutgoingContext (keys exactly as written, "~" = empty value, `keyhex=` = no values)
//	added  `-` | keyhex=valhex;keyhex=valhex  one metadata.AppendToOutgoingContext call with these
//	       pairs in this order (keys as written: AppendToOutgoingContext lower-cases them)
//	hapi   none | ss.set | ss.send | ctx.set | ctx.send   how the handler publishes header md <hmd>
//	       (ServerStream.SetHeader / SendHeader, or grpc.SetHeader / grpc.SendHeader on the context)
//	tapi   none | ss.set | ctx.set                        same for trailer md <tmd>
//	code   status code the handler returns
//
// output: st=<ok|code> in=<md the handler saw via FromIncomingContext | ! if it never ran>
//
//	hdr=<client Header()> trl=<client Trailer()> h=<ok|code of the header call|-> t=<ok|code|->
//	ae=<hex of the grpc-accept-encoding value the client transport sends: the compressors registered
//	    in THIS binary (grpcutil.RegisteredCompressors(), read when the transport is created); `-` = none>
//
// Long-lived metadata objects and several header/trailer calls per RPC (the handler's own MD values
// must never be retained or modified by the server, and calls accumulate like metadata.Join):
//
//	pool <i> <md>                         (re)creates the long-lived metadata.MD object number i -> ok
//	rpcm <path> <hcalls> <tcalls> <code>  one RPC without client metadata whose handler makes the listed
//	    calls in order: first the header calls, then the trailer calls, then (b1 / unary OK) the reply.
//	    calls: `-` | api@ref|api@ref…   api as hapi/tapi above; ref = p<i> (THE pool object i, the same
//	    Go map in every RPC that names it) or l<md> (a fresh literal)
//	    -> st= in= hdr= trl= h=<r1,r2…|-> t=<r1,…|-> ae= pool=<md of object 0>/<md of object 1>/… (after the RPC)
//
// In printed metadata the user-agent value "grpc-go/<grpc.Version>" is shown as `5541` ("UA").

import (
	"context"
	"strconv"
	"strings"

	"google.golang.org/grpc"
	"google.golang.org/grpc/codes"
	"google.golang.org/grpc/internal/grpcutil"
	"google.golang.org/grpc/metadata"
	"google.golang.org/grpc/status"
)

type mdwireComp struct {
	e    *e2e
	pool map[int]metadata.MD
}

func init() {
	register("s_mdwire", func() SHandler { return &mdwireComp{e: newE2E(nil, nil), pool: map[int]metadata.MD{}} })
}

func canonUA(md metadata.MD) metadata.MD {
	if md == nil {
		return nil
	}
	out := metadata.MD{}
	for k, vs := range md {
		c := make([]string, len(vs))
		for i, v := range vs {
			if k == "user-agent" && v == "grpc-go/"+grpc.Version {
				v = "UA"
			}
			c[i] = v
		}
		out[k] = c
	}
	return out
}

func errCode(err error) string {
	if err == nil {
		return "ok"
	}
	return strconv.FormatUint(uint64(uint32(status.Code(err))), 10)
}

// parsePairs parses keyhex=valhex;… into a flat kv list.
func parsePairs(s string) []string {
	if s == "-" || s == "" {
		return nil
	}
	var kv []string
	for _, p := range strings.Split(s, ";") {
		x := strings.SplitN(p, "=", 2)
		v := ""
		if len(x) == 2 && x[1] != "~" {
			v = unhx(x[1])
		}
		kv = append(kv, unhx(x[0]), v)
	}
	return kv
}

type mdCall struct {
	api string
	md  metadata.MD
}

// parseCalls resolves api@ref|api@ref…; p<i> refers to THE pool object, l<md> parses a fresh MD.
func (c *mdwireComp) parseCalls(s string) ([]mdCall, bool) {
	if s == "-" {
		return nil, true
	}
	var out []mdCall
	for _, p := range strings.Split(s, "|") {
		x := strings.SplitN(p, "@", 2)
		if len(x) != 2 || len(x[1]) == 0 {
			return nil, false
		}
		var md metadata.MD
		switch x[1][0] {
		case 'p':
			i, err := strconv.Atoi(x[1][1:])
			if err != nil {
				return nil, false
			}
			m, ok := c.pool[i]
			if !ok {
				return nil, false
			}
			md = m
		case 'l':
			md = parseMD(x[1][1:])
		default:
			return nil, false
		}
		out = append(out, mdCall{x[0], md})
	}
	return out, true
}

func (c *mdwireComp) showPool() string {
	n := 0
	for i := range c.pool {
		if i+1 > n {
			n = i + 1
		}
	}
	if n == 0 {
		return "-"
	}
	parts := make([]string, n)
	for i := 0; i < n; i++ {
		if m, ok := c.pool[i]; ok {
			parts[i] = showMD(m, nil)
		} else {
			parts[i] = "?"
		}
	}
	return strings.Join(parts, "/")
}

func (c *mdwireComp) opRpcm(f []string) string {
	path := f[1]
	hcalls, ok1 := c.parseCalls(f[2])
	tcalls, ok2 := c.parseCalls(f[3])
	code64, err := strconv.ParseUint(f[4], 10, 32)
	if !ok1 || !ok2 || err != nil {
		return "bad-op"
	}
	seen := "!"
	var hres, tres []string
	c.e.behave = func(h *hctx) error {
		in, ok := metadata.FromIncomingContext(h.ctx)
		if !ok {
			seen = "none"
		} else {
			seen = showMD(canonUA(in), nil)
		}
		if h.ss != nil {
			for {
				var m rawMsg
				if err := h.ss.RecvMsg(&m); err != nil {
					break
				}
			}
		}
		for _, cl := range hcalls {
			r := "nostream"
			switch cl.api {
			case "ss.set":
				if h.ss != nil {
					r = errCode(h.ss.SetHeader(cl.md))
				}
			case "ss.send":
				if h.ss != nil {
					r = errCode(h.ss.SendHeader(cl.md))
				}
			case "ctx.set":
				r = errCode(grpc.SetHeader(h.ctx, cl.md))
			case "ctx.send":
				r = errCode(grpc.SendHeader(h.ctx, cl.md))
			default:
				r = "badapi"
			}
			hres = append(hres, r)
		}
		for _, cl := range tcalls {
			r := "nostream"
			switch cl.api {
			case "ss.set":
				if h.ss != nil {
					h.ss.SetTrailer(cl.md)
					r = "ok"
				}
			case "ctx.set":
				r = errCode(grpc.SetTrailer(h.ctx, cl.md))
			default:
				r = "badapi"
			}
			tres = append(tres, r)
		}
		if h.ss != nil && path == "b1" {
			if err := h.ss.SendMsg(&rawMsg{b: []byte("r")}); err != nil {
				return status.Error(codes.DataLoss, "harness: SendMsg: "+err.Error())
			}
		}
		if code64 == 0 {
			return nil
		}
		return status.Error(codes.Code(uint32(code64)), "s")
	}
	var r clientResult
	switch path {
	case "u":
		r = c.e.unary(context.Background(), "U")
	case "b0", "b1":
		r = c.e.stream(context.Background())
	default:
		return "bad-op"
	}
	settle()
	j := func(l []string) string {
		if len(l) == 0 {
			return "-"
		}
		return strings.Join(l, ",")
	}
	return "st=" + errCode(r.err) + " in=" + seen + " hdr=" + showMD(canonUA(r.header), nil) + " trl=" + showMD(canonUA(r.trailer), nil) +
		" h=" + j(hres) + " t=" + j(tres) + " ae=" + hx(grpcutil.RegisteredCompressors()) + " pool=" + c.showPool()
}

func (c *mdwireComp) Op(f []string) string {
	if f[0] == "pool" && len(f) == 3 {
		i, err := strconv.Atoi(f[1])
		if err != nil || i < 0 || i > 7 {
			return "bad-op"
		}
		c.pool[i] = parseMD(f[2])
		return "ok"
	}
	if f[0] == "rpcm" && len(f) == 5 {
		return c.opRpcm(f)
	}
	if (f[0] != "rpc" && f[0] != "probe" && f[0] != "probeae") || len(f) != 9 {
		return "bad-op"
	}
	path, hapi, tapi := f[1], f[4], f[6]
	hmd, tmd := parseMD(f[5]), parseMD(f[7])
	code64, err := strconv.ParseUint(f[8], 10, 32)
	if err != nil {
		return "bad-op"
	}
	ctx := context.Background()
	if f[2] != "-" {
		ctx = metadata.NewOutgoingContext(ctx, parseMD(f[2]))
	}
	if kv := parsePairs(f[3]); kv != nil {
		ctx = metadata.AppendToOutgoingContext(ctx, kv...)
	}
	seen := "!"
	hres, tres := "-", "-"
	c.e.behave = func(h *hctx) error {
		in, ok := metadata.FromIncomingContext(h.ctx)
		if !ok {
			seen = "none"
		} else {
			seen = showMD(canonUA(in), nil)
		}
		if h.ss != nil {
			for {
				var m rawMsg
				if err := h.ss.RecvMsg(&m); err != nil {
					break
				}
			}
		}
		switch tapi {
		case "ss.set":
			if h.ss == nil {
				tres = "nostream"
			} else {
				h.ss.SetTrailer(tmd)
				tres = "ok"
			}
		case "ctx.set":
			tres = errCode(grpc.SetTrailer(h.ctx, tmd))
		}
		switch hapi {
		case "ss.set":
			if h.ss == nil {
				hres = "nostream"
			} else {
				hres = errCode(h.ss.SetHeader(hmd))
			}
		case "ss.send":
			if h.ss == nil {
				hres = "nostream"
			} else {
				hres = errCode(h.ss.SendHeader(hmd))
			}
		case "ctx.set":
			hres = errCode(grpc.SetHeader(h.ctx, hmd))
		case "ctx.send":
			hres = errCode(grpc.SendHeader(h.ctx, hmd))
		}
		if h.ss != nil && path == "b1" {
			if err := h.ss.SendMsg(&rawMsg{b: []byte("r")}); err != nil {
				return status.Error(codes.DataLoss, "harness: SendMsg: "+err.Error())
			}
		}
		if code64 == 0 {
			return nil
		}
		return status.Error(codes.Code(uint32(code64)), "s")
	}
	var r clientResult
	switch path {
	case "u":
		r = c.e.unary(ctx, "U")
	case "b0", "b1":
		r = c.e.stream(ctx)
	default:
		return "bad-op"
	}
	settle()
	return "st=" + errCode(r.err) + " in=" + seen + " hdr=" + showMD(canonUA(r.header), nil) + " trl=" + showMD(canonUA(r.trailer), nil) + " h=" + hres + " t=" + tres + " ae=" + hx(grpcutil.RegisteredCompressors())
}

func (c *mdwireComp) Close() { c.e.close() }
