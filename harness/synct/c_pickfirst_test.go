package synct

import (
	"errors"
	"fmt"
	"sort"
	"strings"
	"sync"
	"time"

	"google.golang.org/grpc/balancer"
	"google.golang.org/grpc/balancer/pickfirst"
	"google.golang.org/grpc/connectivity"
	"google.golang.org/grpc/experimental/stats"
	"google.golang.org/grpc/internal"
	"google.golang.org/grpc/internal/envconfig"
	istats "google.golang.org/grpc/internal/stats"
	"google.golang.org/grpc/resolver"
)

// component s_pickfirst (C34): the real pick_first balancer, recording ClientConn and SubConns.
// Ops and answers: see lean/GrpcModel/Driver/S_pickfirst.lean.

// pfTimer is one happy-eyeballs timer: like time.AfterFunc, a callback that has been started cannot be stopped any
// more — `late` runs the callback of a timer that was stopped before its callback ran.
type pfTimer struct {
	f       func()
	stopped bool
	ran     bool
}

type pfHarness struct {
	timers  []*pfTimer
	bal     balancer.Balancer
	mu      sync.Mutex
	ev      []string
	scs     map[int]*pfSC
	serial  int
	back    map[string]string // address string -> protocol token
	picker  balancer.Picker
	restore []func()
	closed  bool
}

type pfSC struct {
	balancer.SubConn
	h        *pfHarness
	id       int
	listener func(balancer.SubConnState)
	health   func(balancer.SubConnState)
	shut     bool
	raw      connectivity.State
}

func (sc *pfSC) Connect()                           { sc.h.rec(fmt.Sprintf("conn%d", sc.id)) }
func (sc *pfSC) Shutdown()                          { sc.shut = true; sc.h.rec(fmt.Sprintf("sd%d", sc.id)) }
func (sc *pfSC) UpdateAddresses([]resolver.Address) {}
func (sc *pfSC) RegisterHealthListener(l func(balancer.SubConnState)) {
	sc.health = l
	sc.h.rec(fmt.Sprintf("hl%d", sc.id))
}
func (sc *pfSC) GetOrBuildProducer(balancer.ProducerBuilder) (balancer.Producer, func()) {
	return nil, func() {}
}

func (h *pfHarness) rec(s string) {
	h.mu.Lock()
	h.ev = append(h.ev, s)
	h.mu.Unlock()
}

type pfCC struct {
	internal.EnforceClientConnEmbedding
	h *pfHarness
}

func (cc *pfCC) NewSubConn(a []resolver.Address, o balancer.NewSubConnOptions) (balancer.SubConn, error) {
	h := cc.h
	h.serial++
	sc := &pfSC{h: h, id: h.serial, listener: o.StateListener}
	h.scs[sc.id] = sc
	tok := "?"
	if len(a) == 1 {
		tok = h.back[a[0].Addr]
	}
	h.rec(fmt.Sprintf("new%d:%s", sc.id, tok))
	return sc, nil
}
func (cc *pfCC) RemoveSubConn(balancer.SubConn)                       {}
func (cc *pfCC) UpdateAddresses(balancer.SubConn, []resolver.Address) {}
func (cc *pfCC) ResolveNow(resolver.ResolveNowOptions)                {}
func (cc *pfCC) Target() string                                       { return "verif" }
func (cc *pfCC) MetricsRecorder() stats.MetricsRecorder               { return istats.NewMetricsRecorderList(nil) }
func (cc *pfCC) UpdateState(s balancer.State) {
	h := cc.h
	h.picker = s.Picker
	kind, sc, err := pickfirst.VerifPickerInfo(s.Picker)
	d := "?"
	switch {
	case kind == "idle":
		d = "idle"
	case kind == "picker" && sc != nil:
		d = fmt.Sprintf("sc%d", sc.(*pfSC).id)
	case kind == "picker" && err == balancer.ErrNoSubConnAvailable:
		d = "queue"
	case kind == "picker" && err == nil:
		d = "err0"
	case kind == "picker" && strings.HasPrefix(err.Error(), "name resolver error"):
		d = "reserr"
	case kind == "picker" && strings.HasPrefix(err.Error(), "pickfirst: health check failure: "):
		d = "herr" + pfErrTag(strings.TrimPrefix(err.Error(), "pickfirst: health check failure: "))
	case kind == "picker":
		d = "err" + pfErrTag(err.Error())
	}
	h.rec(fmt.Sprintf("push:%s:%s", lbLetter(s.ConnectivityState), d))
}

// errors are "e<tag>"; a nil ConnectionError prints as %v of nil inside the health message
func pfErrTag(s string) string {
	if strings.HasPrefix(s, "e") {
		return s[1:]
	}
	return "0"
}

func pfErr(tag string) error {
	if tag == "0" {
		return nil
	}
	return errors.New("e" + tag)
}

func pfRender(tok string) string {
	p := strings.Split(tok, ".")
	n := lbAtoi(p[1])
	switch p[0] {
	case "4":
		if n >= 100 {
			return fmt.Sprintf("[::ffff:10.0.%d.%d]:80", (n-100)/256, (n-100)%256)
		}
		return fmt.Sprintf("10.0.%d.%d:80", n/256, n%256)
	case "6":
		return fmt.Sprintf("[fd00::%x]:80", n)
	default:
		if n%2 == 0 {
			return fmt.Sprintf("host%d", n)
		}
		return fmt.Sprintf("host%d:80", n)
	}
}

func init() {
	register("s_pickfirst", func() SHandler {
		h := &pfHarness{scs: map[int]*pfSC{}, back: map[string]string{}}
		// "shuffle" = reverse, in the model too
		h.restore = append(h.restore, pickfirst.VerifSetRandShuffle(func(n int, swap func(i, j int)) {
			for i := 0; i < n/2; i++ {
				swap(i, n-1-i)
			}
		}))
		old := envconfig.PickFirstWeightedShuffling
		envconfig.PickFirstWeightedShuffling = false
		h.restore = append(h.restore, func() { envconfig.PickFirstWeightedShuffling = old })
		h.restore = append(h.restore, pickfirst.VerifSetTimeAfterFunc(func(d time.Duration, f func()) func() {
			if d != pickfirst.VerifConnectionDelay {
				h.rec(fmt.Sprintf("timer?%v", d))
			}
			t := &pfTimer{f: f}
			h.timers = append(h.timers, t)
			return func() { t.stopped = true }
		}))
		h.bal = balancer.Get(pickfirst.Name).Build(&pfCC{h: h}, balancer.BuildOptions{})
		return h
	})
}

func (h *pfHarness) Close() {
	if !h.closed {
		h.bal.Close()
	}
	for _, f := range h.restore {
		f()
	}
}

// sort maximal runs of sd / conn events by id
func pfCanon(ev []string) string {
	kind := func(e string) string {
		if strings.HasPrefix(e, "sd") {
			return "sd"
		}
		if strings.HasPrefix(e, "conn") {
			return "conn"
		}
		return ""
	}
	i := 0
	for i < len(ev) {
		k := kind(ev[i])
		if k == "" {
			i++
			continue
		}
		j := i
		for j < len(ev) && kind(ev[j]) == k {
			j++
		}
		run := ev[i:j]
		sort.Slice(run, func(x, y int) bool { return lbAtoi(run[x][len(k):]) < lbAtoi(run[y][len(k):]) })
		i = j
	}
	return lbJoin(ev)
}

// scByTok resolves an absolute id or `~k` (k-th newest SubConn).
func (h *pfHarness) scByTok(t string) *pfSC {
	if strings.HasPrefix(t, "~") {
		k := lbAtoi(t[1:])
		if k >= h.serial {
			return nil
		}
		return h.scs[h.serial-k]
	}
	return h.scs[lbAtoi(t)]
}

func (h *pfHarness) Op(f []string) string {
	h.mu.Lock()
	h.ev = nil
	h.mu.Unlock()
	extra := ""
	if h.closed && f[0] != "late" {
		return "bad-op" // nothing is called on a balancer after Close (its own late timer callbacks can still run)
	}
	switch f[0] {
	case "update":
		var eps []resolver.Endpoint
		var flat []resolver.Address
		if f[4] != "-" {
			for _, e := range strings.Split(f[4], ",") {
				var as []resolver.Address
				for _, t := range strings.Split(e, "+") {
					a := pfRender(t)
					h.back[a] = t
					as = append(as, resolver.Address{Addr: a})
				}
				eps = append(eps, resolver.Endpoint{Addresses: as})
				flat = append(flat, as...)
			}
		}
		rs := resolver.State{}
		if f[3] == "e" {
			rs.Endpoints = eps
		} else {
			rs.Addresses = flat
		}
		if f[1] == "1" {
			rs = pickfirst.EnableHealthListener(rs)
		}
		st := balancer.ClientConnState{ResolverState: rs}
		if f[2] == "1" {
			cfg, err := balancer.Get(pickfirst.Name).(balancer.ConfigParser).ParseConfig([]byte(`{"shuffleAddressList":true}`))
			if err != nil {
				return "bad-op"
			}
			st.BalancerConfig = cfg
		}
		if err := h.bal.UpdateClientConnState(st); err != nil {
			extra = " bad"
		}
	case "reserr":
		h.bal.ResolverError(errors.New("resolver"))
	case "tick":
		// the armed timer (not stopped, not run) fires
		for i := len(h.timers) - 1; i >= 0; i-- {
			if t := h.timers[i]; !t.stopped && !t.ran {
				t.ran = true
				t.f()
				break
			}
		}
	case "late":
		// the callback of the most recently stopped timer that has not run: it had fired before Stop()
		var t *pfTimer
		for i := len(h.timers) - 1; i >= 0; i-- {
			if x := h.timers[i]; x.stopped && !x.ran {
				t = x
				break
			}
		}
		if t == nil {
			return "bad-op"
		}
		t.ran = true
		t.f()
	case "exitidle":
		h.bal.ExitIdle()
	case "close":
		h.bal.Close()
		h.closed = true
	case "pick":
		if h.picker == nil {
			extra = " pick=nopicker"
			break
		}
		r, err := h.picker.Pick(balancer.PickInfo{})
		switch {
		case r.SubConn != nil:
			extra = fmt.Sprintf(" pick=sc%d", r.SubConn.(*pfSC).id)
		case err == balancer.ErrNoSubConnAvailable:
			extra = " pick=queue"
		case err == nil:
			extra = " pick=empty"
		default:
			extra = " pick=err"
		}
	case "sc":
		sc := h.scByTok(f[1])
		st := lbState(f[2])
		// the fake channel reports SHUTDOWN only after Shutdown() was called
		if sc == nil || (st == connectivity.Shutdown && !sc.shut) {
			return "bad-op"
		}
		if st != connectivity.Ready {
			sc.health = nil // the channel drops the health listener when the SubConn leaves READY
		}
		sc.raw = st
		sc.listener(balancer.SubConnState{ConnectivityState: st, ConnectionError: pfErr(f[3])})
	case "health":
		sc := h.scByTok(f[1])
		// (also for a SubConn that was shut down meanwhile: a queued health update can still arrive)
		if sc == nil || sc.health == nil || sc.raw != connectivity.Ready {
			return "bad-op"
		}
		sc.health(balancer.SubConnState{ConnectivityState: lbState(f[2]), ConnectionError: pfErr(f[3])})
	default:
		return "bad-op"
	}
	settle()
	h.mu.Lock()
	out := pfCanon(h.ev)
	h.ev = nil
	h.mu.Unlock()
	return "ev=" + out + extra
}
