package synct

// Components s_goaway (C14) and s_clienttransport (C11): the REAL http2Client
// (transport.NewHTTP2Client) over a net.Pipe whose other end is a scripted raw-frame peer.
//
// ops (one line each; output = canonical snapshot after the bubble settled):
//
//	start <maxConcurrentStreams|-> <maxHeaderListSize|->   server preface SETTINGS (values or absent)
//	start bad                                               first server frame is a PING (not SETTINGS)
//	new <r|w> <deadline ms|0>       new RPC goroutine: NewStream, then r: Read(1) loop, w: wait Done/ctx then Read loop
//	half <rpc>                      Write(nil,nil,Last) on the RPC's stream (END_STREAM)
//	cancel <rpc>                    cancel the RPC's context
//	sleep <ms>                      advance virtual time
//	f <type> <flags> <sid> <hex>    peer writes one raw HTTP/2 frame (length field = payload length)
//	trunc <hex>                     peer writes the bytes (an incomplete frame) and closes its end
//	peerclose                       peer closes its end
//	gclose | close                  GracefulClose() | Close(err) on the transport
//	hold | release                  block / unblock every client Write on the conn (loopy stalls in its flush)
//	end                             last op of every case: release, Close(ErrConnClosing), cancel every RPC, close the peer,
//	                                wait for every goroutine the case started; prints the final snapshot + `leak=<n>`
//	                                (goroutines still alive beyond the count at `start`)
//
// snapshot: `<res> rpcs=<…> wire=<…> conn=<…>`, see snapshot().

import (
	"bytes"
	"context"
	"encoding/hex"
	"errors"
	"fmt"
	"io"
	"net"
	"os"
	"runtime"
	"strconv"
	"strings"
	"sync"
	"time"

	"golang.org/x/net/http2"
	"google.golang.org/grpc"
	"google.golang.org/grpc/internal/transport"
	"google.golang.org/grpc/mem"
	"google.golang.org/grpc/resolver"
	"google.golang.org/grpc/status"
)

// gatedConn is the client's end of the pipe; while held, Write blocks (durably) until release or Close.
type gatedConn struct {
	net.Conn
	mu      sync.Mutex
	held    bool
	gate    chan struct{} // closed on release
	closed  chan struct{}
	closeMu sync.Once
}

func (g *gatedConn) Write(b []byte) (int, error) {
	for {
		g.mu.Lock()
		held, gate := g.held, g.gate
		g.mu.Unlock()
		if !held {
			break
		}
		select {
		case <-gate:
		case <-g.closed:
			return 0, io.ErrClosedPipe
		}
	}
	return g.Conn.Write(b)
}

func (g *gatedConn) Close() error {
	g.closeMu.Do(func() { close(g.closed) })
	return g.Conn.Close()
}

func (g *gatedConn) hold() {
	g.mu.Lock()
	if !g.held {
		g.held = true
		g.gate = make(chan struct{})
	}
	g.mu.Unlock()
}

func (g *gatedConn) release() {
	g.mu.Lock()
	if g.held {
		g.held = false
		close(g.gate)
	}
	g.mu.Unlock()
}

type ccRPC struct {
	ctx      context.Context
	cancel   context.CancelFunc
	mode     string
	s        *transport.ClientStream
	nsDone   bool
	nsErr    error
	finished bool
	readErr  error
	nread    int
	exited   chan struct{}
}

type clientConn struct {
	mu      sync.Mutex
	ct      transport.ClientTransport
	cc      *gatedConn
	sc      net.Conn
	rpcs    []*ccRPC
	wire    []string
	peerEOF bool
	onClose []string
	wq      chan []byte   // bytes for the peer writer goroutine
	wdone   chan struct{} // peer writer exited
	rdone   chan struct{} // peer reader exited
	closeWG sync.WaitGroup
	started bool
	ended   bool
	panics  []string // panics recovered in goroutines this harness owns (RPC goroutines, Close)
	baseG   int // runtime.NumGoroutine() before the case started anything
	scOnce  sync.Once
}

func init() {
	mk := func() SHandler { return &clientConn{} }
	register("s_goaway", mk)
	register("s_clienttransport", mk)
}

func (c *clientConn) closePeer() {
	c.scOnce.Do(func() { c.sc.Close() })
}

// peerReader consumes everything the client writes and records the frames.
func (c *clientConn) peerReader() {
	defer close(c.rdone)
	pre := make([]byte, len(http2.ClientPreface))
	if _, err := io.ReadFull(c.sc, pre); err != nil {
		c.mu.Lock()
		c.peerEOF = true
		c.mu.Unlock()
		return
	}
	fr := http2.NewFramer(io.Discard, c.sc)
	fr.SetMaxReadFrameSize(1 << 24)
	for {
		f, err := fr.ReadFrame()
		if err != nil {
			c.mu.Lock()
			c.peerEOF = true
			c.mu.Unlock()
			return
		}
		var s string
		switch f := f.(type) {
		case *http2.HeadersFrame:
			s = fmt.Sprintf("H%d", f.StreamID)
			if f.StreamEnded() {
				s += "e"
			}
		case *http2.DataFrame:
			s = fmt.Sprintf("D%d.%d", f.StreamID, len(f.Data()))
			if f.StreamEnded() {
				s += "e"
			}
		case *http2.RSTStreamFrame:
			s = fmt.Sprintf("R%d.%d", f.StreamID, uint32(f.ErrCode))
		case *http2.GoAwayFrame:
			s = fmt.Sprintf("G%d.%d", f.LastStreamID, uint32(f.ErrCode))
		case *http2.SettingsFrame:
			if f.IsAck() {
				s = "Sa"
			} else {
				s = "S"
				f.ForeachSetting(func(st http2.Setting) error {
					s += fmt.Sprintf(".%d=%d", uint16(st.ID), st.Val)
					return nil
				})
			}
		case *http2.PingFrame:
			if f.IsAck() {
				s = "Pa" + hex.EncodeToString(f.Data[:])
			} else {
				s = "P"
			}
		case *http2.WindowUpdateFrame:
			if f.StreamID != 0 {
				// stream-level window updates race with the transport's own frames (they are queued by the RPC
				// goroutine) and belong to C04; only the connection-level ones are part of the snapshot
				continue
			}
			s = fmt.Sprintf("W%d.%d", f.StreamID, f.Increment)
		default:
			s = fmt.Sprintf("X%d", f.Header().Type)
		}
		c.mu.Lock()
		c.wire = append(c.wire, s)
		c.mu.Unlock()
	}
}

func (c *clientConn) peerWriter() {
	defer close(c.wdone)
	for b := range c.wq {
		if b == nil { // close request
			c.closePeer()
			continue
		}
		c.sc.Write(b) // errors (client gone) are irrelevant
	}
}

func rawFrame(typ, flags uint8, sid uint32, payload []byte) []byte {
	var buf bytes.Buffer
	fr := http2.NewFramer(&buf, nil)
	fr.WriteRawFrame(http2.FrameType(typ), http2.Flags(flags), sid, payload)
	return buf.Bytes()
}

func ccUnhex(s string) []byte {
	if s == "-" || s == "" {
		return nil
	}
	b, err := hex.DecodeString(s)
	if err != nil {
		panic("bad hex " + s)
	}
	return b
}

func ccHex(b []byte) string {
	if len(b) == 0 {
		return "-"
	}
	return hex.EncodeToString(b)
}

func ccAtoi(s string) int {
	n, err := strconv.Atoi(s)
	if err != nil {
		panic("bad int " + s)
	}
	return n
}

func (c *clientConn) start(f []string) string {
	if c.started {
		return "bad-op"
	}
	c.started = true
	c.baseG = runtime.NumGoroutine()
	cp, sp := net.Pipe()
	c.cc = &gatedConn{Conn: cp, closed: make(chan struct{})}
	c.sc = sp
	c.wq = make(chan []byte, 4096)
	c.wdone = make(chan struct{})
	c.rdone = make(chan struct{})
	go c.peerReader()
	go c.peerWriter()
	if len(f) >= 2 && f[1] == "bad" {
		c.wq <- rawFrame(6, 0, 0, make([]byte, 8))
	} else {
		var p []byte
		add := func(id uint16, v uint32) {
			p = append(p, byte(id>>8), byte(id), byte(v>>24), byte(v>>16), byte(v>>8), byte(v))
		}
		if len(f) >= 2 && f[1] != "-" {
			add(3, uint32(ccAtoi(f[1])))
		}
		if len(f) >= 3 && f[2] != "-" {
			add(6, uint32(ccAtoi(f[2])))
		}
		c.wq <- rawFrame(4, 0, 0, p)
	}
	opts := transport.ConnectOptions{
		Dialer:           func(context.Context, string) (net.Conn, error) { return c.cc, nil },
		BufferPool:       mem.NewTieredBufferPool(256, 4<<10, 16<<10, 32<<10, 1<<20), // per case: a corrupted pool must not leak into the next case
		StaticWindowSize: true,
		WriteBufferSize:  32 * 1024, // grpc's default (0 would make every frame write hit the conn)
		ReadBufferSize:   32 * 1024,
	}
	mhl := uint32(256) // what the client is prepared to receive (framer MaxHeaderListSize)
	opts.MaxHeaderListSize = &mhl
	ct, err := transport.NewHTTP2Client(context.Background(), context.Background(), resolver.Address{Addr: "peer"}, opts,
		func(i transport.GoAwayInfo) {
			c.mu.Lock()
			e := 0
			if i.Err != nil {
				e = 1
			}
			c.onClose = append(c.onClose, fmt.Sprintf("%d/%d/%d", int(i.Reason), uint32(i.GoAwayCode), e))
			c.mu.Unlock()
		})
	settle()
	if err != nil {
		return "err " + c.snapshot()
	}
	c.ct = ct
	return "ok " + c.snapshot()
}

// guard turns a panic of transport code running on one of the harness's own goroutines into a PANIC output of the
// op during which it happened (a panic on a transport-internal goroutine still kills the process = CRASH).
func (c *clientConn) guard() {
	if p := recover(); p != nil {
		c.mu.Lock()
		c.panics = append(c.panics, strings.ReplaceAll(fmt.Sprint(p), "\n", " "))
		c.mu.Unlock()
	}
}

func (c *clientConn) runRPC(r *ccRPC) {
	defer close(r.exited)
	defer c.guard()
	s, err := c.ct.NewStream(r.ctx, &transport.CallHdr{Host: "h", Method: "/s/m"}, nil)
	c.mu.Lock()
	r.nsDone, r.nsErr, r.s = true, err, s
	c.mu.Unlock()
	if err != nil {
		return
	}
	if r.mode == "w" {
		select {
		case <-s.Done():
		case <-r.ctx.Done():
			s.Close(transport.ContextErr(r.ctx.Err()))
		}
	}
	for {
		b, err := s.Read(1)
		if err != nil {
			c.mu.Lock()
			r.finished, r.readErr = true, err
			c.mu.Unlock()
			return
		}
		b.Free()
		c.mu.Lock()
		r.nread++
		c.mu.Unlock()
	}
}

func codeOfErr(err error) int {
	if err == io.EOF {
		return -1
	}
	e := grpc.VerifToRPCErr(err)
	return int(status.Code(e))
}

func b2s(b bool, s string) string {
	if b {
		return s
	}
	return ""
}

// snapshot renders everything the model predicts.
func (c *clientConn) snapshot() string {
	c.mu.Lock()
	defer c.mu.Unlock()
	var rp []string
	for _, r := range c.rpcs {
		switch {
		case !r.nsDone:
			rp = append(rp, "W")
		case r.nsErr != nil:
			retry := 0
			var nse *transport.NewStreamError
			if errors.As(r.nsErr, &nse) {
				if nse.AllowTransparentRetry {
					retry = 1
				}
				rp = append(rp, fmt.Sprintf("E%d.%d", codeOfErr(nse.Err), retry))
			} else {
				rp = append(rp, "E?"+r.nsErr.Error())
			}
		default:
			i := transport.VerifClientStreamInfo(r.s)
			fl := b2s(i.HdrClosed, "h") + b2s(i.HeaderValid, "v") + b2s(i.NoHeaders, "n") + b2s(i.BytesReceived, "b") +
				b2s(i.Unprocessed, "u") + b2s(i.InActive, "a") + b2s(i.NonGRPC, fmt.Sprintf("g%d", i.NonGRPCLen))
			if i.State != 3 {
				st := "A"
				if i.State == 1 {
					st = "B" // write done
				}
				if i.State == 2 {
					st = "C"
				}
				rp = append(rp, fmt.Sprintf("%s%d:%s:p%d.%d:r%d", st, i.ID, fl, i.PendingData, i.PendingUpdate, r.nread))
				if r.finished {
					rp[len(rp)-1] += ":FINISHED-BUT-NOT-DONE"
				}
			} else {
				select {
				case <-r.s.Done():
				default:
					fl += "!notdone"
				}
				term := "?"
				if r.finished {
					rc := codeOfErr(r.readErr)
					stc := "-"
					if i.HasStatus {
						stc = strconv.Itoa(int(r.s.Status().Code()))
					}
					if rc == -1 {
						// the RPC takes Status(): code and message (hex; percent-decoded grpc-message for trailers)
						term = "eof/" + stc + "/m" + ccHex([]byte(r.s.Status().Message()))
					} else {
						term = strconv.Itoa(rc) + "/" + stc
					}
				}
				rp = append(rp, fmt.Sprintf("D%d:%s:%s:r%d", i.ID, fl, term, r.nread))
			}
		}
	}
	wire := strings.Join(c.wire, ",")
	c.wire = nil
	conn := "-"
	if c.ct != nil {
		i := transport.VerifClientInfo(c.ct)
		st := map[int]string{0: "R", 1: "C", 2: "D"}[i.State]
		q, wt := strconv.FormatInt(i.StreamQuota, 10), strconv.Itoa(int(i.Waiting))
		if st == "C" {
			// once Close has started, whether closeStream still gives its quota back depends on whether loopy has
			// already closed the control buffer (a race the runtime decides; the quota is meaningless by then)
			q, wt = "-", "-"
		}
		conn = fmt.Sprintf("%s,act=%d,prev=%d,next=%d,q=%s,wt=%s,mc=%d,mh=%d,ga=%s,cd=%s,rs=%d,oc=%s,eof=%s", st, i.Active, i.PrevGoAwayID, i.NextID,
			q, wt, i.MaxConc, i.MaxSendHdr, b2s(i.GoAwayClosed, "1"), b2s(i.CtxDone, "1"), i.Reason, strings.Join(c.onClose, "+"), b2s(c.peerEOF, "1"))
	}
	if len(rp) == 0 {
		rp = []string{"-"}
	}
	if wire == "" {
		wire = "-"
	}
	return "rpcs=" + strings.Join(rp, ",") + " wire=" + wire + " conn=" + conn
}

func (c *clientConn) Op(f []string) string {
	if f[0] == "start" {
		return c.start(f)
	}
	if f[0] == "end" {
		if !c.started {
			return "nostart"
		}
		c.teardown()
		settle()
		if p := c.panicked(); p != "" {
			return p
		}
		return fmt.Sprintf("ok %s leak=%d", c.snapshot(), bubbleGoroutines()-3) // the bubble itself: synctest.Run, the testing wrapper and the goroutine running this op
	}
	if c.ended {
		return "ended"
	}
	if c.ct == nil {
		return "nostart"
	}
	res := "ok"
	switch f[0] {
	case "new":
		r := &ccRPC{mode: f[1], exited: make(chan struct{})}
		if d := ccAtoi(f[2]); d > 0 {
			r.ctx, r.cancel = context.WithTimeout(context.Background(), time.Duration(d)*time.Millisecond)
		} else {
			r.ctx, r.cancel = context.WithCancel(context.Background())
		}
		c.mu.Lock()
		c.rpcs = append(c.rpcs, r)
		c.mu.Unlock()
		go c.runRPC(r)
	case "half":
		k := ccAtoi(f[1])
		if k >= len(c.rpcs) || c.rpcs[k].s == nil {
			res = "norpc"
			break
		}
		if err := c.rpcs[k].s.Write(nil, nil, &transport.WriteOptions{Last: true}); err != nil {
			res = "werr"
		}
	case "cancel":
		k := ccAtoi(f[1])
		if k >= len(c.rpcs) {
			res = "norpc"
			break
		}
		c.rpcs[k].cancel()
	case "sleep":
		time.Sleep(time.Duration(ccAtoi(f[1])) * time.Millisecond)
	case "f":
		c.wq <- rawFrame(uint8(ccAtoi(f[1])), uint8(ccAtoi(f[2])), uint32(ccAtoi(f[3])), ccUnhex(f[4]))
	case "trunc":
		c.wq <- ccUnhex(f[1])
		settle() // the client has consumed what it could before the peer goes away
		c.wq <- nil
	case "peerclose":
		c.wq <- nil
	case "gclose":
		c.ct.GracefulClose()
	case "close":
		c.closeWG.Add(1)
		go func() {
			defer c.closeWG.Done()
			defer c.guard()
			c.ct.Close(transport.ErrConnClosing) // what addrConn passes
		}()
	case "hold":
		c.cc.hold()
	case "release":
		c.cc.release()
	default:
		return "bad-op"
	}
	settle()
	if p := c.panicked(); p != "" {
		return p
	}
	return res + " " + c.snapshot()
}

func (c *clientConn) panicked() string {
	c.mu.Lock()
	defer c.mu.Unlock()
	if len(c.panics) == 0 {
		return ""
	}
	return "PANIC " + strings.Join(c.panics, "; ")
}

// bubbleGoroutines counts the goroutines of the current synctest bubble (all-goroutine traceback: the header of a
// bubbled goroutine says `synctest bubble N`; only one bubble is alive at a time).
func bubbleGoroutines() int {
	buf := make([]byte, 1<<20)
	n := runtime.Stack(buf, true)
	cnt := 0
	if os.Getenv("B1DBG") != "" {
		os.Stderr.Write(buf[:n])
	}
	for _, l := range strings.Split(string(buf[:n]), "\n") {
		if strings.HasPrefix(l, "goroutine ") && strings.Contains(l, "synctest bubble") {
			cnt++
		}
	}
	return cnt
}

func (c *clientConn) Close() { c.teardown() }

func (c *clientConn) teardown() {
	if !c.started || c.ended {
		return
	}
	c.ended = true
	defer c.guard()
	c.cc.release()
	if c.ct != nil {
		c.ct.Close(transport.ErrConnClosing)
	}
	for _, r := range c.rpcs {
		r.cancel()
	}
	close(c.wq)
	<-c.wdone
	c.closePeer()
	c.cc.Close()
	<-c.rdone
	c.closeWG.Wait()
	for _, r := range c.rpcs {
		<-r.exited
	}
}
