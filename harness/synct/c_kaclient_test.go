package synct

// component s_kaclient (C15): the REAL http2Client (internal/transport) with keepalive
// enabled, talking over net.Pipe to a scripted raw-frame peer (x/net/http2 Framer) that
// never answers anything by itself. Virtual time advances only through `adv`.
//
//	start <Time ns> <Timeout ns> <PermitWithoutStream 0|1>   → ok
//	adv <ns>       sleep, settle                               → events
//	read <kind>    peer sends one frame (ack|ping|settings|wupd) → events
//	open           NewStream on the client                     → events
//	done           close the oldest open stream (RST_STREAM)   → events
//	burst <k>      k (1..8) NewStream calls queued back to back while the loopy writer is busy: the client's
//	               conn.Write is held, the peer sends a PING (loopy blocks writing the ack), NewStream is
//	               called k times (all k streams are registered before loopy dequeues the first HEADERS),
//	               then the write is released - all at one virtual instant                → events
//
// events: space separated, in order of occurrence, `-` if none:
//
//	p@<t>  the peer received a keepalive PING (non-ack, zero payload) at virtual instant t
//	c@<t>  the client transport's onClose callback ran at t (t in ns since `start`)
//
// After c@ every op answers `closed`.

import (
	"context"
	"errors"
	"fmt"
	"io"
	"net"
	"strconv"
	"strings"
	"sync"
	"time"

	"golang.org/x/net/http2"
	"google.golang.org/grpc/internal/channelz"
	"google.golang.org/grpc/internal/transport"
	"google.golang.org/grpc/keepalive"
	"google.golang.org/grpc/resolver"
)

type kaEvlog struct {
	mu  sync.Mutex
	t0  time.Time
	evs []string
}

func (l *kaEvlog) add(kind string) {
	l.mu.Lock()
	l.evs = append(l.evs, fmt.Sprintf("%s@%d", kind, int64(time.Since(l.t0))))
	l.mu.Unlock()
}

func (l *kaEvlog) take() string {
	l.mu.Lock()
	defer l.mu.Unlock()
	if len(l.evs) == 0 {
		return "-"
	}
	s := strings.Join(l.evs, " ")
	l.evs = nil
	return s
}

// kaGatedConn lets the harness hold the client's writes (a busy / blocked writer).
type kaGatedConn struct {
	net.Conn
	mu   sync.Mutex
	gate chan struct{}
}

func (g *kaGatedConn) setGate(ch chan struct{}) {
	g.mu.Lock()
	g.gate = ch
	g.mu.Unlock()
}

func (g *kaGatedConn) Write(b []byte) (int, error) {
	g.mu.Lock()
	ch := g.gate
	g.mu.Unlock()
	if ch != nil {
		<-ch
	}
	return g.Conn.Write(b)
}

type kaclient struct {
	gc       *kaGatedConn
	log      kaEvlog
	ct       transport.ClientTransport
	peer     net.Conn
	fr       *http2.Framer
	wmu      sync.Mutex
	closed   bool
	streams  []*transport.ClientStream
	peerDone chan struct{}
	czCh     *channelz.Channel
	czSc     *channelz.SubChannel
	cancel   context.CancelFunc
}

func init() {
	register("s_kaclient", func() SHandler { return &kaclient{} })
}

func (k *kaclient) start(f []string) string {
	if k.ct != nil || len(f) != 4 {
		return "bad-op"
	}
	tm, to, permit := kaAtoi(f[1]), kaAtoi(f[2]), f[3] == "1"
	if tm <= 0 || to <= 0 || (f[3] != "0" && f[3] != "1") {
		return "bad-op"
	}
	rawCli, srv := net.Pipe()
	cli := &kaGatedConn{Conn: rawCli}
	k.gc = cli
	k.peer = srv
	k.fr = http2.NewFramer(srv, srv)
	k.peerDone = make(chan struct{})
	k.log.t0 = time.Now()
	// peer reader: consumes the preface and every frame; records keepalive pings.
	go func() {
		defer close(k.peerDone)
		pre := make([]byte, len(http2.ClientPreface))
		if _, err := io.ReadFull(srv, pre); err != nil {
			return
		}
		for {
			fr, err := k.fr.ReadFrame()
			if err != nil {
				return
			}
			if p, ok := fr.(*http2.PingFrame); ok && !p.IsAck() && p.Data == [8]byte{} {
				k.log.add("p")
			}
		}
	}()
	k.czCh = channelz.RegisterChannel(nil, "verif chan")
	k.czSc = channelz.RegisterSubChannel(k.czCh, "verif subchan")
	ctx, cancel := context.WithCancel(context.Background())
	k.cancel = cancel
	opts := transport.ConnectOptions{
		Dialer:           func(context.Context, string) (net.Conn, error) { return cli, nil },
		KeepaliveParams:  keepalive.ClientParameters{Time: time.Duration(tm), Timeout: time.Duration(to), PermitWithoutStream: permit},
		ChannelzParent:   k.czSc,
		StaticWindowSize: true,
	}
	var err error
	ready := make(chan struct{})
	go func() {
		defer close(ready)
		k.ct, err = transport.NewHTTP2Client(ctx, ctx, resolver.Address{Addr: "pipe"}, opts, func(transport.GoAwayInfo) {
			k.log.add("c")
		})
	}()
	k.wmu.Lock()
	werr := k.fr.WriteSettings()
	k.wmu.Unlock()
	settle()
	<-ready
	if werr != nil || err != nil {
		return fmt.Sprint("start-failed ", werr, " ", err)
	}
	return "ok"
}

func (k *kaclient) events() string {
	s := k.log.take()
	if strings.Contains(s, "c@") {
		k.closed = true
	}
	return s
}

func (k *kaclient) Op(f []string) string {
	if f[0] == "start" {
		return k.start(f)
	}
	if k.ct == nil {
		return "bad-op"
	}
	if k.closed {
		return "closed"
	}
	switch f[0] {
	case "adv":
		if len(f) != 2 {
			return "bad-op"
		}
		if kaAtoi(f[1]) < 0 {
			return "bad-op"
		}
		time.Sleep(time.Duration(kaAtoi(f[1])))
		settle()
		return k.events()
	case "read":
		if len(f) != 2 {
			return "bad-op"
		}
		k.wmu.Lock()
		var err error
		switch f[1] {
		case "ack":
			err = k.fr.WritePing(true, [8]byte{})
		case "ping":
			err = k.fr.WritePing(false, [8]byte{1})
		case "settings":
			err = k.fr.WriteSettings()
		case "wupd":
			err = k.fr.WriteWindowUpdate(0, 1)
		default:
			k.wmu.Unlock()
			return "bad-op"
		}
		k.wmu.Unlock()
		settle()
		if err != nil {
			return "write-failed " + k.events()
		}
		return k.events()
	case "open":
		s, err := k.ct.NewStream(context.Background(), &transport.CallHdr{Host: "pipe", Method: "/s/m"}, nil)
		settle()
		if err != nil {
			return "open-failed " + k.events()
		}
		k.streams = append(k.streams, s)
		return k.events()
	case "burst":
		if len(f) != 2 || kaAtoi(f[1]) < 1 || kaAtoi(f[1]) > 8 {
			return "bad-op"
		}
		n := int(kaAtoi(f[1]))
		gate := make(chan struct{})
		k.gc.setGate(gate)
		k.wmu.Lock()
		werr := k.fr.WritePing(false, [8]byte{2})
		k.wmu.Unlock()
		settle() // the client read the PING; loopy is now blocked writing the ack
		failed := werr != nil
		for i := 0; i < n; i++ {
			s, err := k.ct.NewStream(context.Background(), &transport.CallHdr{Host: "pipe", Method: "/s/m"}, nil)
			if err != nil {
				failed = true
				break
			}
			k.streams = append(k.streams, s)
		}
		settle()
		k.gc.setGate(nil)
		close(gate)
		settle()
		if failed {
			return "burst-failed " + k.events()
		}
		return k.events()
	case "done":
		if len(k.streams) == 0 {
			return "bad-op"
		}
		s := k.streams[0]
		k.streams = k.streams[1:]
		s.Close(errors.New("verif: stream cancelled"))
		settle()
		return k.events()
	}
	return "bad-op"
}

func (k *kaclient) Close() {
	if k.ct == nil {
		return
	}
	k.ct.Close(errors.New("verif: case over"))
	k.peer.Close()
	<-k.peerDone
	k.cancel()
	channelz.RemoveEntry(k.czSc.ID)
	channelz.RemoveEntry(k.czCh.ID)
}

// kaAtoi parses a canonical non-negative decimal; anything else is -1.
func kaAtoi(s string) int64 {
	v, err := strconv.ParseInt(s, 10, 64)
	if err != nil || v < 0 || strconv.FormatInt(v, 10) != s {
		return -1
	}
	return v
}
