package synct

// Component s_drain (C14, server half): the REAL http2Server (transport.NewServerTransport +
// HandleStreams) over a net.Pipe whose other end is a scripted raw-frame client.
//
//	start                  client preface + SETTINGS, server transport created, HandleStreams running
//	hdr <sid>              client sends a well-formed gRPC request HEADERS (no END_STREAM) for stream sid
//	hdrpark <sid>          the same, but the reader goroutine is parked inside operateHeaders at its second lock
//	                       acquisition (t.mu, just before the t.state check; t.maxStreamID is already updated) — tie T3:
//	                       the yield points come from the instrumented copy of http2_server.go (tools/instr/h2server.json)
//	unpark                 release it, then let 2 ms pass (goroutines polling a held mutex retry once per ms)
//	drain                  t.Drain("x")
//	pingack <hex8>         client sends PING ack with that payload (goAwayPing = 0106010800030309)
//	ping                   client sends a PING (loopy answers: something to flush)
//	finish <sid> <code>    the handler of stream sid returns: WriteStatus(code)
//	rst <sid>              client sends RST_STREAM(CANCEL)
//	sleep <ms> | hold | release | peerclose | close | end      as in c_clientconn_test.go
//
// snapshot: `ok streams=<sid:flags,…> wire=<frames the server wrote> conn=<state>,max=<maxStreamID>,dr=<drain started/fired>,done=,eof=`
// stream flags: a = in activeStreams, d = state streamDone, c = context cancelled.

import (
	"context"
	"encoding/hex"
	"fmt"
	"io"
	"math"
	"net"
	"sort"
	"strings"
	"sync"
	"time"

	"golang.org/x/net/http2"
	"google.golang.org/grpc/codes"
	"google.golang.org/grpc/internal/transport"
	"google.golang.org/grpc/mem"
	"google.golang.org/grpc/status"
)

type sdStream struct {
	s *transport.ServerStream
}

type serverDrain struct {
	mu      sync.Mutex
	st      transport.ServerTransport
	sconn   *gatedConn // server's end
	cconn   net.Conn   // scripted client's end
	streams map[uint32]*sdStream
	order   []uint32
	wire    []string
	peerEOF bool
	wq      chan []byte
	wdone   chan struct{}
	rdone   chan struct{}
	hdone   chan struct{} // HandleStreams returned
	started bool
	ended   bool
	panics  []string
	ccOnce  sync.Once
	armed   bool          // park the reader at its next 2nd "operateHeaders:lock"
	seen    int           // "operateHeaders:lock" announcements since armed
	parked  bool
	unpark  chan struct{}
	cancel  context.CancelFunc
}

func init() {
	register("s_drain", func() SHandler { return &serverDrain{streams: map[uint32]*sdStream{}} })
}

func (c *serverDrain) guard() {
	if p := recover(); p != nil {
		c.mu.Lock()
		c.panics = append(c.panics, strings.ReplaceAll(fmt.Sprint(p), "\n", " "))
		c.mu.Unlock()
	}
}

func (c *serverDrain) closePeer() { c.ccOnce.Do(func() { c.cconn.Close() }) }

func (c *serverDrain) peerReader() {
	defer close(c.rdone)
	fr := http2.NewFramer(io.Discard, c.cconn)
	fr.SetMaxReadFrameSize(1 << 24)
	for {
		f, err := fr.ReadFrame()
		if err != nil {
			c.mu.Lock()
			c.peerEOF = true
			c.mu.Unlock()
			return
		}
		var s string
		switch f := f.(type) {
		case *http2.HeadersFrame:
			s = fmt.Sprintf("H%d", f.StreamID)
			if f.StreamEnded() {
				s += "e"
			}
		case *http2.DataFrame:
			s = fmt.Sprintf("D%d.%d", f.StreamID, len(f.Data()))
		case *http2.RSTStreamFrame:
			s = fmt.Sprintf("R%d.%d", f.StreamID, uint32(f.ErrCode))
		case *http2.GoAwayFrame:
			s = fmt.Sprintf("G%d.%d", f.LastStreamID, uint32(f.ErrCode))
		case *http2.SettingsFrame:
			if f.IsAck() {
				s = "Sa"
			} else {
				s = "S"
			}
		case *http2.PingFrame:
			if f.IsAck() {
				s = "Pa" + hex.EncodeToString(f.Data[:])
			} else {
				s = "P" + hex.EncodeToString(f.Data[:])
			}
		case *http2.WindowUpdateFrame:
			s = fmt.Sprintf("W%d.%d", f.StreamID, f.Increment)
		default:
			s = fmt.Sprintf("X%d", f.Header().Type)
		}
		c.mu.Lock()
		c.wire = append(c.wire, s)
		c.mu.Unlock()
	}
}

func (c *serverDrain) peerWriter() {
	defer close(c.wdone)
	for b := range c.wq {
		if b == nil {
			c.closePeer()
			continue
		}
		c.cconn.Write(b)
	}
}

func sdLit(n, v string) []byte {
	return append(append([]byte{0, byte(len(n))}, append([]byte(n), byte(len(v)))...), []byte(v)...)
}

func (c *serverDrain) start() string {
	if c.started {
		return "bad-op"
	}
	c.started = true
	sp, cp := net.Pipe()
	c.sconn = &gatedConn{Conn: sp, closed: make(chan struct{})}
	c.cconn = cp
	c.wq = make(chan []byte, 4096)
	c.wdone = make(chan struct{})
	c.rdone = make(chan struct{})
	c.hdone = make(chan struct{})
	go c.peerReader()
	go c.peerWriter()
	c.wq <- []byte(http2.ClientPreface)
	c.wq <- rawFrame(4, 0, 0, nil)
	cfg := &transport.ServerConfig{
		MaxStreams:       math.MaxUint32,
		BufferPool:       mem.NewTieredBufferPool(256, 4<<10, 16<<10, 32<<10, 1<<20),
		StaticWindowSize: true,
		WriteBufferSize:  32 * 1024, // grpc's default (0 would make every frame write hit the conn)
		ReadBufferSize:   32 * 1024,
	}
	st, err := transport.NewServerTransport(c.sconn, cfg)
	if err != nil {
		settle()
		return "err " + err.Error()
	}
	c.st = st
	ctx, cancel := context.WithCancel(context.Background())
	c.cancel = cancel
	go func() {
		defer close(c.hdone)
		defer c.guard()
		st.HandleStreams(ctx, func(s *transport.ServerStream) {
			c.mu.Lock()
			id := transport.VerifServerStreamID(s)
			c.streams[id] = &sdStream{s: s}
			c.order = append(c.order, id)
			c.mu.Unlock()
		})
	}()
	settle()
	return "ok " + c.snapshot()
}

func (c *serverDrain) snapshot() string {
	c.mu.Lock()
	defer c.mu.Unlock()
	i := transport.VerifServerInfoOf(c.st)
	act := map[uint32]bool{}
	for _, id := range i.Active {
		act[id] = true
	}
	ids := append([]uint32(nil), c.order...)
	sort.Slice(ids, func(a, b int) bool { return ids[a] < ids[b] })
	var ss []string
	for _, id := range ids {
		s := c.streams[id].s
		fl := b2s(act[id], "a") + b2s(transport.VerifServerStreamDone(s), "d") + b2s(s.Context().Err() != nil, "c")
		ss = append(ss, fmt.Sprintf("%d:%s", id, fl))
	}
	if len(ss) == 0 {
		ss = []string{"-"}
	}
	wire := strings.Join(c.wire, ",")
	c.wire = nil
	if wire == "" {
		wire = "-"
	}
	st := map[int]string{0: "R", 1: "C", 2: "D"}[i.State]
	return fmt.Sprintf("streams=%s wire=%s conn=%s,max=%d,dr=%s%s,done=%s,eof=%s", strings.Join(ss, ","), wire, st, i.MaxStreamID,
		b2s(i.DrainStarted, "s"), b2s(i.DrainFired, "f"), b2s(i.Done, "1"), b2s(c.peerEOF, "1"))
}

func (c *serverDrain) panicked() string {
	c.mu.Lock()
	defer c.mu.Unlock()
	if len(c.panics) == 0 {
		return ""
	}
	return "PANIC " + strings.Join(c.panics, "; ")
}

func (c *serverDrain) Op(f []string) string {
	if f[0] == "start" {
		return c.start()
	}
	if c.st == nil {
		return "nostart"
	}
	if f[0] == "end" {
		c.teardown()
		settle()
		if p := c.panicked(); p != "" {
			return p
		}
		return fmt.Sprintf("ok %s leak=%d", c.snapshot(), bubbleGoroutines()-3)
	}
	if c.ended {
		return "ended"
	}
	res := "ok"
	switch f[0] {
	case "hdr":
		sid := uint32(ccAtoi(f[1]))
		var p []byte
		for _, kv := range [][2]string{{":method", "POST"}, {":scheme", "http"}, {":path", "/s/m"}, {":authority", "h"},
			{"content-type", "application/grpc"}, {"te", "trailers"}} {
			p = append(p, sdLit(kv[0], kv[1])...)
		}
		c.wq <- rawFrame(1, 4, sid, p)
	case "hdrpark":
		if c.parked {
			return "bad-op"
		}
		sid := uint32(ccAtoi(f[1]))
		var p []byte
		for _, kv := range [][2]string{{":method", "POST"}, {":scheme", "http"}, {":path", "/s/m"}, {":authority", "h"},
			{"content-type", "application/grpc"}, {"te", "trailers"}} {
			p = append(p, sdLit(kv[0], kv[1])...)
		}
		c.mu.Lock()
		c.armed, c.seen = true, 0
		c.unpark = make(chan struct{})
		c.mu.Unlock()
		transport.VerifSrvHook = c.hook
		c.wq <- rawFrame(1, 4, sid, p)
		settle()
		c.mu.Lock()
		pk := c.parked
		c.mu.Unlock()
		if !pk {
			// the frame never reached operateHeaders' second lock (reader gone, illegal id, or the instrumented copy is not in use)
			c.mu.Lock()
			c.armed = false
			c.mu.Unlock()
			transport.VerifSrvHook = nil
			res = "nopark"
		}
	case "unpark":
		c.doUnpark()
		settle()
		time.Sleep(2 * time.Millisecond)
	case "drain":
		c.st.Drain("x")
	case "pingack":
		c.wq <- rawFrame(6, 1, 0, ccUnhex(f[1]))
	case "ping":
		c.wq <- rawFrame(6, 0, 0, []byte{9, 9, 9, 9, 9, 9, 9, 9})
	case "finish":
		sid := uint32(ccAtoi(f[1]))
		c.mu.Lock()
		s := c.streams[sid]
		c.mu.Unlock()
		if s == nil {
			res = "nostream"
			break
		}
		if err := s.s.WriteStatus(status.New(codes.Code(ccAtoi(f[2])), "")); err != nil {
			res = "werr"
		}
	case "rst":
		c.wq <- rawFrame(3, 0, uint32(ccAtoi(f[1])), []byte{0, 0, 0, 8})
	case "sleep":
		time.Sleep(time.Duration(ccAtoi(f[1])) * time.Millisecond)
	case "hold":
		c.sconn.hold()
	case "release":
		c.sconn.release()
	case "peerclose":
		c.wq <- nil
	case "close":
		c.st.Close(fmt.Errorf("closed by test"))
	default:
		return "bad-op"
	}
	settle()
	if p := c.panicked(); p != "" {
		return p
	}
	return res + " " + c.snapshot()
}

// hook runs on whatever goroutine announces a yield point of http2_server.go.
func (c *serverDrain) hook(label string) {
	if label != "operateHeaders:lock" {
		return
	}
	c.mu.Lock()
	if !c.armed {
		c.mu.Unlock()
		return
	}
	c.seen++
	if c.seen != 2 {
		c.mu.Unlock()
		return
	}
	c.armed, c.parked = false, true
	ch := c.unpark
	c.mu.Unlock()
	<-ch
}

func (c *serverDrain) doUnpark() {
	c.mu.Lock()
	if c.parked {
		c.parked = false
		close(c.unpark)
	}
	c.armed = false
	c.mu.Unlock()
	transport.VerifSrvHook = nil
}

func (c *serverDrain) Close() { c.teardown() }

func (c *serverDrain) teardown() {
	if !c.started || c.ended {
		return
	}
	c.ended = true
	defer c.guard()
	c.doUnpark()
	settle()
	time.Sleep(2 * time.Millisecond)
	c.sconn.release()
	if c.st != nil {
		c.st.Close(fmt.Errorf("end of case"))
	}
	if c.cancel != nil {
		c.cancel()
	}
	close(c.wq)
	<-c.wdone
	c.closePeer()
	c.sconn.Close()
	<-c.rdone
	if c.st != nil {
		<-c.hdone
	}
}
