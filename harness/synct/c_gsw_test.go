package synct

import (
	"encoding/json"
	"errors"
	"fmt"
	"sort"
	"strings"
	"sync"

	"google.golang.org/grpc/balancer"
	"google.golang.org/grpc/connectivity"
	"google.golang.org/grpc/experimental/stats"
	"google.golang.org/grpc/internal"
	"google.golang.org/grpc/internal/balancer/gracefulswitch"
	istats "google.golang.org/grpc/internal/stats"
	"google.golang.org/grpc/resolver"
	"google.golang.org/grpc/serviceconfig"
)

// component s_gsw (C33): the real gracefulswitch.Balancer, stub builders/children, recording ClientConn.
// Ops and answers: see lean/GrpcModel/Driver/S_gsw.lean.

const gswNames = 4

var gswCur *gswHarness // the harness of the running case (builders are registered globally)

type gswBuilder struct{ n int }

func (b gswBuilder) Name() string { return fmt.Sprintf("verif_gsw_%d", b.n) }
func (b gswBuilder) Build(cc balancer.ClientConn, _ balancer.BuildOptions) balancer.Balancer {
	return gswCur.build(cc)
}

type gswConfig struct {
	serviceconfig.LoadBalancingConfig
}

func (b gswBuilder) ParseConfig(json.RawMessage) (serviceconfig.LoadBalancingConfig, error) {
	return &gswConfig{}, nil
}

// gswHeld is a NewSubConn call held inside the parent ClientConn.
type gswHeld struct {
	release chan struct{}
	done    chan struct{}
}

type gswHarness struct {
	hold     bool             // the next cc.NewSubConn is held until released
	holdChild int
	held     map[int]*gswHeld // by SubConn id
	bal      *gracefulswitch.Balancer
	mu       sync.Mutex // guards ev (the swap goroutine closes the old policy concurrently)
	ev       []string
	kids     map[int]*gswChild
	serial   int
	pk       int
	scs      map[int]*gswSC
	scSerial int
	script   string // what the next built child does inside Build
	uccNext  string // what the child receiving the forwarded UpdateClientConnState does
	closed   bool
}

type gswChild struct {
	h  *gswHarness
	id int
	cc balancer.ClientConn
}

type gswPicker struct{ owner, serial int }

func (p *gswPicker) Pick(balancer.PickInfo) (balancer.PickResult, error) {
	return balancer.PickResult{}, balancer.ErrNoSubConnAvailable
}

type gswSC struct {
	balancer.SubConn
	h        *gswHarness
	id       int
	listener func(balancer.SubConnState)
}

func (sc *gswSC) Shutdown()                                  { sc.h.rec(fmt.Sprintf("sd%d", sc.id)) }
func (sc *gswSC) Connect()                                   {}
func (sc *gswSC) UpdateAddresses([]resolver.Address)         {}
func (sc *gswSC) RegisterHealthListener(func(balancer.SubConnState)) {}
func (sc *gswSC) GetOrBuildProducer(balancer.ProducerBuilder) (balancer.Producer, func()) {
	return nil, func() {}
}

func (h *gswHarness) rec(s string) {
	h.mu.Lock()
	h.ev = append(h.ev, s)
	h.mu.Unlock()
}

func (h *gswHarness) build(cc balancer.ClientConn) balancer.Balancer {
	h.serial++
	c := &gswChild{h: h, id: h.serial, cc: cc}
	h.rec(fmt.Sprintf("b%d", c.id))
	sc := h.script
	h.script = "-"
	if sc == "nil" {
		return nil
	}
	h.kids[c.id] = c
	c.act(sc)
	return c
}

// act runs an inline script: - | st:<S> | nsc
func (c *gswChild) act(sc string) {
	switch {
	case strings.HasPrefix(sc, "st:"):
		c.report(lbState(sc[3:]))
	case sc == "nsc":
		c.newSubConn()
	}
}

func (c *gswChild) report(s connectivity.State) {
	c.h.pk++
	c.cc.UpdateState(balancer.State{ConnectivityState: s, Picker: &gswPicker{owner: c.id, serial: c.h.pk}})
}

func (c *gswChild) newSubConn() {
	var id int
	sc, err := c.cc.NewSubConn([]resolver.Address{{Addr: "a"}}, balancer.NewSubConnOptions{
		StateListener: func(s balancer.SubConnState) {
			c.h.rec(fmt.Sprintf("scl%d:%d:%s", c.id, id, lbLetter(s.ConnectivityState)))
		},
	})
	if err != nil {
		c.h.rec(fmt.Sprintf("nscerr%d", c.id))
		return
	}
	id = sc.(*gswSC).id
	c.h.rec(fmt.Sprintf("nsc%d:%d", id, c.id))
}

func (c *gswChild) UpdateClientConnState(balancer.ClientConnState) error {
	c.h.rec(fmt.Sprintf("ucc%d", c.id))
	sc := c.h.uccNext
	c.h.uccNext = "-"
	if sc == "err" {
		return errors.New("child")
	}
	c.act(sc)
	return nil
}
func (c *gswChild) ResolverError(error) { c.h.rec(fmt.Sprintf("re%d", c.id)) }
func (c *gswChild) UpdateSubConnState(sc balancer.SubConn, s balancer.SubConnState) {
	c.h.rec(fmt.Sprintf("uscs%d:%d:%s", c.id, sc.(*gswSC).id, lbLetter(s.ConnectivityState)))
}
func (c *gswChild) Close()    { c.h.rec(fmt.Sprintf("x%d", c.id)) }
func (c *gswChild) ExitIdle() { c.h.rec(fmt.Sprintf("ei%d", c.id)) }

type gswCC struct {
	internal.EnforceClientConnEmbedding
	h *gswHarness
}

func (cc *gswCC) NewSubConn(_ []resolver.Address, o balancer.NewSubConnOptions) (balancer.SubConn, error) {
	h := cc.h
	h.scSerial++
	sc := &gswSC{h: h, id: h.scSerial, listener: o.StateListener}
	h.scs[sc.id] = sc
	if h.hold {
		// the call stays inside the parent (as it would waiting for the channel's mutex) until `nsce`
		h.hold = false
		hd := &gswHeld{release: make(chan struct{}), done: make(chan struct{})}
		h.held[sc.id] = hd
		h.rec(fmt.Sprintf("held%d:%d", sc.id, h.holdChild))
		<-hd.release
	}
	return sc, nil
}
func (cc *gswCC) RemoveSubConn(balancer.SubConn) {}
func (cc *gswCC) UpdateAddresses(sc balancer.SubConn, _ []resolver.Address) {
	cc.h.rec(fmt.Sprintf("ua%d", sc.(*gswSC).id))
}
func (cc *gswCC) ResolveNow(resolver.ResolveNowOptions) { cc.h.rec("rn") }
func (cc *gswCC) Target() string                        { return "verif" }
func (cc *gswCC) MetricsRecorder() stats.MetricsRecorder {
	return istats.NewMetricsRecorderList(nil)
}
func (cc *gswCC) UpdateState(s balancer.State) {
	switch p := s.Picker.(type) {
	case *gswPicker:
		cc.h.rec(fmt.Sprintf("push:%d:%s:%d", p.owner, lbLetter(s.ConnectivityState), p.serial))
	default:
		// base.NewErrPicker: the initial picker of a wrapper (ErrNoSubConnAvailable) or ResolverError's
		_, err := s.Picker.Pick(balancer.PickInfo{})
		if err == balancer.ErrNoSubConnAvailable {
			cc.h.rec(fmt.Sprintf("push:?:%s:0", lbLetter(s.ConnectivityState)))
		} else {
			cc.h.rec(fmt.Sprintf("push:0:%s:pe", lbLetter(s.ConnectivityState)))
		}
	}
}

func init() {
	for i := 0; i < gswNames; i++ {
		balancer.Register(gswBuilder{i})
	}
	register("s_gsw", func() SHandler {
		h := &gswHarness{kids: map[int]*gswChild{}, scs: map[int]*gswSC{}, script: "-", held: map[int]*gswHeld{}}
		gswCur = h
		h.bal = gracefulswitch.NewBalancer(&gswCC{h: h}, balancer.BuildOptions{})
		return h
	})
}

func (h *gswHarness) Close() {
	for _, hd := range h.held {
		close(hd.release)
	}
	h.held = map[int]*gswHeld{}
	settle()
	if !h.closed {
		h.bal.Close()
	}
}

func gswKind(e string) int {
	if strings.HasPrefix(e, "x") || strings.HasPrefix(e, "sd") {
		return 1
	}
	return 0
}

// canonical order: see the Lean driver
func gswCanon(ev []string) string {
	var a, b []string
	for _, e := range ev {
		if gswKind(e) == 0 {
			a = append(a, e)
		} else {
			b = append(b, e)
		}
	}
	// sort maximal runs of sd
	i := 0
	for i < len(b) {
		if strings.HasPrefix(b[i], "sd") {
			j := i
			for j < len(b) && strings.HasPrefix(b[j], "sd") {
				j++
			}
			run := b[i:j]
			sort.Slice(run, func(x, y int) bool { return lbAtoi(run[x][2:]) < lbAtoi(run[y][2:]) })
			i = j
		} else {
			i++
		}
	}
	return lbJoin(append(a, b...))
}

func (h *gswHarness) Op(f []string) string {
	h.mu.Lock()
	h.ev = nil
	h.mu.Unlock()
	res := "ok"
	scOK := func(s string) *gswSC { return h.scs[lbAtoi(s)] }
	switch f[0] {
	case "switch":
		h.script = f[2]
		err := h.bal.SwitchTo(gswBuilder{lbAtoi(f[1])})
		h.script = "-"
		if err == balancer.ErrBadResolverState {
			res = "bad"
		} else if err != nil {
			res = "closed"
		}
	case "ucc":
		h.script = f[2]
		st := balancer.ClientConnState{}
		if f[1] != "-" {
			cfg, err := gracefulswitch.ParseConfig(json.RawMessage(fmt.Sprintf(`[{"verif_gsw_%s":{}}]`, f[1])))
			if err != nil {
				return "bad-op"
			}
			st.BalancerConfig = cfg
		}
		// the script of the forwarded UpdateClientConnState goes to whichever child receives it
		h.uccNext = f[3]
		err := h.bal.UpdateClientConnState(st)
		h.uccNext = "-"
		h.script = "-"
		if err != nil {
			switch {
			case strings.Contains(err.Error(), "could not switch"):
				res = "switcherr"
			case strings.Contains(err.Error(), "closed"):
				res = "closed"
			default:
				res = "childerr"
			}
		}
	case "reserr":
		h.bal.ResolverError(errors.New("resolver"))
	case "exitidle":
		h.bal.ExitIdle()
	case "close":
		h.bal.Close()
		h.closed = true
	case "st":
		c := h.kids[lbAtoi(f[1])]
		if c == nil {
			return "bad-op"
		}
		c.report(lbState(f[2]))
	case "nsc":
		c := h.kids[lbAtoi(f[1])]
		if c == nil {
			return "bad-op"
		}
		c.newSubConn()
	case "nscb":
		c := h.kids[lbAtoi(f[1])]
		if c == nil {
			return "bad-op"
		}
		h.hold, h.holdChild = true, c.id
		go c.newSubConn()
	case "nsce":
		hd := h.held[lbAtoi(f[1])]
		if hd == nil {
			return "bad-op"
		}
		delete(h.held, lbAtoi(f[1]))
		close(hd.release)
	case "scst":
		sc := scOK(f[1])
		if sc == nil {
			return "bad-op"
		}
		sc.listener(balancer.SubConnState{ConnectivityState: lbState(f[2])})
	case "uscs":
		sc := scOK(f[1])
		if sc == nil {
			return "bad-op"
		}
		h.bal.UpdateSubConnState(sc, balancer.SubConnState{ConnectivityState: lbState(f[2])})
	case "scsd":
		sc := scOK(f[1])
		if sc == nil {
			return "bad-op"
		}
		sc.Shutdown()
	case "rn":
		c := h.kids[lbAtoi(f[1])]
		if c == nil {
			return "bad-op"
		}
		c.cc.ResolveNow(resolver.ResolveNowOptions{})
	case "ua":
		c, sc := h.kids[lbAtoi(f[1])], scOK(f[2])
		if c == nil || sc == nil {
			return "bad-op"
		}
		c.cc.UpdateAddresses(sc, nil)
	default:
		return "bad-op"
	}
	settle() // join the goroutine that closes a swapped-out policy (and let a held NewSubConn reach the parent)
	if f[0] == "nscb" {
		h.hold = false // the call was refused before it reached the parent
	}
	h.mu.Lock()
	out := gswCanon(h.ev)
	h.ev = nil
	h.mu.Unlock()
	return "r=" + res + " ev=" + out
}
