// Package synct is the T2 side of the harness: the same line protocol as cmd/impl, but every
// case (the ops between two `reset` lines) runs inside its own testing/synctest bubble, so
// that components with internal goroutines, channels and timers can be driven
// deterministically: after each external event the handler calls synctest.Wait() (via
// settle()) until every goroutine of the bubble is durably blocked, and virtual time only
// advances through explicit sleep ops.
//
//	synct.test -test.run '^TestImpl$' -comp <component>  < ops  > outputs
//
// If goroutines started by a case are still alive when the case ends (after Close), the
// bubble deadlocks and the process dies: the check attributes that CRASH to the case.
package synct

import (
	"bufio"
	"flag"
	"fmt"
	"os"
	"sort"
	"strings"
	"testing"
	"testing/synctest"
)

// SHandler drives one case inside a bubble.
type SHandler interface {
	// Op executes one op and returns its canonical output line. It runs inside the bubble and
	// may call settle() as often as it needs.
	Op(f []string) string
	// Close tears the component down at the end of the case; every goroutine must be gone afterwards.
	Close()
}

var registry = map[string]func() SHandler{}

func register(name string, factory func() SHandler) { registry[name] = factory }

// settle waits until all other goroutines in the bubble are durably blocked.
func settle() { synctest.Wait() }

var comp = flag.String("comp", "", "component")

func safeOp(h SHandler, f []string) (out string) {
	defer func() {
		if r := recover(); r != nil {
			out = "PANIC " + strings.ReplaceAll(fmt.Sprint(r), "\n", " ")
		}
	}()
	return h.Op(f)
}

func TestImpl(t *testing.T) {
	factory := registry[*comp]
	if factory == nil {
		names := []string{}
		for n := range registry {
			names = append(names, n)
		}
		sort.Strings(names)
		fmt.Fprintln(os.Stderr, "components:", strings.Join(names, " "))
		os.Exit(2)
	}
	in := bufio.NewScanner(os.Stdin)
	in.Buffer(make([]byte, 1<<24), 1<<24)
	out := bufio.NewWriterSize(os.Stdout, 1<<16)
	defer out.Flush()
	var pending []string // ops of the current case
	runCase := func(ops []string) {
		out.Flush()
		synctest.Test(t, func(t *testing.T) {
			h := factory()
			for _, l := range ops {
				f := strings.Fields(l)
				if len(f) == 0 {
					fmt.Fprintln(out, "bad-op")
					continue
				}
				s := safeOp(h, f)
				s = strings.NewReplacer("\n", " ", "\t", " ").Replace(s)
				fmt.Fprintln(out, s)
				out.Flush()
			}
			h.Close()
			synctest.Wait()
		})
	}
	started := false
	for in.Scan() {
		l := in.Text()
		if strings.TrimSpace(l) == "reset" {
			if started {
				runCase(pending)
			}
			started = true
			pending = nil
			fmt.Fprintln(out, "reset")
			continue
		}
		started = true
		pending = append(pending, l)
	}
	if started {
		runCase(pending)
	}
}
