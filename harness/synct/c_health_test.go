package synct

import (
	"context"
	"errors"
	"fmt"
	"strconv"
	"strings"
	"sync"

	"google.golang.org/grpc"
	"google.golang.org/grpc/codes"
	"google.golang.org/grpc/health"
	healthpb "google.golang.org/grpc/health/grpc_health_v1"
	"google.golang.org/grpc/status"
)

// component s_health (C54): the real health.Server in a synctest bubble; Watch is called with fake
// streams whose Send blocks until the harness acknowledges it (arbitrarily slow clients).
// Services are numbered: 0 = "", n = "s<n>". Statuses are the int32 enum values.
//
//	set <svc> <status> | shutdown | resume
//	check <svc>                 -> <status> | NOTFOUND
//	watch <svc>                 start Watch on a new stream (streams are numbered 0,1,… in creation order)
//	ack <i> | fail <i>          the pending Send of stream i returns nil | an error
//	cancel <i>                  the context of stream i is cancelled
//	cwatch <svc> <n>            n concurrent Watch calls
//	cset <svc> <v1,v2,…>        concurrent SetServingStatus calls (sequential, `mode=seq`, when some live
//	                            stream is idle: what it would pick up depends on the schedule) -> final=<Check> mode=
//	cshut <svc> <v>             SetServingStatus(svc,v) ‖ Shutdown() (same fallback)       -> final=<Check> mode=
//
// Every answer ends with ` |` and one word per stream: `<i>:<svc>:<A|D>:<delivered, '.'-joined|->:<in Send|->`.
type hStream struct {
	grpc.ServerStream
	ctx     context.Context
	cancel  context.CancelFunc
	svc     int
	mu      sync.Mutex
	pend    *int32
	log     []int32
	release chan error
	done    bool
}

func (f *hStream) Context() context.Context { return f.ctx }

func (f *hStream) Send(r *healthpb.HealthCheckResponse) error {
	v := int32(r.Status)
	f.mu.Lock()
	f.pend = &v
	f.mu.Unlock()
	var err error
	select {
	case err = <-f.release:
	case <-f.ctx.Done():
		err = f.ctx.Err()
	}
	f.mu.Lock()
	f.pend = nil
	if err == nil {
		f.log = append(f.log, v)
	}
	f.mu.Unlock()
	return err
}

type hHealth struct {
	s       *health.Server
	streams []*hStream
	wg      sync.WaitGroup
}

func init() {
	register("s_health", func() SHandler { return &hHealth{s: health.NewServer()} })
}

func hSvc(n int) string {
	if n == 0 {
		return ""
	}
	return "s" + strconv.Itoa(n)
}

func (h *hHealth) startWatch(svc int) *hStream {
	ctx, cancel := context.WithCancel(context.Background())
	st := &hStream{ctx: ctx, cancel: cancel, svc: svc, release: make(chan error)}
	h.streams = append(h.streams, st)
	return st
}

func (h *hHealth) runWatch(st *hStream) {
	h.wg.Add(1)
	go func() {
		defer h.wg.Done()
		h.s.Watch(&healthpb.HealthCheckRequest{Service: hSvc(st.svc)}, st)
		st.mu.Lock()
		st.done = true
		st.mu.Unlock()
	}()
}

func (h *hHealth) check(svc int) string {
	r, err := h.s.Check(context.Background(), &healthpb.HealthCheckRequest{Service: hSvc(svc)})
	if err != nil {
		if status.Code(err) == codes.NotFound {
			return "NOTFOUND"
		}
		return "ERR"
	}
	return strconv.Itoa(int(r.Status))
}

func (h *hHealth) dump() string {
	var b strings.Builder
	b.WriteString(" |")
	for i, st := range h.streams {
		st.mu.Lock()
		a := "A"
		if st.done {
			a = "D"
		}
		lg := "-"
		if len(st.log) > 0 {
			p := make([]string, len(st.log))
			for k, v := range st.log {
				p[k] = strconv.Itoa(int(v))
			}
			lg = strings.Join(p, ".")
		}
		pd := "-"
		if st.pend != nil {
			pd = strconv.Itoa(int(*st.pend))
		}
		st.mu.Unlock()
		fmt.Fprintf(&b, " %d:%d:%s:%s:%s", i, st.svc, a, lg, pd)
	}
	return b.String()
}

// someIdle: a live stream that is not inside Send would pick up values as they arrive
func (h *hHealth) someIdle() bool {
	for _, st := range h.streams {
		st.mu.Lock()
		idle := !st.done && st.pend == nil
		st.mu.Unlock()
		if idle {
			return true
		}
	}
	return false
}

func (h *hHealth) Op(f []string) string {
	res := "ok"
	switch f[0] {
	case "set":
		h.s.SetServingStatus(hSvc(tcAtoi(f[1])), healthpb.HealthCheckResponse_ServingStatus(tcAtoi(f[2])))
	case "shutdown":
		h.s.Shutdown()
	case "resume":
		h.s.Resume()
	case "check":
		res = h.check(tcAtoi(f[1]))
	case "watch":
		h.runWatch(h.startWatch(tcAtoi(f[1])))
	case "cwatch":
		n := tcAtoi(f[2])
		var sts []*hStream
		for i := 0; i < n; i++ {
			sts = append(sts, h.startWatch(tcAtoi(f[1])))
		}
		for _, st := range sts {
			h.runWatch(st)
		}
	case "ack", "fail":
		i := tcAtoi(f[1])
		if i >= len(h.streams) {
			return "bad-op"
		}
		st := h.streams[i]
		st.mu.Lock()
		p := st.pend != nil
		st.mu.Unlock()
		if !p {
			res = "noop"
			break
		}
		if f[0] == "ack" {
			st.release <- nil
		} else {
			st.release <- errors.New("stream broken")
		}
	case "cancel":
		i := tcAtoi(f[1])
		if i >= len(h.streams) {
			return "bad-op"
		}
		st := h.streams[i]
		st.mu.Lock()
		d := st.done
		st.mu.Unlock()
		if d {
			res = "noop"
			break
		}
		st.cancel()
	case "cset", "cshut":
		svc := tcAtoi(f[1])
		var fs []func()
		for _, p := range strings.Split(f[2], ",") {
			v := tcAtoi(p)
			fs = append(fs, func() { h.s.SetServingStatus(hSvc(svc), healthpb.HealthCheckResponse_ServingStatus(v)) })
		}
		if f[0] == "cshut" {
			fs = append(fs, h.s.Shutdown)
		}
		mode := "par"
		if h.someIdle() {
			mode = "seq"
			for _, fn := range fs {
				fn()
				settle()
			}
		} else {
			var wg sync.WaitGroup
			for _, fn := range fs {
				wg.Add(1)
				go func() { defer wg.Done(); fn() }()
			}
			wg.Wait()
		}
		settle()
		return "final=" + h.check(svc) + " mode=" + mode + h.dump()
	default:
		return "bad-op"
	}
	settle()
	return res + h.dump()
}

func (h *hHealth) Close() {
	for _, st := range h.streams {
		st.cancel()
	}
	h.wg.Wait()
}
