package synct

import (
	"context"
	"errors"
	"fmt"
	"io"
	"net"
	"strconv"
	"strings"
	"time"

	"google.golang.org/grpc"
	"google.golang.org/grpc/balancer"
	"google.golang.org/grpc/codes"
	"google.golang.org/grpc/connectivity"
	"google.golang.org/grpc/credentials/insecure"
	"google.golang.org/grpc/internal"
	iresolver "google.golang.org/grpc/internal/resolver"
	"google.golang.org/grpc/internal/transport"
	"google.golang.org/grpc/resolver"
	"google.golang.org/grpc/resolver/manual"
	"google.golang.org/grpc/serviceconfig"
	"google.golang.org/grpc/status"
	"google.golang.org/grpc/test/bufconn"
	"google.golang.org/protobuf/types/known/emptypb"
)

// component s_rpcerr (C24, e2e): what the application gets from Invoke / NewStream / SendMsg / RecvMsg
// when a picker, a config selector, per-RPC credentials, the dialer, the server or the context fail.
//
//	pick <spec> <failfast 0|1>     a balancer whose picker returns the scripted error
//	cfgsel <spec>                  a config selector returning the scripted error
//	creds <dial|call> <spec>       per-RPC credentials returning the scripted error
//	dial <spec> <failfast 0|1>     the dialer returns the scripted error
//	stream <scenario>              srvstop | cancel | deadline | srvst.<code> | srvplain | clean | sendretry.<maxAttempts> |
//	                               retryctx.<invoke|recv|send>.<deadline|cancel>
//
// Answers are canon values (nil | eof | st:<code> | raw), one per API call made.
type reGS struct{ st *status.Status }

func (e reGS) Error() string              { return "custom status error" }
func (e reGS) GRPCStatus() *status.Status { return e.st }

func reParse(spec string) error {
	parts := strings.Split(spec, ":")
	var err error
	t := parts[len(parts)-1]
	u := func(s string) uint64 {
		n, e := strconv.ParseUint(s, 10, 32)
		if e != nil {
			panic("bad code " + s)
		}
		return n
	}
	switch {
	case t == "nil":
		err = nil
	case t == "eof":
		err = io.EOF
	case t == "ueof":
		err = io.ErrUnexpectedEOF
	case t == "ctxd":
		err = context.DeadlineExceeded
	case t == "ctxc":
		err = context.Canceled
	case t == "nosub":
		err = balancer.ErrNoSubConnAvailable
	case t == "nilst":
		err = reGS{nil}
	case t == "plain":
		err = errors.New("plain error")
	case strings.HasPrefix(t, "st."):
		err = status.Error(codes.Code(u(t[3:])), "m")
	case strings.HasPrefix(t, "gst."):
		err = reGS{status.New(codes.Code(u(t[4:])), "m")}
	default:
		panic("bad spec " + spec)
	}
	for i := len(parts) - 2; i >= 0; i-- {
		switch parts[i] {
		case "w":
			err = fmt.Errorf("wrapped: %w", err)
		case "nse":
			err = &transport.NewStreamError{Err: err}
		case "conn":
			err = transport.VerifNewConnectionError("scripted", err)
		default:
			panic("bad spec " + spec)
		}
	}
	return err
}

func reCanon(err error) string {
	if err == nil {
		return "nil"
	}
	if err == io.EOF {
		return "eof"
	}
	if st, ok := status.FromError(err); ok {
		return "st:" + strconv.FormatUint(uint64(st.Code()), 10)
	}
	return "raw"
}

// --- scripted picker
var rePickErr error

type reBB struct{}

func (reBB) Name() string { return "verif_errpick" }
func (reBB) Build(cc balancer.ClientConn, _ balancer.BuildOptions) balancer.Balancer {
	return &reBal{cc: cc}
}

type reBal struct{ cc balancer.ClientConn }

func (b *reBal) UpdateClientConnState(balancer.ClientConnState) error {
	b.cc.UpdateState(balancer.State{ConnectivityState: connectivity.Ready, Picker: rePicker{}})
	return nil
}
func (b *reBal) ResolverError(error)                                          {}
func (b *reBal) UpdateSubConnState(balancer.SubConn, balancer.SubConnState) {}
func (b *reBal) Close()                                                       {}
func (b *reBal) ExitIdle()                                                    {}

type rePicker struct{}

func (rePicker) Pick(balancer.PickInfo) (balancer.PickResult, error) {
	return balancer.PickResult{}, rePickErr
}

// --- scripted config selector
type reSel struct{ err error }

func (s reSel) SelectConfig(iresolver.RPCInfo) (*iresolver.RPCConfig, error) { return nil, s.err }

// --- scripted per-RPC credentials
type reCreds struct{ err error }

func (c reCreds) GetRequestMetadata(context.Context, ...string) (map[string]string, error) {
	return nil, c.err
}
func (reCreds) RequireTransportSecurity() bool { return false }

func init() {
	balancer.Register(reBB{})
	register("s_rpcerr", func() SHandler { return &sRPCErr{} })
}

type sRPCErr struct{}

func (s *sRPCErr) Close() {}

// invoke runs one unary RPC with a 1 s (virtual) deadline and returns its canon result.
func reInvoke(cc *grpc.ClientConn, opts ...grpc.CallOption) string {
	ctx, cancel := context.WithTimeout(context.Background(), time.Second)
	defer cancel()
	ch := make(chan error, 1)
	go func() { ch <- cc.Invoke(ctx, "/verif.Err/Call", &emptypb.Empty{}, &emptypb.Empty{}, opts...) }()
	settle()
	select {
	case err := <-ch:
		return reCanon(err)
	default:
	}
	time.Sleep(2 * time.Second)
	settle()
	select {
	case err := <-ch:
		return reCanon(err)
	default:
		return "HUNG"
	}
}


func (s *sRPCErr) Op(f []string) string {
	base := []grpc.DialOption{grpc.WithTransportCredentials(insecure.NewCredentials()), grpc.WithIdleTimeout(0)}
	switch f[0] {
	case "pick":
		rePickErr = reParse(f[1])
		cc, err := grpc.NewClient("passthrough:///pick", append(base,
			grpc.WithDefaultServiceConfig(`{"loadBalancingConfig":[{"verif_errpick":{}}]}`))...)
		if err != nil {
			return "err " + err.Error()
		}
		defer cc.Close()
		return reInvoke(cc, grpc.WaitForReady(f[2] == "0"))
	case "cfgsel":
		r := manual.NewBuilderWithScheme("verifcs")
		// the channel consults the selector only when the resolver also supplies a service config
		sc := internal.ParseServiceConfig.(func(string) *serviceconfig.ParseResult)("{}")
		r.InitialState(iresolver.SetConfigSelector(resolver.State{Addresses: []resolver.Address{{Addr: "x"}}, ServiceConfig: sc}, reSel{reParse(f[1])}))
		cc, err := grpc.NewClient("verifcs:///x", append(base, grpc.WithResolvers(r))...)
		if err != nil {
			return "err " + err.Error()
		}
		defer cc.Close()
		return reInvoke(cc)
	case "creds", "stream":
		lis := bufconn.Listen(1 << 16)
		srv := grpc.NewServer()
		var scenario string
		if f[0] == "stream" {
			scenario = f[1]
			srv.RegisterService(&grpc.ServiceDesc{ServiceName: "verif.Err", HandlerType: (*any)(nil),
				Streams: []grpc.StreamDesc{{StreamName: "Stream", ClientStreams: true, ServerStreams: true,
					Handler: func(_ any, ss grpc.ServerStream) error {
						if strings.HasPrefix(scenario, "sendretry.") || strings.HasPrefix(scenario, "retryctx.") {
							return status.Error(codes.Unavailable, "attempt refused") // trailers-only, before reading
						}
						var in emptypb.Empty
						if err := ss.RecvMsg(&in); err != nil {
							return err
						}
						switch {
						case scenario == "clean":
							return nil
						case scenario == "srvplain":
							return errors.New("plain handler error")
						case strings.HasPrefix(scenario, "srvst."):
							n, _ := strconv.ParseUint(scenario[6:], 10, 32)
							return status.Error(codes.Code(n), "handler status")
						}
						<-ss.Context().Done() // srvstop / cancel / deadline: wait to be torn down
						return ss.Context().Err()
					}}}}, nil)
		}
		go srv.Serve(lis)
		defer lis.Close()
		defer srv.Stop()
		dopts := append(base, grpc.WithContextDialer(func(ctx context.Context, _ string) (net.Conn, error) { return lis.DialContext(ctx) }))
		var copts []grpc.CallOption
		if f[0] == "creds" {
			c := reCreds{reParse(f[2])}
			if f[1] == "dial" {
				dopts = append(dopts, grpc.WithPerRPCCredentials(c))
			} else {
				copts = append(copts, grpc.PerRPCCredentials(c))
			}
		}
		if strings.HasPrefix(scenario, "sendretry.") { // sendretry.<maxAttempts>: UNAVAILABLE is retryable
			dopts = append(dopts, grpc.WithDefaultServiceConfig(`{"methodConfig":[{"name":[{}],"retryPolicy":{"maxAttempts":`+scenario[10:]+
				`,"initialBackoff":"0.01s","maxBackoff":"0.01s","backoffMultiplier":1,"retryableStatusCodes":["UNAVAILABLE"]}}]}`))
		}
		if strings.HasPrefix(scenario, "retryctx.") { // long retry backoff (2 s +-20%), the context ends 300 ms into it
			dopts = append(dopts, grpc.WithDefaultServiceConfig(`{"methodConfig":[{"name":[{}],"retryPolicy":{"maxAttempts":4,`+
				`"initialBackoff":"2s","maxBackoff":"2s","backoffMultiplier":1,"retryableStatusCodes":["UNAVAILABLE"]}}]}`))
		}
		cc, err := grpc.NewClient("passthrough:///creds", dopts...)
		if err != nil {
			return "err " + err.Error()
		}
		defer cc.Close()
		if f[0] == "creds" {
			return reInvoke(cc, copts...)
		}
		if strings.HasPrefix(scenario, "retryctx.") {
			// retryctx.<invoke|recv|send>.<deadline|cancel>: every attempt is refused with a retryable status; the
			// named API call is inside the retry backoff sleep when the deadline expires / the application cancels
			parts := strings.Split(scenario, ".")
			if len(parts) != 3 {
				return "bad-op"
			}
			api, how := parts[1], parts[2]
			ctx, cancel := context.WithCancel(context.Background())
			if how == "deadline" {
				ctx, cancel = context.WithTimeout(context.Background(), 300*time.Millisecond)
			}
			defer cancel()
			var items []string
			done := make(chan struct{})
			go func() {
				defer close(done)
				if api == "invoke" {
					items = append(items, "invoke="+reCanon(cc.Invoke(ctx, "/verif.Err/Stream", &emptypb.Empty{}, &emptypb.Empty{})))
					return
				}
				st, err := cc.NewStream(ctx, &grpc.StreamDesc{ClientStreams: true, ServerStreams: true}, "/verif.Err/Stream")
				items = append(items, "new="+reCanon(err))
				if err != nil {
					return
				}
				if api == "send" {
					// let the refusal arrive first: the first SendMsg then finds the attempt finished and retries
					time.Sleep(time.Millisecond)
					items = append(items, "send="+reCanon(st.SendMsg(&emptypb.Empty{})))
					return
				}
				items = append(items, "send="+reCanon(st.SendMsg(&emptypb.Empty{})))
				items = append(items, "recv="+reCanon(st.RecvMsg(&emptypb.Empty{})))
			}()
			settle()
			time.Sleep(300 * time.Millisecond)
			if how == "cancel" {
				cancel()
			}
			settle()
			select {
			case <-done:
			default:
				time.Sleep(10 * time.Second)
				settle()
				select {
				case <-done:
					items = append(items, "late")
				default:
					return "HUNG " + strings.Join(items, " ")
				}
			}
			return strings.Join(items, " ")
		}
		ctx, cancel := context.WithCancel(context.Background())
		if scenario == "deadline" {
			ctx, cancel = context.WithTimeout(context.Background(), time.Second)
		}
		defer cancel()
		var out []string
		type sres struct {
			st  grpc.ClientStream
			err error
		}
		ch := make(chan sres, 1)
		go func() {
			st, err := cc.NewStream(ctx, &grpc.StreamDesc{ClientStreams: true, ServerStreams: true}, "/verif.Err/Stream")
			ch <- sres{st, err}
		}()
		settle()
		var r sres
		select {
		case r = <-ch:
		default:
			return "HUNG-newstream"
		}
		out = append(out, "new="+reCanon(r.err))
		if r.err != nil {
			return strings.Join(out, " ")
		}
		st := r.st
		call := func(name string, fn func() error) {
			ech := make(chan error, 1)
			go func() { ech <- fn() }()
			settle()
			select {
			case e := <-ech:
				out = append(out, name+"="+reCanon(e))
				return
			default:
			}
			time.Sleep(2 * time.Second)
			settle()
			select {
			case e := <-ech:
				out = append(out, name+"="+reCanon(e))
			default:
				out = append(out, name+"=HUNG")
			}
		}
		if strings.HasPrefix(scenario, "sendretry.") {
			for i := 1; i <= 5; i++ {
				call("send"+strconv.Itoa(i), func() error { return st.SendMsg(&emptypb.Empty{}) })
			}
			call("recv", func() error { return st.RecvMsg(&emptypb.Empty{}) })
			return strings.Join(out, " ")
		}
		call("send", func() error { return st.SendMsg(&emptypb.Empty{}) })
		switch scenario {
		case "srvstop":
			srv.Stop()
			settle()
		case "cancel":
			cancel()
			settle()
		}
		call("recv", func() error { return st.RecvMsg(&emptypb.Empty{}) })
		call("send2", func() error { return st.SendMsg(&emptypb.Empty{}) })
		call("recv2", func() error { return st.RecvMsg(&emptypb.Empty{}) })
		return strings.Join(out, " ")
	case "dial":
		derr := reParse(f[1])
		cc, err := grpc.NewClient("passthrough:///dial", append(base,
			grpc.WithContextDialer(func(context.Context, string) (net.Conn, error) { return nil, derr }))...)
		if err != nil {
			return "err " + err.Error()
		}
		defer cc.Close()
		return reInvoke(cc, grpc.WaitForReady(f[2] == "0"))
	}
	return "bad-op"
}
