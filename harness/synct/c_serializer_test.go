package synct

import (
	"context"
	"fmt"
	"sort"
	"strconv"
	"strings"
	"sync"

	"google.golang.org/grpc/internal/grpcsync"
)

// component s_serializer (C31, T2): the real grpcsync.CallbackSerializer driven by concurrent
// scheduler goroutines, cancellation, blocking and re-entrant callbacks.
//
//	conc <g> <g> …   every <g> is its own goroutine, started together:
//	                   g:<item>,<item>,…  schedules the items in program order with ScheduleOr
//	                   cancel             cancels the serializer's context
//	                 item = p<id> plain callback | b<id> callback that blocks until `rel <id>` |
//	                        n<id>.<child> callback that itself schedules plain callback <child>
//	wait <id>        a goroutine calls ScheduleAndWait(plain callback <id>)
//	rel <id>         releases blocking callback <id>
//	cancel           cancels the context from the driving goroutine
//
// Output of every op (after the bubble is quiescent):
//
//	put=<id>+|<id>-,…  run=s<id>,e<id>,…  ret=<id>:ok|<id>:closed,…  done=0|1
//
// put: the linearization order of the Puts made during this op and whether each was accepted.
// The order is exact: ScheduleOr is called under a harness mutex hmu and logged before hmu is
// released. That loses no behaviour: ScheduleOr is Unbounded.Put (atomic under the buffer's own
// mutex) plus the inline onFailure (harness code), so Puts are totally ordered anyway; the run
// goroutine's receive/Load and the AfterFunc goroutine's Close do not take hmu and still race
// with the Puts. (ScheduleAndWait cannot be wrapped - it blocks - so `wait` is only ever issued on
// its own, when no other Put can be in flight.)
type serializerH struct {
	cs     *grpcsync.CallbackSerializer
	cancel context.CancelFunc

	hmu  sync.Mutex // serialises (Put, log) pairs
	mu   sync.Mutex // guards the logs
	puts []string
	run  []string
	rets []string

	gates map[int]chan struct{}
}

func init() {
	register("s_serializer", func() SHandler {
		ctx, cancel := context.WithCancel(context.Background())
		h := &serializerH{cancel: cancel, gates: map[int]chan struct{}{}}
		h.cs = grpcsync.NewCallbackSerializer(ctx)
		settle()
		return h
	})
}

func (h *serializerH) logRun(s string) { h.mu.Lock(); h.run = append(h.run, s); h.mu.Unlock() }

// schedule performs one ScheduleOr under hmu and logs its outcome in linearization order.
func (h *serializerH) schedule(id int, f func(context.Context)) {
	h.hmu.Lock()
	defer h.hmu.Unlock()
	ok := true
	h.cs.ScheduleOr(f, func() { ok = false })
	h.mu.Lock()
	if ok {
		h.puts = append(h.puts, strconv.Itoa(id)+"+")
	} else {
		h.puts = append(h.puts, strconv.Itoa(id)+"-")
	}
	h.mu.Unlock()
}

func (h *serializerH) callback(item string) (int, func(context.Context)) {
	kind := item[0]
	body := item[1:]
	switch kind {
	case 'p':
		id := atoiS(body)
		return id, func(context.Context) { h.logRun("s" + body); h.logRun("e" + body) }
	case 'b':
		id := atoiS(body)
		g := make(chan struct{})
		h.gates[id] = g
		return id, func(context.Context) { h.logRun("s" + body); <-g; h.logRun("e" + body) }
	case 'n':
		parts := strings.SplitN(body, ".", 2)
		id, child := atoiS(parts[0]), atoiS(parts[1])
		return id, func(context.Context) {
			h.logRun("s" + parts[0])
			h.schedule(child, func(context.Context) { h.logRun("s" + parts[1]); h.logRun("e" + parts[1]) })
			h.logRun("e" + parts[0])
		}
	}
	panic("bad item " + item)
}

func atoiS(s string) int {
	n, err := strconv.Atoi(s)
	if err != nil {
		panic("bad int " + s)
	}
	return n
}

func (h *serializerH) report() string {
	settle()
	h.mu.Lock()
	defer h.mu.Unlock()
	done := 0
	select {
	case <-h.cs.Done():
		done = 1
	default:
	}
	sort.Slice(h.rets, func(i, j int) bool {
		return atoiS(strings.SplitN(h.rets[i], ":", 2)[0]) < atoiS(strings.SplitN(h.rets[j], ":", 2)[0])
	})
	s := fmt.Sprintf("put=%s run=%s ret=%s done=%d", joinOrDash(h.puts), joinOrDash(h.run), joinOrDash(h.rets), done)
	h.puts, h.run, h.rets = nil, nil, nil
	return s
}

func joinOrDash(l []string) string {
	if len(l) == 0 {
		return "-"
	}
	return strings.Join(l, ",")
}

func (h *serializerH) Op(f []string) string {
	switch f[0] {
	case "conc":
		start := make(chan struct{})
		for _, g := range f[1:] {
			if g == "cancel" {
				go func() { <-start; h.cancel() }()
				continue
			}
			if !strings.HasPrefix(g, "g:") {
				return "bad-op"
			}
			type sc struct {
				id int
				f  func(context.Context)
			}
			var chain []sc
			for _, it := range strings.Split(g[2:], ",") {
				id, cb := h.callback(it)
				chain = append(chain, sc{id, cb})
			}
			go func() {
				<-start
				for _, c := range chain {
					h.schedule(c.id, c.f)
				}
			}()
		}
		close(start)
		return h.report()
	case "wait":
		id := atoiS(f[1])
		go func() {
			err := h.cs.ScheduleAndWait(func(context.Context) { h.logRun("s" + f[1]); h.logRun("e" + f[1]) })
			h.mu.Lock()
			if err != nil {
				h.rets = append(h.rets, f[1]+":closed")
			} else {
				h.rets = append(h.rets, f[1]+":ok")
			}
			h.mu.Unlock()
		}()
		settle()
		// the only Put of this op that is not logged by schedule(): it was rejected iff the caller
		// has already returned with ErrSerializerClosed
		h.mu.Lock()
		flag := "+"
		for _, r := range h.rets {
			if r == f[1]+":closed" {
				flag = "-"
			}
		}
		h.puts = append([]string{strconv.Itoa(id) + flag}, h.puts...)
		h.mu.Unlock()
		return h.report()
	case "rel":
		id := atoiS(f[1])
		if g, ok := h.gates[id]; ok {
			close(g)
			delete(h.gates, id)
		}
		return h.report()
	case "cancel":
		h.cancel()
		return h.report()
	}
	return "bad-op"
}

func (h *serializerH) Close() {
	for id, g := range h.gates {
		close(g)
		delete(h.gates, id)
	}
	h.cancel()
	<-h.cs.Done()
}
