package synct

import (
	"context"
	"fmt"
	"net"
	"net/url"
	"strings"
	"time"

	"google.golang.org/grpc/internal/resolver/dns"
	"google.golang.org/grpc/resolver"
	"google.golang.org/grpc/serviceconfig"
)

// component s_dnswatch (C56, T2): the real dns resolver watcher under virtual time with a
// scripted NetResolver.  Ops: script <o|f…> (results of the next lookups; default o),
// dur <ns> (how long each following lookup takes), build <MinResolutionInterval ns>, rn, sleep <ns>, close.
// Output: `t=<ns since start> lookups=<t:o|t:f,…|->` = the lookups that ran during the op.
type dnsWatch struct {
	start   time.Time
	script  []byte
	log     []string
	r       resolver.Resolver
	oldMin  time.Duration
	closed  bool
	dur     time.Duration // how long each scripted lookup takes (virtual time)
	busyTil time.Time     // a lookup is in progress until then
}

func (d *dnsWatch) LookupHost(ctx context.Context, host string) ([]string, error) {
	ok := true
	if len(d.script) > 0 {
		ok = d.script[0] == 'o'
		d.script = d.script[1:]
	}
	t := time.Since(d.start).Nanoseconds()
	if d.dur > 0 {
		d.busyTil = time.Now().Add(d.dur)
		time.Sleep(d.dur)
	}
	if ok {
		d.log = append(d.log, fmt.Sprintf("%d:o", t))
		return []string{"1.2.3.4"}, nil
	}
	d.log = append(d.log, fmt.Sprintf("%d:f", t))
	return nil, &net.DNSError{Err: "scripted timeout", Name: host, IsTimeout: true}
}

func (d *dnsWatch) LookupSRV(context.Context, string, string, string) (string, []*net.SRV, error) {
	return "", nil, &net.DNSError{Err: "no srv", IsNotFound: true}
}

func (d *dnsWatch) LookupTXT(context.Context, string) ([]string, error) {
	return nil, &net.DNSError{Err: "no txt", IsNotFound: true}
}

// resolver.ClientConn
func (d *dnsWatch) UpdateState(resolver.State) error { return nil }
func (d *dnsWatch) ReportError(error)                {}
func (d *dnsWatch) NewAddress([]resolver.Address)    {}
func (d *dnsWatch) ParseServiceConfig(string) *serviceconfig.ParseResult {
	return &serviceconfig.ParseResult{}
}

// quiesce lets a lookup that is in progress (it takes d.dur of virtual time) finish, so that every
// op ends with the watcher blocked on its ResolveNow channel or its timer, never inside a lookup.
func (d *dnsWatch) quiesce() {
	settle()
	for i := 0; i < 1000; i++ {
		rem := time.Until(d.busyTil)
		if rem <= 0 {
			return
		}
		time.Sleep(rem)
		settle()
	}
}

func (d *dnsWatch) flush() string {
	s := "-"
	if len(d.log) > 0 {
		s = strings.Join(d.log, ",")
	}
	d.log = nil
	return fmt.Sprintf("t=%d lookups=%s", time.Since(d.start).Nanoseconds(), s)
}

func init() {
	register("s_dnswatch", func() SHandler {
		return &dnsWatch{start: time.Now(), oldMin: dns.MinResolutionInterval}
	})
}

func (d *dnsWatch) Op(f []string) string {
	switch f[0] {
	case "script":
		d.script = append(d.script, []byte(f[1])...)
		return d.flush()
	case "dur":
		d.dur = time.Duration(atoi64s(f[1]))
		return d.flush()
	case "build":
		dns.MinResolutionInterval = time.Duration(atoi64s(f[1]))
		dns.VerifSetNetResolver(d)
		u, _ := url.Parse("dns:///example.test:443")
		r, err := dns.NewBuilder().Build(resolver.Target{URL: *u}, d, resolver.BuildOptions{})
		if err != nil {
			return "builderr " + err.Error()
		}
		d.r = r
		d.quiesce()
		return d.flush()
	case "rn":
		if d.r != nil {
			d.r.ResolveNow(resolver.ResolveNowOptions{})
		}
		d.quiesce()
		return d.flush()
	case "sleep":
		time.Sleep(time.Duration(atoi64s(f[1])))
		d.quiesce()
		return d.flush()
	case "close":
		if d.r != nil && !d.closed {
			d.closed = true
			d.r.Close()
		}
		settle()
		return d.flush()
	}
	return "bad-op"
}

func (d *dnsWatch) Close() {
	if d.r != nil && !d.closed {
		d.closed = true
		d.r.Close()
	}
	dns.MinResolutionInterval = d.oldMin
}
