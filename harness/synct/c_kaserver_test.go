package synct

// component s_kaserver (C15): the REAL http2Server (internal/transport) over net.Pipe with a
// scripted raw-frame client (x/net/http2 Framer + hpack) that sends PINGs / opens streams at
// chosen virtual instants and answers nothing by itself.
//
//	start <Time ns> <Timeout ns> <MinTime ns> <PermitWithoutStream 0|1>  → ok
//	adv <ns>            sleep, settle
//	ping                client sends a PING (non-ack)
//	read <kind>         client sends another frame (ack|settings|wupd)
//	open                client opens a stream (HEADERS, no END_STREAM); streams are numbered 0,1,… in order
//	hdr <k>             server handler sends headers on stream k      (→ `-` or `err`)
//	data <k>            server handler writes a 5+3 byte message on k (→ `-` or `err`)
//	fin <k>             server handler writes status OK on k           (→ `-` or `err`)
//	rst <k>             client resets stream k
//
// answer = events in order, `-` if none; a handler-side op whose call returned an error puts
// `err` first:
//
//	p@<t>      client received a keepalive PING from the server
//	g@<t>:<c>  client received GOAWAY with http2 error code c (11 = ENHANCE_YOUR_CALM)
//	c@<t>      the connection was closed by the server (EOF at the client)
//
// After g@ or c@ every op answers `closed`.

import (
	"bytes"
	"context"
	"errors"
	"fmt"
	"net"
	"strings"
	"sync"
	"time"

	"golang.org/x/net/http2"
	"golang.org/x/net/http2/hpack"
	"google.golang.org/grpc/codes"
	"google.golang.org/grpc/internal/transport"
	"google.golang.org/grpc/keepalive"
	"google.golang.org/grpc/mem"
	"google.golang.org/grpc/status"
)

type kaserver struct {
	log      kaEvlog
	st       transport.ServerTransport
	peer     net.Conn
	fr       *http2.Framer
	closed   bool
	smu      sync.Mutex
	streams  []*transport.ServerStream
	nextID   uint32
	nOpened  int
	peerDone chan struct{}
	hsDone   chan struct{}
	cancel   context.CancelFunc
	henc     *hpack.Encoder
	hbuf     bytes.Buffer
}

func init() {
	register("s_kaserver", func() SHandler { return &kaserver{nextID: 1} })
}

func (k *kaserver) start(f []string) string {
	if k.st != nil || len(f) != 5 {
		return "bad-op"
	}
	tm, to, mt, permit := kaAtoi(f[1]), kaAtoi(f[2]), kaAtoi(f[3]), f[4] == "1"
	if tm <= 0 || to <= 0 || mt <= 0 || (f[4] != "0" && f[4] != "1") {
		return "bad-op"
	}
	cli, srv := net.Pipe()
	k.peer = cli
	k.fr = http2.NewFramer(cli, cli)
	k.henc = hpack.NewEncoder(&k.hbuf)
	k.peerDone = make(chan struct{})
	k.hsDone = make(chan struct{})
	k.log.t0 = time.Now()
	cfg := &transport.ServerConfig{
		MaxStreams:       1 << 20,
		KeepaliveParams:  keepalive.ServerParameters{Time: time.Duration(tm), Timeout: time.Duration(to)},
		KeepalivePolicy:  keepalive.EnforcementPolicy{MinTime: time.Duration(mt), PermitWithoutStream: permit},
		StaticWindowSize: true,
	}
	var err error
	ready := make(chan struct{})
	go func() {
		defer close(ready)
		k.st, err = transport.NewServerTransport(srv, cfg)
	}()
	// client reader: records server keepalive pings, GOAWAYs and EOF.
	go func() {
		defer close(k.peerDone)
		for {
			fr, rerr := k.fr.ReadFrame()
			if rerr != nil {
				k.log.add("c")
				return
			}
			switch x := fr.(type) {
			case *http2.PingFrame:
				if !x.IsAck() && x.Data == [8]byte{} {
					k.log.add("p")
				}
			case *http2.GoAwayFrame:
				k.log.add(fmt.Sprintf("g:%d", uint32(x.ErrCode)))
			}
		}
	}()
	_, werr := cli.Write([]byte(http2.ClientPreface))
	if werr == nil {
		werr = k.fr.WriteSettings()
	}
	settle()
	<-ready
	if werr != nil || err != nil {
		return fmt.Sprint("start-failed ", werr, " ", err)
	}
	ctx, cancel := context.WithCancel(context.Background())
	k.cancel = cancel
	go func() {
		defer close(k.hsDone)
		k.st.HandleStreams(ctx, func(s *transport.ServerStream) {
			k.smu.Lock()
			k.streams = append(k.streams, s)
			k.smu.Unlock()
		})
	}()
	settle()
	k.log.take() // nothing of interest happens during the handshake
	return "ok"
}

// events renders "g:<c>@<t>" as "g@<t>:<c>".
func (k *kaserver) events() string {
	s := k.log.take()
	if s == "-" {
		return s
	}
	parts := strings.Fields(s)
	for i, p := range parts {
		if strings.HasPrefix(p, "g:") {
			a, b, _ := strings.Cut(p[2:], "@")
			parts[i] = "g@" + b + ":" + a
			k.closed = true
		}
		if strings.HasPrefix(p, "c@") {
			k.closed = true
		}
	}
	return strings.Join(parts, " ")
}

func (k *kaserver) stream(f []string) *transport.ServerStream {
	if len(f) != 2 {
		return nil
	}
	i := int(kaAtoi(f[1]))
	k.smu.Lock()
	defer k.smu.Unlock()
	if i < 0 || i >= len(k.streams) || f[1] != fmt.Sprint(i) {
		return nil
	}
	return k.streams[i]
}

func (k *kaserver) Op(f []string) string {
	if f[0] == "start" {
		return k.start(f)
	}
	if k.st == nil {
		return "bad-op"
	}
	if k.closed {
		return "closed"
	}
	var werr, herr error
	switch f[0] {
	case "adv":
		if len(f) != 2 {
			return "bad-op"
		}
		if kaAtoi(f[1]) < 0 {
			return "bad-op"
		}
		time.Sleep(time.Duration(kaAtoi(f[1])))
	case "ping":
		werr = k.fr.WritePing(false, [8]byte{7})
	case "read":
		if len(f) != 2 {
			return "bad-op"
		}
		switch f[1] {
		case "ack":
			werr = k.fr.WritePing(true, [8]byte{})
		case "settings":
			werr = k.fr.WriteSettings()
		case "wupd":
			werr = k.fr.WriteWindowUpdate(0, 1)
		default:
			return "bad-op"
		}
	case "open":
		k.hbuf.Reset()
		for _, h := range [][2]string{{":method", "POST"}, {":scheme", "http"}, {":path", "/s/m"}, {":authority", "pipe"},
			{"content-type", "application/grpc"}, {"te", "trailers"}} {
			k.henc.WriteField(hpack.HeaderField{Name: h[0], Value: h[1]})
		}
		werr = k.fr.WriteHeaders(http2.HeadersFrameParam{StreamID: k.nextID, BlockFragment: k.hbuf.Bytes(), EndHeaders: true})
		k.nextID += 2
		k.nOpened++
	case "rst":
		if len(f) != 2 {
			return "bad-op"
		}
		i := int(kaAtoi(f[1]))
		if i < 0 || i >= k.nOpened || f[1] != fmt.Sprint(i) {
			return "bad-op"
		}
		werr = k.fr.WriteRSTStream(uint32(2*i+1), http2.ErrCodeCancel)
	case "hdr", "data", "fin":
		s := k.stream(f)
		if s == nil {
			return "bad-op"
		}
		switch f[0] {
		case "hdr":
			herr = s.SendHeader(nil)
		case "data":
			herr = s.Write([]byte{0, 0, 0, 0, 3}, mem.BufferSlice{mem.SliceBuffer([]byte{1, 2, 3})}, &transport.WriteOptions{})
		case "fin":
			herr = s.WriteStatus(status.New(codes.OK, ""))
		}
	default:
		return "bad-op"
	}
	settle()
	ev := k.events()
	if werr != nil {
		return "write-failed " + ev
	}
	if herr != nil {
		if ev == "-" {
			return "err"
		}
		return "err " + ev
	}
	return ev
}

func (k *kaserver) Close() {
	if k.st == nil {
		return
	}
	k.st.Close(errors.New("verif: case over"))
	k.peer.Close()
	<-k.peerDone
	<-k.hsDone
	k.cancel()
}
