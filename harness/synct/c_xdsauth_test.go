package synct

import (
	"context"
	"errors"
	"fmt"
	"sort"
	"strings"
	"sync"
	"time"

	"google.golang.org/grpc/internal/xds/clients"
	"google.golang.org/grpc/internal/xds/clients/xdsclient"
)

// component s_xdsauth (C43, C44; T2): the real xdsclient.XDSClient (authority, xdsChannel,
// adsStreamImpl, both callback serializers) over a scripted, harness-paced transport.
//
//	cfg <n> <ignbits> <mon> [boff] first op: 1..3 servers (boff: authority "b" gets servers boff.. of the list), ignore_resource_deletion bit per server;
//	                               <mon> selects the monitor of the Lean driver (c43 | c44)
//	watch <T|U|X> <name> <wid>     T: AllResourcesRequiredInSotW, U: not, X: unknown type; names b_<id> belong to a
//	                               second authority "b" (xdstp://b/<type>/<id>) with the same server list: the two
//	                               authorities share the ref-counted xdsChannels
//	nobuild <i+j|->                TransportBuilder.Build fails for these servers from now on
//	unwatch <wid>
//	respond <srv> <T|U> <ver> <name:ok:content,name:bad:tag,?:tag…|->   server sends a response
//	break <srv>                    the server's current stream fails
//	down <srv> | up <srv>          NewStream fails / succeeds from now on
//	sleep <ms>
//	hold | release                 block / unblock the authority's serializer (events queue up)
//	close
//
// Every transport interaction is paced by the harness: NewStream and Recv block until pump()
// grants them, lowest server first, one at a time, each followed by settle(). That makes the
// order in which the channels' goroutines feed events into the authority deterministic.
//
// Output: cb=<watcher callback log of this op, grouped by watcher> s<i>=<builds>/<streams>/<stream state…>/x<refs>/…
// then per authority (prefix b for the second): act=<active server> open=<servers it holds a channel to> res=<resource states>
const (
	xaBackoff = 1000 * time.Millisecond
	xaExpiry  = 2505 * time.Millisecond
)

type xaData string

func (d xaData) Equal(o xdsclient.ResourceData) bool { x, ok := o.(xaData); return ok && x == d }
func (d xaData) Bytes() []byte                       { return []byte(d) }

type xaDecoder struct{}

// resource bytes: "name|ok|content", "name|bad|tag" (validation error), "|top|tag" (no name).
func (xaDecoder) Decode(r *xdsclient.AnyProto, _ xdsclient.DecodeOptions) (*xdsclient.DecodeResult, error) {
	p := strings.Split(string(xdsclient.VerifXAValue(r)), "|")
	if len(p) != 3 {
		return nil, errors.New("verif-top<malformed>")
	}
	switch p[1] {
	case "ok":
		return &xdsclient.DecodeResult{Name: p[0], Resource: xaData(p[2])}, nil
	case "bad":
		return &xdsclient.DecodeResult{Name: p[0]}, errors.New("verif-bad<" + p[2] + ">")
	}
	return nil, errors.New("verif-top<" + p[2] + ">")
}

type xaGrant struct {
	ok  bool
	msg []byte
}

type xaStream struct {
	t            *xaTransport
	ctx          context.Context
	broken       bool // set by the harness
	errDelivered bool
	inbox        [][]byte
	grant        chan xaGrant
	waiting      bool // reader is inside Recv
	msgs         int
	last         map[string][]string // type -> names of the last request on this stream
}

func (s *xaStream) Send(b []byte) error {
	s.t.c.mu.Lock()
	defer s.t.c.mu.Unlock()
	if s.broken {
		return errors.New("stream broken")
	}
	if s.ctx.Err() != nil {
		return s.ctx.Err()
	}
	r, err := xdsclient.VerifXADecodeRequest(b)
	if err != nil {
		return nil
	}
	s.last[r.TypeURL] = r.Names
	return nil
}

func (s *xaStream) Recv() ([]byte, error) {
	s.t.c.mu.Lock()
	s.waiting = true
	s.t.c.mu.Unlock()
	select {
	case g := <-s.grant:
		if !g.ok {
			return nil, errors.New("stream broken")
		}
		return g.msg, nil
	case <-s.ctx.Done():
		return nil, s.ctx.Err()
	}
}

type xaTransport struct {
	c          *xaCase
	srv        *xaServer
	closed     bool
	cur        *xaStream
	gate       chan *xaStream // nil = fail
	waitingNew bool
	newCtx     context.Context
	retryAt    time.Duration // virtual time of the runner's next attempt (0 = none)
}

func (t *xaTransport) NewStream(ctx context.Context, _ string) (clients.Stream, error) {
	t.c.mu.Lock()
	t.waitingNew = true
	t.newCtx = ctx
	t.c.mu.Unlock()
	select {
	case st := <-t.gate:
		if st == nil {
			return nil, errors.New("transport down")
		}
		return st, nil
	case <-ctx.Done():
		return nil, ctx.Err()
	}
}

func (t *xaTransport) Close() {
	t.c.mu.Lock()
	t.closed = true
	t.c.mu.Unlock()
}

type xaServer struct {
	idx     int
	uri     string
	up      bool
	nobuild bool // TransportBuilder.Build fails for this server
	builds  int
	streams int
	tr      *xaTransport
}

type xaBuilder struct{ c *xaCase }

func (b xaBuilder) Build(si clients.ServerIdentifier) (clients.Transport, error) {
	b.c.mu.Lock()
	defer b.c.mu.Unlock()
	for _, s := range b.c.srv {
		if s.uri == si.ServerURI {
			if s.nobuild {
				return nil, errors.New("verif: transport cannot be created")
			}
			s.builds++
			s.tr = &xaTransport{c: b.c, srv: s, gate: make(chan *xaStream)}
			return s.tr, nil
		}
	}
	return nil, errors.New("unknown server")
}

type xaWatcher struct {
	c  *xaCase
	id int
}

func (w *xaWatcher) log(s string) {
	w.c.mu.Lock()
	w.c.cbs = append(w.c.cbs, xaCb{w.id, s})
	w.c.mu.Unlock()
}
func xaErr(err error) string {
	k := xdsclient.VerifXAErrKind(err)
	if k == "nack" {
		s := err.Error()
		if i := strings.Index(s, "verif-bad<"); i >= 0 {
			s = s[i+len("verif-bad<"):]
			if j := strings.Index(s, ">"); j >= 0 {
				return "nack." + s[:j]
			}
		}
		return "nack.?"
	}
	return k
}
func (w *xaWatcher) ResourceChanged(d xdsclient.ResourceData, done func()) {
	w.log("C." + string(d.Bytes()))
	done()
}
func (w *xaWatcher) ResourceError(err error, done func()) { w.log("R." + xaErr(err)); done() }
func (w *xaWatcher) AmbientError(err error, done func())  { w.log("A." + xaErr(err)); done() }

type xaCb struct {
	w int
	s string
}

type xaWatch struct {
	w      *xaWatcher
	cancel func()
	top    bool
}

type xaCase struct {
	mu      sync.Mutex
	client  *xdsclient.XDSClient
	srv     []*xaServer
	cbs     []xaCb
	watches map[int]*xaWatch
	start   time.Time
	release func()
	closed  bool
	nonce   int
	boff    int // first top-level server of authority b's own server list
}

func init() {
	register("s_xdsauth", func() SHandler { return &xaCase{watches: map[int]*xaWatch{}} })
}

func (c *xaCase) now() time.Duration { return time.Since(c.start) }

// pump grants, one at a time and lowest server first, the transport calls the client is blocked in.
func (c *xaCase) pump() {
	for guard := 0; guard < 10000; guard++ {
		progress := false
		for _, s := range c.srv {
			c.mu.Lock()
			t := s.tr
			if t == nil || t.closed {
				c.mu.Unlock()
				continue
			}
			if t.waitingNew {
				t.waitingNew = false
				var st *xaStream
				if s.up {
					s.streams++
					st = &xaStream{t: t, ctx: t.newCtx, grant: make(chan xaGrant), last: map[string][]string{}}
					t.cur = st
					t.retryAt = 0
				} else {
					t.retryAt = c.now() + xaBackoff
				}
				c.mu.Unlock()
				t.gate <- st
				settle()
				progress = true
				break
			}
			st := t.cur
			if st != nil && st.waiting && !st.errDelivered {
				if st.broken {
					st.errDelivered = true
					st.waiting = false
					if st.msgs == 0 {
						t.retryAt = c.now() + xaBackoff
					}
					c.mu.Unlock()
					st.grant <- xaGrant{}
					settle()
					progress = true
					break
				}
				if len(st.inbox) > 0 {
					m := st.inbox[0]
					st.inbox = st.inbox[1:]
					st.msgs++
					st.waiting = false
					c.mu.Unlock()
					st.grant <- xaGrant{ok: true, msg: m}
					settle()
					progress = true
					break
				}
			}
			c.mu.Unlock()
		}
		if !progress {
			return
		}
	}
}

func joinOr(l []string, sep string) string {
	if len(l) == 0 {
		return "-"
	}
	return strings.Join(l, sep)
}

func (c *xaCase) snapshot() string {
	c.mu.Lock()
	defer c.mu.Unlock()
	// callbacks grouped by watcher, each watcher's sequence in order
	by := map[int][]string{}
	ids := []int{}
	for _, cb := range c.cbs {
		if _, ok := by[cb.w]; !ok {
			ids = append(ids, cb.w)
		}
		by[cb.w] = append(by[cb.w], cb.s)
	}
	c.cbs = nil
	sort.Ints(ids)
	var cbs []string
	for _, id := range ids {
		cbs = append(cbs, fmt.Sprintf("w%d:%s", id, strings.Join(by[id], "+")))
	}
	out := fmt.Sprintf("cb=%s", joinOr(cbs, ";"))
	for i, s := range c.srv {
		ch := xdsclient.VerifXAChannel(c.client, s.uri)
		t := s.tr
		if t == nil || t.closed {
			if ch.Exists {
				out += fmt.Sprintf(" s%d=%d/%d/INCONSISTENT-channel-but-transport-closed", i, s.builds, s.streams)
			} else {
				out += fmt.Sprintf(" s%d=%d/%d/closed", i, s.builds, s.streams)
			}
			continue
		}
		state, flags, unread, view := "idle", "", 0, "-"
		if st := t.cur; st != nil && !st.errDelivered {
			state = "live"
			if st.broken {
				state = "dead"
			}
			unread = len(st.inbox)
			if st.msgs > 0 {
				flags += "m"
			} else {
				flags += "n"
			}
			if state == "live" {
				var vs []string
				for typ, names := range st.last {
					var ns []string
					for _, n := range names {
						ns = append(ns, xaFromWire(typ, n))
					}
					sort.Strings(ns)
					vs = append(vs, typ+":"+strings.Join(ns, "+"))
				}
				sort.Strings(vs)
				view = joinOr(vs, ",")
			}
			if st.waiting {
				flags = "W" + flags
			} else {
				flags = "B" + flags
			}
		}
		if ch.Pending {
			flags += "p"
		} else {
			flags += "f"
		}
		var refs []string
		for _, r := range ch.Refs {
			if r == "" {
				refs = append(refs, "0")
			} else {
				refs = append(refs, "1")
			}
		}
		sort.Strings(refs)
		var ws []string
		for _, sub := range ch.Subs {
			l := map[string]string{"started": "s", "requested": "q", "received": "r", "timeout": "t"}[sub.State]
			if (sub.State == "requested") != sub.Timer {
				l += "!"
			}
			ws = append(ws, sub.Type+"."+xaFromWire(sub.Type, sub.Name)+":"+l)
		}
		sort.Strings(ws)
		out += fmt.Sprintf(" s%d=%d/%d/%s%s/u%d/x%s/view=%s/ws=%s", i, s.builds, s.streams, state, flags, unread, joinOr(refs, "+"), view, joinOr(ws, "+"))
	}
	return out + " " + c.authSnapshot("", "", 0) + " " + c.authSnapshot("b", "b", c.boff)
}

// authSnapshot prints one authority: active server, servers it holds a channel reference to, resource states.
// Server indices are printed as indices into the top-level server list (off = where this authority's list starts).
func (c *xaCase) authSnapshot(name, pre string, off int) string {
	a := xdsclient.VerifXAAuthStateOf(c.client, name)
	act := "-"
	if a.Active >= 0 {
		act = fmt.Sprint(a.Active + off)
	}
	var open []string
	for i, o := range a.Open {
		if o {
			open = append(open, fmt.Sprint(i+off))
		}
	}
	var rs []string
	for _, r := range a.Res {
		var ws []string
		wid := []int{}
		for _, w := range r.Watchers {
			if xw, ok := w.(*xaWatcher); ok {
				wid = append(wid, xw.id)
			} else {
				wid = append(wid, -1)
			}
		}
		sort.Ints(wid)
		for _, id := range wid {
			ws = append(ws, fmt.Sprint(id))
		}
		cache := "-"
		if r.Cached {
			cache = string(r.Cache)
		}
		e := "-"
		if r.HasErr {
			tag := r.Err
			if i := strings.Index(tag, "verif-bad<"); i >= 0 {
				tag = tag[i+len("verif-bad<"):]
				if j := strings.Index(tag, ">"); j >= 0 {
					tag = tag[:j]
				}
			}
			e = tag + "@" + r.ErrVersion
		}
		var ch []string
		for _, x := range r.Chans {
			ch = append(ch, fmt.Sprint(x+off))
		}
		v := r.Version
		if v == "" {
			v = "-"
		}
		di := 0
		if r.DeletionIgnored {
			di = 1
		}
		rs = append(rs, fmt.Sprintf("%s.%s[w=%s;c=%s;st=%s;v=%s;e=%s;di=%d;ch=%s]", r.Type, xaFromWire(r.Type, r.Name), joinOr(ws, "+"), cache, r.Status, v, e, di, joinOr(ch, "+")))
	}
	sort.Strings(rs)
	return fmt.Sprintf("%sact=%s %sopen=%s %sres=%s", pre, act, pre, joinOr(open, "+"), pre, joinOr(rs, ","))
}

// Resource names `b_<id>` belong to the authority "b" (xdstp://b/<type>/<id>), all others to the top-level authority.
func xaToWire(typ, name string) string {
	if strings.HasPrefix(name, "b_") {
		return "xdstp://b/" + typ + "/" + name[2:]
	}
	return name
}

func xaFromWire(typ, name string) string {
	if p := "xdstp://b/" + typ + "/"; strings.HasPrefix(name, p) {
		return "b_" + name[len(p):]
	}
	return name
}

func (c *xaCase) server(f string) *xaServer {
	i := int(atoi64s(f))
	if i < 0 || i >= len(c.srv) {
		return nil
	}
	return c.srv[i]
}

func (c *xaCase) liveStream(s *xaServer) *xaStream {
	c.mu.Lock()
	defer c.mu.Unlock()
	if s.tr == nil || s.tr.closed || s.tr.cur == nil || s.tr.cur.broken || s.tr.cur.errDelivered {
		return nil
	}
	return s.tr.cur
}

func (c *xaCase) Op(f []string) string {
	if f[0] == "cfg" {
		if c.client != nil || (len(f) != 4 && len(f) != 5) {
			return "bad-op"
		}
		if len(f) == 5 {
			c.boff = int(atoi64s(f[4]))
		}
		n := int(atoi64s(f[1]))
		if n < 1 || n > 3 || len(f[2]) != n || c.boff < 0 || c.boff >= n {
			return "bad-op"
		}
		xdsclient.VerifXASetStreamBackoff(func(int) time.Duration { return xaBackoff })
		cfg := xdsclient.Config{
			Node:             clients.Node{ID: "verif"},
			TransportBuilder: xaBuilder{c},
			ResourceTypes: map[string]xdsclient.ResourceType{
				"T": {TypeURL: "T", TypeName: "T", AllResourcesRequiredInSotW: true, Decoder: xaDecoder{}},
				"U": {TypeURL: "U", TypeName: "U", AllResourcesRequiredInSotW: false, Decoder: xaDecoder{}},
			},
			WatchExpiryTimeout: xaExpiry,
			// a second authority with an empty server list: it inherits the top-level servers, so the two
			// authorities share every xdsChannel they both use
			Authorities: map[string]xdsclient.Authority{"b": {}},
		}
		for i := 0; i < n; i++ {
			s := &xaServer{idx: i, uri: fmt.Sprintf("srv%d", i), up: true}
			c.srv = append(c.srv, s)
			sc := xdsclient.ServerConfig{ServerIdentifier: clients.ServerIdentifier{ServerURI: s.uri}}
			if f[2][i] == '1' {
				sc.ServerFeature = xdsclient.ServerFeatureIgnoreResourceDeletion
			}
			cfg.Servers = append(cfg.Servers, sc)
		}
		// optional 5th field: authority "b" is configured with the top-level servers from index boff on, so that a
		// fallback server of the top-level authority can be the primary of "b" (channels shared across different lists)
		if c.boff > 0 {
			cfg.Authorities = map[string]xdsclient.Authority{"b": {XDSServers: append([]xdsclient.ServerConfig(nil), cfg.Servers[c.boff:]...)}}
		}
		cl, err := xdsclient.New(cfg)
		if err != nil {
			return "err " + err.Error()
		}
		c.client = cl
		c.start = time.Now()
		settle()
		return "ok"
	}
	if c.client == nil {
		return "nocfg"
	}
	if c.closed {
		return "closed"
	}
	switch f[0] {
	case "watch":
		top := !strings.HasPrefix(f[2], "b_")
		if top && c.release != nil {
			return "held" // the call would block on the busy serializer
		}
		id := int(atoi64s(f[3]))
		if _, ok := c.watches[id]; ok {
			return "busy"
		}
		w := &xaWatcher{c: c, id: id}
		cancel := c.client.WatchResource(f[1], xaToWire(f[1], f[2]), w)
		if f[1] == "T" || f[1] == "U" {
			c.watches[id] = &xaWatch{w: w, cancel: cancel, top: top}
		}
	case "unwatch":
		id := int(atoi64s(f[1]))
		w, ok := c.watches[id]
		if !ok {
			return "nowatch"
		}
		if w.top && c.release != nil {
			return "held"
		}
		delete(c.watches, id)
		w.cancel()
	case "respond":
		s := c.server(f[1])
		if s == nil || (f[2] != "T" && f[2] != "U") {
			return "bad-op"
		}
		st := c.liveStream(s)
		if st == nil {
			return "nostream"
		}
		var vals [][]byte
		if f[4] != "-" {
			for _, e := range strings.Split(f[4], ",") {
				p := strings.Split(e, ":")
				if len(p) == 2 && p[0] == "?" {
					vals = append(vals, []byte("|top|"+p[1]))
				} else if len(p) == 3 && (p[1] == "ok" || p[1] == "bad") {
					vals = append(vals, []byte(xaToWire(f[2], p[0])+"|"+p[1]+"|"+p[2]))
				} else {
					return "bad-op"
				}
			}
		}
		c.nonce++
		c.mu.Lock()
		st.inbox = append(st.inbox, xdsclient.VerifXAEncodeResponse(f[2], f[3], fmt.Sprintf("n%d", c.nonce), vals))
		c.mu.Unlock()
	case "break":
		s := c.server(f[1])
		if s == nil {
			return "bad-op"
		}
		st := c.liveStream(s)
		if st == nil {
			return "nostream"
		}
		c.mu.Lock()
		st.broken = true
		st.inbox = nil // unread messages die with the stream
		c.mu.Unlock()
	case "down", "up":
		s := c.server(f[1])
		if s == nil {
			return "bad-op"
		}
		s.up = f[0] == "up"
	case "sleep":
		target := c.now() + time.Duration(atoi64s(f[1]))*time.Millisecond
		for {
			now := c.now()
			next := target
			c.mu.Lock()
			for _, s := range c.srv {
				if t := s.tr; t != nil && !t.closed && t.retryAt > now && t.retryAt < next {
					next = t.retryAt
				}
			}
			c.mu.Unlock()
			if next > now {
				time.Sleep(next - now)
			}
			settle()
			c.pump()
			if next >= target {
				break
			}
		}
	case "nobuild":
		for _, s := range c.srv {
			s.nobuild = false
		}
		if f[1] != "-" {
			for _, x := range strings.Split(f[1], "+") {
				if s := c.server(x); s != nil {
					s.nobuild = true
				}
			}
		}
	case "hold":
		if c.release != nil {
			return "held"
		}
		c.release = xdsclient.VerifXAHold(c.client)
	case "release":
		if c.release == nil {
			return "nothold"
		}
		c.release()
		c.release = nil
	case "close":
		c.Close()
		return "closed"
	default:
		return "bad-op"
	}
	settle()
	c.pump()
	return c.snapshot()
}

func (c *xaCase) Close() {
	if c.client == nil || c.closed {
		return
	}
	c.closed = true
	if c.release != nil {
		c.release()
		c.release = nil
	}
	c.client.Close()
	settle()
}
