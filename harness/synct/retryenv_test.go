package synct

// Shared environment of the s_retry (C18) and s_pickdone (C23) components: a real
// grpc.ClientConn (grpc.NewClient) over bufconn talking to a scripted raw HTTP/2 server, all
// inside the case's synctest bubble.
//
// Determinism: the server's reader goroutines only RECORD what arrives; the scripted answers are
// written by the harness goroutine at quiescent points only (every goroutine of the bubble
// durably blocked). A client operation therefore always sees a failure of its attempt between
// two of its own bursts of frames, never in the middle of one, and the run-to-quiescence result
// of every op is a function of the script.

import (
	"bytes"
	"context"
	"encoding/binary"
	"fmt"
	"io"
	"net"
	"strconv"
	"strings"
	"sync"
	"time"

	"golang.org/x/net/http2"
	"golang.org/x/net/http2/hpack"
	"google.golang.org/grpc"
	"google.golang.org/grpc/codes"
	"google.golang.org/grpc/credentials/insecure"
	"google.golang.org/grpc/stats"
	"google.golang.org/grpc/status"
	"google.golang.org/grpc/test/bufconn"
)

// ---- scripted retryBehaviour of one attempt (in arrival order at the server)

type retryBehaviour struct {
	kind    byte   // 'T' trailers-only, 'H' headers then (message+)trailers, 'R' refuse, 'G' goaway, 'N' never answer
	trigger string // "0" at HEADERS, "1".."9" after that many messages, "E" at END_STREAM
	code    int
	push    []string // grpc-retry-pushback-ms values (nil = header absent)
}

// parseScript: b1;b2;…  with  T<trig>:<code>[:<xhex,xhex…>] | H<trig>:<code> | R | G | N
func parseScript(s string) []retryBehaviour {
	var out []retryBehaviour
	if s == "-" || s == "" {
		return out
	}
	for _, p := range strings.Split(s, ";") {
		b := retryBehaviour{kind: p[0]}
		switch p[0] {
		case 'T', 'H':
			q := strings.Split(p[1:], ":")
			b.trigger = q[0]
			b.code = mustInt(q[1])
			if len(q) > 2 {
				b.push = decodePushback(q[2])
			}
		case 'R', 'G', 'N':
			b.trigger = "0"
		default:
			panic("bad retryBehaviour " + p)
		}
		out = append(out, b)
	}
	return out
}

// ---- raw server

type rAttempt struct {
	idx      int // 1-based arrival index
	conn     *rConn
	sid      uint32
	prev     string // grpc-previous-rpc-attempts ("" = absent)
	buf      []byte
	msgs     int
	ended    bool
	answered bool
	reset    bool // client sent RST_STREAM
}

type rConn struct {
	c     net.Conn
	fr    *http2.Framer
	wmu   sync.Mutex
	hbuf  bytes.Buffer
	henc  *hpack.Encoder
	maxID uint32
}

type rServer struct {
	lis      *bufconn.Listener
	mu       sync.Mutex
	conns    []*rConn
	attempts []*rAttempt
	events   []string
	script   []retryBehaviour
	input    chan struct{}
	wg       sync.WaitGroup
	// defaultOK: retryBehaviour once the script is exhausted
}

func newRServer(script []retryBehaviour) *rServer {
	s := &rServer{lis: bufconn.Listen(1 << 20), script: script, input: make(chan struct{}, 1)}
	s.wg.Add(1)
	go s.acceptLoop()
	return s
}

func (s *rServer) signal() {
	select {
	case s.input <- struct{}{}:
	default:
	}
}

func (s *rServer) acceptLoop() {
	defer s.wg.Done()
	for {
		c, err := s.lis.Accept()
		if err != nil {
			return
		}
		rc := &rConn{c: c}
		rc.henc = hpack.NewEncoder(&rc.hbuf)
		rc.fr = http2.NewFramer(c, c)
		rc.fr.ReadMetaHeaders = hpack.NewDecoder(4096, nil)
		s.mu.Lock()
		s.conns = append(s.conns, rc)
		s.mu.Unlock()
		s.wg.Add(1)
		go s.serve(rc)
	}
}

func (s *rServer) serve(rc *rConn) {
	defer s.wg.Done()
	defer rc.c.Close()
	pre := make([]byte, len(http2.ClientPreface))
	if _, err := io.ReadFull(rc.c, pre); err != nil {
		return
	}
	rc.wmu.Lock()
	rc.fr.WriteSettings()
	rc.wmu.Unlock()
	for {
		f, err := rc.fr.ReadFrame()
		if err != nil {
			return
		}
		switch f := f.(type) {
		case *http2.SettingsFrame:
			if !f.IsAck() {
				rc.wmu.Lock()
				rc.fr.WriteSettingsAck()
				rc.wmu.Unlock()
			}
		case *http2.PingFrame:
			if !f.IsAck() {
				rc.wmu.Lock()
				rc.fr.WritePing(true, f.Data)
				rc.wmu.Unlock()
			}
		case *http2.MetaHeadersFrame:
			s.mu.Lock()
			a := &rAttempt{idx: len(s.attempts) + 1, conn: rc, sid: f.StreamID}
			for _, hf := range f.Fields {
				if hf.Name == "grpc-previous-rpc-attempts" {
					a.prev = hf.Value
				}
			}
			if f.StreamID > rc.maxID {
				rc.maxID = f.StreamID
			}
			s.attempts = append(s.attempts, a)
			p := a.prev
			if p == "" {
				p = "0"
			}
			s.events = append(s.events, fmt.Sprintf("N%dp%s", a.idx, p))
			if f.StreamEnded() {
				a.ended = true
				s.events = append(s.events, fmt.Sprintf("E%d", a.idx))
			}
			s.mu.Unlock()
			s.signal()
		case *http2.DataFrame:
			s.mu.Lock()
			if a := s.find(rc, f.StreamID); a != nil {
				a.buf = append(a.buf, f.Data()...)
				for len(a.buf) >= 5 {
					n := int(binary.BigEndian.Uint32(a.buf[1:5]))
					if len(a.buf) < 5+n {
						break
					}
					seq := 0 // an empty message carries no sequence byte
					if n > 0 {
						seq = int(a.buf[5])
					}
					a.buf = a.buf[5+n:]
					a.msgs++
					s.events = append(s.events, fmt.Sprintf("M%d:%dx%d", a.idx, seq, n))
				}
				if f.StreamEnded() {
					a.ended = true
					s.events = append(s.events, fmt.Sprintf("E%d", a.idx))
				}
			}
			s.mu.Unlock()
			// give the connection-level and stream-level credit back at once
			if n := len(f.Data()); n > 0 {
				rc.wmu.Lock()
				rc.fr.WriteWindowUpdate(0, uint32(n))
				rc.fr.WriteWindowUpdate(f.StreamID, uint32(n))
				rc.wmu.Unlock()
			}
			s.signal()
		case *http2.RSTStreamFrame:
			s.mu.Lock()
			if a := s.find(rc, f.StreamID); a != nil {
				a.reset = true
			}
			s.mu.Unlock()
			s.signal()
		}
	}
}

func (s *rServer) find(rc *rConn, sid uint32) *rAttempt {
	for i := len(s.attempts) - 1; i >= 0; i-- {
		if s.attempts[i].conn == rc && s.attempts[i].sid == sid {
			return s.attempts[i]
		}
	}
	return nil
}

func (rc *rConn) writeHeaders(sid uint32, end bool, kv ...string) {
	rc.wmu.Lock()
	defer rc.wmu.Unlock()
	rc.hbuf.Reset()
	for i := 0; i+1 < len(kv); i += 2 {
		rc.henc.WriteField(hpack.HeaderField{Name: kv[i], Value: kv[i+1]})
	}
	rc.fr.WriteHeaders(http2.HeadersFrameParam{StreamID: sid, BlockFragment: rc.hbuf.Bytes(), EndHeaders: true, EndStream: end})
}

func (rc *rConn) writeMsg(sid uint32, payload []byte) {
	rc.wmu.Lock()
	defer rc.wmu.Unlock()
	b := make([]byte, 5+len(payload))
	binary.BigEndian.PutUint32(b[1:5], uint32(len(payload)))
	copy(b[5:], payload)
	rc.fr.WriteData(sid, false, b)
}

func (s *rServer) behaviourOf(a *rAttempt) retryBehaviour {
	if a.idx <= len(s.script) {
		return s.script[a.idx-1]
	}
	return retryBehaviour{kind: 'H', trigger: "E", code: 0}
}

func (b retryBehaviour) due(a *rAttempt) bool {
	switch b.trigger {
	case "0":
		return true
	case "E":
		return a.ended
	}
	return a.msgs >= mustInt(b.trigger)
}

// react writes every scripted answer that is due. It runs on the harness goroutine at a
// quiescent point and returns whether it wrote anything.
func (s *rServer) react() bool {
	s.mu.Lock()
	var todo []*rAttempt
	for _, a := range s.attempts {
		if !a.answered && !a.reset {
			b := s.behaviourOf(a)
			if b.kind != 'N' && b.due(a) {
				a.answered = true
				todo = append(todo, a)
			}
		}
	}
	s.mu.Unlock()
	for _, a := range todo {
		b := s.behaviourOf(a)
		rc := a.conn
		trailers := func(end bool, withStatus200 bool) {
			kv := []string{}
			if withStatus200 {
				kv = append(kv, ":status", "200", "content-type", "application/grpc")
			}
			kv = append(kv, "grpc-status", strconv.Itoa(b.code))
			if b.code != 0 {
				kv = append(kv, "grpc-message", "scripted")
			}
			for _, p := range b.push {
				kv = append(kv, "grpc-retry-pushback-ms", p)
			}
			rc.writeHeaders(a.sid, end, kv...)
		}
		switch b.kind {
		case 'T':
			trailers(true, true)
		case 'H':
			rc.writeHeaders(a.sid, false, ":status", "200", "content-type", "application/grpc")
			if b.code == 0 {
				rc.writeMsg(a.sid, []byte{0xAA, byte(a.idx)})
			}
			trailers(true, false)
		case 'R':
			rc.wmu.Lock()
			rc.fr.WriteRSTStream(a.sid, http2.ErrCodeRefusedStream)
			rc.wmu.Unlock()
		case 'G':
			// the stream is above the advertised last-stream-id: never processed
			rc.wmu.Lock()
			last := uint32(0)
			if a.sid >= 2 {
				last = a.sid - 2
			}
			rc.fr.WriteGoAway(last, http2.ErrCodeNo, nil)
			rc.wmu.Unlock()
		}
	}
	return len(todo) > 0
}

func (s *rServer) drainEvents() string {
	s.mu.Lock()
	defer s.mu.Unlock()
	if len(s.events) == 0 {
		return "-"
	}
	r := strings.Join(s.events, ",")
	s.events = nil
	return r
}

func (s *rServer) close() {
	s.lis.Close()
	s.mu.Lock()
	for _, c := range s.conns {
		c.c.Close()
	}
	s.mu.Unlock()
	s.wg.Wait()
}

// ---- raw codec

type retryRawCodec struct{}

func (retryRawCodec) Marshal(v any) ([]byte, error) { return v.([]byte), nil }
func (retryRawCodec) Unmarshal(d []byte, v any) error {
	*(v.(*[]byte)) = append([]byte(nil), d...)
	return nil
}
func (retryRawCodec) Name() string { return "verifraw" }

// ---- environment

type retryEnv struct {
	srv    *rServer
	cc     *grpc.ClientConn
	ctx    context.Context
	cancel context.CancelFunc
	stream grpc.ClientStream
	desc   *grpc.StreamDesc
	opts   []grpc.CallOption
	seq    int
	opWG   sync.WaitGroup
	// extraReact lets a component do more at a quiescent point (s_pickdone: publish a new picker).
	extraReact func() bool
	// pending carries the result of an op that was reported as blocked and returned later.
	pending chan string
	// park holds a sender between its transport write and its return into withRetry (sendrecv op).
	park *retryPark
	wake chan struct{}
}

// retryCreds are per-RPC credentials whose GetRequestMetadata fails on scripted invocations: that makes
// transport.NewStream fail after a successful pick (one invocation per stream creation).
type retryCreds struct {
	mu     sync.Mutex
	script []int // 0 = succeed, otherwise the status code to fail with
	n      int
}

func (c *retryCreds) GetRequestMetadata(context.Context, ...string) (map[string]string, error) {
	c.mu.Lock()
	defer c.mu.Unlock()
	i := c.n
	c.n++
	if i < len(c.script) && c.script[i] != 0 {
		return nil, status.Error(codes.Code(c.script[i]), "scripted per-RPC credentials failure")
	}
	return nil, nil
}
func (c *retryCreds) RequireTransportSecurity() bool { return false }

// parseNS: "-" (no credentials installed) or a comma separated list of "-" (ok) / status codes.
func parseNS(s string) *retryCreds {
	if s == "" || s == "-" {
		return nil
	}
	c := &retryCreds{}
	for _, p := range strings.Split(s, ",") {
		if p == "-" {
			c.script = append(c.script, 0)
		} else {
			c.script = append(c.script, mustInt(p))
		}
	}
	return c
}

// retryPark is a stats.Handler. When armed it parks the goroutine that delivers the next client OutPayload —
// i.e. a SendMsg that has just written its message to the transport and has not yet re-entered withRetry —
// provided no new attempt was begun since arming (so the write happened on the attempt that was current).
type retryPark struct {
	mu        sync.Mutex
	armed     bool
	begins    int
	atArm     int
	parked    bool
	release   chan struct{}
	wake      func()
}

func (p *retryPark) TagRPC(ctx context.Context, _ *stats.RPCTagInfo) context.Context   { return ctx }
func (p *retryPark) TagConn(ctx context.Context, _ *stats.ConnTagInfo) context.Context { return ctx }
func (p *retryPark) HandleConn(context.Context, stats.ConnStats)                       {}
func (p *retryPark) HandleRPC(_ context.Context, s stats.RPCStats) {
	switch v := s.(type) {
	case *stats.Begin:
		if v.Client {
			p.mu.Lock()
			p.begins++
			p.mu.Unlock()
		}
	case *stats.OutPayload:
		if !v.Client {
			return
		}
		p.mu.Lock()
		if !p.armed || p.begins != p.atArm {
			p.armed = false
			p.mu.Unlock()
			return
		}
		p.armed = false
		p.parked = true
		rel := p.release
		p.mu.Unlock()
		p.wake()
		<-rel
	}
}

func (p *retryPark) arm() {
	p.mu.Lock()
	p.armed = true
	p.atArm = p.begins
	p.parked = false
	p.release = make(chan struct{})
	p.mu.Unlock()
}

func (p *retryPark) isParked() bool {
	p.mu.Lock()
	defer p.mu.Unlock()
	return p.parked
}

func (p *retryPark) unpark() {
	p.mu.Lock()
	if p.parked {
		p.parked = false
		close(p.release)
	}
	p.armed = false
	p.mu.Unlock()
}

func newRetryEnv(script []retryBehaviour, serviceConfig string, dopts []grpc.DialOption, kind string, copts []grpc.CallOption) *retryEnv {
	e := &retryEnv{srv: newRServer(script), wake: make(chan struct{}, 1)}
	e.park = &retryPark{wake: e.poke}
	d := []grpc.DialOption{
		grpc.WithStatsHandler(e.park),
		grpc.WithTransportCredentials(insecure.NewCredentials()),
		grpc.WithContextDialer(func(ctx context.Context, _ string) (net.Conn, error) { return e.srv.lis.DialContext(ctx) }),
	}
	if serviceConfig != "" {
		d = append(d, grpc.WithDefaultServiceConfig(serviceConfig))
	}
	d = append(d, dopts...)
	cc, err := grpc.NewClient("passthrough:///verif", d...)
	if err != nil {
		panic(err)
	}
	e.cc = cc
	e.ctx, e.cancel = context.WithCancel(context.Background())
	switch kind {
	case "u":
		e.desc = &grpc.StreamDesc{}
	case "c":
		e.desc = &grpc.StreamDesc{ClientStreams: true}
	default:
		e.desc = &grpc.StreamDesc{ClientStreams: true, ServerStreams: true}
	}
	e.opts = append([]grpc.CallOption{grpc.ForceCodec(retryRawCodec{})}, copts...)
	return e
}

func (e *retryEnv) poke() {
	select {
	case e.wake <- struct{}{}:
	default:
	}
}

// drive runs the quiescence discipline (server answers and picker updates only at quiescent points, virtual
// time advancing while everybody waits) until cond holds; false if an hour of virtual time passes without it.
func (e *retryEnv) drive(cond func() bool) bool {
	for {
		settle()
		if e.srv.react() || (e.extraReact != nil && e.extraReact()) {
			continue
		}
		if cond() {
			return true
		}
		tm := time.NewTimer(time.Hour)
		select {
		case <-e.wake:
			tm.Stop()
		case <-e.srv.input:
			tm.Stop()
		case <-tm.C:
			settle()
			return cond()
		}
	}
}

// opSendRecv: SendMsg and RecvMsg from two goroutines (the supported concurrency), scheduled so that the
// receiver runs — and possibly retries the RPC — while the sender sits between its transport write and its
// return into withRetry. If the sender's write does not happen on the attempt that was current (dead stream:
// the sender retries by itself) nothing is parked and the two calls simply run one after the other.
func (e *retryEnv) opSendRecv(size int) string {
	if e.stream == nil {
		return "no-stream"
	}
	e.seq++
	p := bytes.Repeat([]byte{byte(e.seq)}, size)
	var sRes, rRes string
	var sDone, rDone bool
	var mu sync.Mutex
	e.park.arm()
	e.opWG.Add(1)
	go func() {
		defer e.opWG.Done()
		r := errStr(e.stream.SendMsg(p))
		mu.Lock()
		sRes, sDone = r, true
		mu.Unlock()
		e.poke()
	}()
	get := func(b *bool) bool { mu.Lock(); defer mu.Unlock(); return *b }
	e.drive(func() bool { return e.park.isParked() || get(&sDone) })
	startRecv := func() {
		e.opWG.Add(1)
		go func() {
			defer e.opWG.Done()
			var b []byte
			err := e.stream.RecvMsg(&b)
			r := errStr(err)
			if err == nil {
				r = fmt.Sprintf("msg%d", len(b))
			}
			mu.Lock()
			rRes, rDone = r, true
			mu.Unlock()
			e.poke()
		}()
	}
	if !e.park.isParked() && !get(&sDone) {
		// the sender is stuck without having written (flow control etc.): not a scenario of this op
		return fmt.Sprintf("S=blocked R=- t=- ev=%s", e.srv.drainEvents())
	}
	startRecv()
	e.drive(func() bool { return get(&rDone) })
	e.park.unpark()
	e.drive(func() bool { return get(&sDone) })
	e.drive(func() bool { return get(&rDone) })
	for {
		settle()
		if !e.srv.react() && !(e.extraReact != nil && e.extraReact()) {
			break
		}
	}
	mu.Lock()
	defer mu.Unlock()
	if !rDone {
		rRes = "blocked"
		// report the eventual result like runOp does
		e.pending = make(chan string, 1)
	}
	if !sDone {
		sRes = "blocked"
	}
	return fmt.Sprintf("S=%s R=%s t=- ev=%s", strings.ReplaceAll(sRes, " ", "_"), strings.ReplaceAll(rRes, " ", "_"), e.srv.drainEvents())
}

// runOp runs one client operation to quiescence under the server discipline described at the top.
// It returns the op's result, the virtual time the op took and the server-side events.
func (e *retryEnv) runOp(fn func() string) string {
	type res struct {
		s  string
		el time.Duration
	}
	done := make(chan res, 1)
	t0 := time.Now()
	e.opWG.Add(1)
	go func() {
		defer e.opWG.Done()
		defer func() {
			if r := recover(); r != nil {
				done <- res{"PANIC " + strings.ReplaceAll(fmt.Sprint(r), "\n", " "), time.Since(t0)}
			}
		}()
		r := fn()
		done <- res{r, time.Since(t0)}
	}()
	finish := func(r res) string {
		for {
			settle()
			if !e.srv.react() && !(e.extraReact != nil && e.extraReact()) {
				break
			}
		}
		return fmt.Sprintf("%s t=%d ev=%s", r.s, int64(r.el), e.srv.drainEvents())
	}
	for {
		settle()
		if e.srv.react() || (e.extraReact != nil && e.extraReact()) {
			continue
		}
		select {
		case r := <-done:
			return finish(r)
		default:
		}
		tm := time.NewTimer(time.Hour)
		select {
		case r := <-done:
			tm.Stop()
			return finish(r)
		case <-e.srv.input:
			tm.Stop()
		case <-tm.C:
			e.pending = make(chan string, 1)
			e.opWG.Add(1)
			go func(p chan string) {
				defer e.opWG.Done()
				r := <-done
				p <- r.s
			}(e.pending)
			return fmt.Sprintf("blocked t=- ev=%s", e.srv.drainEvents())
		}
	}
}

func errStr(err error) string {
	if err == nil {
		return "ok"
	}
	if err == io.EOF {
		return "eof"
	}
	exhausted := strings.Contains(err.Error(), "max retries exhausted")
	if _, isStatus := err.(interface{ GRPCStatus() *status.Status }); !isStatus && exhausted && strings.HasSuffix(err.Error(), ": EOF") {
		// fmt.Errorf("max retries exhausted …: %w", io.EOF): what SendMsg returns when the attempt limit is hit
		return "exhausted-eof"
	}
	if st, ok := status.FromError(err); ok {
		s := "err " + strconv.Itoa(int(st.Code()))
		if exhausted {
			s += "x"
		}
		return s
	}
	return "err other:" + err.Error()
}

func (e *retryEnv) opNew(method string, extra ...grpc.CallOption) string {
	return e.runOp(func() string {
		s, err := e.cc.NewStream(e.ctx, e.desc, method, append(append([]grpc.CallOption{}, e.opts...), extra...)...)
		if err != nil {
			return errStr(err)
		}
		e.stream = s
		return "ok"
	})
}

func (e *retryEnv) opSend(size int) string {
	if e.stream == nil {
		return "no-stream"
	}
	e.seq++
	p := bytes.Repeat([]byte{byte(e.seq)}, size)
	return e.runOp(func() string { return errStr(e.stream.SendMsg(p)) })
}

func (e *retryEnv) opCloseSend() string {
	if e.stream == nil {
		return "no-stream"
	}
	return e.runOp(func() string { return errStr(e.stream.CloseSend()) })
}

func (e *retryEnv) opRecv() string {
	if e.stream == nil {
		return "no-stream"
	}
	return e.runOp(func() string {
		var b []byte
		err := e.stream.RecvMsg(&b)
		if err == nil {
			return fmt.Sprintf("msg%d", len(b))
		}
		return errStr(err)
	})
}

func (e *retryEnv) opHeader() string {
	if e.stream == nil {
		return "no-stream"
	}
	return e.runOp(func() string {
		md, err := e.stream.Header()
		if err != nil {
			return errStr(err)
		}
		if md == nil {
			return "nohdr"
		}
		return "hdr"
	})
}

func (e *retryEnv) opCancel() string {
	return e.runOp(func() string { e.cancel(); return "ok" })
}

func (e *retryEnv) close() {
	e.park.unpark()
	e.cancel()
	e.cc.Close()
	e.srv.close()
	e.opWG.Wait()
}

var _ = codes.OK
