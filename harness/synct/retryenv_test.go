package synct

// Shared environment of the s_retry (C18) and s_pickdone (C23) components: a real
// grpc.ClientConn (grpc.NewClient) over bufconn talking to a scripted raw HTTP/2 server, all
// inside the case's synctest bubble.
//
// Determinism: the server's reader goroutines only RECORD what arrives; the scripted answers are
// written by the harness goroutine at quiescent points only (every goroutine of the bubble
// durably blocked). A client operation therefore always sees a failure of its attempt between
// two of its own bursts of frames, never in the middle of one, and the run-to-quiescence result
// of every op is a function of the script.

import (
	"bytes"
	"context"
	"encoding/binary"
	"fmt"
	"io"
	"net"
	"strconv"
	"strings"
	"sync"
	"time"

	"golang.org/x/net/http2"
	"golang.org/x/net/http2/hpack"
	"google.golang.org/grpc"
	"google.golang.org/grpc/codes"
	"google.golang.org/grpc/credentials/insecure"
	"google.golang.org/grpc/status"
	"google.golang.org/grpc/test/bufconn"
)

// ---- scripted retryBehaviour of one attempt (in arrival order at the server)

type retryBehaviour struct {
	kind    byte   // 'T' trailers-only, 'H' headers then (message+)trailers, 'R' refuse, 'G' goaway, 'N' never answer
	trigger string // "0" at HEADERS, "1".."9" after that many messages, "E" at END_STREAM
	code    int
	push    []string // grpc-retry-pushback-ms values (nil = header absent)
}

// parseScript: b1;b2;…  with  T<trig>:<code>[:<xhex,xhex…>] | H<trig>:<code> | R | G | N
func parseScript(s string) []retryBehaviour {
	var out []retryBehaviour
	if s == "-" || s == "" {
		return out
	}
	for _, p := range strings.Split(s, ";") {
		b := retryBehaviour{kind: p[0]}
		switch p[0] {
		case 'T', 'H':
			q := strings.Split(p[1:], ":")
			b.trigger = q[0]
			b.code = mustInt(q[1])
			if len(q) > 2 {
				b.push = decodePushback(q[2])
			}
		case 'R', 'G', 'N':
			b.trigger = "0"
		default:
			panic("bad retryBehaviour " + p)
		}
		out = append(out, b)
	}
	return out
}

// ---- raw server

type rAttempt struct {
	idx      int // 1-based arrival index
	conn     *rConn
	sid      uint32
	prev     string // grpc-previous-rpc-attempts ("" = absent)
	buf      []byte
	msgs     int
	ended    bool
	answered bool
	reset    bool // client sent RST_STREAM
}

type rConn struct {
	c     net.Conn
	fr    *http2.Framer
	wmu   sync.Mutex
	hbuf  bytes.Buffer
	henc  *hpack.Encoder
	maxID uint32
}

type rServer struct {
	lis      *bufconn.Listener
	mu       sync.Mutex
	conns    []*rConn
	attempts []*rAttempt
	events   []string
	script   []retryBehaviour
	input    chan struct{}
	wg       sync.WaitGroup
	// defaultOK: retryBehaviour once the script is exhausted
}

func newRServer(script []retryBehaviour) *rServer {
	s := &rServer{lis: bufconn.Listen(1 << 20), script: script, input: make(chan struct{}, 1)}
	s.wg.Add(1)
	go s.acceptLoop()
	return s
}

func (s *rServer) signal() {
	select {
	case s.input <- struct{}{}:
	default:
	}
}

func (s *rServer) acceptLoop() {
	defer s.wg.Done()
	for {
		c, err := s.lis.Accept()
		if err != nil {
			return
		}
		rc := &rConn{c: c}
		rc.henc = hpack.NewEncoder(&rc.hbuf)
		rc.fr = http2.NewFramer(c, c)
		rc.fr.ReadMetaHeaders = hpack.NewDecoder(4096, nil)
		s.mu.Lock()
		s.conns = append(s.conns, rc)
		s.mu.Unlock()
		s.wg.Add(1)
		go s.serve(rc)
	}
}

func (s *rServer) serve(rc *rConn) {
	defer s.wg.Done()
	defer rc.c.Close()
	pre := make([]byte, len(http2.ClientPreface))
	if _, err := io.ReadFull(rc.c, pre); err != nil {
		return
	}
	rc.wmu.Lock()
	rc.fr.WriteSettings()
	rc.wmu.Unlock()
	for {
		f, err := rc.fr.ReadFrame()
		if err != nil {
			return
		}
		switch f := f.(type) {
		case *http2.SettingsFrame:
			if !f.IsAck() {
				rc.wmu.Lock()
				rc.fr.WriteSettingsAck()
				rc.wmu.Unlock()
			}
		case *http2.PingFrame:
			if !f.IsAck() {
				rc.wmu.Lock()
				rc.fr.WritePing(true, f.Data)
				rc.wmu.Unlock()
			}
		case *http2.MetaHeadersFrame:
			s.mu.Lock()
			a := &rAttempt{idx: len(s.attempts) + 1, conn: rc, sid: f.StreamID}
			for _, hf := range f.Fields {
				if hf.Name == "grpc-previous-rpc-attempts" {
					a.prev = hf.Value
				}
			}
			if f.StreamID > rc.maxID {
				rc.maxID = f.StreamID
			}
			s.attempts = append(s.attempts, a)
			p := a.prev
			if p == "" {
				p = "0"
			}
			s.events = append(s.events, fmt.Sprintf("N%dp%s", a.idx, p))
			if f.StreamEnded() {
				a.ended = true
				s.events = append(s.events, fmt.Sprintf("E%d", a.idx))
			}
			s.mu.Unlock()
			s.signal()
		case *http2.DataFrame:
			s.mu.Lock()
			if a := s.find(rc, f.StreamID); a != nil {
				a.buf = append(a.buf, f.Data()...)
				for len(a.buf) >= 5 {
					n := int(binary.BigEndian.Uint32(a.buf[1:5]))
					if len(a.buf) < 5+n {
						break
					}
					seq := 0 // an empty message carries no sequence byte
					if n > 0 {
						seq = int(a.buf[5])
					}
					a.buf = a.buf[5+n:]
					a.msgs++
					s.events = append(s.events, fmt.Sprintf("M%d:%dx%d", a.idx, seq, n))
				}
				if f.StreamEnded() {
					a.ended = true
					s.events = append(s.events, fmt.Sprintf("E%d", a.idx))
				}
			}
			s.mu.Unlock()
			// give the connection-level and stream-level credit back at once
			if n := len(f.Data()); n > 0 {
				rc.wmu.Lock()
				rc.fr.WriteWindowUpdate(0, uint32(n))
				rc.fr.WriteWindowUpdate(f.StreamID, uint32(n))
				rc.wmu.Unlock()
			}
			s.signal()
		case *http2.RSTStreamFrame:
			s.mu.Lock()
			if a := s.find(rc, f.StreamID); a != nil {
				a.reset = true
			}
			s.mu.Unlock()
			s.signal()
		}
	}
}

func (s *rServer) find(rc *rConn, sid uint32) *rAttempt {
	for i := len(s.attempts) - 1; i >= 0; i-- {
		if s.attempts[i].conn == rc && s.attempts[i].sid == sid {
			return s.attempts[i]
		}
	}
	return nil
}

func (rc *rConn) writeHeaders(sid uint32, end bool, kv ...string) {
	rc.wmu.Lock()
	defer rc.wmu.Unlock()
	rc.hbuf.Reset()
	for i := 0; i+1 < len(kv); i += 2 {
		rc.henc.WriteField(hpack.HeaderField{Name: kv[i], Value: kv[i+1]})
	}
	rc.fr.WriteHeaders(http2.HeadersFrameParam{StreamID: sid, BlockFragment: rc.hbuf.Bytes(), EndHeaders: true, EndStream: end})
}

func (rc *rConn) writeMsg(sid uint32, payload []byte) {
	rc.wmu.Lock()
	defer rc.wmu.Unlock()
	b := make([]byte, 5+len(payload))
	binary.BigEndian.PutUint32(b[1:5], uint32(len(payload)))
	copy(b[5:], payload)
	rc.fr.WriteData(sid, false, b)
}

func (s *rServer) behaviourOf(a *rAttempt) retryBehaviour {
	if a.idx <= len(s.script) {
		return s.script[a.idx-1]
	}
	return retryBehaviour{kind: 'H', trigger: "E", code: 0}
}

func (b retryBehaviour) due(a *rAttempt) bool {
	switch b.trigger {
	case "0":
		return true
	case "E":
		return a.ended
	}
	return a.msgs >= mustInt(b.trigger)
}

// react writes every scripted answer that is due. It runs on the harness goroutine at a
// quiescent point and returns whether it wrote anything.
func (s *rServer) react() bool {
	s.mu.Lock()
	var todo []*rAttempt
	for _, a := range s.attempts {
		if !a.answered && !a.reset {
			b := s.behaviourOf(a)
			if b.kind != 'N' && b.due(a) {
				a.answered = true
				todo = append(todo, a)
			}
		}
	}
	s.mu.Unlock()
	for _, a := range todo {
		b := s.behaviourOf(a)
		rc := a.conn
		trailers := func(end bool, withStatus200 bool) {
			kv := []string{}
			if withStatus200 {
				kv = append(kv, ":status", "200", "content-type", "application/grpc")
			}
			kv = append(kv, "grpc-status", strconv.Itoa(b.code))
			if b.code != 0 {
				kv = append(kv, "grpc-message", "scripted")
			}
			for _, p := range b.push {
				kv = append(kv, "grpc-retry-pushback-ms", p)
			}
			rc.writeHeaders(a.sid, end, kv...)
		}
		switch b.kind {
		case 'T':
			trailers(true, true)
		case 'H':
			rc.writeHeaders(a.sid, false, ":status", "200", "content-type", "application/grpc")
			if b.code == 0 {
				rc.writeMsg(a.sid, []byte{0xAA, byte(a.idx)})
			}
			trailers(true, false)
		case 'R':
			rc.wmu.Lock()
			rc.fr.WriteRSTStream(a.sid, http2.ErrCodeRefusedStream)
			rc.wmu.Unlock()
		case 'G':
			// the stream is above the advertised last-stream-id: never processed
			rc.wmu.Lock()
			last := uint32(0)
			if a.sid >= 2 {
				last = a.sid - 2
			}
			rc.fr.WriteGoAway(last, http2.ErrCodeNo, nil)
			rc.wmu.Unlock()
		}
	}
	return len(todo) > 0
}

func (s *rServer) drainEvents() string {
	s.mu.Lock()
	defer s.mu.Unlock()
	if len(s.events) == 0 {
		return "-"
	}
	r := strings.Join(s.events, ",")
	s.events = nil
	return r
}

func (s *rServer) close() {
	s.lis.Close()
	s.mu.Lock()
	for _, c := range s.conns {
		c.c.Close()
	}
	s.mu.Unlock()
	s.wg.Wait()
}

// ---- raw codec

type retryRawCodec struct{}

func (retryRawCodec) Marshal(v any) ([]byte, error) { return v.([]byte), nil }
func (retryRawCodec) Unmarshal(d []byte, v any) error {
	*(v.(*[]byte)) = append([]byte(nil), d...)
	return nil
}
func (retryRawCodec) Name() string { return "verifraw" }

// ---- environment

type retryEnv struct {
	srv    *rServer
	cc     *grpc.ClientConn
	ctx    context.Context
	cancel context.CancelFunc
	stream grpc.ClientStream
	desc   *grpc.StreamDesc
	opts   []grpc.CallOption
	seq    int
	opWG   sync.WaitGroup
	// extraReact lets a component do more at a quiescent point (s_pickdone: publish a new picker).
	extraReact func() bool
	// pending carries the result of an op that was reported as blocked and returned later.
	pending chan string
}

func newRetryEnv(script []retryBehaviour, serviceConfig string, dopts []grpc.DialOption, kind string, copts []grpc.CallOption) *retryEnv {
	e := &retryEnv{srv: newRServer(script)}
	d := []grpc.DialOption{
		grpc.WithTransportCredentials(insecure.NewCredentials()),
		grpc.WithContextDialer(func(ctx context.Context, _ string) (net.Conn, error) { return e.srv.lis.DialContext(ctx) }),
	}
	if serviceConfig != "" {
		d = append(d, grpc.WithDefaultServiceConfig(serviceConfig))
	}
	d = append(d, dopts...)
	cc, err := grpc.NewClient("passthrough:///verif", d...)
	if err != nil {
		panic(err)
	}
	e.cc = cc
	e.ctx, e.cancel = context.WithCancel(context.Background())
	switch kind {
	case "u":
		e.desc = &grpc.StreamDesc{}
	case "c":
		e.desc = &grpc.StreamDesc{ClientStreams: true}
	default:
		e.desc = &grpc.StreamDesc{ClientStreams: true, ServerStreams: true}
	}
	e.opts = append([]grpc.CallOption{grpc.ForceCodec(retryRawCodec{})}, copts...)
	return e
}

// runOp runs one client operation to quiescence under the server discipline described at the top.
// It returns the op's result, the virtual time the op took and the server-side events.
func (e *retryEnv) runOp(fn func() string) string {
	type res struct {
		s  string
		el time.Duration
	}
	done := make(chan res, 1)
	t0 := time.Now()
	e.opWG.Add(1)
	go func() {
		defer e.opWG.Done()
		defer func() {
			if r := recover(); r != nil {
				done <- res{"PANIC " + strings.ReplaceAll(fmt.Sprint(r), "\n", " "), time.Since(t0)}
			}
		}()
		r := fn()
		done <- res{r, time.Since(t0)}
	}()
	finish := func(r res) string {
		for {
			settle()
			if !e.srv.react() && !(e.extraReact != nil && e.extraReact()) {
				break
			}
		}
		return fmt.Sprintf("%s t=%d ev=%s", r.s, int64(r.el), e.srv.drainEvents())
	}
	for {
		settle()
		if e.srv.react() || (e.extraReact != nil && e.extraReact()) {
			continue
		}
		select {
		case r := <-done:
			return finish(r)
		default:
		}
		tm := time.NewTimer(time.Hour)
		select {
		case r := <-done:
			tm.Stop()
			return finish(r)
		case <-e.srv.input:
			tm.Stop()
		case <-tm.C:
			e.pending = make(chan string, 1)
			e.opWG.Add(1)
			go func(p chan string) {
				defer e.opWG.Done()
				r := <-done
				p <- r.s
			}(e.pending)
			return fmt.Sprintf("blocked t=- ev=%s", e.srv.drainEvents())
		}
	}
}

func errStr(err error) string {
	if err == nil {
		return "ok"
	}
	if err == io.EOF {
		return "eof"
	}
	exhausted := strings.Contains(err.Error(), "max retries exhausted")
	if _, isStatus := err.(interface{ GRPCStatus() *status.Status }); !isStatus && exhausted && strings.HasSuffix(err.Error(), ": EOF") {
		// fmt.Errorf("max retries exhausted …: %w", io.EOF): what SendMsg returns when the attempt limit is hit
		return "exhausted-eof"
	}
	if st, ok := status.FromError(err); ok {
		s := "err " + strconv.Itoa(int(st.Code()))
		if exhausted {
			s += "x"
		}
		return s
	}
	return "err other:" + err.Error()
}

func (e *retryEnv) opNew(method string, extra ...grpc.CallOption) string {
	return e.runOp(func() string {
		s, err := e.cc.NewStream(e.ctx, e.desc, method, append(append([]grpc.CallOption{}, e.opts...), extra...)...)
		if err != nil {
			return errStr(err)
		}
		e.stream = s
		return "ok"
	})
}

func (e *retryEnv) opSend(size int) string {
	if e.stream == nil {
		return "no-stream"
	}
	e.seq++
	p := bytes.Repeat([]byte{byte(e.seq)}, size)
	return e.runOp(func() string { return errStr(e.stream.SendMsg(p)) })
}

func (e *retryEnv) opCloseSend() string {
	if e.stream == nil {
		return "no-stream"
	}
	return e.runOp(func() string { return errStr(e.stream.CloseSend()) })
}

func (e *retryEnv) opRecv() string {
	if e.stream == nil {
		return "no-stream"
	}
	return e.runOp(func() string {
		var b []byte
		err := e.stream.RecvMsg(&b)
		if err == nil {
			return fmt.Sprintf("msg%d", len(b))
		}
		return errStr(err)
	})
}

func (e *retryEnv) opHeader() string {
	if e.stream == nil {
		return "no-stream"
	}
	return e.runOp(func() string {
		md, err := e.stream.Header()
		if err != nil {
			return errStr(err)
		}
		if md == nil {
			return "nohdr"
		}
		return "hdr"
	})
}

func (e *retryEnv) opCancel() string {
	return e.runOp(func() string { e.cancel(); return "ok" })
}

func (e *retryEnv) close() {
	e.cancel()
	e.cc.Close()
	e.srv.close()
	e.opWG.Wait()
}

var _ = codes.OK
