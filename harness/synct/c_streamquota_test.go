package synct

import (
	"context"
	"errors"
	"fmt"
	"io"
	"net"
	"sort"
	"strconv"
	"strings"
	"sync"

	"golang.org/x/net/http2"
	"google.golang.org/grpc/internal/transport"
	"google.golang.org/grpc/resolver"
)

// component s_streamquota (C17, T2): a real http2Client over net.Pipe against a minimal scripted
// HTTP/2 server inside the bubble; NewStream callers are bubble goroutines.
//
//	max0 <k>                     (first op) connect; the server's first SETTINGS carries MAX_CONCURRENT_STREAMS=k
//	                             (default without this op: 1)
//	new <w>                      goroutine w calls NewStream (its own cancellable context)
//	close <w>                    close the stream that w created (client-side cancel → addBackStreamQuota)
//	giveup <w>                   cancel w's context (a waiting NewStream returns)
//	closeall <w> <w> …           close these streams back to back, no quiescence in between
//	max <k>                      the server sends SETTINGS MAX_CONCURRENT_STREAMS=k
//	conc <item> …                concurrently: new:<w> | close:<w> | giveup:<w>
//
// Output: created=<w,…> failed=<w,…> waiting=<w,…> q=<streamQuota> ws=<waitingStreams>
// (created/failed: NewStream calls that returned during this op; waiting: calls still blocked).
type streamquotaH struct {
	ct     transport.ClientTransport
	cancel context.CancelFunc
	srv    net.Conn
	fr     *http2.Framer
	wmu    sync.Mutex // serialises server writes
	srvWG  sync.WaitGroup

	mu      sync.Mutex
	callers map[int]*sqCaller
	created []int
	failed  []int
	wg      sync.WaitGroup
}

type sqCaller struct {
	cancel  context.CancelFunc
	stream  *transport.ClientStream
	waiting bool
	closed  bool
}

func init() {
	register("s_streamquota", func() SHandler { return &streamquotaH{callers: map[int]*sqCaller{}} })
}

func (h *streamquotaH) connect(k uint32) {
	cli, srv := net.Pipe()
	h.srv = srv
	h.srvWG.Add(1)
	ready := make(chan struct{})
	go func() {
		defer h.srvWG.Done()
		preface := make([]byte, len(http2.ClientPreface))
		if _, err := io.ReadFull(srv, preface); err != nil {
			close(ready)
			return
		}
		h.fr = http2.NewFramer(srv, srv)
		h.wmu.Lock()
		h.fr.WriteSettings(http2.Setting{ID: http2.SettingMaxConcurrentStreams, Val: k})
		h.wmu.Unlock()
		close(ready)
		for {
			f, err := h.fr.ReadFrame()
			if err != nil {
				return
			}
			if sf, ok := f.(*http2.SettingsFrame); ok && !sf.IsAck() {
				h.wmu.Lock()
				h.fr.WriteSettingsAck()
				h.wmu.Unlock()
			}
		}
	}()
	ctx, cancel := context.WithCancel(context.Background())
	h.cancel = cancel
	ct, err := transport.NewHTTP2Client(ctx, ctx, resolver.Address{Addr: "verif"}, transport.ConnectOptions{
		Dialer: func(context.Context, string) (net.Conn, error) { return cli, nil },
	}, func(transport.GoAwayInfo) {})
	if err != nil {
		panic("NewHTTP2Client: " + err.Error())
	}
	h.ct = ct
	<-ready
	settle()
}

func (h *streamquotaH) ensure() {
	if h.ct == nil {
		h.connect(1)
	}
}

func streamquota_ints(l []int) string {
	sort.Ints(l)
	s := make([]string, len(l))
	for i, v := range l {
		s[i] = strconv.Itoa(v)
	}
	return joinOrDash(s)
}

func (h *streamquotaH) status() string {
	settle()
	q, ws := transport.VerifClientStreamQuota(h.ct)
	settle()
	h.mu.Lock()
	defer h.mu.Unlock()
	var waiting []int
	for w, c := range h.callers {
		if c.waiting {
			waiting = append(waiting, w)
		}
	}
	s := fmt.Sprintf("created=%s failed=%s waiting=%s q=%d ws=%d", streamquota_ints(h.created), streamquota_ints(h.failed), streamquota_ints(waiting), q, ws)
	h.created, h.failed = nil, nil
	return s
}

func (h *streamquotaH) doNew(w int, start <-chan struct{}) {
	h.mu.Lock()
	if _, dup := h.callers[w]; dup {
		h.mu.Unlock()
		return
	}
	ctx, cancel := context.WithCancel(context.Background())
	c := &sqCaller{cancel: cancel, waiting: true}
	h.callers[w] = c
	h.mu.Unlock()
	h.wg.Add(1)
	go func() {
		defer h.wg.Done()
		if start != nil {
			<-start
		}
		s, err := h.ct.NewStream(ctx, &transport.CallHdr{Host: "verif", Method: "/v/m"}, nil)
		h.mu.Lock()
		c.waiting = false
		if err != nil {
			h.failed = append(h.failed, w)
		} else {
			c.stream = s
			h.created = append(h.created, w)
		}
		h.mu.Unlock()
	}()
}

// takeStream returns w's open stream (marking it closed), or nil if w holds none right now.
func (h *streamquotaH) takeStream(w int) *transport.ClientStream {
	h.mu.Lock()
	defer h.mu.Unlock()
	c := h.callers[w]
	if c != nil && c.stream != nil && !c.closed {
		c.closed = true
		return c.stream
	}
	return nil
}

func (h *streamquotaH) doClose(w int) {
	if s := h.takeStream(w); s != nil {
		s.Close(errors.New("verif: cancelled"))
	}
}

func (h *streamquotaH) doGiveUp(w int) {
	h.mu.Lock()
	c := h.callers[w]
	h.mu.Unlock()
	if c != nil {
		c.cancel()
	}
}

func (h *streamquotaH) Op(f []string) string {
	if f[0] == "max0" {
		if h.ct != nil {
			return "bad-op already connected"
		}
		h.connect(uint32(atoiS(f[1])))
		return h.status()
	}
	h.ensure()
	switch f[0] {
	case "new":
		h.doNew(atoiS(f[1]), nil)
	case "close":
		h.doClose(atoiS(f[1]))
	case "giveup":
		h.doGiveUp(atoiS(f[1]))
	case "closeall":
		// several streams closed back to back by this goroutine, without waiting for quiescence in
		// between. (With callers already parked in their select every token is handed to a different
		// caller directly, so this does NOT force the "tokens coalesce, the woken caller must pass the
		// baton on" window - that window lies between a caller's failed attempt and its arrival at the
		// select and is covered by the theorems only.)
		for _, a := range f[1:] {
			h.doClose(atoiS(a))
		}
	case "max":
		h.wmu.Lock()
		h.fr.WriteSettings(http2.Setting{ID: http2.SettingMaxConcurrentStreams, Val: uint32(atoiS(f[1]))})
		h.wmu.Unlock()
	case "conc":
		start := make(chan struct{})
		var wg sync.WaitGroup
		for _, it := range f[1:] {
			kind, arg, _ := strings.Cut(it, ":")
			w := atoiS(arg)
			switch kind {
			case "new":
				h.doNew(w, start)
			case "close":
				// only a stream that exists when the op starts is closed (a stream created
				// during this very op is left alone, so the op's outcome is well defined)
				if s := h.takeStream(w); s != nil {
					wg.Add(1)
					go func() { defer wg.Done(); <-start; s.Close(errors.New("verif: cancelled")) }()
				}
			case "giveup":
				wg.Add(1)
				go func() { defer wg.Done(); <-start; h.doGiveUp(w) }()
			default:
				return "bad-op"
			}
		}
		close(start)
		wg.Wait()
	default:
		return "bad-op"
	}
	return h.status()
}

func (h *streamquotaH) Close() {
	if h.ct == nil {
		return
	}
	h.mu.Lock()
	for _, c := range h.callers {
		c.cancel()
	}
	h.mu.Unlock()
	h.ct.Close(errors.New("verif: end of case"))
	h.cancel()
	h.srv.Close()
	h.wg.Wait()
	h.srvWG.Wait()
}
