package synct

import (
	"fmt"
	"testing"
	"testing/synctest"
	"time"

	"google.golang.org/grpc/internal/xds/clients"
	"google.golang.org/grpc/internal/xds/clients/xdsclient"
)

// Directed experiment for the observation in DESIGN.md section 7 (not part of any check):
// authority.handleADSResourceUpdate returns without arming onDone when the update comes from a
// server below the active one. With ONE authority the channel that delivered such an update has
// always been closed already. With TWO authorities sharing that channel it has not: the channel's
// ADS flow control stays pending for ever and the other authority stops receiving updates.
//
//	.build/synct -test.run '^TestXdsAuthObsOnDone$' -test.v
func TestXdsAuthObsOnDone(t *testing.T) {
	synctest.Test(t, func(t *testing.T) {
		c := &xaCase{watches: map[int]*xaWatch{}}
		xdsclient.VerifXASetStreamBackoff(func(int) time.Duration { return xaBackoff })
		for i := 0; i < 2; i++ {
			c.srv = append(c.srv, &xaServer{idx: i, uri: fmt.Sprintf("srv%d", i), up: true})
		}
		sc := func(i int) xdsclient.ServerConfig {
			return xdsclient.ServerConfig{ServerIdentifier: clients.ServerIdentifier{ServerURI: c.srv[i].uri}}
		}
		cl, err := xdsclient.New(xdsclient.Config{
			Node:             clients.Node{ID: "verif"},
			TransportBuilder: xaBuilder{c},
			ResourceTypes: map[string]xdsclient.ResourceType{
				"T": {TypeURL: "T", TypeName: "T", AllResourcesRequiredInSotW: false, Decoder: xaDecoder{}},
			},
			WatchExpiryTimeout: time.Hour,
			Servers:            []xdsclient.ServerConfig{sc(1)},                                              // top-level authority: srv1 only
			Authorities:        map[string]xdsclient.Authority{"a": {XDSServers: []xdsclient.ServerConfig{sc(0), sc(1)}}}, // authority a: srv0, fallback srv1
		})
		if err != nil {
			t.Fatal(err)
		}
		c.client = cl
		c.start = time.Now()
		step := func() { settle(); c.pump() }
		show := func(what string) {
			ex, refs, pend := xdsclient.VerifXAChannelFlow(cl, "srv1")
			c.mu.Lock()
			cbs := fmt.Sprint(c.cbs)
			c.cbs = nil
			waiting := false
			if tr := c.srv[1].tr; tr != nil && tr.cur != nil {
				waiting = tr.cur.waiting
			}
			c.mu.Unlock()
			t.Logf("%-55s callbacks=%s | channel srv1: exists=%v refs=%d flowControlPending=%v readerInRecv=%v", what, cbs, ex, refs, pend, waiting)
		}
		send := func(i int, ver string, vals ...string) {
			st := c.liveStream(c.srv[i])
			if st == nil {
				t.Fatalf("no live stream on srv%d", i)
			}
			var bs [][]byte
			for _, v := range vals {
				bs = append(bs, []byte(v))
			}
			c.nonce++
			c.mu.Lock()
			st.inbox = append(st.inbox, xdsclient.VerifXAEncodeResponse("T", ver, fmt.Sprintf("n%d", c.nonce), bs))
			c.mu.Unlock()
			step()
		}
		const rA = "xdstp://a/T/r1"
		c.srv[0].up = false
		cancelA := cl.WatchResource("T", rA, &xaWatcher{c: c, id: 1}) // authority a: srv0 down -> falls back to srv1
		step()
		cancelB := cl.WatchResource("T", "r9", &xaWatcher{c: c, id: 2}) // top-level authority: shares the srv1 channel
		step()
		show("both authorities on srv1")
		c.srv[0].up = true
		time.Sleep(xaBackoff)
		step()
		release := xdsclient.VerifXAHoldNamed(cl, "a") // authority a's serializer is busy
		settle()
		send(0, "v1", rA+"|ok|c1")                  // queued in a: update from srv0 (higher priority)
		send(1, "v1", "r9|ok|d1", rA+"|ok|x1")      // queued in a behind it: update from srv1; the top-level authority processes it at once
		show("srv0 and srv1 responded while authority a was busy")
		release()
		step()
		show("authority a processed both (reverted to srv0, ignored srv1)")
		send(1, "v2", "r9|ok|d2") // a new version for the top-level authority's resource
		show("srv1 sent r9 v2")
		time.Sleep(10 * time.Second)
		step()
		show("10 s later")
		_, _, pending := xdsclient.VerifXAChannelFlow(cl, "srv1")
		if pending {
			t.Logf("OBSERVATION CONFIRMED: the srv1 channel's ADS flow control is stuck; watcher 2 never received r9 v2")
		} else {
			t.Logf("observation NOT reproduced")
		}
		cancelA()
		cancelB()
		cl.Close()
		settle()
	})
}
