package synct

// component s_pickerwrapper (C32): the REAL grpc.pickerWrapper (picker_wrapper.go) driven through
// the export shim harness/shims/picker_wrapper.go.
//
//	update p | update nil        pw.updatePicker(<fresh scripted picker of the next generation> | nil)
//	idle                         pw.reset()
//	close                        pw.close()
//	sc <k> <state> <tr>          fake SubConn k: addrConn.state := state, addrConn.transport := tr (0 = nil)
//	pick <tid> <ff> <timeout_s>  go pw.pick(ctx, ff != 0, info)   (timeout 0 = no deadline)
//	attempt <tid> <ff> <numRetries> <first> <timeout_s>
//	                             go csAttempt.getTransport() — the REAL call site of pick in stream.go — for an
//	                             attempt of an RPC with callInfo.failFast = ff (ff=0: wait-for-ready),
//	                             clientStream.numRetries and .firstAttempt as given; same status line as pick
//	ret <tid> <result…>          the scripted picker's Pick call of thread tid (parked) returns:
//	                             nosc | st <code> | wst <code> | err <e> | nilst <e> | sc <k> | scnd <k> | foreign
//	cancel <tid>                 cancel the pick's context
//	sleep <s>                    advance virtual time
//
// Every scripted picker parks each Pick call until the matching `ret`, which is how an update
// can be interleaved between "Pick called" and "Pick returned". After every op the bubble is
// settled and the line printed is the status of every pick thread, sorted by tid:
//
//	t<tid>=blocked:d<n>                 durably blocked in pick's select
//	t<tid>=inpick:<gen>:<calls>:d<n>    parked inside Pick of the picker published as generation <gen>
//	t<tid>=ok:sc<k>:tr<t>:blk<0|1>:d<n> returned a transport
//	t<tid>=err:<class…>:d<n>            returned an error
//
// d<n> = number of times a PickResult.Done of this thread was called by pick itself
// (the "picked SubConn was not ready" path), with a zero DoneInfo (else d! is printed).

import (
	"context"
	"errors"
	"fmt"
	"sort"
	"strings"
	"sync"
	"time"

	"google.golang.org/grpc"
	"google.golang.org/grpc/balancer"
	"google.golang.org/grpc/codes"
	"google.golang.org/grpc/connectivity"
	"google.golang.org/grpc/internal/transport"
	"google.golang.org/grpc/status"
)

type pwFakeTransport struct {
	transport.ClientTransport
	id int
}

type pwForeignSubConn struct{ balancer.SubConn }

// stErr is an error carrying an arbitrary status code (status.Error cannot build code 0).
type pwStErr struct {
	st  *status.Status
	msg string
}

func (e *pwStErr) Error() string              { return e.msg }
func (e *pwStErr) GRPCStatus() *status.Status { return e.st }

type pwRet struct {
	res balancer.PickResult
	err error
}

type pwThread struct {
	id      int
	cancel  context.CancelFunc
	inPick  bool
	gen     int
	calls   int
	dones   int
	badDone bool
	release chan pwRet
	done    bool
	result  string
	lastErr error // the error most recently returned by a scripted Pick of this thread
}

type pwKey struct{}

type pwPicker struct {
	h   *pwHarness
	gen int
}

func (p *pwPicker) Pick(info balancer.PickInfo) (balancer.PickResult, error) {
	t, _ := info.Ctx.Value(pwKey{}).(*pwThread)
	if t == nil {
		return balancer.PickResult{}, errors.New("no thread in context")
	}
	p.h.mu.Lock()
	t.inPick = true
	t.gen = p.gen
	t.calls++
	p.h.mu.Unlock()
	r := <-t.release
	p.h.mu.Lock()
	t.inPick = false
	p.h.mu.Unlock()
	return r.res, r.err
}

type pwHarness struct {
	mu     sync.Mutex
	pw     *grpc.VerifPickerWrapper
	gen    int
	closed bool
	scs    map[int]balancer.SubConn
	trs    map[int]*pwFakeTransport
	thr    map[int]*pwThread
}

func init() {
	register("s_pickerwrapper", func() SHandler {
		return &pwHarness{pw: grpc.VerifNewPickerWrapper(), scs: map[int]balancer.SubConn{}, trs: map[int]*pwFakeTransport{}, thr: map[int]*pwThread{}}
	})
}

func (h *pwHarness) sc(k int) balancer.SubConn {
	if s, ok := h.scs[k]; ok {
		return s
	}
	s := grpc.VerifNewFakeSubConn()
	h.scs[k] = s
	return s
}

func (h *pwHarness) scIndex(s balancer.SubConn) int {
	for k, v := range h.scs {
		if v == s {
			return k
		}
	}
	return -1
}

var pwStates = map[string]connectivity.State{"idle": connectivity.Idle, "connecting": connectivity.Connecting,
	"ready": connectivity.Ready, "tf": connectivity.TransientFailure, "shutdown": connectivity.Shutdown}

func pwAtoi(s string) (int, bool) {
	var v int
	if _, err := fmt.Sscanf(s, "%d", &v); err != nil || fmt.Sprint(v) != s || v < 0 || v > 1000000 {
		return 0, false
	}
	return v, true
}

func (h *pwHarness) classify(t *pwThread, p grpc.VerifPick, err error, unwrappedDrop bool) string {
	if err == nil {
		tr, _ := p.Transport.(*pwFakeTransport)
		tid := -1
		if tr != nil {
			tid = tr.id
		}
		b := 0
		if p.Blocked {
			b = 1
		}
		return fmt.Sprintf("ok:sc%d:tr%d:blk%d", h.scIndex(p.Result.SubConn), tid, b)
	}
	if err == grpc.ErrClientConnClosing {
		return "err:closing"
	}
	inner, isDrop := grpc.VerifDropError(err)
	if unwrappedDrop { // csAttempt.getTransport unwrapped the dropError and set a.drop
		inner, isDrop = err, true
	}
	if isDrop {
		cls := "other"
		if inner == t.lastErr {
			cls = "same"
		} else if t.lastErr != nil && inner.Error() == "rpc error: code = Internal desc = received picker error with illegal status: "+t.lastErr.Error() {
			cls = "illegal"
		}
		st, isSt := status.FromError(inner)
		if !isSt {
			return "err:drop:nonstatus"
		}
		return fmt.Sprintf("err:drop:%d:%s", int(st.Code()), cls)
	}
	if st, ok := status.FromError(err); ok {
		msg := st.Message()
		cls := strings.ReplaceAll(msg, " ", "_")
		switch {
		case strings.HasSuffix(msg, " while waiting for connections to become ready"):
			cls = "waiting"
		case strings.HasPrefix(msg, "latest balancer error: "):
			cls = "lbe" + strings.ReplaceAll(strings.TrimPrefix(msg, "latest balancer error: "), " ", "_")
		}
		return fmt.Sprintf("err:status:%d:%s", int(st.Code()), cls)
	}
	return "err:nonstatus:" + strings.ReplaceAll(err.Error(), " ", "_")
}

func (h *pwHarness) status() string {
	settle()
	h.mu.Lock()
	defer h.mu.Unlock()
	ids := []int{}
	for id := range h.thr {
		ids = append(ids, id)
	}
	sort.Ints(ids)
	var out []string
	for _, id := range ids {
		t := h.thr[id]
		d := fmt.Sprintf(":d%d", t.dones)
		if t.badDone {
			d = ":d!"
		}
		switch {
		case t.done:
			out = append(out, fmt.Sprintf("t%d=%s%s", id, t.result, d))
		case t.inPick:
			out = append(out, fmt.Sprintf("t%d=inpick:%d:%d%s", id, t.gen, t.calls, d))
		default:
			out = append(out, fmt.Sprintf("t%d=blocked%s", id, d))
		}
	}
	if len(out) == 0 {
		return "-"
	}
	return strings.Join(out, " ")
}

func (h *pwHarness) Op(f []string) string {
	switch f[0] {
	case "update":
		if len(f) != 2 || h.closed || (f[1] != "p" && f[1] != "nil") {
			return "bad-op"
		}
		h.gen++
		if f[1] == "nil" {
			h.pw.UpdatePicker(nil)
		} else {
			h.pw.UpdatePicker(&pwPicker{h: h, gen: h.gen})
		}
		return h.status()
	case "idle":
		if len(f) != 1 || h.closed {
			return "bad-op"
		}
		h.gen++
		h.pw.Reset()
		return h.status()
	case "close":
		if len(f) != 1 || h.closed {
			return "bad-op"
		}
		h.closed = true
		h.pw.Close()
		return h.status()
	case "sc":
		if len(f) != 4 {
			return "bad-op"
		}
		k, ok1 := pwAtoi(f[1])
		st, ok2 := pwStates[f[2]]
		tr, ok3 := pwAtoi(f[3])
		if !ok1 || !ok2 || !ok3 {
			return "bad-op"
		}
		var t transport.ClientTransport
		if tr != 0 {
			ft := h.trs[tr]
			if ft == nil {
				ft = &pwFakeTransport{id: tr}
				h.trs[tr] = ft
			}
			t = ft
		}
		grpc.VerifSetFakeSubConnState(h.sc(k), st, t)
		return h.status()
	case "pick", "attempt":
		isAttempt := f[0] == "attempt"
		if (!isAttempt && len(f) != 4) || (isAttempt && len(f) != 6) {
			return "bad-op"
		}
		id, ok1 := pwAtoi(f[1])
		ff, ok2 := pwAtoi(f[2])
		to, ok3 := pwAtoi(f[len(f)-1])
		nr, first := 0, 0
		if isAttempt {
			var ok4, ok5 bool
			nr, ok4 = pwAtoi(f[3])
			first, ok5 = pwAtoi(f[4])
			ok3 = ok3 && ok4 && ok5
		}
		if !ok1 || !ok2 || !ok3 || h.thr[id] != nil {
			return "bad-op"
		}
		t := &pwThread{id: id, release: make(chan pwRet)}
		var ctx context.Context
		if to > 0 {
			ctx, t.cancel = context.WithTimeout(context.Background(), time.Duration(to)*time.Second)
		} else {
			ctx, t.cancel = context.WithCancel(context.Background())
		}
		ctx = context.WithValue(ctx, pwKey{}, t)
		h.mu.Lock()
		h.thr[id] = t
		h.mu.Unlock()
		go func() {
			var p grpc.VerifPick
			var err error
			drop := false
			if isAttempt {
				p, drop, err = h.pw.GetTransport(ctx, ff != 0, nr, first != 0, "/s/m")
			} else {
				p, err = h.pw.Pick(ctx, ff != 0, balancer.PickInfo{Ctx: ctx, FullMethodName: "/s/m"})
			}
			h.mu.Lock()
			t.result = h.classify(t, p, err, drop)
			t.done = true
			h.mu.Unlock()
		}()
		return h.status()
	case "ret":
		if len(f) < 3 {
			return "bad-op"
		}
		id, ok := pwAtoi(f[1])
		t := h.thr[id]
		if !ok || t == nil || !t.inPick || t.done {
			return "bad-op"
		}
		var r pwRet
		arg := 0
		if len(f) == 4 {
			a, ok := pwAtoi(f[3])
			if !ok {
				return "bad-op"
			}
			arg = a
		}
		needArg := f[2] != "nosc" && f[2] != "foreign"
		if (needArg && len(f) != 4) || (!needArg && len(f) != 3) {
			return "bad-op"
		}
		doneFn := func(di balancer.DoneInfo) {
			h.mu.Lock()
			t.dones++
			if di.Err != nil || di.Trailer != nil || di.BytesSent || di.BytesReceived || di.ServerLoad != nil {
				t.badDone = true
			}
			h.mu.Unlock()
		}
		switch f[2] {
		case "nosc":
			r.err = balancer.ErrNoSubConnAvailable
		case "st":
			r.err = &pwStErr{st: status.New(codes.Code(arg), fmt.Sprintf("S%d", arg)), msg: fmt.Sprintf("S%d", arg)}
		case "wst":
			r.err = fmt.Errorf("wrapped: %w", &pwStErr{st: status.New(codes.Code(arg), fmt.Sprintf("S%d", arg)), msg: fmt.Sprintf("S%d", arg)})
		case "err":
			r.err = fmt.Errorf("E%d", arg)
		case "nilst":
			r.err = &pwStErr{st: nil, msg: fmt.Sprintf("E%d", arg)}
		case "sc":
			r.res = balancer.PickResult{SubConn: h.sc(arg), Done: doneFn}
		case "scnd":
			r.res = balancer.PickResult{SubConn: h.sc(arg)}
		case "foreign":
			r.res = balancer.PickResult{SubConn: &pwForeignSubConn{}, Done: doneFn}
		default:
			return "bad-op"
		}
		h.mu.Lock()
		t.lastErr = r.err
		h.mu.Unlock()
		t.release <- r
		return h.status()
	case "cancel":
		if len(f) != 2 {
			return "bad-op"
		}
		id, ok := pwAtoi(f[1])
		t := h.thr[id]
		if !ok || t == nil {
			return "bad-op"
		}
		t.cancel()
		return h.status()
	case "sleep":
		if len(f) != 2 {
			return "bad-op"
		}
		s, ok := pwAtoi(f[1])
		if !ok {
			return "bad-op"
		}
		time.Sleep(time.Duration(s) * time.Second)
		return h.status()
	}
	return "bad-op"
}

func (h *pwHarness) Close() {
	if !h.closed {
		h.closed = true
		h.pw.Close()
	}
	for i := 0; i < 4; i++ {
		settle()
		h.mu.Lock()
		var parked []*pwThread
		for _, t := range h.thr {
			t.cancel()
			if t.inPick && !t.done {
				parked = append(parked, t)
			}
		}
		h.mu.Unlock()
		for _, t := range parked {
			t.release <- pwRet{err: balancer.ErrNoSubConnAvailable}
		}
	}
}
