package synct

import (
	"context"
	"errors"
	"fmt"
	"sort"
	"strings"
	"time"

	"google.golang.org/grpc/internal/xds/clients"
	"google.golang.org/grpc/internal/xds/clients/xdsclient"
)

// component s_ads (C42, T2): the real adsStreamImpl (runner / send / recv goroutines, flow
// control) over a scripted transport and a scripted xdsChannel (event handler).
//
//	up | down                      NewStream succeeds / fails from now on
//	sub <A|B> <name> | unsub …     subscribe / unsubscribe
//	recv <A|B|X> <ver> <nonce> <ack|nack|unsup> <names|->   the server sends a response; the
//	                               channel reports these names and this verdict
//	done                           the watchers finished processing the oldest pending response
//	break                          the current stream fails
//	sleep <ms>
//
// Output: reqs=<T|ver|nonce|names|err …>;… (in send order) node=<ok|BAD> unread=<n> streams=<n>
// node=ok iff on every stream exactly the first request carried the node.
type adsStream struct {
	ctx    context.Context
	t      *adsTransport
	id     int
	in     chan []byte
	broken chan struct{}
	sent   int
}

func (s *adsStream) Send(b []byte) error {
	select {
	case <-s.broken:
		return errors.New("stream broken")
	default:
	}
	r, err := xdsclient.VerifDecodeRequest(b)
	if err != nil {
		s.t.log = append(s.t.log, "undecodable")
		return nil
	}
	e := ""
	if r.Err {
		e = "|err"
	}
	names := "-"
	if len(r.Names) > 0 {
		names = strings.Join(r.Names, "+")
	}
	v, n := r.Version, r.Nonce
	if v == "" {
		v = "-"
	}
	if n == "" {
		n = "-"
	}
	s.t.log = append(s.t.log, fmt.Sprintf("%s|%s|%s|%s%s", r.TypeURL, v, n, names, e))
	if (s.sent == 0) != r.Node {
		s.t.nodeBad = true
	}
	s.sent++
	return nil
}

func (s *adsStream) Recv() ([]byte, error) {
	select {
	case <-s.broken:
		return nil, errors.New("stream broken")
	default:
	}
	select {
	case b := <-s.in:
		s.t.unread--
		return b, nil
	case <-s.broken:
		return nil, errors.New("stream broken")
	case <-s.ctx.Done(): // the real transport's stream ends when the ADS stream is stopped
		return nil, s.ctx.Err()
	}
}

type adsTransport struct {
	up      bool
	cur     *adsStream
	streams int
	log     []string
	nodeBad bool
	unread  int
}

func (t *adsTransport) NewStream(ctx context.Context, _ string) (clients.Stream, error) {
	if !t.up {
		return nil, errors.New("transport down")
	}
	t.streams++
	t.cur = &adsStream{ctx: ctx, t: t, id: t.streams, in: make(chan []byte, 64), broken: make(chan struct{})}
	return t.cur, nil
}
func (t *adsTransport) Close() {}

type adsVerdict struct {
	names   []string
	verdict string
}

type adsCase struct {
	t       *adsTransport
	a       *xdsclient.VerifADS
	verdicts []adsVerdict // per injected response, consumed in order by OnResponse
	pending []func()
	types   map[string]xdsclient.ResourceType
	evs     []string
}

func init() {
	register("s_ads", func() SHandler {
		c := &adsCase{t: &adsTransport{}, types: map[string]xdsclient.ResourceType{
			"A": {TypeURL: "A", TypeName: "A"}, "B": {TypeURL: "B", TypeName: "B"}}}
		h := &xdsclient.VerifADSHandler{
			OnResponse: func(url, ver string, onDone func()) ([]string, string) {
				c.pending = append(c.pending, onDone)
				if len(c.verdicts) == 0 {
					return nil, "ack"
				}
				v := c.verdicts[0]
				c.verdicts = c.verdicts[1:]
				return v.names, v.verdict
			},
			OnStreamError: func(after bool) { c.evs = append(c.evs, fmt.Sprintf("streamerr(afterRecv=%v)", after)) },
			OnWatchExpiry: func(url, name string) {}, // watch expiry belongs to C43
		}
		c.a = xdsclient.VerifNewADS(c.t, h, func(int) time.Duration { return time.Second }, 15*time.Second)
		settle()
		return c
	})
}

func (c *adsCase) flush() string {
	r := "-"
	if len(c.t.log) > 0 {
		sort.Strings(c.t.log) // sendExisting ranges over a map
		r = strings.Join(c.t.log, ";")
	}
	c.t.log = nil
	node := "ok"
	if c.t.nodeBad {
		node = "BAD"
	}
	ev := "-"
	if len(c.evs) > 0 {
		sort.Strings(c.evs)
		ev = strings.Join(c.evs, ",")
	}
	c.evs = nil
	return fmt.Sprintf("reqs=%s node=%s unread=%d streams=%d ev=%s", r, node, c.t.unread, c.t.streams, ev)
}

func (c *adsCase) Op(f []string) string {
	switch f[0] {
	case "up":
		c.t.up = true
	case "down":
		c.t.up = false
	case "sub":
		c.a.Subscribe(c.types[f[1]], f[2])
	case "unsub":
		c.a.Unsubscribe(c.types[f[1]], f[2])
	case "recv":
		if c.t.cur == nil {
			return "nostream"
		}
		select {
		case <-c.t.cur.broken:
			return "nostream"
		default:
		}
		v := adsVerdict{verdict: f[4]}
		if f[5] != "-" {
			v.names = strings.Split(f[5], "+")
		}
		c.verdicts = append(c.verdicts, v)
		ver, nonce := f[2], f[3]
		c.t.unread++
		c.t.cur.in <- xdsclient.VerifEncodeResponse(f[1], ver, nonce)
	case "done":
		if len(c.pending) > 0 {
			d := c.pending[0]
			c.pending = c.pending[1:]
			d()
		}
	case "break":
		if c.t.cur != nil {
			select {
			case <-c.t.cur.broken:
			default:
				close(c.t.cur.broken)
				// unread messages die with the stream
				c.t.unread -= len(c.t.cur.in)
				c.verdicts = c.verdicts[:len(c.verdicts)-len(c.t.cur.in)]
			}
		}
	case "sleep":
		time.Sleep(time.Duration(atoi64s(f[1])) * time.Millisecond)
	default:
		return "bad-op"
	}
	settle()
	return c.flush()
}

func (c *adsCase) Close() {
	c.a.Stop()
}
