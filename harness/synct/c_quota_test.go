package synct

import (
	"bytes"
	"context"
	"fmt"
	"io"
	"net"
	"sort"
	"strconv"
	"strings"
	"sync"
	"time"

	"golang.org/x/net/http2"
	"golang.org/x/net/http2/hpack"
	"google.golang.org/grpc/internal/transport"
	"google.golang.org/grpc/mem"
	"google.golang.org/grpc/metadata"
	"google.golang.org/grpc/resolver"
)

// component s_quota (C13): a REAL http2Client (transport.NewHTTP2Client) over net.Pipe against a
// scripted raw-frame server peer (x/net/http2.Framer + hpack). NewStream callers are bubble
// goroutines; after every op the bubble is settled, so "blocked" is exact.
//
//	start <n|none> [hl=<limit>] [maxid=<MaxStreamID for this case>]   server preface SETTINGS (MAX_CONCURRENT_STREAMS n | absent) [+ MAX_HEADER_LIST_SIZE]
//	new <k> [dl=<ms>] [sz=B]      k concurrent NewStream callers (optional ctx deadline, big header list)
//	settings <n> | settings none | settings2 <a> <b>
//	hls <n>                       SETTINGS MAX_HEADER_LIST_SIZE
//	srvend <id>                   server trailers (END_STREAM) on stream id
//	srvrst <id> <code>            server RST_STREAM
//	cclose <id>                   client closes (cancels) the stream: RST_STREAM CANCEL
//	chalf <id>                    client half-close (DATA END_STREAM)
//	burst <sub> ...               sub = srvend:<id> srvrst:<id>:<code> settings:<n> hls:<n> (peer frames, back to back)
//	                              | cclose:<id> new:<k> (client side, in order); the two groups run concurrently, no settle between
//	cancelb <j>                   cancel the ctx of the (j mod #blocked)-th blocked caller
//	sleep <ms>                    advance virtual time
//	goaway <lastid>               server GOAWAY
//	close                         client transport Close
//
// output: ev=<wire events seen by the peer since the last op, in order: H<id> R<id>:<code> D<id> G>
//
//	ok=<callers that obtained a stream during this op> err=<caller:kind that failed during this op>
//	blk=<callers blocked now> q=<streamQuota> w=<waitingStreams> m=<maxConcurrentStreams>
//	t=<token in the wake-up channel> n=<nextID> a=<len(activeStreams)> d=<state==draining>
type qcaller struct {
	idx      int
	cancel   context.CancelFunc
	done     bool
	reported bool
	s        *transport.ClientStream
	err      error
}

type quotaH struct {
	ct         transport.ClientTransport
	cli, srv   net.Conn
	fr         *http2.Framer
	mu         sync.Mutex
	events     []string
	lastHdr    uint32
	callers    []*qcaller
	byID       map[uint32]*transport.ClientStream
	henc       *hpack.Encoder
	hbuf       bytes.Buffer
	readerDone chan struct{}
	wg         sync.WaitGroup
	tctxCancel context.CancelFunc
	savedMaxID uint32
	maxIDSet   bool
	closed     bool
}

// see admitKeep in c_admit_test.go: objects embedding a sync.WaitGroup stay reachable so that their
// address is never reused by a later bubble.
var quotaKeep []*quotaH

func init() {
	register("s_quota", func() SHandler {
		h := &quotaH{byID: map[uint32]*transport.ClientStream{}}
		quotaKeep = append(quotaKeep, h)
		return h
	})
}

func (h *quotaH) peerReader() {
	defer close(h.readerDone)
	for {
		f, err := h.fr.ReadFrame()
		if err != nil {
			return
		}
		var e string
		switch f := f.(type) {
		case *http2.MetaHeadersFrame:
			e = fmt.Sprintf("H%d", f.StreamID)
			h.mu.Lock()
			if f.StreamID > h.lastHdr {
				h.lastHdr = f.StreamID
			}
			h.mu.Unlock()
		case *http2.RSTStreamFrame:
			e = fmt.Sprintf("R%d:%d", f.StreamID, uint32(f.ErrCode))
		case *http2.DataFrame:
			if f.StreamEnded() {
				e = fmt.Sprintf("D%d", f.StreamID)
			}
		case *http2.GoAwayFrame:
			e = "G"
		}
		if e != "" {
			h.mu.Lock()
			h.events = append(h.events, e)
			h.mu.Unlock()
		}
	}
}

func qErrKind(err error) string {
	s := err.Error()
	switch {
	case strings.Contains(s, "DeadlineExceeded") || strings.Contains(s, "deadline exceeded"):
		return "deadline"
	case strings.Contains(s, "context canceled") || strings.Contains(s, "Canceled"):
		return "canceled"
	case strings.Contains(s, "draining"):
		return "drain"
	case strings.Contains(s, "header list size"):
		return "hdrsize"
	case strings.Contains(s, "closing"):
		return "closing"
	}
	return "other(" + strings.ReplaceAll(s, " ", "_") + ")"
}

func ints(l []int) string {
	if len(l) == 0 {
		return "-"
	}
	sort.Ints(l)
	s := make([]string, len(l))
	for i, v := range l {
		s[i] = strconv.Itoa(v)
	}
	return strings.Join(s, ",")
}

func (h *quotaH) report() string {
	settle()
	h.mu.Lock()
	ev := "-"
	if len(h.events) > 0 {
		ev = strings.Join(h.events, ",")
	}
	h.events = nil
	var ok, blk []int
	var errs []string
	for _, c := range h.callers {
		switch {
		case !c.done:
			blk = append(blk, c.idx)
		case !c.reported:
			c.reported = true
			if c.err != nil {
				errs = append(errs, fmt.Sprintf("%d:%s", c.idx, qErrKind(c.err)))
			} else {
				ok = append(ok, c.idx)
				h.byID[transport.VerifStreamID(c.s)] = c.s
			}
		}
	}
	h.mu.Unlock()
	es := "-"
	if len(errs) > 0 {
		es = strings.Join(errs, ",")
	}
	st := "q=- w=- m=- t=- n=- a=- d=-"
	if h.ct != nil {
		q, w, m, tok, n, a, dr := transport.VerifQuotaState(h.ct)
		d := 0
		if dr {
			d = 1
		}
		st = fmt.Sprintf("q=%d w=%d m=%d t=%d n=%d a=%d d=%d", q, w, m, tok, n, a, d)
	}
	return fmt.Sprintf("ev=%s ok=%s err=%s blk=%s %s", ev, ints(ok), es, ints(blk), st)
}

func quotaKV(f []string, key string) (string, bool) {
	for _, x := range f {
		if strings.HasPrefix(x, key+"=") {
			return x[len(key)+1:], true
		}
	}
	return "", false
}

func (h *quotaH) Op(f []string) string {
	if f[0] != "start" && h.ct == nil {
		return "not-started"
	}
	switch f[0] {
	case "start":
		if h.ct != nil {
			return "bad-op"
		}
		if v, ok := quotaKV(f, "maxid"); ok {
			h.savedMaxID, h.maxIDSet = transport.MaxStreamID, true
			transport.MaxStreamID = uint32(atou(v))
		}
		h.cli, h.srv = net.Pipe()
		h.fr = http2.NewFramer(h.srv, h.srv)
		h.fr.ReadMetaHeaders = hpack.NewDecoder(4096, nil)
		h.henc = hpack.NewEncoder(&h.hbuf)
		h.readerDone = make(chan struct{})
		tctx, cancel := context.WithCancel(context.Background())
		h.tctxCancel = cancel
		var ct transport.ClientTransport
		var cerr error
		cdone := make(chan struct{})
		go func() {
			defer close(cdone)
			ct, cerr = transport.NewHTTP2Client(tctx, tctx, resolver.Address{Addr: "peer"}, transport.ConnectOptions{
				Dialer:           func(context.Context, string) (net.Conn, error) { return h.cli, nil },
				BufferPool:       mem.DefaultBufferPool(),
				StaticWindowSize: true,
			}, func(transport.GoAwayInfo) {})
		}()
		pre := make([]byte, len(http2.ClientPreface))
		if _, err := io.ReadFull(h.srv, pre); err != nil {
			return "preface-err"
		}
		go h.peerReader()
		var ss []http2.Setting
		if f[1] != "none" {
			ss = append(ss, http2.Setting{ID: http2.SettingMaxConcurrentStreams, Val: uint32(atou(f[1]))})
		}
		if v, ok := quotaKV(f, "hl"); ok {
			ss = append(ss, http2.Setting{ID: http2.SettingMaxHeaderListSize, Val: uint32(atou(v))})
		}
		if err := h.fr.WriteSettings(ss...); err != nil {
			return "write-err"
		}
		<-cdone
		if cerr != nil {
			return "client-err " + cerr.Error()
		}
		h.ct = ct
	case "new":
		h.spawn(int(atou(f[1])), f)
	case "burst":
		// peer frames are written back to back from one goroutine while this goroutine performs the
		// client-side actions: two unordered threads, no settle in between
		var pbuf bytes.Buffer
		pfr := http2.NewFramer(&pbuf, nil)
		var local []func()
		h.mu.Lock()
		lastHdr := h.lastHdr
		h.mu.Unlock()
		for _, sub := range f[1:] {
			p := strings.Split(sub, ":")
			if (p[0] == "srvend" || p[0] == "srvrst" || p[0] == "cclose") && uint32(atou(p[1])) > lastHdr {
				continue // a stream the peer has not seen yet: skipped (the model skips it too)
			}
			switch p[0] {
			case "srvend":
				h.hbuf.Reset()
				h.henc.WriteField(hpack.HeaderField{Name: ":status", Value: "200"})
				h.henc.WriteField(hpack.HeaderField{Name: "content-type", Value: "application/grpc"})
				h.henc.WriteField(hpack.HeaderField{Name: "grpc-status", Value: "0"})
				pfr.WriteHeaders(http2.HeadersFrameParam{StreamID: uint32(atou(p[1])), BlockFragment: h.hbuf.Bytes(), EndStream: true, EndHeaders: true})
			case "srvrst":
				pfr.WriteRSTStream(uint32(atou(p[1])), http2.ErrCode(atou(p[2])))
			case "settings":
				pfr.WriteSettings(http2.Setting{ID: http2.SettingMaxConcurrentStreams, Val: uint32(atou(p[1]))})
			case "hls":
				pfr.WriteSettings(http2.Setting{ID: http2.SettingMaxHeaderListSize, Val: uint32(atou(p[1]))})
			case "cclose":
				id := uint32(atou(p[1]))
				local = append(local, func() {
					if s := h.byID[id]; s != nil {
						s.Close(context.Canceled)
					}
				})
			case "new":
				k := int(atou(p[1]))
				local = append(local, func() { h.spawn(k, f[:0]) })
			default:
				return "bad-op"
			}
		}
		wdone := make(chan struct{})
		go func() {
			defer close(wdone)
			if pbuf.Len() > 0 {
				h.srv.Write(pbuf.Bytes())
			}
		}()
		for _, fn := range local {
			fn()
		}
		<-wdone
	case "settings":
		var ss []http2.Setting
		if f[1] == "none" {
			ss = append(ss, http2.Setting{ID: http2.SettingInitialWindowSize, Val: 65535})
		} else {
			ss = append(ss, http2.Setting{ID: http2.SettingMaxConcurrentStreams, Val: uint32(atou(f[1]))})
		}
		h.fr.WriteSettings(ss...)
	case "settings2":
		h.fr.WriteSettings(http2.Setting{ID: http2.SettingMaxConcurrentStreams, Val: uint32(atou(f[1]))},
			http2.Setting{ID: http2.SettingMaxConcurrentStreams, Val: uint32(atou(f[2]))})
	case "hls":
		h.fr.WriteSettings(http2.Setting{ID: http2.SettingMaxHeaderListSize, Val: uint32(atou(f[1]))})
	case "srvend":
		h.hbuf.Reset()
		h.henc.WriteField(hpack.HeaderField{Name: ":status", Value: "200"})
		h.henc.WriteField(hpack.HeaderField{Name: "content-type", Value: "application/grpc"})
		h.henc.WriteField(hpack.HeaderField{Name: "grpc-status", Value: "0"})
		h.fr.WriteHeaders(http2.HeadersFrameParam{StreamID: uint32(atou(f[1])), BlockFragment: h.hbuf.Bytes(), EndStream: true, EndHeaders: true})
	case "srvrst":
		h.fr.WriteRSTStream(uint32(atou(f[1])), http2.ErrCode(atou(f[2])))
	case "cclose":
		if s := h.byID[uint32(atou(f[1]))]; s != nil {
			s.Close(context.Canceled)
		}
	case "chalf":
		if s := h.byID[uint32(atou(f[1]))]; s != nil {
			s.Write(nil, nil, &transport.WriteOptions{Last: true})
		}
	case "cancelb":
		var blk []*qcaller
		h.mu.Lock()
		for _, c := range h.callers {
			if !c.done {
				blk = append(blk, c)
			}
		}
		h.mu.Unlock()
		if len(blk) > 0 {
			blk[int(atou(f[1]))%len(blk)].cancel()
		}
	case "sleep":
		time.Sleep(time.Duration(atou(f[1])) * time.Millisecond)
	case "goaway":
		h.fr.WriteGoAway(uint32(atou(f[1])), http2.ErrCodeNo, nil)
	case "close":
		if !h.closed {
			h.closed = true
			h.ct.Close(fmt.Errorf("closed by test"))
		}
	default:
		return "bad-op"
	}
	return h.report()
}

// spawn starts k concurrent NewStream callers (options dl=<ms>, sz=B taken from f).
func (h *quotaH) spawn(k int, f []string) {
	for i := 0; i < k; i++ {
		ctx, cancel := context.WithCancel(context.Background())
		if v, ok := quotaKV(f, "dl"); ok {
			ctx, _ = context.WithTimeout(ctx, time.Duration(atou(v))*time.Millisecond)
		}
		if v, _ := quotaKV(f, "sz"); v == "B" {
			ctx = metadata.NewOutgoingContext(ctx, metadata.Pairs("k", strings.Repeat("x", 4000)))
		}
		h.mu.Lock()
		c := &qcaller{idx: len(h.callers), cancel: cancel}
		h.callers = append(h.callers, c)
		h.mu.Unlock()
		h.wg.Add(1)
		go func() {
			defer h.wg.Done()
			s, err := h.ct.NewStream(ctx, &transport.CallHdr{Host: "h", Method: "/s/m"}, nil)
			h.mu.Lock()
			c.s, c.err, c.done = s, err, true
			h.mu.Unlock()
		}()
	}
}

func atou(s string) uint64 {
	v, _ := strconv.ParseUint(s, 10, 64)
	return v
}

func (h *quotaH) Close() {
	if h.ct != nil && !h.closed {
		h.closed = true
		h.ct.Close(fmt.Errorf("case over"))
	}
	for _, c := range h.callers {
		c.cancel()
	}
	if h.tctxCancel != nil {
		h.tctxCancel()
	}
	if h.srv != nil {
		h.srv.Close()
		h.cli.Close()
		<-h.readerDone
	}
	h.wg.Wait()
	h.ct, h.cli, h.srv, h.fr, h.henc, h.callers, h.byID = nil, nil, nil, nil, nil, nil, nil
	if h.maxIDSet {
		transport.MaxStreamID = h.savedMaxID
	}
}
