package synct

// component s_credspolicy (C58): per-RPC credentials vs. the connection's security level.
//
//	rpc <tkind> <via> <dialcreds> <bundlecred> <callcred>
//
//	tkind      insecure | localtcp | localuds | localremote | tls | custom:<proto>:<auth>
//	           proto = insecure | x ; auth = nil | nocommon | invalid | none | integrity | privacy
//	via        opt (WithTransportCredentials) | bundle (WithCredentialsBundle carrying the transport
//	           creds) | none (neither) | both | bundlenotc (bundle without transport creds)
//	dialcreds  `-` or `;`-joined creds given with WithPerRPCCredentials
//	bundlecred `-` or the bundle's PerRPCCredentials (only used when via is bundle/both/bundlenotc)
//	callcred   `-` or the grpc.PerRPCCredentials call option
//	cred       R/<k>=<hex>,<k>=<hex>…   (R = RequireTransportSecurity true, N = false)
//
// One real grpc.Server + ClientConn over bufconn per op; one unary RPC. Output:
//
//	dialerr <nosec|both|nobundletc|missing|other>
//	rpc <CODE> <msgclass> seen=<none | - | k=hex|hex,k=hex> inv=<- | d0,d1,b,c>
//
// seen = the credential-relevant metadata the server handler received (sorted by key, values in
// arrival order); `none` = the handler never ran. inv = whose GetRequestMetadata ran, in order.
import (
	"context"
	"crypto/ecdsa"
	"crypto/elliptic"
	"crypto/rand"
	"crypto/tls"
	"crypto/x509"
	"crypto/x509/pkix"
	"encoding/hex"
	"math/big"
	"net"
	"sort"
	"strings"
	"sync"
	"time"

	"google.golang.org/grpc"
	"google.golang.org/grpc/codes"
	"google.golang.org/grpc/credentials"
	"google.golang.org/grpc/credentials/insecure"
	"google.golang.org/grpc/credentials/local"
	healthpb "google.golang.org/grpc/health/grpc_health_v1"
	"google.golang.org/grpc/metadata"
	"google.golang.org/grpc/status"
	"google.golang.org/grpc/test/bufconn"
)

// ---- transport credentials with a chosen AuthInfo

type cpAuthNoCommon struct{}

func (cpAuthNoCommon) AuthType() string { return "cp-nocommon" }

type cpAuthCommon struct{ credentials.CommonAuthInfo }

func (cpAuthCommon) AuthType() string { return "cp-common" }

type cpTC struct {
	proto string
	auth  string
}

func (c *cpTC) authInfo() credentials.AuthInfo {
	switch c.auth {
	case "nil":
		return nil
	case "nocommon":
		return cpAuthNoCommon{}
	case "invalid":
		return cpAuthCommon{credentials.CommonAuthInfo{SecurityLevel: credentials.InvalidSecurityLevel}}
	case "none":
		return cpAuthCommon{credentials.CommonAuthInfo{SecurityLevel: credentials.NoSecurity}}
	case "integrity":
		return cpAuthCommon{credentials.CommonAuthInfo{SecurityLevel: credentials.IntegrityOnly}}
	case "privacy":
		return cpAuthCommon{credentials.CommonAuthInfo{SecurityLevel: credentials.PrivacyAndIntegrity}}
	}
	panic("bad auth kind " + c.auth)
}

func (c *cpTC) ClientHandshake(_ context.Context, _ string, conn net.Conn) (net.Conn, credentials.AuthInfo, error) {
	return conn, c.authInfo(), nil
}
func (c *cpTC) ServerHandshake(conn net.Conn) (net.Conn, credentials.AuthInfo, error) {
	return conn, c.authInfo(), nil
}
func (c *cpTC) Info() credentials.ProtocolInfo {
	return credentials.ProtocolInfo{SecurityProtocol: c.proto}
}
func (c *cpTC) Clone() credentials.TransportCredentials { cp := *c; return &cp }
func (c *cpTC) OverrideServerName(string) error         { return nil }

// ---- per-RPC credentials that record their invocation

type cpCred struct {
	name    string
	require bool
	md      map[string]string
	log     *cpLog
}

type cpLog struct {
	mu  sync.Mutex
	inv []string
}

func (l *cpLog) add(s string) { l.mu.Lock(); l.inv = append(l.inv, s); l.mu.Unlock() }

func (c *cpCred) GetRequestMetadata(context.Context, ...string) (map[string]string, error) {
	c.log.add(c.name)
	out := make(map[string]string, len(c.md))
	for k, v := range c.md {
		out[k] = v
	}
	return out, nil
}
func (c *cpCred) RequireTransportSecurity() bool { return c.require }

func cpParseCred(s, name string, l *cpLog) *cpCred {
	if s == "-" {
		return nil
	}
	if len(s) < 2 || s[1] != '/' || (s[0] != 'R' && s[0] != 'N') {
		panic("bad cred " + s)
	}
	c := &cpCred{name: name, require: s[0] == 'R', md: map[string]string{}, log: l}
	if s[2:] != "" {
		for _, kv := range strings.Split(s[2:], ",") {
			k, v, ok := strings.Cut(kv, "=")
			if !ok {
				panic("bad cred kv " + kv)
			}
			b, err := hex.DecodeString(v)
			if err != nil {
				panic("bad hex " + v)
			}
			c.md[k] = string(b)
		}
	}
	return c
}

type cpBundle struct {
	tc  credentials.TransportCredentials
	prc credentials.PerRPCCredentials
}

func (b *cpBundle) TransportCredentials() credentials.TransportCredentials { return b.tc }
func (b *cpBundle) PerRPCCredentials() credentials.PerRPCCredentials       { return b.prc }
func (b *cpBundle) NewWithMode(string) (credentials.Bundle, error)         { return b, nil }

// ---- a conn whose RemoteAddr is chosen (what credentials/local inspects)

type cpAddrConn struct {
	net.Conn
	remote net.Addr
}

func (c cpAddrConn) RemoteAddr() net.Addr { return c.remote }

// ---- TLS material (self-signed, valid 1990–2090 so that the bubble's clock is inside)

var (
	cpTLSOnce   sync.Once
	cpTLSServer credentials.TransportCredentials
	cpTLSClient credentials.TransportCredentials
)

func cpTLSInit() {
	cpTLSOnce.Do(func() {
		key, err := ecdsa.GenerateKey(elliptic.P256(), rand.Reader)
		if err != nil {
			panic(err)
		}
		tmpl := &x509.Certificate{
			SerialNumber:          big.NewInt(1),
			Subject:               pkix.Name{CommonName: "verif.test"},
			DNSNames:              []string{"verif.test"},
			NotBefore:             time.Date(1990, 1, 1, 0, 0, 0, 0, time.UTC),
			NotAfter:              time.Date(2090, 1, 1, 0, 0, 0, 0, time.UTC),
			KeyUsage:              x509.KeyUsageDigitalSignature | x509.KeyUsageCertSign,
			ExtKeyUsage:           []x509.ExtKeyUsage{x509.ExtKeyUsageServerAuth},
			BasicConstraintsValid: true,
			IsCA:                  true,
		}
		der, err := x509.CreateCertificate(rand.Reader, tmpl, tmpl, &key.PublicKey, key)
		if err != nil {
			panic(err)
		}
		cert, err := x509.ParseCertificate(der)
		if err != nil {
			panic(err)
		}
		pool := x509.NewCertPool()
		pool.AddCert(cert)
		cpTLSServer = credentials.NewTLS(&tls.Config{Certificates: []tls.Certificate{{Certificate: [][]byte{der}, PrivateKey: key}}})
		cpTLSClient = credentials.NewTLS(&tls.Config{RootCAs: pool, ServerName: "verif.test"})
	})
}

// ---- server

type cpHealth struct {
	healthpb.UnimplementedHealthServer
	mu   sync.Mutex
	seen []metadata.MD
}

func (h *cpHealth) Check(ctx context.Context, _ *healthpb.HealthCheckRequest) (*healthpb.HealthCheckResponse, error) {
	md, _ := metadata.FromIncomingContext(ctx)
	h.mu.Lock()
	h.seen = append(h.seen, md.Copy())
	h.mu.Unlock()
	return &healthpb.HealthCheckResponse{Status: healthpb.HealthCheckResponse_SERVING}, nil
}

var cpStdKeys = map[string]bool{":authority": true, "content-type": true, "user-agent": true, "grpc-accept-encoding": true, "grpc-timeout": true}

func cpShowMD(md metadata.MD) string {
	keys := []string{}
	for k := range md {
		if !cpStdKeys[k] {
			keys = append(keys, k)
		}
	}
	if len(keys) == 0 {
		return "-"
	}
	sort.Strings(keys)
	parts := []string{}
	for _, k := range keys {
		vs := []string{}
		for _, v := range md[k] {
			vs = append(vs, hex.EncodeToString([]byte(v)))
		}
		parts = append(parts, k+"="+strings.Join(vs, "|"))
	}
	return strings.Join(parts, ",")
}

type credspolicy struct{}

func init() { register("s_credspolicy", func() SHandler { return &credspolicy{} }) }

func (c *credspolicy) Close() {}

func (c *credspolicy) Op(f []string) string {
	if f[0] != "rpc" || len(f) != 6 {
		return "bad-op"
	}
	tkind, via := f[1], f[2]
	lg := &cpLog{}

	// transport credentials, server credentials, dialer address rewriting
	var tc credentials.TransportCredentials
	var sopts []grpc.ServerOption
	var remote net.Addr
	switch {
	case tkind == "insecure":
		tc = insecure.NewCredentials()
	case tkind == "localtcp":
		tc = local.NewCredentials()
		remote = &net.TCPAddr{IP: net.IPv4(127, 0, 0, 1), Port: 50051}
	case tkind == "localuds":
		tc = local.NewCredentials()
		remote = &net.UnixAddr{Name: "/tmp/verif.sock", Net: "unix"}
	case tkind == "localremote":
		tc = local.NewCredentials()
		remote = &net.TCPAddr{IP: net.IPv4(10, 1, 2, 3), Port: 50051}
	case tkind == "tls":
		cpTLSInit()
		tc = cpTLSClient
		sopts = append(sopts, grpc.Creds(cpTLSServer))
	case strings.HasPrefix(tkind, "custom:"):
		p := strings.Split(tkind, ":")
		if len(p) != 3 {
			return "bad-op"
		}
		tc = &cpTC{proto: p[1], auth: p[2]}
	default:
		return "bad-op"
	}

	lis := bufconn.Listen(1 << 16)
	srv := grpc.NewServer(sopts...)
	hs := &cpHealth{}
	healthpb.RegisterHealthServer(srv, hs)
	served := make(chan struct{})
	go func() { srv.Serve(lis); close(served) }()
	defer func() { srv.Stop(); <-served }()

	dopts := []grpc.DialOption{
		grpc.WithContextDialer(func(ctx context.Context, _ string) (net.Conn, error) {
			conn, err := lis.DialContext(ctx)
			if err != nil {
				return nil, err
			}
			if remote != nil {
				return cpAddrConn{Conn: conn, remote: remote}, nil
			}
			return conn, nil
		}),
		grpc.WithAuthority("verif.test"),
	}
	var bundleCred credentials.PerRPCCredentials
	if bc := cpParseCred(f[4], "b", lg); bc != nil {
		bundleCred = bc
	}
	switch via {
	case "opt":
		dopts = append(dopts, grpc.WithTransportCredentials(tc))
	case "bundle":
		dopts = append(dopts, grpc.WithCredentialsBundle(&cpBundle{tc: tc, prc: bundleCred}))
	case "none":
	case "both":
		dopts = append(dopts, grpc.WithTransportCredentials(tc), grpc.WithCredentialsBundle(&cpBundle{tc: tc, prc: bundleCred}))
	case "bundlenotc":
		dopts = append(dopts, grpc.WithCredentialsBundle(&cpBundle{tc: nil, prc: bundleCred}))
	default:
		return "bad-op"
	}
	if f[3] != "-" {
		for i, s := range strings.Split(f[3], ";") {
			dopts = append(dopts, grpc.WithPerRPCCredentials(cpParseCred(s, "d"+string(rune('0'+i)), lg)))
		}
	}
	cc, err := grpc.NewClient("passthrough:///bufnet", dopts...)
	if err != nil {
		m := err.Error()
		switch {
		case strings.Contains(m, "no transport security set"):
			return "dialerr nosec"
		case strings.Contains(m, "credentials.Bundle may not be used with individual TransportCredentials"):
			return "dialerr both"
		case strings.Contains(m, "credentials.Bundle must return non-nil transport credentials"):
			return "dialerr nobundletc"
		case strings.Contains(m, "the credentials require transport level security"):
			return "dialerr missing"
		}
		return "dialerr other " + m
	}
	defer func() { cc.Close(); settle() }()

	var copts []grpc.CallOption
	if cr := cpParseCred(f[5], "c", lg); cr != nil {
		copts = append(copts, grpc.PerRPCCredentials(cr))
	}
	ctx, cancel := context.WithTimeout(context.Background(), 30*time.Second)
	defer cancel()
	_, err = healthpb.NewHealthClient(cc).Check(ctx, &healthpb.HealthCheckRequest{}, copts...)
	settle()
	code := status.Code(err)
	cls := "-"
	if err != nil {
		m := err.Error()
		switch {
		case strings.Contains(m, "cannot send secure credentials on an insecure connection"):
			cls = "sec"
		case strings.Contains(m, "authentication handshake failed"):
			cls = "hs"
		default:
			cls = "other"
		}
	}
	seen := "none"
	hs.mu.Lock()
	if len(hs.seen) == 1 {
		seen = cpShowMD(hs.seen[0])
	} else if len(hs.seen) > 1 {
		seen = "MULTI"
	}
	hs.mu.Unlock()
	lg.mu.Lock()
	inv := strings.Join(lg.inv, ",")
	lg.mu.Unlock()
	if inv == "" {
		inv = "-"
	}
	return "rpc " + cpCodeName(code) + " " + cls + " seen=" + seen + " inv=" + inv
}

func cpCodeName(c codes.Code) string {
	switch c {
	case codes.OK:
		return "OK"
	case codes.Unavailable:
		return "UNAVAILABLE"
	case codes.Unauthenticated:
		return "UNAUTHENTICATED"
	case codes.Internal:
		return "INTERNAL"
	case codes.DeadlineExceeded:
		return "DEADLINE_EXCEEDED"
	}
	return "CODE_" + c.String()
}
