package synct

// Shared end-to-end fixture for the s_status (C10) and s_mdwire (C09) components: a REAL
// grpc.Server and a REAL grpc.ClientConn (grpc.NewClient) talking HTTP/2 over an in-memory
// bufconn pipe, all inside the case's synctest bubble. No generated protos: the service
// "v.S" is a hand-written ServiceDesc with a unary method U (wrapUnaryHandler path), a
// bidi-streaming method B, and a raw-bytes codec forced on both sides. What the handler does
// for the next RPC is decided by the component through e.behave.

import (
	"context"
	"encoding/hex"
	"fmt"
	"io"
	"net"
	"sort"
	"strings"

	"google.golang.org/grpc"
	"google.golang.org/grpc/credentials/insecure"
	"google.golang.org/grpc/metadata"
	"google.golang.org/grpc/test/bufconn"
)

type rawMsg struct{ b []byte }

// rawCodec passes message bytes through unchanged. Its name is "proto", so the content-type
// on the wire is the usual "application/grpc+proto".
type rawCodec struct{}

func (rawCodec) Marshal(v any) ([]byte, error) {
	m, ok := v.(*rawMsg)
	if !ok {
		return nil, fmt.Errorf("rawCodec: %T", v)
	}
	return m.b, nil
}

func (rawCodec) Unmarshal(data []byte, v any) error {
	m, ok := v.(*rawMsg)
	if !ok {
		return fmt.Errorf("rawCodec: %T", v)
	}
	m.b = append([]byte(nil), data...)
	return nil
}

func (rawCodec) Name() string { return "proto" }

// hctx is what a behaviour sees of the running handler.
type hctx struct {
	ctx   context.Context
	ss    grpc.ServerStream // nil in the unary method U
	unary bool
}

type behaviour func(h *hctx) error

type e2e struct {
	lis    *bufconn.Listener
	srv    *grpc.Server
	cc     *grpc.ClientConn
	behave behaviour
	served chan struct{}
}

type e2eService struct{ e *e2e }

var bidiDesc = &grpc.StreamDesc{StreamName: "B", ClientStreams: true, ServerStreams: true}

func newE2E(sopts []grpc.ServerOption, dopts []grpc.DialOption) *e2e {
	e := &e2e{lis: bufconn.Listen(1 << 20), served: make(chan struct{})}
	sopts = append([]grpc.ServerOption{grpc.ForceServerCodec(rawCodec{})}, sopts...)
	e.srv = grpc.NewServer(sopts...)
	sd := &grpc.ServiceDesc{
		ServiceName: "v.S",
		HandlerType: (*any)(nil),
		Methods: []grpc.MethodDesc{{
			MethodName: "U",
			Handler: func(srv any, ctx context.Context, dec func(any) error, _ grpc.UnaryServerInterceptor) (any, error) {
				var req rawMsg
				if err := dec(&req); err != nil {
					return nil, err
				}
				if err := e.behave(&hctx{ctx: ctx, unary: true}); err != nil {
					return nil, err
				}
				return &rawMsg{b: []byte("r")}, nil
			},
		}},
		Streams: []grpc.StreamDesc{{
			StreamName: "B", ClientStreams: true, ServerStreams: true,
			Handler: func(srv any, ss grpc.ServerStream) error {
				return e.behave(&hctx{ctx: ss.Context(), ss: ss})
			},
		}},
	}
	e.srv.RegisterService(sd, &e2eService{e})
	go func() {
		defer close(e.served)
		e.srv.Serve(e.lis)
	}()
	dopts = append([]grpc.DialOption{
		grpc.WithContextDialer(func(ctx context.Context, _ string) (net.Conn, error) { return e.lis.DialContext(ctx) }),
		grpc.WithTransportCredentials(insecure.NewCredentials()),
		grpc.WithDefaultCallOptions(grpc.ForceCodec(rawCodec{})),
	}, dopts...)
	cc, err := grpc.NewClient("passthrough:///bufnet", dopts...)
	if err != nil {
		panic(err)
	}
	e.cc = cc
	return e
}

func (e *e2e) close() {
	e.cc.Close()
	e.srv.Stop()
	e.lis.Close()
	<-e.served
}

// clientResult is everything the client side of one RPC observed.
type clientResult struct {
	err       error
	header    metadata.MD
	trailer   metadata.MD
	headerErr error
	nrecv     int
}

// unary performs cc.Invoke on /v.S/<method>.
func (e *e2e) unary(ctx context.Context, method string) clientResult {
	var r clientResult
	var resp rawMsg
	r.err = e.cc.Invoke(ctx, "/v.S/"+method, &rawMsg{b: []byte("q")}, &resp, grpc.Header(&r.header), grpc.Trailer(&r.trailer))
	if r.err == nil {
		r.nrecv = 1
	}
	return r
}

// stream opens a bidi stream on /v.S/B, sends one message, half-closes and reads to the end.
func (e *e2e) stream(ctx context.Context) clientResult {
	var r clientResult
	ctx, cancel := context.WithCancel(ctx)
	defer cancel()
	cs, err := e.cc.NewStream(ctx, bidiDesc, "/v.S/B")
	if err != nil {
		r.err = err
		return r
	}
	cs.SendMsg(&rawMsg{b: []byte("q")})
	cs.CloseSend()
	r.header, r.headerErr = cs.Header()
	for {
		var m rawMsg
		if err := cs.RecvMsg(&m); err != nil {
			if err != io.EOF {
				r.err = err
			}
			break
		}
		r.nrecv++
	}
	r.trailer = cs.Trailer()
	return r
}

// ---- canonical printing -------------------------------------------------------------

func hx(b string) string {
	if len(b) == 0 {
		return "-"
	}
	return hex.EncodeToString([]byte(b))
}

func unhx(s string) string {
	if s == "-" || s == "" {
		return ""
	}
	b, err := hex.DecodeString(s)
	if err != nil {
		panic("bad hex " + s)
	}
	return string(b)
}

// showMD prints an MD canonically: keys sorted, `keyhex=v1hex,v2hex;…` ("-" for an empty MD,
// "~" for an empty value so that it differs from an empty list).
func showMD(md metadata.MD, skip func(k string) bool) string {
	keys := make([]string, 0, len(md))
	for k := range md {
		if skip != nil && skip(k) {
			continue
		}
		keys = append(keys, k)
	}
	sort.Strings(keys)
	if len(keys) == 0 {
		return "-"
	}
	parts := make([]string, 0, len(keys))
	for _, k := range keys {
		vs := make([]string, len(md[k]))
		for i, v := range md[k] {
			if v == "" {
				vs[i] = "~"
			} else {
				vs[i] = hex.EncodeToString([]byte(v))
			}
		}
		parts = append(parts, hx(k)+"="+strings.Join(vs, ","))
	}
	return strings.Join(parts, ";")
}

// parseMD is the inverse of showMD (op-line metadata arguments).
func parseMD(s string) metadata.MD {
	md := metadata.MD{}
	if s == "-" || s == "" {
		return md
	}
	for _, p := range strings.Split(s, ";") {
		kv := strings.SplitN(p, "=", 2)
		k := unhx(kv[0])
		vals := []string{}
		if len(kv) == 2 && kv[1] != "" {
			for _, v := range strings.Split(kv[1], ",") {
				if v == "~" {
					vals = append(vals, "")
				} else {
					vals = append(vals, unhx(v))
				}
			}
		}
		md[k] = append(md[k], vals...)
	}
	return md
}
