package synct

// component s_status (C10): one real RPC per op; the handler ends it with the status the op
// describes, the output is the status the CLIENT observed.
//
//	rpc <path> <kind> <code> <msghex> <details> <usertrailer>
//
//	path   u   client Invoke on the unary method U (wrapUnaryHandler; error => no reply)
//	       ub  client Invoke on the streaming method B; handler sends one reply, then the status
//	       bx  client stream on B; handler returns at once without reading (trailers-only)
//	       b0  client stream on B; handler reads to EOF, returns (trailers-only)
//	       bh  … handler SendHeader(nil) first (headers frame + trailers frame)
//	       b1,b2  … handler sends 1 / 2 messages first (headers + data + trailers)
//	kind   st     status.FromProto({code,msg,details}).Err()  (nil when code = 0)
//	       gs     a custom error type whose GRPCStatus() is that status (non-nil even for code 0)
//	       plain  errors.New(msg) (code/details ignored)
//	code   decimal uint32 ; msghex bytes of the message ; details  `-` | urlhex.valhex,…
//	usertrailer  `-` | hex,hex…  values the handler itself puts into the trailer under
//	       grpc-status-details-bin with grpc.SetTrailer ("~" = empty value)
//
// output: `ok` (nil error) | `err <code> <msghex> <details>` | `nonstatus <hex of Error()>`

import (
	"context"
	"encoding/hex"
	"errors"
	"io"
	"strconv"
	"strings"

	spb "google.golang.org/genproto/googleapis/rpc/status"
	"google.golang.org/grpc"
	"google.golang.org/grpc/codes"
	"google.golang.org/grpc/metadata"
	"google.golang.org/grpc/status"
	"google.golang.org/protobuf/types/known/anypb"
)

type statusComp struct{ e *e2e }

type gsError struct{ st *status.Status }

func (g *gsError) Error() string              { return "gsError" }
func (g *gsError) GRPCStatus() *status.Status { return g.st }

func init() {
	register("s_status", func() SHandler { return &statusComp{e: newE2E(nil, nil)} })
}

func parseDetails(s string) []*anypb.Any {
	if s == "-" || s == "" {
		return nil
	}
	var out []*anypb.Any
	for _, p := range strings.Split(s, ",") {
		uv := strings.SplitN(p, ".", 2)
		out = append(out, &anypb.Any{TypeUrl: unhx(uv[0]), Value: []byte(unhx(uv[1]))})
	}
	return out
}

func showDetails(ds []*anypb.Any) string {
	if len(ds) == 0 {
		return "-"
	}
	parts := make([]string, len(ds))
	for i, d := range ds {
		parts[i] = hx(d.GetTypeUrl()) + "." + hx(string(d.GetValue()))
	}
	return strings.Join(parts, ",")
}

func showErr(err error) string {
	if err == nil {
		return "ok"
	}
	st, ok := status.FromError(err)
	if !ok {
		return "nonstatus " + hx(err.Error())
	}
	p := st.Proto()
	return "err " + strconv.FormatUint(uint64(uint32(st.Code())), 10) + " " + hx(p.GetMessage()) + " " + showDetails(p.GetDetails())
}

func (c *statusComp) Op(f []string) string {
	if f[0] != "rpc" || len(f) != 7 {
		return "bad-op"
	}
	path, kind := f[1], f[2]
	code64, err := strconv.ParseUint(f[3], 10, 32)
	if err != nil {
		return "bad-op"
	}
	msg := unhx(f[4])
	st := status.FromProto(&spb.Status{Code: int32(uint32(code64)), Message: msg, Details: parseDetails(f[5])})
	_ = codes.OK
	var herr error
	switch kind {
	case "st":
		herr = st.Err()
	case "gs":
		herr = &gsError{st: st}
	case "plain":
		herr = errors.New(msg)
	default:
		return "bad-op"
	}
	var ut []string
	if f[6] != "-" {
		for _, v := range strings.Split(f[6], ",") {
			if v == "~" {
				ut = append(ut, "")
			} else {
				b, err := hex.DecodeString(v)
				if err != nil {
					return "bad-op"
				}
				ut = append(ut, string(b))
			}
		}
	}
	c.e.behave = func(h *hctx) error {
		if ut != nil {
			grpc.SetTrailer(h.ctx, metadata.MD{"grpc-status-details-bin": ut})
		}
		if h.ss == nil {
			return herr
		}
		if path != "bx" {
			for {
				var m rawMsg
				if err := h.ss.RecvMsg(&m); err != nil {
					if err != io.EOF {
						return status.Error(codes.DataLoss, "harness: handler RecvMsg: "+err.Error())
					}
					break
				}
			}
		}
		n := 0
		switch path {
		case "bh":
			if err := h.ss.SendHeader(nil); err != nil {
				return status.Error(codes.DataLoss, "harness: SendHeader: "+err.Error())
			}
		case "b1", "ub":
			n = 1
		case "b2":
			n = 2
		}
		for i := 0; i < n; i++ {
			if err := h.ss.SendMsg(&rawMsg{b: []byte("r")}); err != nil {
				return status.Error(codes.DataLoss, "harness: SendMsg: "+err.Error())
			}
		}
		return herr
	}
	var r clientResult
	switch path {
	case "u":
		r = c.e.unary(context.Background(), "U")
	case "ub":
		r = c.e.unary(context.Background(), "B")
	case "bx", "b0", "bh", "b1", "b2":
		r = c.e.stream(context.Background())
	default:
		return "bad-op"
	}
	settle()
	return showErr(r.err)
}

func (c *statusComp) Close() { c.e.close() }
