package synct

import (
	"fmt"
	"strings"
	"sync"

	"google.golang.org/grpc/internal/transport"
)

// component s_writequota (C17, T2): the real transport.writeQuota.
//
//	init <sz>                        new writeQuota (default without this op: 16)
//	get <sz>                         the (single) getter goroutine calls get(sz)
//	repl <n>                         realReplenish(n) from the driving goroutine
//	conc <item> …                    items run as concurrent goroutines: repl:<n> | get:<sz> (at most one get,
//	                                 and only when no getter is outstanding)
//	done                             close the stream's done channel
//
// Output: g=<-|parked|ok|err> q=<quota>   (g: state/result of the getter goroutine, reported once)
type writequotaH struct {
	v *transport.VerifWriteQuota

	mu   sync.Mutex
	gOut bool
	gRes string
	wg   sync.WaitGroup
}

func init() {
	register("s_writequota", func() SHandler { return &writequotaH{} })
}

func (h *writequotaH) ensure() {
	if h.v == nil {
		h.v = transport.VerifNewWriteQuota(16)
	}
}

func (h *writequotaH) status() string {
	settle()
	h.mu.Lock()
	defer h.mu.Unlock()
	g := "-"
	if h.gOut {
		if h.gRes != "" {
			g = h.gRes
			h.gOut = false
			h.gRes = ""
		} else {
			g = "parked"
		}
	}
	return fmt.Sprintf("g=%s q=%d", g, h.v.Quota())
}

func (h *writequotaH) get(sz int) bool {
	h.mu.Lock()
	if h.gOut {
		h.mu.Unlock()
		return false
	}
	h.gOut = true
	h.mu.Unlock()
	h.wg.Add(1)
	go func() {
		defer h.wg.Done()
		err := h.v.Get(int32(sz))
		h.mu.Lock()
		if err != nil {
			h.gRes = "err"
		} else {
			h.gRes = "ok"
		}
		h.mu.Unlock()
	}()
	return true
}

func (h *writequotaH) Op(f []string) string {
	if f[0] == "init" {
		h.v = transport.VerifNewWriteQuota(int32(atoiS(f[1])))
		return h.status()
	}
	h.ensure()
	switch f[0] {
	case "get":
		if !h.get(atoiS(f[1])) {
			return "busy " + h.status()
		}
		return h.status()
	case "repl":
		h.v.Replenish(atoiS(f[1]))
		return h.status()
	case "conc":
		start := make(chan struct{})
		for _, it := range f[1:] {
			kind, arg, _ := strings.Cut(it, ":")
			n := atoiS(arg)
			switch kind {
			case "repl":
				h.wg.Add(1)
				go func() { defer h.wg.Done(); <-start; h.v.Replenish(n) }()
			case "get":
				h.mu.Lock()
				busy := h.gOut
				if !busy {
					h.gOut = true
				}
				h.mu.Unlock()
				if busy {
					continue
				}
				h.wg.Add(1)
				go func() {
					defer h.wg.Done()
					<-start
					err := h.v.Get(int32(n))
					h.mu.Lock()
					if err != nil {
						h.gRes = "err"
					} else {
						h.gRes = "ok"
					}
					h.mu.Unlock()
				}()
			default:
				return "bad-op"
			}
		}
		close(start)
		return h.status()
	case "done":
		h.v.CloseDone()
		return h.status()
	}
	return "bad-op"
}

func (h *writequotaH) Close() {
	if h.v != nil {
		h.v.CloseDone()
		settle()
		// a getter that (wrongly) survived done is flushed out with quota, so that the case ends
		// cleanly and the violation stays attributed to the op whose verdict reported it
		h.mu.Lock()
		stuck := h.gOut && h.gRes == ""
		h.mu.Unlock()
		if stuck {
			h.v.Replenish(1 << 30)
		}
	}
	h.wg.Wait()
}
