package synct

// component s_rawpeer (C09 + C10): the REAL grpc-go endpoint against a scripted raw HTTP/2 peer, so
// that header fields grpc-go itself would never write can be put on the wire (padded base64,
// signed / zero-padded / non-numeric grpc-status, reserved names, duplicate keys, missing fields).
//
//	srv <hdr|-> <nmsg> <trl>      real grpc.NewClient  <->  raw server
//	    the raw server answers the stream with an optional HEADERS frame <hdr> (no END_STREAM),
//	    <nmsg> (0/1) DATA messages and a HEADERS frame <trl> with END_STREAM.
//	    -> st=<ok|code> msg=<hex> det=<details> hdr=<md> trl=<md>
//	cli <fields>                  raw client  <->  real grpc.Server (service v.S, handler records its
//	    incoming metadata and returns OK); the request is HEADERS <fields> + one DATA message.
//	    -> in=<md|!> resp=<grpc-status value hex | rst:<code> | none>
//
// fields: namehex=valuehex;namehex=valuehex… ("~" = empty name/value), exactly in this order, HPACK
// encoded as given.

import (
	"bytes"
	"context"
	"fmt"
	"io"
	"net"
	"strings"

	"golang.org/x/net/http2"
	"golang.org/x/net/http2/hpack"
	"google.golang.org/grpc"
	"google.golang.org/grpc/credentials/insecure"
	"google.golang.org/grpc/metadata"
	"google.golang.org/grpc/status"
	"google.golang.org/grpc/test/bufconn"
)

type rawpeerComp struct {
	// srv side: real client against raw server
	lis    *bufconn.Listener
	cc     *grpc.ClientConn
	script struct {
		hdr  []hpack.HeaderField
		has  bool
		nmsg int
		trl  []hpack.HeaderField
	}
	acceptDone chan struct{}
	// cli side: raw client against real server
	e *e2e
}

func init() {
	register("s_rawpeer", func() SHandler {
		c := &rawpeerComp{lis: bufconn.Listen(1 << 20), acceptDone: make(chan struct{})}
		go c.acceptLoop()
		cc, err := grpc.NewClient("passthrough:///rawnet",
			grpc.WithContextDialer(func(ctx context.Context, _ string) (net.Conn, error) { return c.lis.DialContext(ctx) }),
			grpc.WithTransportCredentials(insecure.NewCredentials()),
			grpc.WithDefaultCallOptions(grpc.ForceCodec(rawCodec{})))
		if err != nil {
			panic(err)
		}
		c.cc = cc
		c.e = newE2E(nil, nil)
		return c
	})
}

func parseFields(s string) []hpack.HeaderField {
	var out []hpack.HeaderField
	if s == "-" || s == "" {
		return out
	}
	for _, p := range strings.Split(s, ";") {
		x := strings.SplitN(p, "=", 2)
		n, v := "", ""
		if x[0] != "~" {
			n = unhx(x[0])
		}
		if len(x) == 2 && x[1] != "~" {
			v = unhx(x[1])
		}
		out = append(out, hpack.HeaderField{Name: n, Value: v})
	}
	return out
}

func (c *rawpeerComp) acceptLoop() {
	defer close(c.acceptDone)
	for {
		conn, err := c.lis.Accept()
		if err != nil {
			return
		}
		go c.serveRaw(conn)
	}
}

func writeHeaderBlock(fr *http2.Framer, id uint32, fields []hpack.HeaderField, end bool) error {
	var buf bytes.Buffer
	enc := hpack.NewEncoder(&buf)
	for _, f := range fields {
		enc.WriteField(f)
	}
	return fr.WriteHeaders(http2.HeadersFrameParam{StreamID: id, BlockFragment: buf.Bytes(), EndHeaders: true, EndStream: end})
}

// serveRaw is the scripted HTTP/2 server: every stream is answered according to c.script.
func (c *rawpeerComp) serveRaw(conn net.Conn) {
	defer conn.Close()
	preface := make([]byte, len(http2.ClientPreface))
	if _, err := io.ReadFull(conn, preface); err != nil {
		return
	}
	fr := http2.NewFramer(conn, conn)
	fr.ReadMetaHeaders = hpack.NewDecoder(4096, nil)
	fr.WriteSettings()
	for {
		f, err := fr.ReadFrame()
		if err != nil {
			return
		}
		switch f := f.(type) {
		case *http2.SettingsFrame:
			if !f.IsAck() {
				fr.WriteSettingsAck()
			}
		case *http2.PingFrame:
			if !f.IsAck() {
				fr.WritePing(true, f.Data)
			}
		case *http2.MetaHeadersFrame:
			id := f.StreamID
			if c.script.has {
				writeHeaderBlock(fr, id, c.script.hdr, false)
			}
			for i := 0; i < c.script.nmsg; i++ {
				fr.WriteData(id, false, []byte{0, 0, 0, 0, 1, 'r'})
			}
			writeHeaderBlock(fr, id, c.script.trl, true)
		}
	}
}

func (c *rawpeerComp) opSrv(f []string) string {
	c.script.has = f[1] != "-"
	c.script.hdr = parseFields(f[1])
	c.script.nmsg = 0
	if f[2] == "1" {
		c.script.nmsg = 1
	}
	c.script.trl = parseFields(f[3])
	ctx, cancel := context.WithCancel(context.Background())
	defer cancel()
	var hdr, trl metadata.MD
	var rerr error
	cs, err := c.cc.NewStream(ctx, bidiDesc, "/v.S/B")
	if err != nil {
		rerr = err
	} else {
		cs.SendMsg(&rawMsg{b: []byte("q")})
		cs.CloseSend()
		hdr, _ = cs.Header()
		for {
			var m rawMsg
			if err := cs.RecvMsg(&m); err != nil {
				if err != io.EOF {
					rerr = err
				}
				break
			}
		}
		trl = cs.Trailer()
	}
	settle()
	st, _ := status.FromError(rerr)
	p := st.Proto()
	return "st=" + errCode(rerr) + " msg=" + hx(p.GetMessage()) + " det=" + showDetails(p.GetDetails()) + " hdr=" + showMD(canonUA(hdr), nil) + " trl=" + showMD(canonUA(trl), nil)
}

func (c *rawpeerComp) opCli(f []string) string {
	fields := parseFields(f[1])
	seen := "!"
	c.e.behave = func(h *hctx) error {
		in, ok := metadata.FromIncomingContext(h.ctx)
		if !ok {
			seen = "none"
		} else {
			seen = showMD(canonUA(in), nil)
		}
		return nil
	}
	conn, err := c.e.lis.DialContext(context.Background())
	if err != nil {
		return "dial-error"
	}
	resp := "none"
	done := make(chan struct{})
	go func() {
		defer close(done)
		defer conn.Close()
		conn.Write([]byte(http2.ClientPreface))
		fr := http2.NewFramer(conn, conn)
		fr.ReadMetaHeaders = hpack.NewDecoder(4096, nil)
		fr.WriteSettings()
		writeHeaderBlock(fr, 1, fields, false)
		fr.WriteData(1, true, []byte{0, 0, 0, 0, 1, 'q'})
		for {
			fm, err := fr.ReadFrame()
			if err != nil {
				return
			}
			switch fm := fm.(type) {
			case *http2.SettingsFrame:
				if !fm.IsAck() {
					fr.WriteSettingsAck()
				}
			case *http2.PingFrame:
				if !fm.IsAck() {
					fr.WritePing(true, fm.Data)
				}
			case *http2.RSTStreamFrame:
				resp = fmt.Sprintf("rst:%d", uint32(fm.ErrCode))
				return
			case *http2.GoAwayFrame:
				resp = fmt.Sprintf("goaway:%d", uint32(fm.ErrCode))
				return
			case *http2.MetaHeadersFrame:
				if fm.StreamEnded() {
					resp = "nostatus"
					for _, hf := range fm.Fields {
						if hf.Name == "grpc-status" {
							resp = hx(hf.Value)
						}
					}
					return
				}
			}
		}
	}()
	<-done
	settle()
	return "in=" + seen + " resp=" + resp
}

func (c *rawpeerComp) Op(f []string) string {
	switch {
	case f[0] == "srv" && len(f) == 4:
		return c.opSrv(f)
	case f[0] == "cli" && len(f) == 2:
		return c.opCli(f)
	}
	return "bad-op"
}

func (c *rawpeerComp) Close() {
	c.cc.Close()
	c.lis.Close()
	<-c.acceptDone
	c.e.close()
}
