package synct

import (
	"bytes"
	"context"
	"errors"
	"fmt"
	"io"
	"net"
	"sort"
	"strconv"
	"strings"
	"sync"
	"time"

	"golang.org/x/net/http2"
	"golang.org/x/net/http2/hpack"
	"google.golang.org/grpc/internal/transport"
	"google.golang.org/grpc/mem"
)

// component s_inflowsrv (C04, T2): a real http2Server transport (dynamic window, i.e. BDP estimation
// on) over net.Pipe against a scripted raw HTTP/2 client inside the bubble. Same op language and
// output format as s_inflowconn (c_inflowconn_test.go), read from the other side:
//
//	conn <k>                 (first op) connect (k is only echoed: the peer opens the streams here)
//	new <w>                  the raw client opens stream 2w-1 (HEADERS)
//	sdata <w> <len> <pad|->  the raw client sends a DATA frame (optionally PADDED) on w's stream
//	read <w> <n>             the server application reads n bytes (ServerStream.Read(n)); may stay pending
//	pingack                  the raw client acknowledges the server's outstanding (BDP) ping
//	sclose <w>               the raw client resets w's stream (RST_STREAM CANCEL)
//	sleep <ms>               virtual time passes
//
// ev= lists the frames the raw client received from the server (S<iws> W<sid>:<inc> R<sid>:<code> P G);
// so that one driver serves both sides, the peer's own stream-opening HEADERS and stream-closing
// RST_STREAM are listed as H<sid> and R<sid>:0 at the point where they were sent.
type inflowsrvH struct {
	st    transport.ServerTransport
	peer  net.Conn
	fr    *http2.Framer
	wmu   sync.Mutex
	wg    sync.WaitGroup
	ctx   context.Context
	stop  context.CancelFunc
	hsErr string

	mu      sync.Mutex
	ev      []string
	ping    *[8]byte
	streams map[uint32]*transport.ServerStream
	workers map[int]*ifsWorker
	newDone []string
	rdDone  []string
}

type ifsWorker struct {
	sid     uint32
	reading bool
	closed  bool
}

func init() {
	register("s_inflowsrv", func() SHandler {
		return &inflowsrvH{streams: map[uint32]*transport.ServerStream{}, workers: map[int]*ifsWorker{}}
	})
}

func (h *inflowsrvH) note(s string) {
	h.mu.Lock()
	h.ev = append(h.ev, s)
	h.mu.Unlock()
}

func (h *inflowsrvH) connect() {
	srvConn, peer := net.Pipe()
	h.peer = peer
	h.fr = http2.NewFramer(peer, peer)
	h.ctx, h.stop = context.WithCancel(context.Background())
	h.wmu.Lock() // nothing (no SETTINGS ack) may be written before the client preface
	h.wg.Add(1)
	go func() { // the raw client's reader
		defer h.wg.Done()
		for {
			f, err := h.fr.ReadFrame()
			if err != nil {
				io.Copy(io.Discard, peer)
				return
			}
			switch f := f.(type) {
			case *http2.SettingsFrame:
				if f.IsAck() {
					continue
				}
				if v, ok := f.Value(http2.SettingInitialWindowSize); ok {
					h.note("S" + strconv.FormatUint(uint64(v), 10))
				}
				h.wmu.Lock()
				h.fr.WriteSettingsAck()
				h.wmu.Unlock()
			case *http2.WindowUpdateFrame:
				h.note(fmt.Sprintf("W%d:%d", f.StreamID, f.Increment))
			case *http2.RSTStreamFrame:
				h.note(fmt.Sprintf("R%d:%d", f.StreamID, uint32(f.ErrCode)))
			case *http2.PingFrame:
				if !f.IsAck() {
					d := f.Data
					h.mu.Lock()
					h.ping = &d
					h.ev = append(h.ev, "P")
					h.mu.Unlock()
				}
			case *http2.GoAwayFrame:
				h.note("G")
			}
		}
	}()
	h.wg.Add(1)
	go func() {
		defer h.wg.Done()
		io.WriteString(peer, http2.ClientPreface)
		h.fr.WriteSettings()
		h.wmu.Unlock()
	}()
	st, err := transport.NewServerTransport(srvConn, &transport.ServerConfig{
		MaxStreams: 1000,
		BufferPool: mem.NewTieredBufferPool(256, 4<<10, 16<<10, 32<<10, 1<<20), // per case (bubble)
	})
	if err != nil {
		panic("NewServerTransport: " + err.Error())
	}
	h.st = st
	h.wg.Add(1)
	go func() {
		defer h.wg.Done()
		st.HandleStreams(h.ctx, func(s *transport.ServerStream) {
			h.mu.Lock()
			h.streams[transport.VerifServerStreamID(s)] = s
			h.mu.Unlock()
		})
	}()
	settle()
	h.mu.Lock()
	h.ev = nil // the handshake is not flow-control accounting
	h.mu.Unlock()
}

func (h *inflowsrvH) status() string {
	settle()
	iws, cl, cu, sts := transport.VerifServerInflow(h.st)
	h.mu.Lock()
	defer h.mu.Unlock()
	var pend []int
	for w, c := range h.workers {
		if c.reading {
			pend = append(pend, w)
		}
	}
	sort.Ints(pend)
	ps := make([]string, len(pend))
	for i, w := range pend {
		ps[i] = strconv.Itoa(w)
	}
	ss := make([]string, len(sts))
	for i, s := range sts {
		ss[i] = fmt.Sprintf("%d:%d,%d,%d,%d", s.ID, s.Limit, s.PendingData, s.PendingUpdate, s.Delta)
	}
	sort.Strings(h.newDone)
	sort.Strings(h.rdDone)
	out := fmt.Sprintf("ev=%s new=%s rd=%s pend=%s | iws=%d conn=%d,%d st=%s", joinOrDash(h.ev), joinOrDash(h.newDone),
		joinOrDash(h.rdDone), joinOrDash(ps), iws, cl, cu, strings.Join(ss, ";"))
	if len(ss) == 0 {
		out += "-"
	}
	h.ev, h.newDone, h.rdDone = nil, nil, nil
	return out
}

func (h *inflowsrvH) Op(f []string) string {
	if f[0] == "conn" {
		if h.st != nil {
			return "bad-op already connected"
		}
		h.connect()
		return h.status()
	}
	if h.st == nil {
		h.connect()
	}
	switch f[0] {
	case "new":
		w := atoiS(f[1])
		h.mu.Lock()
		if _, dup := h.workers[w]; dup || w <= 0 {
			h.mu.Unlock()
			return "dup " + h.status()
		}
		sid := uint32(2*w - 1)
		h.workers[w] = &ifsWorker{sid: sid}
		h.ev = append(h.ev, fmt.Sprintf("H%d", sid))
		h.newDone = append(h.newDone, fmt.Sprintf("%d:%d", w, sid))
		h.mu.Unlock()
		var hb bytes.Buffer
		enc := hpack.NewEncoder(&hb)
		for _, kv := range [][2]string{{":method", "POST"}, {":scheme", "http"}, {":path", "/v/m"}, {":authority", "verif"},
			{"content-type", "application/grpc"}, {"te", "trailers"}} {
			enc.WriteField(hpack.HeaderField{Name: kv[0], Value: kv[1]})
		}
		h.wmu.Lock()
		h.fr.WriteHeaders(http2.HeadersFrameParam{StreamID: sid, BlockFragment: hb.Bytes(), EndHeaders: true})
		h.wmu.Unlock()
	case "sdata", "sclose":
		w := atoiS(f[1])
		h.mu.Lock()
		c := h.workers[w]
		if c == nil {
			h.mu.Unlock()
			return "nosid " + h.status()
		}
		sid := c.sid
		if f[0] == "sclose" {
			if c.closed {
				h.mu.Unlock()
				return "nosid " + h.status()
			}
			c.closed = true
			h.ev = append(h.ev, fmt.Sprintf("R%d:0", sid))
		}
		h.mu.Unlock()
		h.wmu.Lock()
		if f[0] == "sdata" {
			data := make([]byte, atoiS(f[2]))
			if f[3] == "-" {
				h.fr.WriteData(sid, false, data)
			} else {
				h.fr.WriteDataPadded(sid, false, data, make([]byte, atoiS(f[3])))
			}
		} else {
			h.fr.WriteRSTStream(sid, http2.ErrCodeCancel)
		}
		h.wmu.Unlock()
	case "read":
		w, n := atoiS(f[1]), atoiS(f[2])
		h.mu.Lock()
		c := h.workers[w]
		var s *transport.ServerStream
		if c != nil {
			s = h.streams[c.sid]
		}
		if s == nil {
			h.mu.Unlock()
			return "nosid " + h.status()
		}
		if c.reading {
			h.mu.Unlock()
			return "busy " + h.status()
		}
		c.reading = true
		h.mu.Unlock()
		h.wg.Add(1)
		go func() {
			defer h.wg.Done()
			bs, err := s.Read(n)
			res := "ok"
			if err != nil {
				res = "err"
			} else {
				bs.Free()
			}
			h.mu.Lock()
			c.reading = false
			h.rdDone = append(h.rdDone, fmt.Sprintf("%d:%s", w, res))
			h.mu.Unlock()
		}()
	case "pingack":
		h.mu.Lock()
		p := h.ping
		h.ping = nil
		h.mu.Unlock()
		if p == nil {
			return "noping " + h.status()
		}
		h.wmu.Lock()
		h.fr.WritePing(true, *p)
		h.wmu.Unlock()
	case "sleep":
		time.Sleep(time.Duration(atoiS(f[1])) * time.Millisecond)
	default:
		return "bad-op"
	}
	return "done " + h.status()
}

func (h *inflowsrvH) Close() {
	if h.st == nil {
		return
	}
	h.st.Close(errors.New("verif: end of case"))
	h.stop()
	h.peer.Close()
	h.wg.Wait()
}
