package synct

import (
	"fmt"
	"runtime"
	"sort"
	"strconv"
	"strings"
	"sync"
	"time"

	"google.golang.org/grpc/internal/cache"
)

// component s_timeoutcache (C57): the real internal/cache.TimeoutCache inside a synctest bubble.
// Items are numbers; every Add gets its own callback, which records the item.
//
//	new <timeout ms>
//	add <key> <item>             Add                         -> <returned item> <t|f>
//	remove <key>                 Remove                      -> <item|nil>
//	clear <0|1>                  Clear(runCallback)
//	len
//	sleep <ms>                   advance virtual time
//	cadd <key> <item> <n>        n concurrent Add(key,item)  -> news=<calls that returned true> same=<all returned item>
//	cremove <key> <n>            n concurrent Remove(key)    -> hits=<calls that got an item> item=<it|nil>
//	rc <key> <0|1>               Remove(key) ‖ Clear(flag)   -> rem=<item|nil>
//	hremove <key> <ms>           hold c.mu, let virtual time advance by ms (clamped to the next timer
//	                             deadline, whose timers then fire and queue on c.mu), real
//	                             removeInternal(key), unlock      -> <item|nil> slept=<ms>
//	hrace <key> <item> <ms> <rat|rta|tra> <r|c0|c1>
//	                             the three-party race through the PUBLIC API: hold c.mu over the next deadline
//	                             (the due timers fire and queue on c.mu), release it, then on ONE processor
//	                             (GOMAXPROCS(1): a goroutine made runnable by Unlock cannot run before this one
//	                             yields) call  R = Remove(key) | Clear(false) | Clear(true)  and  A = Add(key,item)
//	                             interleaved with T = "the queued timer goroutines run" in the given order:
//	                             rat = R, A, T (stale timer meets the re-added key), rta = R, T, A, tra = T, R, A
//	                                                         -> rem=<item|nil|-> add=<item> <t|f> slept=<ms>
//	hclear <0|1> <ms>            same window, then Clear's loop (removeInternal for every key, then
//	                             the callbacks) re-enacted by the harness around the real removeInternal -> slept=<ms>
//
// Every answer ends with ` cbs=<items whose callback ran during this op, sorted> len=<Len()>`.
type tcEntry struct {
	key, item int
	deadline  time.Duration // virtual time since the start of the case
	alive     bool
}

type tcache struct {
	c       *cache.TimeoutCache
	timeout time.Duration
	t0      time.Time
	mu      sync.Mutex
	cbs     []int
	ents    []*tcEntry // harness bookkeeping: only used to know how many timers fire at a deadline
}

func init() {
	register("s_timeoutcache", func() SHandler { return &tcache{t0: time.Now()} })
}

func (h *tcache) cb(item int) func() {
	return func() {
		h.mu.Lock()
		h.cbs = append(h.cbs, item)
		h.mu.Unlock()
	}
}

func (h *tcache) now() time.Duration { return time.Since(h.t0) }

func (h *tcache) tail() string {
	h.mu.Lock()
	cbs := h.cbs
	h.cbs = nil
	h.mu.Unlock()
	sort.Ints(cbs)
	for _, it := range cbs {
		for _, e := range h.ents {
			if e.item == it {
				e.alive = false
			}
		}
	}
	s := make([]string, len(cbs))
	for i, v := range cbs {
		s[i] = strconv.Itoa(v)
	}
	l := "-"
	if len(s) > 0 {
		l = strings.Join(s, ",")
	}
	return fmt.Sprintf(" cbs=%s len=%d", l, h.c.Len())
}

func tcShowItem(v any, ok bool) string {
	if !ok {
		return "nil"
	}
	return fmt.Sprint(v)
}

func (h *tcache) gone(item any, ok bool) {
	if !ok {
		return
	}
	for _, e := range h.ents {
		if e.item == item.(int) {
			e.alive = false
		}
	}
}

// holdAndSleep: with c.mu held, advance virtual time by at most ms, stopping at the next timer
// deadline; wait until the timers due then have fired (their goroutines exist and queue on c.mu).
func (h *tcache) holdAndSleep(ms int) int {
	d := time.Duration(ms) * time.Millisecond
	now := h.now()
	for _, e := range h.ents {
		if e.alive && e.deadline > now && e.deadline-now < d {
			d = e.deadline - now
		}
	}
	due := 0
	for _, e := range h.ents {
		if e.alive && e.deadline == now+d {
			due++
		}
	}
	base := runtime.NumGoroutine()
	time.Sleep(d)
	for i := 0; i < 5000000 && runtime.NumGoroutine() < base+due; i++ {
		runtime.Gosched()
	}
	return int(d / time.Millisecond)
}

func (h *tcache) Op(f []string) string {
	if f[0] == "new" {
		h.timeout = time.Duration(tcAtoi(f[1])) * time.Millisecond
		h.c = cache.NewTimeoutCache(h.timeout)
		return "ok"
	}
	if h.c == nil {
		return "bad-op"
	}
	switch f[0] {
	case "add":
		k, it := tcAtoi(f[1]), tcAtoi(f[2])
		v, ok := h.c.Add(k, it, h.cb(it))
		if ok {
			h.ents = append(h.ents, &tcEntry{key: k, item: it, deadline: h.now() + h.timeout, alive: true})
		}
		settle()
		return fmt.Sprintf("%v %s", v, tcTf(ok)) + h.tail()
	case "remove":
		v, ok := h.c.Remove(tcAtoi(f[1]))
		h.gone(v, ok)
		settle()
		return tcShowItem(v, ok) + h.tail()
	case "clear":
		h.c.Clear(f[1] == "1")
		for _, e := range h.ents {
			e.alive = false
		}
		settle()
		return "ok" + h.tail()
	case "len":
		return "ok" + h.tail()
	case "sleep":
		time.Sleep(time.Duration(tcAtoi(f[1])) * time.Millisecond)
		settle()
		return "ok" + h.tail()
	case "cadd":
		k, it, n := tcAtoi(f[1]), tcAtoi(f[2]), tcAtoi(f[3])
		var wg sync.WaitGroup
		news := make([]bool, n)
		vals := make([]any, n)
		for i := 0; i < n; i++ {
			wg.Add(1)
			go func() {
				defer wg.Done()
				vals[i], news[i] = h.c.Add(k, it, h.cb(it))
			}()
		}
		wg.Wait()
		cnt, same := 0, true
		for i := 0; i < n; i++ {
			if news[i] {
				cnt++
			}
			if vals[i] != vals[0] {
				same = false
			}
		}
		if cnt > 0 {
			h.ents = append(h.ents, &tcEntry{key: k, item: it, deadline: h.now() + h.timeout, alive: true})
		}
		settle()
		return fmt.Sprintf("news=%d same=%s", cnt, tcShowItem(vals[0], same)) + h.tail()
	case "cremove":
		k, n := tcAtoi(f[1]), tcAtoi(f[2])
		var wg sync.WaitGroup
		oks := make([]bool, n)
		vals := make([]any, n)
		for i := 0; i < n; i++ {
			wg.Add(1)
			go func() {
				defer wg.Done()
				vals[i], oks[i] = h.c.Remove(k)
			}()
		}
		wg.Wait()
		hits := 0
		var it any
		for i := 0; i < n; i++ {
			if oks[i] {
				hits++
				it = vals[i]
				h.gone(vals[i], true)
			}
		}
		settle()
		return fmt.Sprintf("hits=%d item=%s", hits, tcShowItem(it, hits > 0)) + h.tail()
	case "rc":
		k := tcAtoi(f[1])
		var wg sync.WaitGroup
		var v any
		var ok bool
		wg.Add(2)
		go func() { defer wg.Done(); v, ok = h.c.Remove(k) }()
		go func() { defer wg.Done(); h.c.Clear(f[2] == "1") }()
		wg.Wait()
		for _, e := range h.ents {
			e.alive = false
		}
		settle()
		return "rem=" + tcShowItem(v, ok) + h.tail()
	case "hremove":
		h.c.VerifLock()
		slept := h.holdAndSleep(tcAtoi(f[2]))
		v, _, ok := h.c.VerifRemoveInternal(tcAtoi(f[1]))
		h.c.VerifUnlock()
		h.gone(v, ok)
		settle()
		return fmt.Sprintf("%s slept=%d", tcShowItem(v, ok), slept) + h.tail()
	case "hrace":
		k, it := tcAtoi(f[1]), tcAtoi(f[2])
		order, how := f[4], f[5]
		prev := runtime.GOMAXPROCS(1)
		h.c.VerifLock()
		slept := h.holdAndSleep(tcAtoi(f[3]))
		h.c.VerifUnlock()
		// let the queued timer goroutines (and only them) run: they are the only other runnable goroutines
		yield := func() {
			for i := 0; i < 64; i++ {
				runtime.Gosched()
			}
		}
		rem := "-"
		doR := func() {
			switch how {
			case "r":
				v, ok := h.c.Remove(k)
				h.gone(v, ok)
				rem = tcShowItem(v, ok)
			case "c0":
				h.c.Clear(false)
			default:
				h.c.Clear(true)
			}
			if how != "r" {
				for _, e := range h.ents {
					e.alive = false
				}
			}
		}
		var av any
		var aok bool
		doA := func() {
			av, aok = h.c.Add(k, it, h.cb(it))
			if aok {
				h.ents = append(h.ents, &tcEntry{key: k, item: it, deadline: h.now() + h.timeout, alive: true})
			}
		}
		switch order {
		case "rat":
			doR()
			doA()
		case "rta":
			doR()
			yield()
			doA()
		default:
			yield()
			doR()
			doA()
		}
		runtime.GOMAXPROCS(prev)
		settle()
		return fmt.Sprintf("rem=%s add=%v %s slept=%d", rem, av, tcTf(aok), slept) + h.tail()
	case "hclear":
		h.c.VerifLock()
		slept := h.holdAndSleep(tcAtoi(f[2]))
		var cbs []func()
		for _, k := range h.c.VerifKeys() {
			if _, cb, ok := h.c.VerifRemoveInternal(k); ok {
				cbs = append(cbs, cb)
			}
		}
		h.c.VerifUnlock()
		if f[1] == "1" {
			for _, cb := range cbs {
				cb()
			}
		}
		for _, e := range h.ents {
			e.alive = false
		}
		settle()
		return fmt.Sprintf("ok slept=%d", slept) + h.tail()
	}
	return "bad-op"
}

func (h *tcache) Close() {
	if h.c != nil {
		h.c.Clear(false)
	}
}

func tcTf(b bool) string {
	if b {
		return "t"
	}
	return "f"
}

func tcAtoi(s string) int {
	n, err := strconv.Atoi(s)
	if err != nil {
		panic("bad int " + s)
	}
	return n
}
