package synct

// component s_connectivity (C30): a REAL grpc.ClientConn (grpc.NewClient) inside the bubble with
//   * a manual resolver that reports addresses a1..a3,
//   * a recording LB policy "verif_rec" (one SubConn per address, never connects or publishes on its
//     own: the ops below drive it), whose StateListeners record every SubConnState it is given,
//   * a scripted dialer: every dial parks until `dial <k> ok|fail`; ok hands the transport one end
//     of a net.Pipe whose other end is a minimal HTTP/2 server (SETTINGS, SETTINGS-ack, on request
//     GOAWAY or connection drop),
//   * a subscriber on the channel's connectivity PubSub (published channel states, in order),
//   * concurrent WaitForStateChange callers.
//
// ops
//	connect                 cc.Connect()  (leave idle: resolver + LB policy are built, SubConns created)
//	scconnect <k>           SubConn k .Connect()
//	scshutdown <k>          SubConn k .Shutdown()
//	dial <k> ok|fail        the oldest parked dial to address a<k> succeeds / fails
//	goaway <k> | drop <k>   the server of SubConn k's latest transport sends GOAWAY / closes the connection
//	sleep <s>               advance virtual time (connect backoff is exactly 1s)
//	resetbackoff            cc.ResetConnectBackoff()
//	lbstate <state>         the LB policy calls cc.UpdateState(state, picker)
//	wait <id> <state> <to>  go cc.WaitForStateChange(ctx(to seconds, 0 = none), state)
//	cancel <id>             cancel that caller's context
//	idle | close            enter idle mode / cc.Close()
//	mode health             (first op only) SubConns are created with HealthCheckEnabled; the legacy
//	                        health-check function is a scripted one
//	health <k> <state>      that function calls setConnectivityState(state) for SubConn k's transport
//	scaddrs <k> <v>         LB policy calls cc.UpdateAddresses(SubConn k, [a<k>v<v>])   (v=0: a<k>)
//
// output of every op, after the bubble settled: the events recorded since the previous op, each
// source in its order of occurrence, sources in the fixed order lb, ch, sc1.., w1..:
// `lb:<build|close|exitidle>`, `ch:<STATE>` (published channel state), `sc<k>:<STATE>` (delivered to
// the LB policy's StateListener), `w<id>=<true|false>`; then `st=<GetState()>`, `dials=<parked
// dial addresses>` and `real=<k:addrConn.state,…>` (the current LB policy's SubConns).

import (
	"context"
	"fmt"
	"io"
	"net"
	"sort"
	"strings"
	"sync"
	"time"

	"golang.org/x/net/http2"
	"google.golang.org/grpc"
	"google.golang.org/grpc/backoff"
	"google.golang.org/grpc/balancer"
	"google.golang.org/grpc/balancer/base"
	"google.golang.org/grpc/connectivity"
	"google.golang.org/grpc/credentials/insecure"
	"google.golang.org/grpc/internal"
	"google.golang.org/grpc/internal/grpcsync"
	"google.golang.org/grpc/resolver"
	"google.golang.org/grpc/resolver/manual"
)

var cnCurrent *cnHarness

type cnLBBuilder struct{}

func (cnLBBuilder) Name() string { return "verif_rec" }
func (cnLBBuilder) Build(cc balancer.ClientConn, _ balancer.BuildOptions) balancer.Balancer {
	h := cnCurrent
	lb := &cnLB{h: h, cc: cc, scs: map[int]balancer.SubConn{}}
	h.mu.Lock()
	h.lb = lb
	h.events = append(h.events, "lb:build")
	h.mu.Unlock()
	return lb
}

func init() {
	balancer.Register(cnLBBuilder{})
	register("s_connectivity", func() SHandler { return newCnHarness() })
}

type cnLB struct {
	h   *cnHarness
	cc  balancer.ClientConn
	scs map[int]balancer.SubConn
}

func (lb *cnLB) UpdateClientConnState(s balancer.ClientConnState) error {
	for _, a := range s.ResolverState.Addresses {
		var k int
		fmt.Sscanf(a.Addr, "a%d", &k)
		lb.h.mu.Lock()
		_, have := lb.scs[k]
		lb.h.mu.Unlock()
		if have {
			continue
		}
		sc, err := lb.cc.NewSubConn([]resolver.Address{a}, balancer.NewSubConnOptions{
			HealthCheckEnabled: lb.h.health,
			StateListener: func(scs balancer.SubConnState) { lb.h.record(fmt.Sprintf("sc%d:%s", k, cnUp(scs.ConnectivityState))) },
		})
		if err != nil {
			lb.h.record(fmt.Sprintf("sc%d:newsubconn-error", k))
			continue
		}
		lb.h.mu.Lock()
		lb.scs[k] = sc
		lb.h.mu.Unlock()
	}
	return nil
}
func (lb *cnLB) ResolverError(error)                                {}
func (lb *cnLB) UpdateSubConnState(balancer.SubConn, balancer.SubConnState) {}
func (lb *cnLB) Close() {
	lb.h.mu.Lock()
	if lb.h.lb == lb {
		lb.h.lb = nil
	}
	lb.h.mu.Unlock()
	lb.h.record("lb:close")
}
func (lb *cnLB) ExitIdle()                                          { lb.h.record("lb:exitidle") }

func cnUp(s connectivity.State) string { return strings.ToUpper(s.String()) }

type cnDial struct {
	k   int
	res chan bool
}

type cnServer struct {
	mu   sync.Mutex
	conn net.Conn
	fr   *http2.Framer
}

type cnWatcher struct {
	cancel context.CancelFunc
}

type cnHealth struct {
	cmd chan connectivity.State
}

type cnHarness struct {
	health   bool
	healthK  int
	hfs      map[int]*cnHealth
	nops     int
	oldHF    internal.HealthChecker
	mu       sync.Mutex
	cc       *grpc.ClientConn
	r        *manual.Resolver
	lb       *cnLB
	events   []string
	dials    []*cnDial
	servers  map[int]*cnServer
	watchers map[int]*cnWatcher
	unsub    func()
	closed   bool
}

func (h *cnHarness) record(e string) {
	h.mu.Lock()
	h.events = append(h.events, e)
	h.mu.Unlock()
}

// OnMessage implements grpcsync.Subscriber for the channel's connectivity PubSub.
func (h *cnHarness) OnMessage(msg any) {
	if s, ok := msg.(connectivity.State); ok {
		h.record("ch:" + cnUp(s))
	}
}

func newCnHarness() *cnHarness {
	h := &cnHarness{servers: map[int]*cnServer{}, watchers: map[int]*cnWatcher{}, hfs: map[int]*cnHealth{}}
	cnCurrent = h
	h.oldHF = internal.HealthCheckFunc
	internal.HealthCheckFunc = h.healthFunc
	h.r = manual.NewBuilderWithScheme("verifc30")
	h.r.InitialState(resolver.State{Addresses: []resolver.Address{{Addr: "a1"}, {Addr: "a2"}, {Addr: "a3"}}})
	cc, err := grpc.NewClient("verifc30:///x",
		grpc.WithResolvers(h.r),
		grpc.WithTransportCredentials(insecure.NewCredentials()),
		grpc.WithDefaultServiceConfig(`{"loadBalancingConfig":[{"verif_rec":{}}],"healthCheckConfig":{"serviceName":"x"}}`),
		grpc.WithContextDialer(h.dial),
		grpc.WithIdleTimeout(0),
		grpc.WithDisableServiceConfig(),
		grpc.WithConnectParams(grpc.ConnectParams{
			Backoff:           backoff.Config{BaseDelay: time.Second, Multiplier: 1, Jitter: 0, MaxDelay: time.Second},
			MinConnectTimeout: 1000 * time.Hour,
		}))
	if err != nil {
		panic(err)
	}
	h.cc = cc
	h.unsub = internal.SubscribeToConnectivityStateChanges.(func(*grpc.ClientConn, grpcsync.Subscriber) func())(cc, h)
	return h
}

// healthFunc stands in for health.clientHealthCheck (internal.HealthCheckFunc): it hands the real
// setConnectivityState closure of startHealthCheck to the ops.
func (h *cnHarness) healthFunc(ctx context.Context, _ func(string) (any, error), set func(connectivity.State, error), _ string) error {
	hf := &cnHealth{cmd: make(chan connectivity.State)}
	h.mu.Lock()
	h.hfs[h.healthK] = hf
	h.mu.Unlock()
	for {
		select {
		case s := <-hf.cmd:
			set(s, nil)
		case <-ctx.Done():
			return nil
		}
	}
}

func (h *cnHarness) dial(ctx context.Context, addr string) (net.Conn, error) {
	var k int
	fmt.Sscanf(addr, "a%d", &k)
	d := &cnDial{k: k, res: make(chan bool, 1)}
	h.mu.Lock()
	h.dials = append(h.dials, d)
	h.mu.Unlock()
	var ok bool
	select {
	case ok = <-d.res:
	case <-ctx.Done():
		h.mu.Lock()
		for i, x := range h.dials {
			if x == d {
				h.dials = append(h.dials[:i], h.dials[i+1:]...)
				break
			}
		}
		h.mu.Unlock()
		return nil, ctx.Err()
	}
	if !ok {
		return nil, fmt.Errorf("scripted dial failure")
	}
	c, s := net.Pipe()
	srv := &cnServer{conn: s}
	h.mu.Lock()
	h.servers[k] = srv
	h.mu.Unlock()
	go srv.serve()
	return c, nil
}

func (s *cnServer) serve() {
	defer s.conn.Close()
	pre := make([]byte, len(http2.ClientPreface))
	if _, err := io.ReadFull(s.conn, pre); err != nil {
		return
	}
	s.mu.Lock()
	s.fr = http2.NewFramer(s.conn, s.conn)
	s.mu.Unlock()
	// The client writes its SETTINGS (and a window update) before reading ours; net.Pipe is
	// unbuffered, so keep reading while the server preface is written from another goroutine.
	go func() {
		s.mu.Lock()
		defer s.mu.Unlock()
		s.fr.WriteSettings()
	}()
	for {
		f, err := s.fr.ReadFrame()
		if err != nil {
			return
		}
		if sf, ok := f.(*http2.SettingsFrame); ok && !sf.IsAck() {
			go func() {
				s.mu.Lock()
				defer s.mu.Unlock()
				s.fr.WriteSettingsAck()
			}()
		}
		if pf, ok := f.(*http2.PingFrame); ok && !pf.IsAck() {
			data := pf.Data
			go func() {
				s.mu.Lock()
				defer s.mu.Unlock()
				s.fr.WritePing(true, data)
			}()
		}
	}
}

var cnStates = map[string]connectivity.State{"IDLE": connectivity.Idle, "CONNECTING": connectivity.Connecting,
	"READY": connectivity.Ready, "TRANSIENT_FAILURE": connectivity.TransientFailure, "SHUTDOWN": connectivity.Shutdown}

func cnRank(e string) (int, int) {
	var k int
	switch {
	case strings.HasPrefix(e, "lb:"):
		return 0, 0
	case strings.HasPrefix(e, "ch:"):
		return 1, 0
	case strings.HasPrefix(e, "sc"):
		fmt.Sscanf(e, "sc%d:", &k)
		return 2, k
	default:
		fmt.Sscanf(e, "w%d=", &k)
		return 3, k
	}
}

func (h *cnHarness) flush() string {
	settle()
	h.mu.Lock()
	ev := h.events
	h.events = nil
	var ds []string
	for _, d := range h.dials {
		ds = append(ds, fmt.Sprintf("a%d", d.k))
	}
	var real []string
	if h.lb != nil {
		ks := []int{}
		for k := range h.lb.scs {
			ks = append(ks, k)
		}
		sort.Ints(ks)
		for _, k := range ks {
			st, _, _ := grpc.VerifSubConnState(h.lb.scs[k])
			real = append(real, fmt.Sprintf("%d:%s", k, cnUp(st)))
		}
	}
	h.mu.Unlock()
	sort.SliceStable(ev, func(i, j int) bool {
		a1, a2 := cnRank(ev[i])
		b1, b2 := cnRank(ev[j])
		return a1 < b1 || (a1 == b1 && a2 < b2)
	})
	sort.Strings(ds)
	join := func(l []string, sep string) string {
		if len(l) == 0 {
			return "-"
		}
		return strings.Join(l, sep)
	}
	return fmt.Sprintf("%s st=%s dials=%s real=%s", join(ev, " "), cnUp(h.cc.GetState()), join(ds, ","), join(real, ","))
}

func (h *cnHarness) sc(k int) balancer.SubConn {
	h.mu.Lock()
	defer h.mu.Unlock()
	if h.lb == nil {
		return nil
	}
	return h.lb.scs[k]
}

func (h *cnHarness) Op(f []string) string {
	argN := func(i int) (int, bool) {
		if len(f) <= i {
			return 0, false
		}
		return pwAtoi(f[i])
	}
	h.nops++
	switch f[0] {
	case "mode":
		if len(f) != 2 || f[1] != "health" || h.nops != 1 {
			return "bad-op"
		}
		h.health = true
		return h.flush()
	case "health":
		k, ok := argN(1)
		if !ok || len(f) != 3 {
			return "bad-op"
		}
		st, ok2 := cnStates[f[2]]
		h.mu.Lock()
		hf := h.hfs[k]
		h.mu.Unlock()
		if !ok2 || hf == nil {
			return "bad-op"
		}
		select {
		case hf.cmd <- st:
		default: // the health function of that transport has exited
		}
		return h.flush()
	case "scaddrs":
		k, ok := argN(1)
		v, ok2 := argN(2)
		sc := h.sc(k)
		if !ok || !ok2 || len(f) != 3 || sc == nil || h.closed {
			return "bad-op"
		}
		addr := fmt.Sprintf("a%d", k)
		if v != 0 {
			addr = fmt.Sprintf("a%dv%d", k, v)
		}
		h.lb.cc.UpdateAddresses(sc, []resolver.Address{{Addr: addr}})
		return h.flush()
	case "connect":
		if len(f) != 1 || h.closed {
			return "bad-op"
		}
		h.cc.Connect()
		return h.flush()
	case "scconnect", "scshutdown":
		k, ok := argN(1)
		sc := h.sc(k)
		if !ok || len(f) != 2 || sc == nil || h.closed {
			return "bad-op"
		}
		if f[0] == "scconnect" {
			sc.Connect()
		} else {
			sc.Shutdown()
		}
		return h.flush()
	case "dial":
		k, ok := argN(1)
		if !ok || len(f) != 3 || (f[2] != "ok" && f[2] != "fail") {
			return "bad-op"
		}
		h.mu.Lock()
		var d *cnDial
		for i, x := range h.dials {
			if x.k == k {
				d = x
				h.dials = append(h.dials[:i], h.dials[i+1:]...)
				break
			}
		}
		h.mu.Unlock()
		if d == nil {
			return "bad-op"
		}
		h.healthK = k
		d.res <- f[2] == "ok"
		return h.flush()
	case "goaway", "drop":
		k, ok := argN(1)
		h.mu.Lock()
		srv := h.servers[k]
		h.mu.Unlock()
		if !ok || len(f) != 2 || srv == nil {
			return "bad-op"
		}
		if f[0] == "drop" {
			srv.conn.Close()
		} else {
			go func() {
				srv.mu.Lock()
				defer srv.mu.Unlock()
				if srv.fr != nil {
					srv.fr.WriteGoAway(0, http2.ErrCodeNo, nil)
				}
			}()
		}
		return h.flush()
	case "sleep":
		n, ok := argN(1)
		if !ok || len(f) != 2 {
			return "bad-op"
		}
		time.Sleep(time.Duration(n) * time.Second)
		return h.flush()
	case "resetbackoff":
		if len(f) != 1 || h.closed {
			return "bad-op"
		}
		h.cc.ResetConnectBackoff()
		return h.flush()
	case "lbstate":
		h.mu.Lock()
		lb := h.lb
		h.mu.Unlock()
		if len(f) != 2 || lb == nil {
			return "bad-op"
		}
		st, ok := cnStates[f[1]]
		if !ok {
			return "bad-op"
		}
		lb.cc.UpdateState(balancer.State{ConnectivityState: st, Picker: base.NewErrPicker(balancer.ErrNoSubConnAvailable)})
		return h.flush()
	case "wait":
		id, ok1 := argN(1)
		to, ok3 := argN(3)
		if !ok1 || !ok3 || len(f) != 4 {
			return "bad-op"
		}
		st, ok2 := cnStates[f[2]]
		if !ok2 || h.watchers[id] != nil {
			return "bad-op"
		}
		var ctx context.Context
		w := &cnWatcher{}
		if to > 0 {
			ctx, w.cancel = context.WithTimeout(context.Background(), time.Duration(to)*time.Second)
		} else {
			ctx, w.cancel = context.WithCancel(context.Background())
		}
		h.watchers[id] = w
		go func() {
			r := h.cc.WaitForStateChange(ctx, st)
			h.record(fmt.Sprintf("w%d=%v", id, r))
		}()
		return h.flush()
	case "cancel":
		id, ok := argN(1)
		if !ok || len(f) != 2 || h.watchers[id] == nil {
			return "bad-op"
		}
		h.watchers[id].cancel()
		return h.flush()
	case "idle":
		if len(f) != 1 || h.closed {
			return "bad-op"
		}
		internal.EnterIdleModeForTesting.(func(*grpc.ClientConn))(h.cc)
		return h.flush()
	case "close":
		if len(f) != 1 || h.closed {
			return "bad-op"
		}
		h.closed = true
		h.cc.Close()
		return h.flush()
	}
	return "bad-op"
}

func (h *cnHarness) Close() {
	for _, w := range h.watchers {
		w.cancel()
	}
	if !h.closed {
		h.closed = true
		h.cc.Close()
	}
	h.unsub()
	internal.HealthCheckFunc = h.oldHF
	settle()
	h.mu.Lock()
	ds := h.dials
	h.dials = nil
	srvs := h.servers
	h.mu.Unlock()
	for _, d := range ds {
		d.res <- false
	}
	for _, s := range srvs {
		s.conn.Close()
	}
	settle()
}
