package synct

import (
	"context"
	"errors"
	"fmt"
	"sort"
	"strings"
	"sync"
	"time"

	"google.golang.org/grpc/internal/xds/clients"
	"google.golang.org/grpc/internal/xds/clients/xdsclient"
)

// component s_adsfan (C42; T2): the real xdsclient.XDSClient with a top-level authority and k named
// authorities that all share ONE xdsChannel (empty server lists inherit the top-level server), over a
// scripted transport. It observes the clause "no response is read until all watchers have finished
// processing the previous one" across the whole fan-out
// adsStreamImpl.recv -> xdsChannel.onResponse -> channelState.adsResourceUpdate -> authority -> watchers.
//
//	cfg <k>                         first op: k named authorities a1..ak (0 <= k <= 3)
//	watch <auth> <name> <wid> <b|n> auth 0 = top-level, i = a<i>; b: the watcher keeps `done` until a `done` op, n: calls it at once
//	respond <auth.name,...|->       the server sends one response (fresh version) carrying these resources
//	done <wid>                      the watcher calls the oldest `done` it still holds
//
// Output: recv=<times Recv was entered> pend=<wid:tok+tok,…> cb=<wid:content,… of this op, sorted>
// tok = r<v> for a callback caused by response number v, c<v> for a callback made from inside WatchResource (cached resource).
func init() { register("s_adsfan", func() SHandler { return &afCase{} }) }

type afStream struct {
	c   *afCase
	ctx context.Context
}

func (s *afStream) Send([]byte) error {
	if s.ctx.Err() != nil {
		return s.ctx.Err()
	}
	return nil
}

func (s *afStream) Recv() ([]byte, error) {
	s.c.mu.Lock()
	s.c.recv++
	s.c.mu.Unlock()
	select {
	case m := <-s.c.inbox:
		return m, nil
	case <-s.ctx.Done():
		return nil, s.ctx.Err()
	}
}

type afTransport struct{ c *afCase }

func (t *afTransport) NewStream(ctx context.Context, _ string) (clients.Stream, error) {
	return &afStream{c: t.c, ctx: ctx}, nil
}
func (t *afTransport) Close() {}

type afBuilder struct{ c *afCase }

func (b afBuilder) Build(clients.ServerIdentifier) (clients.Transport, error) {
	return &afTransport{c: b.c}, nil
}

type afWatcher struct {
	c     *afCase
	id    int
	block bool
	pend  []func()
	toks  []string
}

func (w *afWatcher) got(content string, done func()) {
	w.c.mu.Lock()
	w.c.cbs = append(w.c.cbs, fmt.Sprintf("%d:%s", w.id, content))
	tok := "r" + strings.TrimPrefix(content, "v")
	if w.c.inWatch {
		tok = "c" + strings.TrimPrefix(content, "v")
	}
	if w.block {
		w.pend = append(w.pend, done)
		w.toks = append(w.toks, tok)
		w.c.mu.Unlock()
		return
	}
	w.c.mu.Unlock()
	done()
}
func (w *afWatcher) ResourceChanged(d xdsclient.ResourceData, done func()) {
	w.got(string(d.Bytes()), done)
}
func (w *afWatcher) ResourceError(err error, done func()) { w.got("E", done) }
func (w *afWatcher) AmbientError(err error, done func())  { w.got("A", done) }

type afCase struct {
	mu      sync.Mutex
	client  *xdsclient.XDSClient
	k       int
	recv    int
	inbox   chan []byte
	cbs     []string
	inWatch bool
	ws      map[int]*afWatcher
	ver     int
}

func afWire(auth int, name string) string {
	if auth == 0 {
		return name
	}
	return fmt.Sprintf("xdstp://a%d/U/%s", auth, name)
}

func (c *afCase) out() string {
	c.mu.Lock()
	defer c.mu.Unlock()
	var ids []int
	for id, w := range c.ws {
		if len(w.toks) > 0 {
			ids = append(ids, id)
		}
	}
	sort.Ints(ids)
	var pend []string
	for _, id := range ids {
		pend = append(pend, fmt.Sprintf("%d:%s", id, strings.Join(c.ws[id].toks, "+")))
	}
	cbs := append([]string(nil), c.cbs...)
	sort.Strings(cbs)
	c.cbs = nil
	p, b := "-", "-"
	if len(pend) > 0 {
		p = strings.Join(pend, ",")
	}
	if len(cbs) > 0 {
		b = strings.Join(cbs, ",")
	}
	return fmt.Sprintf("recv=%d pend=%s cb=%s", c.recv, p, b)
}

func (c *afCase) Op(f []string) string {
	if f[0] == "cfg" {
		if c.client != nil || len(f) != 2 {
			return "bad-op"
		}
		k := int(atoi64s(f[1]))
		if k < 0 || k > 3 {
			return "bad-op"
		}
		c.k = k
		c.inbox = make(chan []byte, 4096)
		c.ws = map[int]*afWatcher{}
		xdsclient.VerifXASetStreamBackoff(func(int) time.Duration { return time.Second })
		cfg := xdsclient.Config{
			Node:             clients.Node{ID: "verif"},
			TransportBuilder: afBuilder{c},
			ResourceTypes: map[string]xdsclient.ResourceType{
				"U": {TypeURL: "U", TypeName: "U", AllResourcesRequiredInSotW: false, Decoder: xaDecoder{}},
			},
			WatchExpiryTimeout: time.Hour,
			Servers:            []xdsclient.ServerConfig{{ServerIdentifier: clients.ServerIdentifier{ServerURI: "srv0"}}},
			Authorities:        map[string]xdsclient.Authority{},
		}
		for i := 1; i <= k; i++ {
			cfg.Authorities[fmt.Sprintf("a%d", i)] = xdsclient.Authority{}
		}
		cl, err := xdsclient.New(cfg)
		if err != nil {
			return "err " + err.Error()
		}
		c.client = cl
		settle()
		return c.out()
	}
	if c.client == nil {
		return "nocfg"
	}
	switch f[0] {
	case "watch":
		if len(f) != 5 {
			return "bad-op"
		}
		auth, id := int(atoi64s(f[1])), int(atoi64s(f[3]))
		if auth < 0 || auth > c.k || (f[4] != "b" && f[4] != "n") {
			return "bad-op"
		}
		if _, ok := c.ws[id]; ok {
			return "busy"
		}
		w := &afWatcher{c: c, id: id, block: f[4] == "b"}
		c.ws[id] = w
		c.mu.Lock()
		c.inWatch = true
		c.mu.Unlock()
		c.client.WatchResource("U", afWire(auth, f[2]), w)
		settle()
		c.mu.Lock()
		c.inWatch = false
		c.mu.Unlock()
	case "respond":
		if len(f) != 2 {
			return "bad-op"
		}
		c.ver++
		var vals [][]byte
		if f[1] != "-" {
			for _, it := range strings.Split(f[1], ",") {
				p := strings.SplitN(it, ".", 2)
				if len(p) != 2 {
					return "bad-op"
				}
				vals = append(vals, []byte(fmt.Sprintf("%s|ok|v%d", afWire(int(atoi64s(p[0])), p[1]), c.ver)))
			}
		}
		c.inbox <- xdsclient.VerifXAEncodeResponse("U", fmt.Sprintf("v%d", c.ver), fmt.Sprintf("n%d", c.ver), vals)
	case "done":
		if len(f) != 2 {
			return "bad-op"
		}
		w, ok := c.ws[int(atoi64s(f[1]))]
		if !ok {
			return "nowatch"
		}
		c.mu.Lock()
		if len(w.pend) == 0 {
			c.mu.Unlock()
			return "nopend"
		}
		d := w.pend[0]
		w.pend, w.toks = w.pend[1:], w.toks[1:]
		c.mu.Unlock()
		d()
	default:
		return "bad-op"
	}
	settle()
	return c.out()
}

func (c *afCase) Close() {
	if c.client != nil {
		c.client.Close()
	}
	settle()
}

var _ = errors.New
