package synct

// component s_sema (C25, tie T3): the real atomicSemaphore of server.go (the per-connection
// handler quota) stepped one atomic access at a time. The instrumented copy of server.go yields
// before every access of atomicSemaphore.n; the channel operations (`<-q.wait`, `q.wait <- …`)
// are real blocking operations, which is why this lives in the synctest bubble: after a step the
// bubble is settled and a goroutine that neither reached a yield nor returned is BLOCKED.
//
//	new <N>       newHandlerQuota(N)
//	step a        the (single, sequential) acquirer: starts acquire() / performs its next step
//	step r<i>     releaser i: starts release() / performs its next step
//
// Output: `<label|done|blocked> n=<n> chan=<tokens> a=<idle|acquire:0|blocked> held=<acquires returned - releases returned>`
import (
	"fmt"
	"strings"
	"sync"

	"google.golang.org/grpc"
)

type semaThread struct {
	name    string
	resume  chan struct{}
	label   string // yield label the goroutine is parked at ("" = running/blocked)
	started bool   // a call is in progress
	parked  bool
}

type semaH struct {
	q       *grpc.VerifSemaphore
	threads map[string]*semaThread
	current *semaThread
	mu      sync.Mutex
	acq     int
	rel     int
	wg      sync.WaitGroup
	closing bool
}

func init() {
	register("s_sema", func() SHandler {
		s := &semaH{threads: map[string]*semaThread{}}
		grpc.VerifHook = s.hook
		return s
	})
}

func (s *semaH) hook(label string) {
	s.mu.Lock()
	if s.closing || s.current == nil {
		s.mu.Unlock()
		return
	}
	t := s.current
	t.label = label
	t.parked = true
	s.mu.Unlock()
	<-t.resume
}

func (s *semaH) status(t *semaThread) string {
	s.mu.Lock()
	defer s.mu.Unlock()
	if !t.started {
		return "done"
	}
	if t.parked {
		return t.label
	}
	return "blocked"
}

func (s *semaH) Op(f []string) string {
	switch {
	case f[0] == "new" && len(f) == 2:
		var n uint32
		fmt.Sscan(f[1], &n)
		s.mu.Lock()
		s.current = nil // the Store in newHandlerQuota is not a scheduling point of interest
		s.mu.Unlock()
		s.q = grpc.VerifNewHandlerQuota(n)
		return s.show("done")
	case f[0] == "step" && len(f) == 2 && s.q != nil && (f[1] == "a" || strings.HasPrefix(f[1], "r")):
		t := s.threads[f[1]]
		if t == nil {
			t = &semaThread{name: f[1], resume: make(chan struct{})}
			s.threads[f[1]] = t
		}
		s.mu.Lock()
		s.current = t
		started, parked := t.started, t.parked
		s.mu.Unlock()
		switch {
		case !started:
			t.started = true
			s.wg.Add(1)
			go func() {
				defer s.wg.Done()
				if t.name == "a" {
					s.q.Acquire()
				} else {
					s.q.Release()
				}
				s.mu.Lock()
				if t.name == "a" {
					s.acq++
				} else {
					s.rel++
				}
				t.started = false
				t.parked = false
				s.mu.Unlock()
			}()
		case parked:
			s.mu.Lock()
			t.parked = false
			t.label = ""
			s.mu.Unlock()
			t.resume <- struct{}{}
		default:
			// blocked in a channel operation: nothing to release
		}
		settle()
		return s.show(s.status(t))
	}
	return "bad-op"
}

func (s *semaH) show(first string) string {
	n, tok := int64(0), 0
	if s.q != nil {
		n, tok = s.q.State()
	}
	a := "idle"
	if t := s.threads["a"]; t != nil {
		if st := s.status(t); st != "done" {
			a = st
		}
	}
	s.mu.Lock()
	held := s.acq - s.rel
	s.mu.Unlock()
	return fmt.Sprintf("%s n=%d chan=%d a=%s held=%d", first, n, tok, a, held)
}

// Close lets every goroutine run to completion: parked ones are resumed with the hook disabled;
// a blocked acquirer is released by extra releases; blocked senders by draining acquires.
func (s *semaH) Close() {
	s.mu.Lock()
	s.closing = true
	var parked []*semaThread
	for _, t := range s.threads {
		if t.started && t.parked {
			t.parked = false
			parked = append(parked, t)
		}
	}
	s.mu.Unlock()
	for _, t := range parked {
		t.resume <- struct{}{}
	}
	settle()
	for i := 0; i < 64 && s.q != nil; i++ {
		s.mu.Lock()
		aBlocked, rBlocked := false, false
		for _, t := range s.threads {
			if t.started {
				if t.name == "a" {
					aBlocked = true
				} else {
					rBlocked = true
				}
			}
		}
		s.mu.Unlock()
		if !aBlocked && !rBlocked {
			break
		}
		if aBlocked {
			s.q.VerifUnstick() // a blocked acquirer: hand it a token
		}
		if rBlocked {
			s.q.VerifDrain() // a blocked sender: make room
		}
		settle()
	}
	s.wg.Wait()
	grpc.VerifHook = nil
}
