package synct

import (
	"bytes"
	"context"
	"encoding/binary"
	"errors"
	"fmt"
	"io"
	"net"
	"strconv"
	"strings"
	"sync"

	"google.golang.org/grpc"
	"google.golang.org/grpc/credentials/insecure"
	"google.golang.org/grpc/encoding"
	"google.golang.org/grpc/metadata"
	"google.golang.org/grpc/status"
	"google.golang.org/grpc/test/bufconn"
)

// component s_msgsize (C21): one real ClientConn and one real grpc.Server over bufconn per `cfg` op.
//
//	cfg <scReq|-> <scResp|-> <dialSend|-> <dialRecv|-> <srvRecv|-> <srvSend|->
//	call <callSend|-> <callRecv|-> <none|pad|rle> <req bytes> <resp bytes>
//
// Messages are raw byte strings (codec "verifraw": the message IS its encoding, so sizes are exact).
// Compressors with predictable sizes: "verifpad" (wire = n+16), "verifrle" (constant-byte messages:
// wire = 9). Answer of call: code=<grpc code> srv=<bytes the handler received|-> cli=<bytes of the reply|->
// why=<which check rejected: send | recvwire | recvplain | ->.
type msRawCodec struct{}

func (msRawCodec) Marshal(v any) ([]byte, error) {
	b, ok := v.(*[]byte)
	if !ok {
		return nil, fmt.Errorf("verifraw: %T", v)
	}
	return *b, nil
}
func (msRawCodec) Unmarshal(data []byte, v any) error {
	b, ok := v.(*[]byte)
	if !ok {
		return fmt.Errorf("verifraw: %T", v)
	}
	*b = append([]byte(nil), data...)
	return nil
}
func (msRawCodec) Name() string { return "verifraw" }

// verifpad: wire = data followed by 16 bytes of 0xAA.
type msPad struct{}

type msPadW struct{ w io.Writer }

func (p msPadW) Write(b []byte) (int, error) { return p.w.Write(b) }
func (p msPadW) Close() error                { _, err := p.w.Write(bytes.Repeat([]byte{0xAA}, 16)); return err }
func (msPad) Compress(w io.Writer) (io.WriteCloser, error) { return msPadW{w}, nil }
func (msPad) Decompress(r io.Reader) (io.Reader, error) {
	all, err := io.ReadAll(r)
	if err != nil {
		return nil, err
	}
	if len(all) < 16 {
		return nil, errors.New("verifpad: short")
	}
	return bytes.NewReader(all[:len(all)-16]), nil
}
func (msPad) Name() string { return "verifpad" }

// verifrle: a constant-byte message of n bytes becomes 8 bytes length + 1 byte value.
type msRle struct{}

type msRleW struct {
	w   io.Writer
	buf []byte
}

func (p *msRleW) Write(b []byte) (int, error) { p.buf = append(p.buf, b...); return len(b), nil }
func (p *msRleW) Close() error {
	var out [9]byte
	binary.BigEndian.PutUint64(out[:8], uint64(len(p.buf)))
	if len(p.buf) > 0 {
		out[8] = p.buf[0]
	}
	_, err := p.w.Write(out[:])
	return err
}
func (msRle) Compress(w io.Writer) (io.WriteCloser, error) { return &msRleW{w: w}, nil }

type msRleR struct {
	n int64
	v byte
}

func (r *msRleR) Read(p []byte) (int, error) {
	if r.n <= 0 {
		return 0, io.EOF
	}
	k := int64(len(p))
	if k > r.n {
		k = r.n
	}
	for i := int64(0); i < k; i++ {
		p[i] = r.v
	}
	r.n -= k
	return int(k), nil
}
func (msRle) Decompress(r io.Reader) (io.Reader, error) {
	var in [9]byte
	if _, err := io.ReadFull(r, in[:]); err != nil {
		return nil, err
	}
	return &msRleR{n: int64(binary.BigEndian.Uint64(in[:8])), v: in[8]}, nil
}
func (msRle) Name() string { return "verifrle" }

func init() {
	encoding.RegisterCodec(msRawCodec{})
	encoding.RegisterCompressor(msPad{})
	encoding.RegisterCompressor(msRle{})
	register("s_msgsize", func() SHandler { return &sMsgSize{} })
}

type sMsgSize struct {
	cc     *grpc.ClientConn
	srv    *grpc.Server
	lis    *bufconn.Listener
	mu     sync.Mutex
	srvGot []string
}

func msOpt(s string) (int, bool) {
	if s == "-" {
		return 0, false
	}
	v, err := strconv.ParseInt(s, 10, 64)
	if err != nil {
		panic("bad int " + s)
	}
	return int(v), true
}

func (s *sMsgSize) teardown() {
	if s.cc != nil {
		s.cc.Close()
		s.cc = nil
	}
	if s.srv != nil {
		s.srv.Stop()
		s.srv = nil
	}
	if s.lis != nil {
		s.lis.Close()
		s.lis = nil
	}
}

func (s *sMsgSize) echo(_ any, ctx context.Context, dec func(any) error, _ grpc.UnaryServerInterceptor) (any, error) {
	var in []byte
	if err := dec(&in); err != nil {
		return nil, err
	}
	s.mu.Lock()
	g := strconv.Itoa(len(in))
	for _, b := range in {
		if b != 0x41 {
			g += ":corrupt"
			break
		}
	}
	s.srvGot = append(s.srvGot, g)
	s.mu.Unlock()
	md, _ := metadata.FromIncomingContext(ctx)
	n := 0
	if v := md.Get("resp-size"); len(v) == 1 {
		n, _ = strconv.Atoi(v[0])
	}
	out := bytes.Repeat([]byte{0x5a}, n)
	return &out, nil
}

// echoStream is echo over the streaming API; with metadata prep=1 the reply is sent as a *grpc.PreparedMsg.
func (s *sMsgSize) echoStream(_ any, ss grpc.ServerStream) error {
	var in []byte
	if err := ss.RecvMsg(&in); err != nil {
		return err
	}
	g := strconv.Itoa(len(in))
	for _, b := range in {
		if b != 0x41 {
			g += ":corrupt"
			break
		}
	}
	s.mu.Lock()
	s.srvGot = append(s.srvGot, g)
	s.mu.Unlock()
	md, _ := metadata.FromIncomingContext(ss.Context())
	n := 0
	if v := md.Get("resp-size"); len(v) == 1 {
		n, _ = strconv.Atoi(v[0])
	}
	out := bytes.Repeat([]byte{0x5a}, n)
	if v := md.Get("prep"); len(v) == 1 && v[0] == "1" {
		pm := &grpc.PreparedMsg{}
		if err := pm.Encode(ss, &out); err != nil {
			return err
		}
		return ss.SendMsg(pm)
	}
	return ss.SendMsg(&out)
}

func (s *sMsgSize) Op(f []string) string {
	switch f[0] {
	case "cfg":
		s.teardown()
		var sopts []grpc.ServerOption
		if v, ok := msOpt(f[5]); ok {
			sopts = append(sopts, grpc.MaxRecvMsgSize(v))
		}
		if v, ok := msOpt(f[6]); ok {
			sopts = append(sopts, grpc.MaxSendMsgSize(v))
		}
		s.srv = grpc.NewServer(sopts...)
		s.srv.RegisterService(&grpc.ServiceDesc{ServiceName: "verif.Size", HandlerType: (*any)(nil),
			Methods: []grpc.MethodDesc{{MethodName: "Echo", Handler: s.echo}},
			Streams: []grpc.StreamDesc{{StreamName: "EchoStream", ClientStreams: true, ServerStreams: true, Handler: s.echoStream}}}, nil)
		s.lis = bufconn.Listen(1 << 20)
		go s.srv.Serve(s.lis)
		dopts := []grpc.DialOption{
			grpc.WithTransportCredentials(insecure.NewCredentials()),
			grpc.WithContextDialer(func(ctx context.Context, _ string) (net.Conn, error) { return s.lis.DialContext(ctx) }),
			grpc.WithIdleTimeout(0),
		}
		if f[1] != "-" || f[2] != "-" {
			js := `{"methodConfig":[{"name":[{}]`
			if f[1] != "-" {
				js += `,"maxRequestMessageBytes":` + f[1]
			}
			if f[2] != "-" {
				js += `,"maxResponseMessageBytes":` + f[2]
			}
			js += "}]}"
			dopts = append(dopts, grpc.WithDefaultServiceConfig(js))
		}
		var dco []grpc.CallOption
		if v, ok := msOpt(f[3]); ok {
			dco = append(dco, grpc.MaxCallSendMsgSize(v))
		}
		if v, ok := msOpt(f[4]); ok {
			dco = append(dco, grpc.MaxCallRecvMsgSize(v))
		}
		if len(dco) > 0 {
			dopts = append(dopts, grpc.WithDefaultCallOptions(dco...))
		}
		cc, err := grpc.NewClient("passthrough:///msgsize", dopts...)
		if err != nil {
			return "err " + err.Error()
		}
		s.cc = cc
		return "ok"
	case "call":
		if s.cc == nil {
			return "nocfg"
		}
		copts := []grpc.CallOption{grpc.CallContentSubtype("verifraw")}
		if v, ok := msOpt(f[1]); ok {
			copts = append(copts, grpc.MaxCallSendMsgSize(v))
		}
		if v, ok := msOpt(f[2]); ok {
			copts = append(copts, grpc.MaxCallRecvMsgSize(v))
		}
		switch f[3] {
		case "pad":
			copts = append(copts, grpc.UseCompressor("verifpad"))
		case "rle":
			copts = append(copts, grpc.UseCompressor("verifrle"))
		}
		reqN, _ := strconv.Atoi(f[4])
		req := bytes.Repeat([]byte{0x41}, reqN)
		var resp []byte
		mode := "unary"
		if len(f) > 6 {
			mode = f[6]
		}
		prep := "0"
		if mode == "prep" {
			prep = "1"
		}
		ctx, cancel := context.WithCancel(metadata.AppendToOutgoingContext(context.Background(), "resp-size", f[5], "prep", prep))
		defer cancel()
		type res struct{ err error }
		ch := make(chan res, 1)
		go func() {
			if mode == "unary" {
				ch <- res{s.cc.Invoke(ctx, "/verif.Size/Echo", &req, &resp, copts...)}
				return
			}
			st, err := s.cc.NewStream(ctx, &grpc.StreamDesc{ClientStreams: true, ServerStreams: true}, "/verif.Size/EchoStream", copts...)
			if err != nil {
				ch <- res{err}
				return
			}
			var m any = &req
			if mode == "prep" {
				pm := &grpc.PreparedMsg{}
				if err := pm.Encode(st, &req); err != nil {
					ch <- res{err}
					return
				}
				m = pm
			}
			if err := st.SendMsg(m); err != nil {
				ch <- res{err}
				return
			}
			st.CloseSend()
			ch <- res{st.RecvMsg(&resp)}
		}()
		settle()
		var err error
		select {
		case r := <-ch:
			err = r.err
		default:
			return "HUNG"
		}
		s.mu.Lock()
		got := s.srvGot
		s.srvGot = nil
		s.mu.Unlock()
		sg := "-"
		if len(got) > 0 {
			sg = strings.Join(got, "+")
		}
		cg := "-"
		if err == nil {
			cg = strconv.Itoa(len(resp))
			for _, b := range resp {
				if b != 0x5a {
					cg += ":corrupt"
					break
				}
			}
		}
		why := "-"
		if err != nil {
			msg := status.Convert(err).Message()
			switch {
			case strings.Contains(msg, "trying to send message larger than max"):
				why = "send"
			case strings.Contains(msg, "received message larger than max"):
				why = "recvwire"
			case strings.Contains(msg, "after decompression larger than max"):
				why = "recvplain"
			default:
				why = "other"
			}
		}
		return fmt.Sprintf("code=%d srv=%s cli=%s why=%s", int(status.Code(err)), sg, cg, why)
	}
	return "bad-op"
}

func (s *sMsgSize) Close() { s.teardown() }
