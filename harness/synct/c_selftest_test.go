package synct

import (
	"fmt"
	"time"
)

// component s_selftest: sanity of the bubble harness itself (virtual time, goroutine settle).
type selftest struct {
	ch   chan int
	got  []int
	done chan struct{}
}

func init() {
	register("s_selftest", func() SHandler {
		s := &selftest{ch: make(chan int), done: make(chan struct{})}
		go func() {
			defer close(s.done)
			for v := range s.ch {
				time.Sleep(time.Duration(v) * time.Second)
				s.got = append(s.got, v)
			}
		}()
		return s
	})
}

func (s *selftest) Op(f []string) string {
	switch f[0] {
	case "send":
		var v int
		fmt.Sscan(f[1], &v)
		t0 := time.Now()
		s.ch <- v
		settle()
		return fmt.Sprint("sent got=", s.got, " elapsed=", time.Since(t0))
	case "sleep":
		var v int
		fmt.Sscan(f[1], &v)
		time.Sleep(time.Duration(v) * time.Second)
		settle()
		return fmt.Sprint("slept got=", s.got)
	}
	return "bad-op"
}

func (s *selftest) Close() { close(s.ch); <-s.done }
