package synct

import (
	"fmt"
	"strconv"
	"strings"
	"sync"

	"google.golang.org/grpc"
	"google.golang.org/grpc/balancer"
	"google.golang.org/grpc/codes"
	"google.golang.org/grpc/connectivity"
	"google.golang.org/grpc/resolver"
	"google.golang.org/grpc/status"
)

// component s_pickdone (C23): the s_retry environment with an instrumented load-balancing policy whose
// picker is scripted and whose PickResult.Done callbacks are counted.
//
//	cfg <as s_retry> picks=<p,p,…|->     p: ok | oknd (no Done) | notready (a never-connected SubConn, with Done)
//	                                        | nosc (ErrNoSubConnAvailable, a new picker follows) | hang (ErrNoSubConnAvailable,
//	                                        no new picker) | drop<code> (status error) | notready! / nosc! (as notready / nosc, and
//	                                        the RPC's context is cancelled while Pick runs)
//	new <buf|d> | send <n> | close | recv | hdr | cancel
//	    -> <result> t=… ev=<server events> pk=<P<id>:<kind>,D<id>:<code>,…|->  [pending=<result of the op that was blocked>]
//
// After a nosc/notready pick the policy publishes a fresh picker at the next quiescent point (that is the
// "every picker update wakes a blocked pick" clause); `cancel` cancels the RPC's context (the other clause).
type pdState struct {
	mu          sync.Mutex
	script      []string
	next        int
	nextID      int
	events      []string
	needRefresh bool
	signal      func()
	cancelRPC   func() // cancels the RPC's context (pick kinds ending in "!": the context ends while Pick runs)
	bal         *pdBalancer
}

var curPD *pdState // the case being run (cases run one at a time)

const pdName = "verif_pickdone"

type pdBuilder struct{}

func (pdBuilder) Name() string { return pdName }
func (pdBuilder) Build(cc balancer.ClientConn, _ balancer.BuildOptions) balancer.Balancer {
	b := &pdBalancer{cc: cc, st: curPD}
	if curPD != nil {
		curPD.bal = b
	}
	return b
}

func init() {
	balancer.Register(pdBuilder{})
	register("s_pickdone", func() SHandler { return &pickdoneC{} })
}

type pdBalancer struct {
	cc     balancer.ClientConn
	st     *pdState
	mu     sync.Mutex
	sc     balancer.SubConn
	idleSC balancer.SubConn
	ready  bool
}

func (b *pdBalancer) UpdateClientConnState(s balancer.ClientConnState) error {
	b.mu.Lock()
	defer b.mu.Unlock()
	if b.sc != nil || len(s.ResolverState.Addresses) == 0 {
		return nil
	}
	addrs := []resolver.Address{s.ResolverState.Addresses[0]}
	sc, err := b.cc.NewSubConn(addrs, balancer.NewSubConnOptions{StateListener: b.onState})
	if err != nil {
		return err
	}
	b.sc = sc
	idle, err := b.cc.NewSubConn(addrs, balancer.NewSubConnOptions{StateListener: func(balancer.SubConnState) {}})
	if err != nil {
		return err
	}
	b.idleSC = idle
	b.cc.UpdateState(balancer.State{ConnectivityState: connectivity.Connecting, Picker: pdWaitPicker{}})
	sc.Connect()
	return nil
}

func (b *pdBalancer) onState(s balancer.SubConnState) {
	b.mu.Lock()
	defer b.mu.Unlock()
	switch s.ConnectivityState {
	case connectivity.Ready:
		b.ready = true
		b.cc.UpdateState(balancer.State{ConnectivityState: connectivity.Ready, Picker: &pdPicker{b: b}})
	case connectivity.Idle:
		b.ready = false
		b.cc.UpdateState(balancer.State{ConnectivityState: connectivity.Connecting, Picker: pdWaitPicker{}})
		b.sc.Connect()
	case connectivity.Connecting:
		b.ready = false
		b.cc.UpdateState(balancer.State{ConnectivityState: connectivity.Connecting, Picker: pdWaitPicker{}})
	case connectivity.TransientFailure:
		b.ready = false
		b.cc.UpdateState(balancer.State{ConnectivityState: connectivity.TransientFailure, Picker: pdWaitPicker{}})
	}
}

func (b *pdBalancer) refresh() {
	b.mu.Lock()
	defer b.mu.Unlock()
	if b.ready {
		b.cc.UpdateState(balancer.State{ConnectivityState: connectivity.Ready, Picker: &pdPicker{b: b}})
	}
}

func (b *pdBalancer) ResolverError(error)                                      {}
func (b *pdBalancer) UpdateSubConnState(balancer.SubConn, balancer.SubConnState) {}
func (b *pdBalancer) Close()                                                   {}
func (b *pdBalancer) ExitIdle()                                                {}

// pdWaitPicker is published while the connection is not READY; it does not consume the script.
type pdWaitPicker struct{}

func (pdWaitPicker) Pick(balancer.PickInfo) (balancer.PickResult, error) {
	return balancer.PickResult{}, balancer.ErrNoSubConnAvailable
}

type pdPicker struct{ b *pdBalancer }

func (p *pdPicker) Pick(balancer.PickInfo) (balancer.PickResult, error) {
	st := p.b.st
	st.mu.Lock()
	defer st.mu.Unlock()
	kind := "ok"
	if st.next < len(st.script) {
		kind = st.script[st.next]
	}
	st.next++
	st.nextID++
	id := st.nextID
	st.events = append(st.events, fmt.Sprintf("P%d:%s", id, kind))
	done := func(di balancer.DoneInfo) {
		st.mu.Lock()
		defer st.mu.Unlock()
		c := 0
		if di.Err != nil {
			c = int(status.Code(di.Err))
		}
		st.events = append(st.events, fmt.Sprintf("D%d:%d", id, c))
	}
	switch {
	case kind == "ok":
		return balancer.PickResult{SubConn: p.b.sc, Done: done}, nil
	case kind == "oknd":
		return balancer.PickResult{SubConn: p.b.sc}, nil
	case kind == "notready!":
		// the RPC's context ends during this Pick, and the SubConn handed out is not READY
		st.cancelRPC()
		return balancer.PickResult{SubConn: p.b.idleSC, Done: done}, nil
	case kind == "nosc!":
		st.cancelRPC()
		return balancer.PickResult{}, balancer.ErrNoSubConnAvailable
	case kind == "notready":
		st.needRefresh = true
		st.signal()
		return balancer.PickResult{SubConn: p.b.idleSC, Done: done}, nil
	case kind == "nosc":
		st.needRefresh = true
		st.signal()
		return balancer.PickResult{}, balancer.ErrNoSubConnAvailable
	case kind == "hang":
		return balancer.PickResult{}, balancer.ErrNoSubConnAvailable
	case strings.HasPrefix(kind, "drop"):
		c, _ := strconv.Atoi(kind[4:])
		return balancer.PickResult{}, status.Error(codes.Code(c), "scripted drop")
	}
	panic("bad pick kind " + kind)
}

func (st *pdState) drain() string {
	st.mu.Lock()
	defer st.mu.Unlock()
	if len(st.events) == 0 {
		return "-"
	}
	r := strings.Join(st.events, ",")
	st.events = nil
	return r
}

type pickdoneC struct {
	env     *retryEnv
	st      *pdState
	blocked bool
}

func (c *pickdoneC) Op(f []string) string {
	switch f[0] {
	case "cfg":
		if c.env != nil {
			return "already-configured"
		}
		m := kv(f[1:])
		c.st = &pdState{}
		if p := m["picks"]; p != "-" && p != "" {
			c.st.script = strings.Split(p, ",")
		}
		curPD = c.st
		var dopts []grpc.DialOption
		if m["chan"] != "0" {
			dopts = append(dopts, grpc.WithMaxCallAttempts(mustInt(m["chan"])))
		}
		if m["dis"] == "1" {
			dopts = append(dopts, grpc.WithDisableRetry())
		}
		var copts []grpc.CallOption
		if cr := parseNS(m["ns"]); cr != nil {
			copts = append(copts, grpc.PerRPCCredentials(cr))
		}
		c.env = newRetryEnv(parseScript(m["script"]), retryServiceConfig(m, pdName), dopts, m["kind"], copts)
		c.st.signal = c.env.srv.signal
		c.st.cancelRPC = c.env.cancel
		c.env.extraReact = func() bool {
			c.st.mu.Lock()
			need := c.st.needRefresh
			c.st.needRefresh = false
			b := c.st.bal
			c.st.mu.Unlock()
			if need && b != nil {
				b.refresh()
				return true
			}
			return false
		}
		return "ok"
	}
	if c.env == nil {
		return "not-configured"
	}
	if f[0] == "cancel" {
		// allowed even while an earlier op is blocked: its result is reported as pending=
		r := c.env.opCancel()
		if c.blocked {
			select {
			case p := <-c.env.pending:
				c.blocked = false
				r += " pending=" + strings.ReplaceAll(p, " ", "_")
			default:
				r += " pending=none"
			}
		}
		return r + " pk=" + c.st.drain()
	}
	if c.blocked {
		return "skipped"
	}
	var r string
	switch f[0] {
	case "new":
		if len(f) > 1 && f[1] != "d" {
			r = c.env.opNew("/s/m", grpc.MaxRetryRPCBufferSize(mustInt(f[1])))
		} else {
			r = c.env.opNew("/s/m")
		}
	case "send":
		r = c.env.opSend(mustInt(f[1]))
	case "close":
		r = c.env.opCloseSend()
	case "recv":
		r = c.env.opRecv()
	case "hdr":
		r = c.env.opHeader()
	default:
		return "bad-op"
	}
	if strings.HasPrefix(r, "blocked") || strings.HasPrefix(r, "PANIC") {
		c.blocked = true
	}
	return r + " pk=" + c.st.drain()
}

func (c *pickdoneC) Close() {
	if c.env != nil {
		c.env.close()
	}
	curPD = nil
}
