package synct

// component s_deadline (C22): a REAL grpc client (grpc.NewClient) and a REAL grpc server over
// bufconn inside the bubble. One RPC is parked, by construction, at one of the blocking points of
// the client path; then its context is cancelled or its deadline passes at a chosen virtual
// instant.
//
//	start <scenario>      pick    no READY subchannel (the dialer never returns)      → pickerWrapper.pick
//	                      squota  MaxConcurrentStreams(1) held by another RPC          → http2Client.NewStream
//	                      wquota  streaming, 200 kB sent into a 64 kB window, 2nd Send → writeQuota.get
//	                      window  streaming, 200 kB stalled on the window, then Recv   → recvBufferReader (client)
//	                      header  unary, silent server                                 → ClientStream.waitOnHeader
//	                      recv    unary, server sent headers, then silent              → recvBufferReader (client)
//	                      recvbody unary, a scripted raw HTTP/2 server answers with response HEADERS and a DATA frame
//	                              holding a message header that announces 100 bytes followed by only 10, then stalls
//	                                                                                    → recvBufferReader.readClient
//	                      app     the application drives a stream it made with cc.NewStream itself (ops new/send/recv)
//	rpc <timeout ns|0>    start the RPC (context.WithTimeout if > 0)  → `at:<where>` | client events
//	new <c> <s> <h> <timeout>   (scenario app) cc.NewStream with StreamDesc{ClientStreams: c, ServerStreams: s} (0|1),
//	                      to the handler that sends headers first (h=1) or stays silent (h=0) → ok | client events
//	send <n>              (app) SendMsg of n bytes → snd@<t>:ok|eof|<code>, or `at:wquota` if it parks
//	recv                  (app) RecvMsg → ret@<t>:<code>, or `at:header|recv` if it parks
//	cancel                cancel the RPC's context                     → client events
//	adv <ns>              sleep                                        → client events
//	srv                   → server-side events since the last `srv`
//
// client events:  ret@<t>:<code>     the RPC returned at virtual instant t with status code
// `at:<where>`:   where the RPC goroutine is parked (read off its stack): pick|newstream|wquota|header|recv|recvbody
//                 (recv = waiting for a message to begin, readMessageHeaderClient; recvbody = in the middle of one, readClient)
// server events:  h@<t>:<deadline ns since start | none>   handler started, its ctx deadline
//                 x@<t>:<DeadlineExceeded|Canceled>         handler's ctx was done at t
//
// All instants are ns since `start`.

import (
	"bytes"
	"context"
	"errors"
	"fmt"
	"io"
	"net"
	"runtime"
	"strings"
	"sync"
	"time"

	"golang.org/x/net/http2"
	"golang.org/x/net/http2/hpack"
	"google.golang.org/grpc"
	"google.golang.org/grpc/credentials/insecure"
	"google.golang.org/grpc/status"
	"google.golang.org/grpc/test/bufconn"
)

type dlRawCodec struct{}

func (dlRawCodec) Marshal(v any) ([]byte, error) { return *(v.(*[]byte)), nil }
func (dlRawCodec) Unmarshal(d []byte, v any) error {
	*(v.(*[]byte)) = append([]byte(nil), d...)
	return nil
}
func (dlRawCodec) Name() string { return "verifraw" }

type deadline struct {
	scenario string
	cli      kaEvlog // client events
	srvLog   kaEvlog
	lis      *bufconn.Listener
	srv      *grpc.Server
	cc       *grpc.ClientConn
	serveWG  sync.WaitGroup
	release  chan struct{} // closes at Close: unblocks the never-returning dialer
	bcancel  context.CancelFunc
	bdone    chan struct{}
	rcancel  context.CancelFunc
	rdone    chan struct{}
	started  bool
	rpcUsed  bool
	stream   grpc.ClientStream
	calldone chan struct{} // closed when the application's current SendMsg/RecvMsg has returned
	finished bool          // RecvMsg returned the final status
}

func init() {
	register("s_deadline", func() SHandler { return &deadline{} })
}

func (d *deadline) handler(_ any, ss grpc.ServerStream) error {
	method, _ := grpc.MethodFromServerStream(ss)
	ctx := ss.Context()
	log := method != "/v/blocker"
	if log {
		if dl, ok := ctx.Deadline(); ok {
			d.srvLog.add(fmt.Sprintf("h:%d", int64(dl.Sub(d.srvLog.t0))))
		} else {
			d.srvLog.add("h:none")
		}
	}
	if method == "/v/hdr" {
		ss.SendHeader(nil)
	}
	<-ctx.Done()
	if log {
		switch ctx.Err() {
		case context.DeadlineExceeded:
			d.srvLog.add("x:DeadlineExceeded")
		case context.Canceled:
			d.srvLog.add("x:Canceled")
		default:
			d.srvLog.add("x:other")
		}
	}
	return status.FromContextError(ctx.Err()).Err()
}

// dlRawPeer is a scripted HTTP/2 server: handshake, then every request is answered with response HEADERS and
// one DATA frame that holds a gRPC message header announcing 100 bytes followed by 10 bytes; nothing more.
func dlRawPeer(c net.Conn) {
	defer c.Close()
	pre := make([]byte, len(http2.ClientPreface))
	if _, err := io.ReadFull(c, pre); err != nil {
		return
	}
	fr := http2.NewFramer(c, c)
	if fr.WriteSettings() != nil {
		return
	}
	var hbuf bytes.Buffer
	enc := hpack.NewEncoder(&hbuf)
	for {
		f, err := fr.ReadFrame()
		if err != nil {
			return
		}
		switch x := f.(type) {
		case *http2.SettingsFrame:
			if !x.IsAck() {
				fr.WriteSettingsAck()
			}
		case *http2.PingFrame:
			if !x.IsAck() {
				fr.WritePing(true, x.Data)
			}
		case *http2.HeadersFrame:
			hbuf.Reset()
			enc.WriteField(hpack.HeaderField{Name: ":status", Value: "200"})
			enc.WriteField(hpack.HeaderField{Name: "content-type", Value: "application/grpc"})
			fr.WriteHeaders(http2.HeadersFrameParam{StreamID: x.StreamID, BlockFragment: hbuf.Bytes(), EndHeaders: true})
			fr.WriteData(x.StreamID, false, append([]byte{0, 0, 0, 0, 100}, make([]byte, 10)...))
		}
	}
}

// render turns "k:v@t" into "k@t:v".
func dlRender(s string) string {
	if s == "-" {
		return s
	}
	parts := strings.Fields(s)
	for i, p := range parts {
		kv, t, _ := strings.Cut(p, "@")
		k, v, _ := strings.Cut(kv, ":")
		parts[i] = k + "@" + t + ":" + v
	}
	return strings.Join(parts, " ")
}

func (d *deadline) start(f []string) string {
	if d.started || len(f) != 2 {
		return "bad-op"
	}
	switch f[1] {
	case "pick", "squota", "wquota", "window", "header", "recv", "app", "recvbody":
	default:
		return "bad-op"
	}
	d.started = true
	d.scenario = f[1]
	now := time.Now()
	d.cli.t0, d.srvLog.t0 = now, now
	d.release = make(chan struct{})
	d.lis = bufconn.Listen(1 << 20)
	opts := []grpc.ServerOption{grpc.UnknownServiceHandler(d.handler), grpc.ForceServerCodec(dlRawCodec{}),
		grpc.InitialWindowSize(65535), grpc.InitialConnWindowSize(65535)}
	if d.scenario == "squota" {
		opts = append(opts, grpc.MaxConcurrentStreams(1))
	}
	if d.scenario == "recvbody" {
		d.serveWG.Add(1)
		go func() {
			defer d.serveWG.Done()
			for {
				c, err := d.lis.Accept()
				if err != nil {
					return
				}
				d.serveWG.Add(1)
				go func() { defer d.serveWG.Done(); dlRawPeer(c) }()
			}
		}()
	} else {
		d.srv = grpc.NewServer(opts...)
		d.serveWG.Add(1)
		go func() { defer d.serveWG.Done(); d.srv.Serve(d.lis) }()
	}
	dialer := func(ctx context.Context, _ string) (net.Conn, error) {
		if d.scenario == "pick" {
			select {
			case <-ctx.Done():
				return nil, ctx.Err()
			case <-d.release:
				return nil, errors.New("verif: case over")
			}
		}
		return d.lis.DialContext(ctx)
	}
	var err error
	d.cc, err = grpc.NewClient("passthrough:///buf", grpc.WithContextDialer(dialer),
		grpc.WithTransportCredentials(insecure.NewCredentials()),
		grpc.WithDefaultCallOptions(grpc.ForceCodec(dlRawCodec{})))
	if err != nil {
		return "start-failed " + err.Error()
	}
	d.cc.Connect()
	settle()
	if d.scenario == "squota" {
		// the stream that holds the only slot
		bctx, bcancel := context.WithCancel(context.Background())
		d.bcancel = bcancel
		d.bdone = make(chan struct{})
		go func() {
			defer close(d.bdone)
			var in, out []byte
			d.cc.Invoke(bctx, "/v/blocker", &in, &out)
		}()
		settle()
	}
	return "ok"
}

//go:noinline
func (d *deadline) dlRPCBody(ctx context.Context) error {
	big := make([]byte, 200000)
	one := []byte{1}
	var in, out []byte
	switch d.scenario {
	case "pick":
		// wait-for-ready: the RPC stays in pick also after the connection attempt times out (TRANSIENT_FAILURE)
		return d.cc.Invoke(ctx, "/v/silent", &in, &out, grpc.WaitForReady(true))
	case "squota", "header":
		return d.cc.Invoke(ctx, "/v/silent", &in, &out)
	case "recv":
		return d.cc.Invoke(ctx, "/v/hdr", &in, &out)
	case "recvbody":
		return d.cc.Invoke(ctx, "/v/partial", &in, &out)
	}
	method := "/v/silent"
	if d.scenario == "window" {
		method = "/v/hdr"
	}
	st, err := d.cc.NewStream(ctx, &grpc.StreamDesc{ClientStreams: true, ServerStreams: true}, method)
	if err != nil {
		return err
	}
	err = st.SendMsg(&big)
	if err == nil && d.scenario == "wquota" {
		err = st.SendMsg(&one)
	}
	if err == nil || err == io.EOF {
		err = st.RecvMsg(&out)
	}
	return err
}

//go:noinline
func (d *deadline) dlRPCBodyNew(ctx context.Context, desc *grpc.StreamDesc, method string) (grpc.ClientStream, error) {
	return d.cc.NewStream(ctx, desc, method)
}

//go:noinline
func (d *deadline) dlRPCBodyCall(isSend bool, n int) {
	if isSend {
		buf := make([]byte, n)
		switch err := d.stream.SendMsg(&buf); {
		case err == nil:
			d.cli.add("snd:ok")
		case err == io.EOF:
			d.cli.add("snd:eof")
		default:
			d.cli.add(fmt.Sprintf("snd:%d", uint32(status.Code(err))))
		}
		return
	}
	var out []byte
	err := d.stream.RecvMsg(&out)
	if err == nil {
		d.cli.add("rcv:msg")
		return
	}
	d.finished = true
	d.cli.add(fmt.Sprintf("ret:%d", uint32(status.Code(err))))
}

// where reads the parking place of the RPC goroutine off its stack.
func dlWhere() string {
	buf := make([]byte, 1<<20)
	buf = buf[:runtime.Stack(buf, true)]
	for _, g := range strings.Split(string(buf), "\n\n") {
		if !strings.Contains(g, "dlRPCBody") {
			continue
		}
		for _, p := range [][2]string{
			{"(*pickerWrapper).pick", "pick"},
			{"(*writeQuota).get", "wquota"},
			{"(*http2Client).NewStream", "newstream"},
			{"(*ClientStream).waitOnHeader", "header"},
			{"(*recvBufferReader).readMessageHeaderClient", "recv"},
			{"(*recvBufferReader).readClient", "recvbody"},
		} {
			if strings.Contains(g, p[0]) {
				return p[1]
			}
		}
		return "elsewhere"
	}
	return "gone"
}

func (d *deadline) Op(f []string) string {
	if f[0] == "start" {
		return d.start(f)
	}
	if !d.started {
		return "bad-op"
	}
	switch f[0] {
	case "rpc":
		if len(f) != 2 || d.rpcUsed || kaAtoi(f[1]) < 0 || d.scenario == "app" {
			return "bad-op"
		}
		d.rpcUsed = true
		to := kaAtoi(f[1])
		ctx, cancel := context.WithCancel(context.Background())
		if to > 0 {
			var c2 context.CancelFunc
			ctx, c2 = context.WithTimeout(ctx, time.Duration(to))
			_ = c2
		}
		d.rcancel = cancel
		d.rdone = make(chan struct{})
		go func() {
			defer close(d.rdone)
			err := d.dlRPCBody(ctx)
			d.cli.add(fmt.Sprintf("ret:%d", uint32(status.Code(err))))
		}()
		settle()
		if ev := d.cli.take(); ev != "-" {
			return dlRender(ev)
		}
		return "at:" + dlWhere()
	case "new":
		if len(f) != 5 || d.scenario != "app" || d.rpcUsed || kaAtoi(f[4]) < 0 {
			return "bad-op"
		}
		for _, b := range f[1:4] {
			if b != "0" && b != "1" {
				return "bad-op"
			}
		}
		d.rpcUsed = true
		to := kaAtoi(f[4])
		ctx, cancel := context.WithCancel(context.Background())
		if to > 0 {
			var c2 context.CancelFunc
			ctx, c2 = context.WithTimeout(ctx, time.Duration(to))
			_ = c2
		}
		d.rcancel = cancel
		method := "/v/silent"
		if f[3] == "1" {
			method = "/v/hdr"
		}
		desc := &grpc.StreamDesc{ClientStreams: f[1] == "1", ServerStreams: f[2] == "1"}
		done := make(chan struct{})
		d.rdone = done
		go func() {
			defer close(done)
			st, err := d.dlRPCBodyNew(ctx, desc, method)
			if err != nil {
				d.cli.add(fmt.Sprintf("ret:%d", uint32(status.Code(err))))
				return
			}
			d.stream = st
		}()
		settle()
		if d.stream == nil {
			return dlRender(d.cli.take())
		}
		d.calldone = make(chan struct{})
		close(d.calldone)
		return "ok"
	case "send", "recv":
		if d.stream == nil || d.finished {
			return "bad-op"
		}
		select {
		case <-d.calldone:
		default:
			return "bad-op" // a call is still parked
		}
		var n int64
		if f[0] == "send" {
			if len(f) != 2 || kaAtoi(f[1]) < 0 {
				return "bad-op"
			}
			n = kaAtoi(f[1])
		} else if len(f) != 1 {
			return "bad-op"
		}
		cd := make(chan struct{})
		d.calldone = cd
		d.rdone = cd
		isSend := f[0] == "send"
		go func() {
			defer close(cd)
			d.dlRPCBodyCall(isSend, int(n))
		}()
		settle()
		if ev := d.cli.take(); ev != "-" {
			return dlRender(ev)
		}
		return "at:" + dlWhere()
	case "cancel":
		if len(f) != 1 || d.rcancel == nil {
			return "bad-op"
		}
		d.rcancel()
		settle()
		return dlRender(d.cli.take())
	case "adv":
		if len(f) != 2 || kaAtoi(f[1]) < 0 {
			return "bad-op"
		}
		time.Sleep(time.Duration(kaAtoi(f[1])))
		settle()
		return dlRender(d.cli.take())
	case "srv":
		if len(f) != 1 {
			return "bad-op"
		}
		return dlRender(d.srvLog.take())
	}
	return "bad-op"
}

func (d *deadline) Close() {
	if !d.started {
		return
	}
	if d.rcancel != nil {
		d.rcancel()
	}
	if d.bcancel != nil {
		d.bcancel()
	}
	close(d.release)
	// closing the channel ends every RPC even if (in a mutated tree) it ignored its context
	d.cc.Close()
	if d.rdone != nil {
		<-d.rdone
	}
	if d.bdone != nil {
		<-d.bdone
	}
	if d.srv != nil {
		d.srv.Stop()
	}
	d.lis.Close()
	d.serveWG.Wait()
}
