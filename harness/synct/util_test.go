package synct

import "fmt"

// atoi64s parses a decimal int64 (shared by several components).
func atoi64s(s string) int64 {
	var v int64
	if _, err := fmt.Sscan(s, &v); err != nil {
		panic("bad int " + s)
	}
	return v
}
