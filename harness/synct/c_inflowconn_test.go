package synct

import (
	"bytes"
	"context"
	"errors"
	"fmt"
	"io"
	"net"
	"sort"
	"strconv"
	"strings"
	"sync"
	"time"

	"golang.org/x/net/http2"
	"golang.org/x/net/http2/hpack"
	"google.golang.org/grpc/internal/transport"
	"google.golang.org/grpc/mem"
	"google.golang.org/grpc/resolver"
)

// component s_inflowconn (C04, T2): a real http2Client (dynamic window, i.e. BDP estimation on)
// over net.Pipe against a scripted HTTP/2 server inside the bubble. The server does exactly what
// the ops say (it may or may not respect flow control) and records every frame the client sends.
//
//	conn <k>                 (first op) connect; the server's SETTINGS carry MAX_CONCURRENT_STREAMS=k
//	new <w>                  goroutine w calls NewStream (may queue on the stream quota)
//	sdata <w> <len> <pad|->  the server sends a DATA frame on w's stream: <len> payload bytes, and if
//	                         <pad> is a number the PADDED flag with <pad> bytes of padding
//	                         (flow-controlled size = len, or 1+len+pad)
//	read <w> <n>             the application reads n bytes from w's stream (ClientStream.Read(n)) on its
//	                         own goroutine; a read that cannot finish yet stays pending
//	pingack                  the server acknowledges the client's outstanding (BDP) ping
//	sclose <w>               the server ends w's stream with trailers
//	sleep <ms>               virtual time passes
//
// Output: ev=<frames the server received during the op, in order: H<sid> S<iws> W<sid>:<inc>
// R<sid>:<code> P (ping) G (goaway)> new=<w:sid created during the op> rd=<w:ok|w:err reads finished
// during the op> pend=<w with a pending read> | iws=<t.initialWindowSize>
// conn=<t.fc.limit>,<t.fc.unacked> st=<sid:limit,pendingData,pendingUpdate,delta;…>
type inflowconnH struct {
	ct     transport.ClientTransport
	cancel context.CancelFunc
	srv    net.Conn
	fr     *http2.Framer
	wmu    sync.Mutex
	srvWG  sync.WaitGroup

	mu      sync.Mutex
	ev      []string
	ping    *[8]byte
	workers map[int]*ifcWorker
	newDone []string
	rdDone  []string
	wg      sync.WaitGroup
}

type ifcWorker struct {
	cancel  context.CancelFunc
	stream  *transport.ClientStream
	sid     uint32
	hdrSent bool
	reading bool
}

func init() {
	register("s_inflowconn", func() SHandler { return &inflowconnH{workers: map[int]*ifcWorker{}} })
}

func (h *inflowconnH) note(s string) {
	h.mu.Lock()
	h.ev = append(h.ev, s)
	h.mu.Unlock()
}

func (h *inflowconnH) connect(k uint32) {
	cli, srv := net.Pipe()
	h.srv = srv
	h.srvWG.Add(1)
	ready := make(chan struct{})
	go func() {
		defer h.srvWG.Done()
		preface := make([]byte, len(http2.ClientPreface))
		if _, err := io.ReadFull(srv, preface); err != nil {
			close(ready)
			return
		}
		h.fr = http2.NewFramer(srv, srv)
		h.wmu.Lock()
		h.fr.WriteSettings(http2.Setting{ID: http2.SettingMaxConcurrentStreams, Val: k})
		h.wmu.Unlock()
		close(ready)
		for {
			f, err := h.fr.ReadFrame()
			if err != nil {
				return
			}
			switch f := f.(type) {
			case *http2.SettingsFrame:
				if f.IsAck() {
					continue
				}
				if v, ok := f.Value(http2.SettingInitialWindowSize); ok {
					h.note("S" + strconv.FormatUint(uint64(v), 10))
				}
				h.wmu.Lock()
				h.fr.WriteSettingsAck()
				h.wmu.Unlock()
			case *http2.WindowUpdateFrame:
				h.note(fmt.Sprintf("W%d:%d", f.StreamID, f.Increment))
			case *http2.RSTStreamFrame:
				h.note(fmt.Sprintf("R%d:%d", f.StreamID, uint32(f.ErrCode)))
			case *http2.HeadersFrame:
				h.note(fmt.Sprintf("H%d", f.StreamID))
			case *http2.PingFrame:
				if !f.IsAck() {
					d := f.Data
					h.mu.Lock()
					h.ping = &d
					h.ev = append(h.ev, "P")
					h.mu.Unlock()
				}
			case *http2.GoAwayFrame:
				h.note("G")
			}
		}
	}()
	ctx, cancel := context.WithCancel(context.Background())
	h.cancel = cancel
	ct, err := transport.NewHTTP2Client(ctx, ctx, resolver.Address{Addr: "verif"}, transport.ConnectOptions{
		Dialer:     func(context.Context, string) (net.Conn, error) { return cli, nil },
		BufferPool: mem.NewTieredBufferPool(256, 4<<10, 16<<10, 32<<10, 1<<20), // per case (bubble)
	}, func(transport.GoAwayInfo) {})
	if err != nil {
		panic("NewHTTP2Client: " + err.Error())
	}
	h.ct = ct
	<-ready
	settle()
}

func (h *inflowconnH) status() string {
	settle()
	iws, cl, cu, sts := transport.VerifClientInflow(h.ct)
	settle()
	h.mu.Lock()
	defer h.mu.Unlock()
	var pend []int
	for w, c := range h.workers {
		if c.reading {
			pend = append(pend, w)
		}
	}
	sort.Ints(pend)
	ps := make([]string, len(pend))
	for i, w := range pend {
		ps[i] = strconv.Itoa(w)
	}
	ss := make([]string, len(sts))
	for i, s := range sts {
		ss[i] = fmt.Sprintf("%d:%d,%d,%d,%d", s.ID, s.Limit, s.PendingData, s.PendingUpdate, s.Delta)
	}
	sort.Strings(h.newDone)
	sort.Strings(h.rdDone)
	out := fmt.Sprintf("ev=%s new=%s rd=%s pend=%s | iws=%d conn=%d,%d st=%s", joinOrDash(h.ev), joinOrDash(h.newDone),
		joinOrDash(h.rdDone), joinOrDash(ps), iws, cl, cu, strings.Join(ss, ";"))
	if len(ss) == 0 {
		out += "-"
	}
	h.ev, h.newDone, h.rdDone = nil, nil, nil
	return out
}

func (h *inflowconnH) Op(f []string) string {
	if f[0] == "conn" {
		if h.ct != nil {
			return "bad-op already connected"
		}
		h.connect(uint32(atoiS(f[1])))
		return h.status()
	}
	if h.ct == nil {
		h.connect(100)
	}
	switch f[0] {
	case "new":
		w := atoiS(f[1])
		h.mu.Lock()
		if _, dup := h.workers[w]; dup {
			h.mu.Unlock()
			return "dup " + h.status()
		}
		ctx, cancel := context.WithCancel(context.Background())
		c := &ifcWorker{cancel: cancel}
		h.workers[w] = c
		h.mu.Unlock()
		h.wg.Add(1)
		go func() {
			defer h.wg.Done()
			s, err := h.ct.NewStream(ctx, &transport.CallHdr{Host: "verif", Method: "/v/m"}, nil)
			h.mu.Lock()
			defer h.mu.Unlock()
			if err != nil {
				h.newDone = append(h.newDone, fmt.Sprintf("%d:fail", w))
				return
			}
			c.stream = s
			c.sid = transport.VerifClientStreamID(s)
			h.newDone = append(h.newDone, fmt.Sprintf("%d:%d", w, c.sid))
		}()
	case "sdata", "sclose":
		w := atoiS(f[1])
		h.mu.Lock()
		c := h.workers[w]
		var sid uint32
		needHdr := false
		if c != nil && c.sid != 0 {
			sid = c.sid
			needHdr = !c.hdrSent
			c.hdrSent = true
		}
		h.mu.Unlock()
		if sid == 0 {
			return "nosid " + h.status()
		}
		var hb bytes.Buffer
		enc := hpack.NewEncoder(&hb)
		h.wmu.Lock()
		if needHdr {
			enc.WriteField(hpack.HeaderField{Name: ":status", Value: "200"})
			enc.WriteField(hpack.HeaderField{Name: "content-type", Value: "application/grpc"})
			h.fr.WriteHeaders(http2.HeadersFrameParam{StreamID: sid, BlockFragment: hb.Bytes(), EndHeaders: true})
			hb.Reset()
		}
		if f[0] == "sdata" {
			data := make([]byte, atoiS(f[2]))
			if f[3] == "-" {
				h.fr.WriteData(sid, false, data)
			} else {
				h.fr.WriteDataPadded(sid, false, data, make([]byte, atoiS(f[3])))
			}
		} else {
			enc.WriteField(hpack.HeaderField{Name: "grpc-status", Value: "0"})
			h.fr.WriteHeaders(http2.HeadersFrameParam{StreamID: sid, BlockFragment: hb.Bytes(), EndHeaders: true, EndStream: true})
		}
		h.wmu.Unlock()
	case "read":
		w, n := atoiS(f[1]), atoiS(f[2])
		h.mu.Lock()
		c := h.workers[w]
		if c == nil || c.stream == nil {
			h.mu.Unlock()
			return "nosid " + h.status()
		}
		if c.reading {
			h.mu.Unlock()
			return "busy " + h.status()
		}
		c.reading = true
		h.mu.Unlock()
		h.wg.Add(1)
		go func() {
			defer h.wg.Done()
			bs, err := c.stream.Read(n)
			res := "ok"
			if err != nil {
				res = "err"
			} else {
				bs.Free()
			}
			h.mu.Lock()
			c.reading = false
			h.rdDone = append(h.rdDone, fmt.Sprintf("%d:%s", w, res))
			h.mu.Unlock()
		}()
	case "pingack":
		h.mu.Lock()
		p := h.ping
		h.ping = nil
		h.mu.Unlock()
		if p == nil {
			return "noping " + h.status()
		}
		h.wmu.Lock()
		h.fr.WritePing(true, *p)
		h.wmu.Unlock()
	case "sleep":
		time.Sleep(time.Duration(atoiS(f[1])) * time.Millisecond)
	default:
		return "bad-op"
	}
	return "done " + h.status()
}

func (h *inflowconnH) Close() {
	if h.ct == nil {
		return
	}
	h.mu.Lock()
	for _, c := range h.workers {
		c.cancel()
	}
	h.mu.Unlock()
	h.ct.Close(errors.New("verif: end of case"))
	h.cancel()
	h.srv.Close()
	h.wg.Wait()
	h.srvWG.Wait()
}
