package synct

import (
	"errors"
	"fmt"
	"sort"
	"strings"
	"sync"

	"google.golang.org/grpc/balancer"
	"google.golang.org/grpc/balancer/endpointsharding"
	"google.golang.org/grpc/connectivity"
	"google.golang.org/grpc/experimental/stats"
	"google.golang.org/grpc/internal"
	istats "google.golang.org/grpc/internal/stats"
	"google.golang.org/grpc/resolver"
)

// component s_epshard (C35): the real endpointsharding balancer, stub children, recording ClientConn.
// Ops and answers: see lean/GrpcModel/Driver/S_epshard.lean.

type epCall struct {
	kind string // b u x re ei
	id   int
}

type epEntry struct {
	report string // state letter or "-"
	err    bool
}

type epHarness struct {
	bal     balancer.Balancer
	restore func()
	r       int
	mu      sync.Mutex // guards calls: `go es.exitIdle()` goroutines call the stubs concurrently
	calls   []epCall
	script  map[string]epEntry // endpoint name -> behaviour of its child during the running update
	kids    map[int]*epChild
	byEp    map[string]int // endpoint name -> id of the child built last for it
	serial  int
	pushed  *balancer.State
	lastPk  balancer.Picker
	oldPks  []balancer.Picker // superseded pickers, most recently superseded first
	picked  string
}

type epChild struct {
	h  *epHarness
	id int
	ep string
	cc balancer.ClientConn
}

type epPicker struct {
	h  *epHarness
	id int
}

func (p *epPicker) Pick(balancer.PickInfo) (balancer.PickResult, error) {
	p.h.picked = fmt.Sprintf("c%d", p.id)
	return balancer.PickResult{}, balancer.ErrNoSubConnAvailable
}

func (c *epChild) report(s connectivity.State, withPicker bool) {
	st := balancer.State{ConnectivityState: s}
	if withPicker {
		st.Picker = &epPicker{h: c.h, id: c.id}
	}
	c.cc.UpdateState(st)
}

func (c *epChild) UpdateClientConnState(s balancer.ClientConnState) error {
	c.h.rec("u", c.id)
	if len(s.ResolverState.Endpoints) != 1 {
		panic("child got != 1 endpoint")
	}
	c.ep = s.ResolverState.Endpoints[0].Addresses[0].Addr
	c.h.byEp[c.ep] = c.id
	e := c.h.script[c.ep]
	if e.report != "-" && e.report != "" {
		c.report(lbState(e.report), true)
	}
	if e.err {
		return fmt.Errorf("c%d", c.id)
	}
	return nil
}
func (c *epChild) ResolverError(error) { c.h.rec("re", c.id) }
func (c *epChild) UpdateSubConnState(balancer.SubConn, balancer.SubConnState) {}
func (c *epChild) Close()    { c.h.rec("x", c.id) }
func (c *epChild) ExitIdle() { c.h.rec("ei", c.id) }

// recording ClientConn
type epCC struct {
	internal.EnforceClientConnEmbedding
	h *epHarness
}

func (cc *epCC) NewSubConn([]resolver.Address, balancer.NewSubConnOptions) (balancer.SubConn, error) {
	return nil, errors.New("unused")
}
func (cc *epCC) RemoveSubConn(balancer.SubConn)                          {}
func (cc *epCC) UpdateAddresses(balancer.SubConn, []resolver.Address)    {}
func (cc *epCC) ResolveNow(resolver.ResolveNowOptions)                   {}
func (cc *epCC) Target() string                                          { return "verif" }
func (cc *epCC) MetricsRecorder() stats.MetricsRecorder                  { return istats.NewMetricsRecorderList(nil) }
func (cc *epCC) UpdateState(s balancer.State) {
	if cc.h.lastPk != nil {
		cc.h.oldPks = append([]balancer.Picker{cc.h.lastPk}, cc.h.oldPks...) // superseded, possibly still in use
	}
	cc.h.pushed = &s
	cc.h.lastPk = s.Picker
}

func (h *epHarness) rec(kind string, id int) {
	h.mu.Lock()
	h.calls = append(h.calls, epCall{kind, id})
	h.mu.Unlock()
}

func init() {
	register("s_epshard", func() SHandler { return &epHarness{} })
}

func (h *epHarness) Close() {
	if h.bal != nil {
		h.bal.Close()
	}
	if h.restore != nil {
		h.restore()
	}
}

func epCanon(calls []epCall) string {
	var ord, rest []epCall
	for _, c := range calls {
		if c.kind == "b" || c.kind == "u" {
			ord = append(ord, c)
		} else {
			rest = append(rest, c)
		}
	}
	rank := map[string]int{"x": 1, "re": 2, "ei": 3}
	sort.SliceStable(rest, func(i, j int) bool {
		if rank[rest[i].kind] != rank[rest[j].kind] {
			return rank[rest[i].kind] < rank[rest[j].kind]
		}
		return rest[i].id < rest[j].id
	})
	var out []string
	for _, c := range append(ord, rest...) {
		out = append(out, fmt.Sprintf("%s%d", c.kind, c.id))
	}
	return lbJoin(out)
}

func (h *epHarness) showPush() string {
	if h.pushed == nil {
		return "-"
	}
	st := *h.pushed
	h.pushed = nil
	type cs struct {
		id int
		s  string
	}
	var css []cs
	for _, c := range endpointsharding.ChildStatesFromPicker(st.Picker) {
		ep := c.Endpoint.Addresses[0].Addr
		id := h.byEp[ep]
		pk := "-"
		if c.State.Picker != nil {
			pk = "+"
			if sp, ok := c.State.Picker.(*epPicker); !ok || sp.id != id {
				pk = "?"
			}
		}
		css = append(css, cs{id, fmt.Sprintf("c%d@%s:%s%s", id, ep, lbLetter(c.State.ConnectivityState), pk)})
	}
	sort.Slice(css, func(i, j int) bool { return css[i].id < css[j].id })
	var cl []string
	for _, c := range css {
		cl = append(cl, c.s)
	}
	pickers, next, ok := endpointsharding.VerifPickerInternals(st.Picker)
	if !ok {
		return lbLetter(st.ConnectivityState) + ";" + lbJoin(cl) + ";?;0"
	}
	var pl []string
	for _, p := range pickers {
		switch v := p.(type) {
		case nil:
			pl = append(pl, "nil")
		case *epPicker:
			pl = append(pl, fmt.Sprintf("c%d", v.id))
		default:
			pl = append(pl, "err")
		}
	}
	return fmt.Sprintf("%s;%s;%s;%d", lbLetter(st.ConnectivityState), lbJoin(cl), lbJoin(pl), next)
}

func (h *epHarness) pickOnce() (out string) { return h.pickOn(h.lastPk) }

func (h *epHarness) pickOn(pk balancer.Picker) (out string) {
	defer func() {
		if r := recover(); r != nil {
			out = "nil" // Pick on the nil Picker of a child that never reported
		}
	}()
	h.picked = ""
	_, err := pk.Pick(balancer.PickInfo{})
	if h.picked != "" {
		return h.picked
	}
	if err != nil && strings.Contains(err.Error(), "no children to pick from") {
		return "err"
	}
	return fmt.Sprintf("?%v", err)
}

func (h *epHarness) Op(f []string) string {
	if f[0] == "new" {
		if h.bal != nil {
			return "bad-op"
		}
		h.kids = map[int]*epChild{}
		h.byEp = map[string]int{}
		h.script = map[string]epEntry{}
		h.restore = endpointsharding.VerifSetRandIntN(func(n int) int { return h.r % n })
		builder := func(cc balancer.ClientConn, _ balancer.BuildOptions) balancer.Balancer {
			h.serial++
			c := &epChild{h: h, id: h.serial, cc: cc}
			h.kids[c.id] = c
			h.rec("b", c.id)
			return c
		}
		h.bal = endpointsharding.NewBalancer(&epCC{h: h}, balancer.BuildOptions{}, builder, endpointsharding.Options{DisableAutoReconnect: f[1] == "1"})
		return "ok"
	}
	if h.bal == nil {
		return "bad-op"
	}
	h.calls = nil
	errs := "nil"
	finish := func() string {
		settle() // join the `go es.exitIdle()` goroutines (they may also have run before the op returned)
		h.mu.Lock()
		all := epCanon(h.calls)
		h.calls = nil
		h.mu.Unlock()
		return fmt.Sprintf("calls=%s err=%s push=%s", all, errs, h.showPush())
	}
	switch f[0] {
	case "update":
		h.r = lbAtoi(f[1])
		var eps []resolver.Endpoint
		h.script = map[string]epEntry{}
		if f[2] != "-" {
			for _, e := range strings.Split(f[2], ",") {
				name := "e" + strings.Split(e, "/")[0]
				eps = append(eps, resolver.Endpoint{Addresses: []resolver.Address{{Addr: name}}})
			}
			// script: behaviour of the first occurrence of each endpoint in the rotated order
			n := len(eps)
			parts := strings.Split(f[2], ",")
			rot := h.r % n
			for k := 0; k < n; k++ {
				p := strings.Split(parts[(rot+k)%n], "/")
				name := "e" + p[0]
				if _, dup := h.script[name]; !dup {
					h.script[name] = epEntry{report: p[1], err: p[2] == "1"}
				}
			}
		}
		err := h.bal.UpdateClientConnState(balancer.ClientConnState{ResolverState: resolver.State{Endpoints: eps}})
		if err == balancer.ErrBadResolverState {
			errs = "bad"
		} else if err != nil {
			errs = err.Error()
		}
		return finish()
	case "cs":
		c := h.kids[lbAtoi(f[1])]
		if c == nil {
			return "bad-op"
		}
		h.r = lbAtoi(f[4])
		c.report(lbState(f[2]), f[3] == "1")
		return finish()
	case "reserr":
		h.r = lbAtoi(f[1])
		h.bal.ResolverError(errors.New("resolver"))
		return finish()
	case "exitidle":
		h.r = lbAtoi(f[1])
		h.bal.ExitIdle()
		return finish()
	case "close":
		h.bal.Close()
		return finish()
	case "pickold":
		g := lbAtoi(f[1])
		if g >= len(h.oldPks) {
			return "bad-op"
		}
		var out []string
		for i := 0; i < lbAtoi(f[2]); i++ {
			out = append(out, h.pickOn(h.oldPks[g]))
		}
		return "picks=" + lbJoin(out)
	case "pick", "wrappick":
		if h.lastPk == nil {
			return "picks=-"
		}
		k := lbAtoi(f[len(f)-1])
		if f[0] == "wrappick" {
			var start uint64
			fmt.Sscan(f[1], &start)
			if !endpointsharding.VerifSetPickerNext(h.lastPk, uint32(start)) {
				return "bad-op"
			}
		}
		var out []string
		for i := 0; i < k; i++ {
			out = append(out, h.pickOnce())
		}
		return "picks=" + lbJoin(out)
	}
	return "bad-op"
}
