package synct

import (
	"context"
	"fmt"
	"sort"
	"strconv"
	"strings"
	"sync"

	"google.golang.org/grpc/internal/grpcsync"
)

// component s_pubsub (C31, T2): the real grpcsync.PubSub.
//
//	sub <s> | unsub <s> | pub <v>      one API call from the driving goroutine
//	conc <item> <item> …               every item its own goroutine, started together;
//	                                   item = sub:<s> | unsub:<s> | pub:<v>
//	block | unblock                    park / release the PubSub's serializer behind a gate callback
//	                                   (scheduled through the export shim VerifPubSubSerializer)
//	cancel                             cancel the PubSub's context
//
// Output: ord=<API calls of this op in linearization order: s<s>|u<s>|p<v>,…>
//
//	d=<s>:<v>.<v>…,<s>:…   deliveries made during this op, per subscriber (sorted by subscriber,
//	                       each subscriber's values in the order OnMessage was called)  done=0|1
//
// The linearization order is exact: every API call runs under a harness mutex hmu and is logged
// before hmu is released; Subscribe / cancel-func / Publish hold ps.mu for their whole body, so
// they are totally ordered anyway and the wrapper loses no behaviour. The callbacks (which take
// ps.mu but not hmu) still race with the API calls.
type pubsubH struct {
	ps     *grpcsync.PubSub
	cancel context.CancelFunc

	hmu sync.Mutex
	mu  sync.Mutex
	ord []string
	del map[int][]int

	subs    map[int]*psSub
	cancels map[int][]func()
	gate    chan struct{}
}

type psSub struct {
	h  *pubsubH
	id int
}

func (s *psSub) OnMessage(msg any) {
	s.h.mu.Lock()
	s.h.del[s.id] = append(s.h.del[s.id], msg.(int))
	s.h.mu.Unlock()
}

func init() {
	register("s_pubsub", func() SHandler {
		ctx, cancel := context.WithCancel(context.Background())
		h := &pubsubH{cancel: cancel, del: map[int][]int{}, subs: map[int]*psSub{}, cancels: map[int][]func(){}}
		h.ps = grpcsync.NewPubSub(ctx)
		settle()
		return h
	})
}

func (h *pubsubH) api(item string) {
	kind, arg, _ := strings.Cut(item, ":")
	n := atoiS(arg)
	h.hmu.Lock()
	defer h.hmu.Unlock()
	switch kind {
	case "sub":
		s := h.subs[n]
		if s == nil {
			s = &psSub{h: h, id: n}
			h.subs[n] = s
		}
		c := h.ps.Subscribe(s)
		h.cancels[n] = append(h.cancels[n], c)
		h.log("s" + arg)
	case "unsub":
		cs := h.cancels[n]
		if len(cs) > 0 {
			cs[len(cs)-1]()
			h.cancels[n] = cs[:len(cs)-1]
		}
		h.log("u" + arg)
	case "pub":
		h.ps.Publish(n)
		h.log("p" + arg)
	default:
		panic("bad item " + item)
	}
}

func (h *pubsubH) log(s string) { h.mu.Lock(); h.ord = append(h.ord, s); h.mu.Unlock() }

func (h *pubsubH) report() string {
	settle()
	h.mu.Lock()
	defer h.mu.Unlock()
	done := 0
	select {
	case <-h.ps.Done():
		done = 1
	default:
	}
	var ids []int
	for id := range h.del {
		ids = append(ids, id)
	}
	sort.Ints(ids)
	var ds []string
	for _, id := range ids {
		vs := make([]string, len(h.del[id]))
		for i, v := range h.del[id] {
			vs[i] = strconv.Itoa(v)
		}
		ds = append(ds, strconv.Itoa(id)+":"+strings.Join(vs, "."))
	}
	s := fmt.Sprintf("ord=%s d=%s done=%d", joinOrDash(h.ord), joinOrDash(ds), done)
	h.ord = nil
	h.del = map[int][]int{}
	return s
}

func (h *pubsubH) Op(f []string) string {
	switch f[0] {
	case "sub", "unsub", "pub":
		h.api(f[0] + ":" + f[1])
		return h.report()
	case "conc":
		start := make(chan struct{})
		for _, it := range f[1:] {
			go func() { <-start; h.api(it) }()
		}
		close(start)
		return h.report()
	case "block":
		if h.gate == nil {
			g := make(chan struct{})
			h.gate = g
			grpcsync.VerifPubSubSerializer(h.ps).TrySchedule(func(context.Context) { <-g })
		}
		return h.report()
	case "unblock":
		if h.gate != nil {
			close(h.gate)
			h.gate = nil
		}
		return h.report()
	case "cancel":
		h.cancel()
		return h.report()
	}
	return "bad-op"
}

func (h *pubsubH) Close() {
	if h.gate != nil {
		close(h.gate)
		h.gate = nil
	}
	h.cancel()
	<-h.ps.Done()
}
