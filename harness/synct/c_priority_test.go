package synct

// component s_priority (C39): the REAL priority balancer, built through its registered builder,
// with two stub child policies (types A and B, registered below) whose connectivity states are
// scripted, and a recording parent balancer.ClientConn. Init timers and the balancer-group's
// sub-balancer cache run on the bubble's virtual clock.
//
// ops:
//   cfg <prio,prio,…|-> <name:type,…|->   UpdateClientConnState (children = the names with their policy type A|B)
//   child <name> <state>                    the live stub child of that name reports a state with a fresh picker
//   sleep <ms>                              virtual time passes
//   hold <0|1>                              1: an init-timer callback that is dispatched parks before it takes the balancer's
//                                           mutex (the window between the timer firing and its callback running)
//   release                                 the oldest parked callback runs
//
// output:  use=<childInUse> pr=<priorities> ch=<name:type:started:state:pickerId:reportedTF:timer,…>
//          up=<state/pickerId;…> ev=<B:name:type | U:name | C:name …> pend=<number of parked callbacks>
// picker ids: p<k> = k-th picker a stub child created (k counts per case), nosc = ErrNoSubConnAvailable error picker,
// allrm = ErrAllPrioritiesRemoved error picker.

import (
	"encoding/json"
	"errors"
	"fmt"
	"sort"
	"strings"
	"sync"
	"time"

	"google.golang.org/grpc/balancer"
	"google.golang.org/grpc/connectivity"
	"google.golang.org/grpc/internal/xds/balancer/priority"
	"google.golang.org/grpc/resolver"
	"google.golang.org/grpc/serviceconfig"
)

var prCur *prCase

type prCase struct {
	balancer.ClientConn
	bal     balancer.Balancer
	ups     []string
	evs     []string
	nextPk  int
	live    map[string]*prChild // by child name, the most recently built instance that is not closed
	pending []*prChild
	mu      sync.Mutex
	hold    bool
	parked  []chan struct{}
}

type prChild struct {
	h      *prCase
	typ    string
	name   string
	cc     balancer.ClientConn
	closed bool
}

type prPicker struct{ id int }

func (p *prPicker) Pick(balancer.PickInfo) (balancer.PickResult, error) {
	return balancer.PickResult{}, fmt.Errorf("stub picker %d", p.id)
}

type prCfg struct {
	serviceconfig.LoadBalancingConfig
	Name string `json:"name"`
}

type prBuilder struct{ typ string }

func (b prBuilder) Name() string { return "verif_prio_child_" + b.typ }
func (b prBuilder) Build(cc balancer.ClientConn, _ balancer.BuildOptions) balancer.Balancer {
	return &prChild{h: prCur, typ: b.typ, cc: cc}
}
func (b prBuilder) ParseConfig(j json.RawMessage) (serviceconfig.LoadBalancingConfig, error) {
	c := &prCfg{}
	if err := json.Unmarshal(j, c); err != nil {
		return nil, err
	}
	return c, nil
}

func (c *prChild) UpdateClientConnState(s balancer.ClientConnState) error {
	cfg, _ := s.BalancerConfig.(*prCfg)
	if c.name == "" && cfg != nil {
		c.name = cfg.Name
		c.h.live[c.name] = c
		c.h.evs = append(c.h.evs, "B:"+c.name+":"+c.typ)
	}
	c.h.evs = append(c.h.evs, "U:"+c.name)
	return nil
}
func (c *prChild) ResolverError(error)                                        {}
func (c *prChild) UpdateSubConnState(balancer.SubConn, balancer.SubConnState) {}
func (c *prChild) ExitIdle()                                                  {}
func (c *prChild) Close() {
	c.closed = true
	if c.name != "" {
		c.h.evs = append(c.h.evs, "C:"+c.name)
		if c.h.live[c.name] == c {
			delete(c.h.live, c.name)
		}
	}
}

func (h *prCase) NewSubConn([]resolver.Address, balancer.NewSubConnOptions) (balancer.SubConn, error) {
	return nil, errors.New("no sub-connections in this harness")
}
func (h *prCase) RemoveSubConn(balancer.SubConn)                       {}
func (h *prCase) UpdateAddresses(balancer.SubConn, []resolver.Address) {}
func (h *prCase) ResolveNow(resolver.ResolveNowOptions)                {}
func (h *prCase) Target() string                                       { return "verif" }

func prPickerID(p balancer.Picker) string {
	if sp, ok := p.(*prPicker); ok {
		return fmt.Sprintf("p%d", sp.id)
	}
	if p == nil {
		return "nil"
	}
	_, err := p.Pick(balancer.PickInfo{})
	switch {
	case errors.Is(err, balancer.ErrNoSubConnAvailable):
		return "nosc"
	case errors.Is(err, priority.ErrAllPrioritiesRemoved):
		return "allrm"
	}
	return "other"
}

func (h *prCase) UpdateState(s balancer.State) {
	h.ups = append(h.ups, fmt.Sprintf("%d/%s", int(s.ConnectivityState), prPickerID(s.Picker)))
}

func init() {
	balancer.Register(prBuilder{"A"})
	balancer.Register(prBuilder{"B"})
	register("s_priority", func() SHandler {
		h := &prCase{live: map[string]*prChild{}}
		prCur = h
		priority.VerifSetTimeAfterFunc(func(d time.Duration, fn func()) *time.Timer {
			return time.AfterFunc(d, func() {
				h.mu.Lock()
				var ch chan struct{}
				if h.hold {
					ch = make(chan struct{})
					h.parked = append(h.parked, ch)
				}
				h.mu.Unlock()
				if ch != nil {
					<-ch
				}
				fn()
			})
		})
		h.bal = balancer.Get(priority.Name).Build(h, balancer.BuildOptions{})
		return h
	})
}

func prJoin(l []string, sep string) string {
	if len(l) == 0 {
		return "-"
	}
	return strings.Join(l, sep)
}

func prEvName(s string) string { return strings.Split(s, ":")[1] }

func (h *prCase) state() string {
	s := priority.VerifSnapshot(h.bal)
	var ch []string
	for _, c := range s.Children {
		b2i := func(b bool) int {
			if b {
				return 1
			}
			return 0
		}
		typ := strings.TrimPrefix(c.BalancerName, "verif_prio_child_")
		ch = append(ch, fmt.Sprintf("%s:%s:%d:%d:%s:%d:%d", c.Name, typ, b2i(c.Started), int(c.State.ConnectivityState),
			prPickerID(c.State.Picker), b2i(c.ReportedTF), b2i(c.HasTimer)))
	}
	use := s.ChildInUse
	if use == "" {
		use = "-"
	}
	sort.SliceStable(h.evs, func(i, j int) bool { return prEvName(h.evs[i]) < prEvName(h.evs[j]) })
	h.mu.Lock()
	np := len(h.parked)
	h.mu.Unlock()
	out := fmt.Sprintf("use=%s pr=%s ch=%s up=%s ev=%s pend=%d", use, prJoin(s.Priorities, ","), prJoin(ch, ","), prJoin(h.ups, ";"), prJoin(h.evs, ";"), np)
	if s.Inhibit {
		out += " INHIBITED"
	}
	h.ups, h.evs = nil, nil
	return out
}

func (h *prCase) Op(f []string) string {
	switch f[0] {
	case "cfg":
		if len(f) != 3 {
			return "bad-op"
		}
		var prios, kids []string
		if f[1] != "-" {
			for _, p := range strings.Split(f[1], ",") {
				prios = append(prios, `"`+p+`"`)
			}
		}
		if f[2] != "-" {
			for _, k := range strings.Split(f[2], ",") {
				nt := strings.Split(k, ":")
				if len(nt) != 2 || (nt[1] != "A" && nt[1] != "B") {
					return "bad-op"
				}
				kids = append(kids, fmt.Sprintf(`"%s":{"config":[{"verif_prio_child_%s":{"name":"%s"}}]}`, nt[0], nt[1], nt[0]))
			}
		}
		js := `{"priorities":[` + strings.Join(prios, ",") + `],"children":{` + strings.Join(kids, ",") + `}}`
		cfg, err := balancer.Get(priority.Name).(balancer.ConfigParser).ParseConfig(json.RawMessage(js))
		if err != nil {
			return "cfgerr"
		}
		if err := h.bal.UpdateClientConnState(balancer.ClientConnState{BalancerConfig: cfg}); err != nil {
			return "err"
		}
	case "child":
		if len(f) != 3 {
			return "bad-op"
		}
		c := h.live[f[1]]
		if c == nil {
			return "nochild"
		}
		st := odInt(f[2])
		if st < 0 || st > 3 {
			return "bad-op"
		}
		h.nextPk++
		c.cc.UpdateState(balancer.State{ConnectivityState: connectivity.State(st), Picker: &prPicker{id: h.nextPk}})
	case "sleep":
		time.Sleep(time.Duration(odInt(f[1])) * time.Millisecond)
	case "hold":
		if len(f) != 2 {
			return "bad-op"
		}
		h.mu.Lock()
		h.hold = f[1] == "1"
		h.mu.Unlock()
	case "release":
		h.mu.Lock()
		if len(h.parked) == 0 {
			h.mu.Unlock()
			return "noparked"
		}
		ch := h.parked[0]
		h.parked = h.parked[1:]
		h.mu.Unlock()
		close(ch)
	default:
		return "bad-op"
	}
	settle()
	return h.state()
}

func (h *prCase) Close() {
	h.mu.Lock()
	h.hold = false
	for _, ch := range h.parked {
		close(ch)
	}
	h.parked = nil
	h.mu.Unlock()
	settle()
	h.bal.Close()
	priority.VerifSetTimeAfterFunc(nil)
}
