package synct

// component s_compress (C27): compression negotiation, three op kinds, each a fresh server/client pair
// over bufconn inside the bubble. All compressors are toy transforms keyed by their name
// (wire = name ":" data^0x5a) so that the Lean model predicts the exact wire bytes; the V1
// (encoding.RegisterCompressor) and the legacy (grpc.Compressor/Decompressor) variants of a name
// are wire compatible. Messages travel through a raw-bytes codec (content-subtype vraw).
//
//	e2e  <reg> <use> <cleg> <cdc> <accept> <scp> <sdc> <setsend> <reqs> <resps>
//	     real client <-> real server, HTTP/2 wire tapped on the client's conn.
//	rawc <reg> <scp> <sdc> <setsend> <enc> <acc> <frames> <resps>
//	     hand-written HTTP/2 client -> real server: arbitrary grpc-encoding / grpc-accept-encoding
//	     headers and message frames (flag:wirebytes).
//	raws <reg> <use> <cleg> <cdc> <accept> <reqs> <renc> <rframes>
//	     real client -> hand-written HTTP/2 server answering with arbitrary grpc-encoding and frames.
//
//	reg      `+`-joined names registered with encoding.RegisterCompressor (in order), `-` none
//	use      grpc.UseCompressor(name) | `-`        cleg  grpc.WithCompressor(legacy name) | `-`
//	cdc      grpc.WithDecompressor(legacy name) | `-`
//	accept   `nil` (option absent) | `+`-joined names for experimental.AcceptCompressors (`-` = empty list)
//	scp/sdc  grpc.RPCCompressor / grpc.RPCDecompressor legacy names | `-`
//	setsend  handler calls grpc.SetSendCompressor(name) before its first SendMsg | `-`
//	reqs/resps  `,`-joined hex messages, `e` = empty message, `-` = no message
//	frames   `,`-joined <flag>:<hex|e>
//	In <acc> and in the names of <accept> the character `~` stands for a space.
//
// Output (fields absent for a kind are omitted):
//
//	open=<CODE> reqhdr=<enc|->/<acc|-> reqs=<frames|-> srv=<norun|ok|CODE> sgot=<msgs|-> setsend=<-|ok|notreg|notadv|err>
//	resphdr=<none|-|enc> resps=<frames|-> cli=<CODE> cgot=<msgs|-> [status=<n|rst>]
import (
	"bytes"
	"context"
	"encoding/binary"
	"encoding/hex"
	"errors"
	"fmt"
	"io"
	"net"
	"strconv"
	"strings"
	"sync"
	"time"

	"golang.org/x/net/http2"
	"golang.org/x/net/http2/hpack"
	"google.golang.org/grpc"
	"google.golang.org/grpc/codes"
	"google.golang.org/grpc/credentials/insecure"
	"google.golang.org/grpc/encoding"
	"google.golang.org/grpc/experimental"
	"google.golang.org/grpc/status"
	"google.golang.org/grpc/test/bufconn"
)

// ---- toy compressors

func cmpComp(name string, d []byte) []byte {
	out := append([]byte(name), ':')
	for _, b := range d {
		out = append(out, b^0x5a)
	}
	return out
}

func cmpDecomp(name string, w []byte) ([]byte, error) {
	p := append([]byte(name), ':')
	if !bytes.HasPrefix(w, p) {
		return nil, errors.New("toy: bad prefix")
	}
	out := []byte{}
	for _, b := range w[len(p):] {
		out = append(out, b^0x5a)
	}
	return out, nil
}

type cmpV1 struct{ name string }

type cmpWC struct {
	name string
	w    io.Writer
	buf  bytes.Buffer
}

func (c *cmpWC) Write(p []byte) (int, error) { return c.buf.Write(p) }
func (c *cmpWC) Close() error                { _, err := c.w.Write(cmpComp(c.name, c.buf.Bytes())); return err }

func (c cmpV1) Compress(w io.Writer) (io.WriteCloser, error) { return &cmpWC{name: c.name, w: w}, nil }
func (c cmpV1) Decompress(r io.Reader) (io.Reader, error) {
	b, err := io.ReadAll(r)
	if err != nil {
		return nil, err
	}
	d, err := cmpDecomp(c.name, b)
	if err != nil {
		return nil, err
	}
	return bytes.NewReader(d), nil
}
func (c cmpV1) Name() string { return c.name }

type cmpV0 struct{ name string }

func (c cmpV0) Do(w io.Writer, p []byte) error { _, err := w.Write(cmpComp(c.name, p)); return err }
func (c cmpV0) Type() string                   { return c.name }

type cmpV0d struct{ name string }

func (c cmpV0d) Do(r io.Reader) ([]byte, error) {
	b, err := io.ReadAll(r)
	if err != nil {
		return nil, err
	}
	return cmpDecomp(c.name, b)
}
func (c cmpV0d) Type() string { return c.name }

// ---- raw bytes codec

type cmpCodec struct{}

func (cmpCodec) Marshal(v any) ([]byte, error) {
	b, ok := v.(*[]byte)
	if !ok {
		return nil, fmt.Errorf("vraw: bad type %T", v)
	}
	return *b, nil
}
func (cmpCodec) Unmarshal(data []byte, v any) error {
	b, ok := v.(*[]byte)
	if !ok {
		return fmt.Errorf("vraw: bad type %T", v)
	}
	*b = append([]byte(nil), data...)
	return nil
}
func (cmpCodec) Name() string { return "vraw" }

func init() {
	encoding.RegisterCodec(cmpCodec{})
	register("s_compress", func() SHandler { return &compressH{} })
}

// ---- syntax helpers

func cmpOpt(s string) (string, bool) {
	if s == "-" {
		return "", false
	}
	return s, true
}

func cmpList(s string) []string {
	if s == "-" {
		return nil
	}
	return strings.Split(strings.ReplaceAll(s, "~", " "), "+") // `~` stands for a space
}

func cmpMsgs(s string) [][]byte {
	if s == "-" {
		return nil
	}
	var out [][]byte
	for _, m := range strings.Split(s, ",") {
		if m == "e" {
			out = append(out, []byte{})
			continue
		}
		b, err := hex.DecodeString(m)
		if err != nil {
			panic("bad hex " + m)
		}
		out = append(out, b)
	}
	return out
}

type cmpFrame struct {
	flag byte
	data []byte
}

func cmpFrames(s string) []cmpFrame {
	if s == "-" {
		return nil
	}
	var out []cmpFrame
	for _, m := range strings.Split(s, ",") {
		fl, d, ok := strings.Cut(m, ":")
		if !ok {
			panic("bad frame " + m)
		}
		n, err := strconv.Atoi(fl)
		if err != nil {
			panic("bad flag " + fl)
		}
		out = append(out, cmpFrame{byte(n), cmpMsgs(d)[0]})
	}
	return out
}

func cmpHex(b []byte) string {
	if len(b) == 0 {
		return "e"
	}
	return hex.EncodeToString(b)
}

func cmpShowMsgs(ms [][]byte) string {
	if len(ms) == 0 {
		return "-"
	}
	p := []string{}
	for _, m := range ms {
		p = append(p, cmpHex(m))
	}
	return strings.Join(p, ",")
}

func cmpShowFrames(fs []cmpFrame) string {
	if len(fs) == 0 {
		return "-"
	}
	p := []string{}
	for _, f := range fs {
		p = append(p, strconv.Itoa(int(f.flag))+":"+cmpHex(f.data))
	}
	return strings.Join(p, ",")
}

func cmpCode(err error) string {
	if err == nil || err == io.EOF {
		return "OK"
	}
	switch c := status.Code(err); c {
	case codes.Internal:
		return "INTERNAL"
	case codes.Unimplemented:
		return "UNIMPLEMENTED"
	case codes.InvalidArgument:
		return "INVALID_ARGUMENT"
	case codes.Unavailable:
		return "UNAVAILABLE"
	case codes.Unknown:
		return "UNKNOWN"
	default:
		return "CODE_" + c.String()
	}
}

// gRPC message framing inside a concatenated DATA stream
func cmpSplit(b []byte) []cmpFrame {
	var out []cmpFrame
	for len(b) >= 5 {
		n := int(binary.BigEndian.Uint32(b[1:5]))
		if len(b) < 5+n {
			break
		}
		out = append(out, cmpFrame{b[0], append([]byte(nil), b[5:5+n]...)})
		b = b[5+n:]
	}
	return out
}

func cmpJoin(f cmpFrame) []byte {
	h := make([]byte, 5)
	h[0] = f.flag
	binary.BigEndian.PutUint32(h[1:], uint32(len(f.data)))
	return append(h, f.data...)
}

// ---- wire tap on the client's conn

type cmpTap struct {
	net.Conn
	mu  sync.Mutex
	c2s bytes.Buffer
	s2c bytes.Buffer
}

func (t *cmpTap) Write(b []byte) (int, error) {
	t.mu.Lock()
	t.c2s.Write(b)
	t.mu.Unlock()
	return t.Conn.Write(b)
}

func (t *cmpTap) Read(b []byte) (int, error) {
	n, err := t.Conn.Read(b)
	if n > 0 {
		t.mu.Lock()
		t.s2c.Write(b[:n])
		t.mu.Unlock()
	}
	return n, err
}

type cmpDir struct {
	headers []map[string]string // HEADERS frames of stream 1, in order
	ended   []bool              // END_STREAM on that HEADERS frame
	data    []byte
	rst     bool
}

func cmpParse(raw []byte, stripPreface bool) cmpDir {
	var d cmpDir
	if stripPreface {
		if len(raw) < len(http2.ClientPreface) {
			return d
		}
		raw = raw[len(http2.ClientPreface):]
	}
	fr := http2.NewFramer(nil, bytes.NewReader(raw))
	fr.SetMaxReadFrameSize(1 << 20)
	dec := hpack.NewDecoder(4096, nil)
	for {
		f, err := fr.ReadFrame()
		if err != nil {
			return d
		}
		switch f := f.(type) {
		case *http2.HeadersFrame:
			hs, err := dec.DecodeFull(f.HeaderBlockFragment())
			if err != nil {
				continue
			}
			if f.StreamID != 1 {
				continue
			}
			m := map[string]string{}
			for _, h := range hs {
				if old, ok := m[h.Name]; ok {
					m[h.Name] = old + "\x00" + h.Value
				} else {
					m[h.Name] = h.Value
				}
			}
			d.headers = append(d.headers, m)
			d.ended = append(d.ended, f.StreamEnded())
		case *http2.DataFrame:
			if f.StreamID == 1 {
				d.data = append(d.data, f.Data()...)
			}
		case *http2.RSTStreamFrame:
			if f.StreamID == 1 {
				d.rst = true
			}
		}
	}
}

func cmpHdr(m map[string]string, k string) string {
	if v, ok := m[k]; ok {
		if v == "" {
			return "\"\""
		}
		return strings.ReplaceAll(v, "\x00", "&")
	}
	return "-"
}

// ---- server side

type cmpSrvLog struct {
	mu      sync.Mutex
	ran     bool
	result  string
	got     [][]byte
	setsend string
}

func cmpStartServer(lis net.Listener, scp, sdc, setsend string, resps [][]byte, lg *cmpSrvLog) (stop func()) {
	var sopts []grpc.ServerOption
	if n, ok := cmpOpt(scp); ok {
		sopts = append(sopts, grpc.RPCCompressor(cmpV0{n}))
	}
	if n, ok := cmpOpt(sdc); ok {
		sopts = append(sopts, grpc.RPCDecompressor(cmpV0d{n}))
	}
	lg.setsend = "-"
	lg.result = "norun"
	handler := func(_ any, stream grpc.ServerStream) (err error) {
		lg.mu.Lock()
		lg.ran = true
		lg.result = "running"
		lg.mu.Unlock()
		defer func() {
			lg.mu.Lock()
			if err == nil {
				lg.result = "ok"
			} else {
				lg.result = cmpCode(err)
			}
			lg.mu.Unlock()
		}()
		for {
			var b []byte
			err := stream.RecvMsg(&b)
			if err == io.EOF {
				break
			}
			if err != nil {
				return err
			}
			lg.mu.Lock()
			lg.got = append(lg.got, b)
			lg.mu.Unlock()
		}
		if n, ok := cmpOpt(setsend); ok {
			e := grpc.SetSendCompressor(stream.Context(), n)
			r := "ok"
			if e != nil {
				switch {
				case strings.Contains(e.Error(), "compressor not registered"):
					r = "notreg"
				case strings.Contains(e.Error(), "client does not support compressor"):
					r = "notadv"
				default:
					r = "err"
				}
			}
			lg.mu.Lock()
			lg.setsend = r
			lg.mu.Unlock()
		}
		for _, m := range resps {
			m := m
			if err := stream.SendMsg(&m); err != nil {
				return err
			}
		}
		return nil
	}
	sopts = append(sopts, grpc.UnknownServiceHandler(handler))
	srv := grpc.NewServer(sopts...)
	done := make(chan struct{})
	go func() { srv.Serve(lis); close(done) }()
	return func() { srv.Stop(); <-done }
}

func (lg *cmpSrvLog) show() string {
	lg.mu.Lock()
	defer lg.mu.Unlock()
	return "srv=" + lg.result + " sgot=" + cmpShowMsgs(lg.got) + " setsend=" + lg.setsend
}

// ---- client side

type cmpCliRes struct {
	open string
	cli  string
	got  [][]byte
}

func cmpRunClient(dial func(context.Context, string) (net.Conn, error), use, cleg, cdc, accept string, reqs [][]byte) (res cmpCliRes) {
	dopts := []grpc.DialOption{grpc.WithContextDialer(dial), grpc.WithTransportCredentials(insecure.NewCredentials())}
	if n, ok := cmpOpt(cleg); ok {
		dopts = append(dopts, grpc.WithCompressor(cmpV0{n}))
	}
	if n, ok := cmpOpt(cdc); ok {
		dopts = append(dopts, grpc.WithDecompressor(cmpV0d{n}))
	}
	cc, err := grpc.NewClient("passthrough:///bufnet", dopts...)
	if err != nil {
		return cmpCliRes{open: "DIALERR", cli: "-"}
	}
	defer func() { cc.Close(); settle() }()
	copts := []grpc.CallOption{grpc.CallContentSubtype("vraw")}
	if n, ok := cmpOpt(use); ok {
		copts = append(copts, grpc.UseCompressor(n))
	}
	if accept != "nil" {
		copts = append(copts, experimental.AcceptCompressors(cmpList(accept)...))
	}
	ctx, cancel := context.WithTimeout(context.Background(), 20*time.Second)
	defer cancel()
	cs, err := cc.NewStream(ctx, &grpc.StreamDesc{ClientStreams: true, ServerStreams: true}, "/v/M", copts...)
	settle()
	if err != nil {
		return cmpCliRes{open: cmpCode(err), cli: "-"}
	}
	res.open = "OK"
	for _, m := range reqs {
		m := m
		err := cs.SendMsg(&m)
		settle()
		if err != nil {
			break
		}
	}
	cs.CloseSend()
	settle()
	for {
		var b []byte
		err := cs.RecvMsg(&b)
		if err != nil {
			res.cli = cmpCode(err)
			break
		}
		res.got = append(res.got, b)
	}
	settle()
	return res
}

// ---- raw HTTP/2 peers

type cmpRawConn struct {
	conn net.Conn
	wmu  sync.Mutex
	fr   *http2.Framer
	henc *hpack.Encoder
	hbuf bytes.Buffer
	hdec *hpack.Decoder
}

func cmpNewRaw(conn net.Conn) *cmpRawConn {
	r := &cmpRawConn{conn: conn, fr: http2.NewFramer(conn, conn)}
	r.fr.SetMaxReadFrameSize(1 << 20)
	r.henc = hpack.NewEncoder(&r.hbuf)
	r.hdec = hpack.NewDecoder(4096, nil)
	return r
}

func (r *cmpRawConn) writeHeaders(end bool, kv ...string) {
	r.wmu.Lock()
	defer r.wmu.Unlock()
	r.hbuf.Reset()
	for i := 0; i+1 < len(kv); i += 2 {
		r.henc.WriteField(hpack.HeaderField{Name: kv[i], Value: kv[i+1]})
	}
	r.fr.WriteHeaders(http2.HeadersFrameParam{StreamID: 1, BlockFragment: r.hbuf.Bytes(), EndHeaders: true, EndStream: end})
}

func (r *cmpRawConn) writeData(end bool, b []byte) {
	r.wmu.Lock()
	defer r.wmu.Unlock()
	r.fr.WriteData(1, end, b)
}

// readLoop handles connection-level frames and hands stream-1 frames to the callbacks until the conn dies.
func (r *cmpRawConn) readLoop(onHeaders func(m map[string]string, end bool), onData func(b []byte, end bool), onRST func()) {
	for {
		f, err := r.fr.ReadFrame()
		if err != nil {
			return
		}
		switch f := f.(type) {
		case *http2.SettingsFrame:
			if !f.IsAck() {
				r.wmu.Lock()
				r.fr.WriteSettingsAck()
				r.wmu.Unlock()
			}
		case *http2.PingFrame:
			if !f.IsAck() {
				r.wmu.Lock()
				r.fr.WritePing(true, f.Data)
				r.wmu.Unlock()
			}
		case *http2.HeadersFrame:
			hs, err := r.hdec.DecodeFull(f.HeaderBlockFragment())
			if err != nil || f.StreamID != 1 {
				continue
			}
			m := map[string]string{}
			for _, h := range hs {
				if old, ok := m[h.Name]; ok {
					m[h.Name] = old + "\x00" + h.Value
				} else {
					m[h.Name] = h.Value
				}
			}
			onHeaders(m, f.StreamEnded())
		case *http2.DataFrame:
			if f.StreamID == 1 {
				onData(append([]byte(nil), f.Data()...), f.StreamEnded())
			}
		case *http2.RSTStreamFrame:
			if f.StreamID == 1 {
				onRST()
			}
		}
	}
}

type compressH struct{}

func (c *compressH) Close() {}

func (c *compressH) Op(f []string) string {
	switch f[0] {
	case "e2e":
		if len(f) != 11 {
			return "bad-op"
		}
		return c.e2e(f)
	case "rawc":
		if len(f) != 9 {
			return "bad-op"
		}
		return c.rawc(f)
	case "raws":
		if len(f) != 9 {
			return "bad-op"
		}
		return c.raws(f)
	}
	return "bad-op"
}

func cmpSetReg(reg string) func() {
	var cs []encoding.Compressor
	for _, n := range cmpList(reg) {
		cs = append(cs, cmpV1{n})
	}
	return encoding.VerifSetCompressors(cs)
}

func (c *compressH) e2e(f []string) string {
	restore := cmpSetReg(f[1])
	defer restore()
	lis := bufconn.Listen(1 << 16)
	lg := &cmpSrvLog{}
	stop := cmpStartServer(lis, f[6], f[7], f[8], cmpMsgs(f[10]), lg)
	var tap *cmpTap
	res := cmpRunClient(func(ctx context.Context, _ string) (net.Conn, error) {
		conn, err := lis.DialContext(ctx)
		if err != nil {
			return nil, err
		}
		tap = &cmpTap{Conn: conn}
		return tap, nil
	}, f[2], f[3], f[4], f[5], cmpMsgs(f[9]))
	stop()
	settle()
	reqhdr, reqs, resphdr, resps := "-/-", "-", "none", "-"
	if tap != nil {
		tap.mu.Lock()
		c2s := cmpParse(tap.c2s.Bytes(), true)
		s2c := cmpParse(tap.s2c.Bytes(), false)
		tap.mu.Unlock()
		if len(c2s.headers) > 0 {
			reqhdr = cmpHdr(c2s.headers[0], "grpc-encoding") + "/" + cmpHdr(c2s.headers[0], "grpc-accept-encoding")
		}
		reqs = cmpShowFrames(cmpSplit(c2s.data))
		if len(s2c.headers) > 0 && !s2c.ended[0] {
			resphdr = cmpHdr(s2c.headers[0], "grpc-encoding")
		}
		resps = cmpShowFrames(cmpSplit(s2c.data))
	}
	return "open=" + res.open + " reqhdr=" + reqhdr + " reqs=" + reqs + " " + lg.show() +
		" resphdr=" + resphdr + " resps=" + resps + " cli=" + res.cli + " cgot=" + cmpShowMsgs(res.got)
}

// rawc <reg> <scp> <sdc> <setsend> <enc> <acc> <frames> <resps>
func (c *compressH) rawc(f []string) string {
	restore := cmpSetReg(f[1])
	defer restore()
	lis := bufconn.Listen(1 << 16)
	lg := &cmpSrvLog{}
	stop := cmpStartServer(lis, f[2], f[3], f[4], cmpMsgs(f[8]), lg)
	conn, err := lis.DialContext(context.Background())
	if err != nil {
		stop()
		return "rawerr dial"
	}
	conn.Write([]byte(http2.ClientPreface))
	r := cmpNewRaw(conn)
	r.wmu.Lock()
	r.fr.WriteSettings()
	r.wmu.Unlock()
	var mu sync.Mutex
	var hdrs []map[string]string
	var ends []bool
	var data []byte
	rst := false
	done := make(chan struct{})
	var once sync.Once
	fin := func() { once.Do(func() { close(done) }) }
	rdone := make(chan struct{})
	go func() {
		defer close(rdone)
		r.readLoop(func(m map[string]string, end bool) {
			mu.Lock()
			hdrs = append(hdrs, m)
			ends = append(ends, end)
			mu.Unlock()
			if end {
				fin()
			}
		}, func(b []byte, end bool) {
			mu.Lock()
			data = append(data, b...)
			mu.Unlock()
			if end {
				fin()
			}
		}, func() {
			mu.Lock()
			rst = true
			mu.Unlock()
			fin()
		})
		fin()
	}()
	kv := []string{":method", "POST", ":scheme", "http", ":path", "/v/M", ":authority", "verif.test",
		"content-type", "application/grpc+vraw", "te", "trailers"}
	if v, ok := cmpOpt(f[5]); ok {
		kv = append(kv, "grpc-encoding", v)
	}
	if v, ok := cmpOpt(f[6]); ok {
		kv = append(kv, "grpc-accept-encoding", strings.ReplaceAll(v, "~", " ")) // `~` stands for a space
	}
	r.writeHeaders(false, kv...)
	settle()
	for _, fr := range cmpFrames(f[7]) {
		r.writeData(false, cmpJoin(fr))
		settle()
	}
	r.writeData(true, nil)
	settle()
	select {
	case <-done:
	case <-time.After(20 * time.Second):
	}
	stop()
	conn.Close()
	<-rdone
	settle()
	mu.Lock()
	defer mu.Unlock()
	resphdr, st := "none", "-"
	for i, m := range hdrs {
		if !ends[i] && i == 0 {
			resphdr = cmpHdr(m, "grpc-encoding")
		}
		if ends[i] {
			st = cmpHdr(m, "grpc-status")
		}
	}
	if rst && st == "-" {
		st = "rst"
	}
	return lg.show() + " resphdr=" + resphdr + " resps=" + cmpShowFrames(cmpSplit(data)) + " status=" + st
}

// raws <reg> <use> <cleg> <cdc> <accept> <reqs> <renc> <rframes>
func (c *compressH) raws(f []string) string {
	restore := cmpSetReg(f[1])
	defer restore()
	lis := bufconn.Listen(1 << 16)
	var mu sync.Mutex
	var reqHdr map[string]string
	var data []byte
	sdone := make(chan struct{})
	var sconn net.Conn
	go func() {
		defer close(sdone)
		conn, err := lis.Accept()
		if err != nil {
			return
		}
		mu.Lock()
		sconn = conn
		mu.Unlock()
		pre := make([]byte, len(http2.ClientPreface))
		if _, err := io.ReadFull(conn, pre); err != nil {
			return
		}
		r := cmpNewRaw(conn)
		r.wmu.Lock()
		r.fr.WriteSettings()
		r.wmu.Unlock()
		responded := false
		respond := func() {
			if responded {
				return
			}
			responded = true
			kv := []string{":status", "200", "content-type", "application/grpc+vraw"}
			if v, ok := cmpOpt(f[7]); ok {
				kv = append(kv, "grpc-encoding", v)
			}
			r.writeHeaders(false, kv...)
			for _, fr := range cmpFrames(f[8]) {
				r.writeData(false, cmpJoin(fr))
			}
			r.writeHeaders(true, "grpc-status", "0")
		}
		r.readLoop(func(m map[string]string, end bool) {
			mu.Lock()
			if reqHdr == nil {
				reqHdr = m
			}
			mu.Unlock()
			if end {
				respond()
			}
		}, func(b []byte, end bool) {
			mu.Lock()
			data = append(data, b...)
			mu.Unlock()
			if end {
				respond()
			}
		}, func() {})
	}()
	res := cmpRunClient(func(ctx context.Context, _ string) (net.Conn, error) { return lis.DialContext(ctx) },
		f[2], f[3], f[4], f[5], cmpMsgs(f[6]))
	lis.Close()
	mu.Lock()
	if sconn != nil {
		sconn.Close()
	}
	mu.Unlock()
	<-sdone
	settle()
	mu.Lock()
	defer mu.Unlock()
	reqhdr := "-/-"
	if reqHdr != nil {
		reqhdr = cmpHdr(reqHdr, "grpc-encoding") + "/" + cmpHdr(reqHdr, "grpc-accept-encoding")
	}
	return "open=" + res.open + " reqhdr=" + reqhdr + " reqs=" + cmpShowFrames(cmpSplit(data)) +
		" cli=" + res.cli + " cgot=" + cmpShowMsgs(res.got)
}
