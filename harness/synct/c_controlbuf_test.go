package synct

import (
	"fmt"
	"os"
	"runtime"
	"sort"
	"strconv"
	"strings"
	"sync"
	"sync/atomic"

	"google.golang.org/grpc/internal/transport"
)

// component s_controlbuf (C16, T2): the real transport.controlBuffer; readers (throttle callers)
// and the blocking consumer are goroutines of the bubble, so "who is still blocked" is observable
// once the bubble is quiescent.
//
//	limit <n>          new controlBuffer with throttle limit n (default without this op: 2)
//	put <t|u|h> <id>   executeAndPut(nil, item): t throttled, u unthrottled, h clientHeaders
//	get                get(false) from the driving goroutine
//	getb               a consumer goroutine calls get(true) (at most one outstanding)
//	thr <r>            reader goroutine r calls throttle()
//	finish | done      finish() | close the done channel
//	finishrace <it> …  finish() runs in its own goroutine and is HELD inside the first onOrphaned callback
//	                   of its orphan sweep; while it is held every <it> runs in its own goroutine
//	                   (p<t|u|h><id> = put, g = get(false)) until it has returned or is parked on c.mu
//	                   (read off the goroutine dump: no timing guess); then finish() is released.
//	                   If nothing is orphaned there is no such window: the items run after finish().
//	                   result: orph=<ids>/<res>,<res>…  (res per item: ok|err|got_<id>|none)
//	b<k> put <t|u|h> <id> | b<k> get | b<k> finish
//	                   the same on a SECOND (third, …) control buffer k>=1 of the same process (all
//	                   controlBuffers share the package-level node pool); created on first use
//	finishcb <it> …    finish() of the primary buffer; from INSIDE its onOrphaned callbacks (same goroutine,
//	                   two items per callback, the rest after finish returned) the items
//	                   b<k>:p<t|u|h><id> / b<k>:g are applied to the other buffers - what a producer of
//	                   another connection does while this connection is being torn down.
//	                   result: orph=<ids>/<res>,<res>…
//	Every answer gets a trailing " foreign=<ids>" when a clientHeaders was failed by a finish() of a
//	buffer it was not queued in.
//
// Output: <result> blocked=<readers still inside throttle(), sorted> cons=<-|parked|got <id>|err|doneerr>
// result: ok|err (put)  got <id>|none|err (get)  orph=<ids> (finish)  - (others)
type controlbufH struct {
	v *transport.VerifControlBuf

	mu      sync.Mutex
	inside  map[int]bool
	consOut bool   // a consumer goroutine is outstanding
	consRes string // its result, once it returned
	wg      sync.WaitGroup
	dead    bool

	limit     int
	others    map[int]*transport.VerifControlBuf
	inFinish  map[int]bool // buffers whose Finish() is executing
	foreign   []int        // clientHeaders failed by somebody else's finish()
	cbHook    func()       // finishcb: work to do inside the primary's onOrphaned callbacks
	puts      int          // items ever offered to any buffer
	orphCalls int
	livelock  bool
}

func init() {
	register("s_controlbuf", func() SHandler {
		return &controlbufH{inside: map[int]bool{}}
	})
}

func (h *controlbufH) status(res string) string {
	settle()
	h.mu.Lock()
	defer h.mu.Unlock()
	var bl []int
	for r := range h.inside {
		bl = append(bl, r)
	}
	sort.Ints(bl)
	bs := make([]string, len(bl))
	for i, r := range bl {
		bs[i] = strconv.Itoa(r)
	}
	cons := "-"
	if h.consOut {
		if h.consRes != "" {
			cons = h.consRes
			h.consOut = false
			h.consRes = ""
		} else {
			cons = "parked"
		}
	}
	out := fmt.Sprintf("%s blocked=%s cons=%s", res, joinOrDash(bs), strings.ReplaceAll(cons, " ", "_"))
	if len(h.foreign) > 0 {
		fs := make([]string, len(h.foreign))
		for i, id := range h.foreign {
			fs[i] = strconv.Itoa(id)
		}
		out += " foreign=" + strings.Join(fs, ",")
		h.foreign = nil
	}
	return out
}

// newBuf makes buffer k (0 = primary) with the orphan hook that detects foreign failures.
func (h *controlbufH) newBuf(k int) *transport.VerifControlBuf {
	v := transport.VerifNewControlBuf(h.limit)
	v.OnOrphan = func(id int) {
		h.mu.Lock()
		h.orphCalls++
		if h.orphCalls > 4*h.puts+64 {
			// more failures than items ever queued: finish() is walking a corrupted (cyclic) list
			h.mu.Unlock()
			panic("orphan storm: onOrphaned called more often than items were ever queued")
		}
		own := h.inFinish[k]
		if !own {
			h.foreign = append(h.foreign, id)
		}
		hook := h.cbHook
		h.mu.Unlock()
		if k == 0 && own && hook != nil {
			hook()
		}
	}
	return v
}

func (h *controlbufH) other(k int) *transport.VerifControlBuf {
	if h.others == nil {
		h.others = map[int]*transport.VerifControlBuf{}
	}
	if h.others[k] == nil {
		h.others[k] = h.newBuf(k)
	}
	return h.others[k]
}

// finishOf runs Finish() of buffer k, marking it as the one that may legitimately orphan its own items.
// finish() runs in its own goroutine under a watchdog: a finish() that never returns (it walks a
// corrupted, cyclic list) spins without ever blocking, which neither synctest nor a virtual-time
// timeout can see - the watchdog counts scheduler yields instead, reports the livelock as a PANIC of
// this op and makes Close() end the process (the spinning goroutine cannot be stopped).
func (h *controlbufH) finishOf(k int, v *transport.VerifControlBuf) []int {
	done := make(chan []int, 1)
	go func() { done <- h.finishRaw(k, v) }()
	for spin := 0; ; spin++ {
		select {
		case ids := <-done:
			return ids
		default:
		}
		if spin > 5_000_000 {
			h.livelock = true
			panic("finish() does not return (livelock)")
		}
		runtime.Gosched()
	}
}

func (h *controlbufH) finishRaw(k int, v *transport.VerifControlBuf) []int {
	h.mu.Lock()
	if h.inFinish == nil {
		h.inFinish = map[int]bool{}
	}
	h.inFinish[k] = true
	h.mu.Unlock()
	defer func() { h.mu.Lock(); h.inFinish[k] = false; h.mu.Unlock() }()
	return v.Finish()
}

func idsStr(ids []int) string {
	s := make([]string, len(ids))
	for i, id := range ids {
		s[i] = strconv.Itoa(id)
	}
	return joinOrDash(s)
}

// itemOn applies one item (p<kind><id> | g) to buffer v.
func (h *controlbufH) itemOn(v *transport.VerifControlBuf, it string) string {
	h.mu.Lock()
	h.puts++
	h.mu.Unlock()
	return itemOn0(v, it)
}

func itemOn0(v *transport.VerifControlBuf, it string) string {
	if it == "g" {
		id, st := v.Get(false)
		if st == "got" {
			return "got_" + strconv.Itoa(id)
		}
		return st
	}
	if err := v.Put(it[1], atoiS(it[2:])); err != nil {
		return "err"
	}
	return "ok"
}

// Op: a panic inside the controlBuffer (recovered by the harness as PANIC) leaves c.mu locked, so the
// buffer must never be touched again in this case: later ops answer "dead".
func (h *controlbufH) Op(f []string) (out string) {
	if h.dead {
		return "dead"
	}
	defer func() {
		if r := recover(); r != nil {
			h.dead = true
			panic(r)
		}
	}()
	return h.op(f)
}

// bufOp: b<k> put <kind> <id> | b<k> get | b<k> finish
func (h *controlbufH) bufOp(k int, f []string) string {
	v := h.other(k)
	switch f[0] {
	case "put":
		return h.itemOn(v, "p"+f[1]+f[2])
	case "get":
		return h.itemOn(v, "g")
	case "finish":
		return "orph=" + idsStr(h.finishOf(k, v))
	}
	return "bad-op"
}

// finishCb: finish() of the primary buffer with work on OTHER buffers done from inside its
// onOrphaned callbacks (two items per callback), the rest after finish returned.
func (h *controlbufH) finishCb(items []string) string {
	res := make([]string, len(items))
	next := 0
	run := func(n int) {
		for ; n > 0 && next < len(items); n-- {
			i := next
			next++
			b, it, _ := strings.Cut(items[i], ":")
			res[i] = h.itemOn(h.other(atoiS(b[1:])), it)
		}
	}
	h.mu.Lock()
	h.cbHook = func() { run(2) }
	h.mu.Unlock()
	ids := h.finishOf(0, h.v)
	h.mu.Lock()
	h.cbHook = nil
	h.mu.Unlock()
	run(len(items))
	return "orph=" + idsStr(ids) + "/" + joinOrDash(res)
}

func (h *controlbufH) op(f []string) string {
	if f[0] == "limit" {
		h.limit = atoiS(f[1])
		h.v = h.newBuf(0)
		h.others = nil
		return h.status("-")
	}
	if h.v == nil {
		h.limit = 2 // no `limit` op (e.g. a shrunk case): default limit 2
		h.v = h.newBuf(0)
	}
	if len(f[0]) >= 2 && f[0][0] == 'b' && f[0][1] >= '0' && f[0][1] <= '9' && len(f) >= 2 {
		return h.status(h.bufOp(atoiS(f[0][1:]), f[1:]))
	}
	switch f[0] {
	case "put":
		h.mu.Lock()
		h.puts++
		h.mu.Unlock()
		if err := h.v.Put(f[1][0], atoiS(f[2])); err != nil {
			return h.status("err")
		}
		return h.status("ok")
	case "get":
		id, st := h.v.Get(false)
		if st == "got" {
			return h.status("got_" + strconv.Itoa(id))
		}
		return h.status(st)
	case "getb":
		h.mu.Lock()
		if h.consOut {
			h.mu.Unlock()
			return h.status("busy")
		}
		h.consOut = true
		h.mu.Unlock()
		h.wg.Add(1)
		go func() {
			defer h.wg.Done()
			id, st := h.v.Get(true)
			if st == "got" {
				st = "got " + strconv.Itoa(id)
			}
			h.mu.Lock()
			h.consRes = st
			h.mu.Unlock()
		}()
		return h.status("-")
	case "thr":
		r := atoiS(f[1])
		h.mu.Lock()
		h.inside[r] = true
		h.mu.Unlock()
		h.wg.Add(1)
		go func() {
			defer h.wg.Done()
			h.v.Throttle()
			h.mu.Lock()
			delete(h.inside, r)
			h.mu.Unlock()
		}()
		return h.status("-")
	case "finish":
		ids := h.finishOf(0, h.v)
		s := make([]string, len(ids))
		for i, id := range ids {
			s[i] = strconv.Itoa(id)
		}
		return h.status("orph=" + joinOrDash(s))
	case "finishrace":
		return h.status(h.finishRace(f[1:]))
	case "finishcb":
		return h.status(h.finishCb(f[1:]))
	case "done":
		h.v.CloseDone()
		return h.status("-")
	}
	return "bad-op"
}

// raceItem runs one racing op and returns its result token.
func (h *controlbufH) raceItem(it string) string {
	return h.itemOn(h.v, it)
}

// goid returns the current goroutine's id (from its stack header).
func goid() string {
	var b [64]byte
	n := runtime.Stack(b[:], false)
	f := strings.Fields(string(b[:n]))
	if len(f) >= 2 {
		return f[1]
	}
	return "?"
}

// parkedOnMutex reports whether goroutine id is blocked acquiring a sync.Mutex.
func parkedOnMutex(id string) bool {
	buf := make([]byte, 1<<20)
	n := runtime.Stack(buf, true)
	dump := string(buf[:n])
	i := strings.Index(dump, "goroutine "+id+" [")
	if i < 0 {
		return false
	}
	rest := dump[i:]
	j := strings.Index(rest, "]")
	if j < 0 {
		return false
	}
	st := rest[:j]
	return strings.Contains(st, "sync.Mutex.Lock") || strings.Contains(st, "semacquire")
}

func (h *controlbufH) finishRace(items []string) string {
	inOrphan := make(chan struct{})
	resume := make(chan struct{})
	var once sync.Once
	h.mu.Lock()
	h.cbHook = func() { once.Do(func() { close(inOrphan); <-resume }) }
	h.mu.Unlock()
	clearHook := func() { h.mu.Lock(); h.cbHook = nil; h.mu.Unlock() }
	finDone := make(chan []int, 1)
	go func() { finDone <- h.finishRaw(0, h.v) }()
	res := make([]string, len(items))
	var ids []int
	select {
	case ids = <-finDone:
		// nothing was orphaned: no window; the items simply come after finish()
		clearHook()
		for i, it := range items {
			res[i] = h.raceItem(it)
		}
	case <-inOrphan:
		var wg sync.WaitGroup
		gids := make([]atomic.Value, len(items))
		dones := make([]atomic.Bool, len(items))
		for i, it := range items {
			wg.Add(1)
			go func() {
				defer wg.Done()
				gids[i].Store(goid())
				res[i] = h.raceItem(it)
				dones[i].Store(true)
			}()
		}
		// wait until every racing goroutine has returned or is parked on the buffer's mutex
		for i := range items {
			for spin := 0; spin < 50000; spin++ {
				if dones[i].Load() {
					break
				}
				if spin%8 == 7 {
					if g, _ := gids[i].Load().(string); g != "" && parkedOnMutex(g) {
						break
					}
				}
				runtime.Gosched()
			}
		}
		close(resume)
		ids = <-finDone
		wg.Wait()
		clearHook()
	}
	s := make([]string, len(ids))
	for i, id := range ids {
		s[i] = strconv.Itoa(id)
	}
	return "orph=" + joinOrDash(s) + "/" + joinOrDash(res)
}

func (h *controlbufH) Close() {
	if h.livelock {
		os.Exit(3) // a finish() goroutine is spinning for ever; every line of this case has been printed
	}
	if h.dead {
		// c.mu is held by the panicked call: anything that touches the buffer would hang for real
		// (a goroutine blocked on a sync.Mutex is not "durably blocked" for synctest). Leave the
		// parked goroutines where they are; the bubble then ends with synctest's deadlock panic,
		// which the check attributes to this case as a CRASH.
		return
	}
	// tear-down goes through the same watchdog: a finish() that livelocks here ends the process
	defer func() {
		if r := recover(); r != nil {
			os.Exit(3)
		}
	}()
	if h.v != nil {
		h.finishOf(0, h.v)
		h.v.CloseDone()
	}
	for k, v := range h.others {
		h.finishOf(k, v)
		v.CloseDone()
	}
	h.wg.Wait()
}
