package synct

import (
	"fmt"
	"sort"
	"strconv"
	"strings"
	"sync"

	"google.golang.org/grpc/internal/transport"
)

// component s_controlbuf (C16, T2): the real transport.controlBuffer; readers (throttle callers)
// and the blocking consumer are goroutines of the bubble, so "who is still blocked" is observable
// once the bubble is quiescent.
//
//	limit <n>          new controlBuffer with throttle limit n (default without this op: 2)
//	put <t|u|h> <id>   executeAndPut(nil, item): t throttled, u unthrottled, h clientHeaders
//	get                get(false) from the driving goroutine
//	getb               a consumer goroutine calls get(true) (at most one outstanding)
//	thr <r>            reader goroutine r calls throttle()
//	finish | done      finish() | close the done channel
//
// Output: <result> blocked=<readers still inside throttle(), sorted> cons=<-|parked|got <id>|err|doneerr>
// result: ok|err (put)  got <id>|none|err (get)  orph=<ids> (finish)  - (others)
type controlbufH struct {
	v *transport.VerifControlBuf

	mu      sync.Mutex
	inside  map[int]bool
	consOut bool   // a consumer goroutine is outstanding
	consRes string // its result, once it returned
	wg      sync.WaitGroup
	dead    bool
}

func init() {
	register("s_controlbuf", func() SHandler {
		return &controlbufH{inside: map[int]bool{}}
	})
}

func (h *controlbufH) status(res string) string {
	settle()
	h.mu.Lock()
	defer h.mu.Unlock()
	var bl []int
	for r := range h.inside {
		bl = append(bl, r)
	}
	sort.Ints(bl)
	bs := make([]string, len(bl))
	for i, r := range bl {
		bs[i] = strconv.Itoa(r)
	}
	cons := "-"
	if h.consOut {
		if h.consRes != "" {
			cons = h.consRes
			h.consOut = false
			h.consRes = ""
		} else {
			cons = "parked"
		}
	}
	return fmt.Sprintf("%s blocked=%s cons=%s", res, joinOrDash(bs), strings.ReplaceAll(cons, " ", "_"))
}

// Op: a panic inside the controlBuffer (recovered by the harness as PANIC) leaves c.mu locked, so the
// buffer must never be touched again in this case: later ops answer "dead".
func (h *controlbufH) Op(f []string) (out string) {
	if h.dead {
		return "dead"
	}
	defer func() {
		if r := recover(); r != nil {
			h.dead = true
			panic(r)
		}
	}()
	return h.op(f)
}

func (h *controlbufH) op(f []string) string {
	if f[0] == "limit" {
		h.v = transport.VerifNewControlBuf(atoiS(f[1]))
		return h.status("-")
	}
	if h.v == nil {
		h.v = transport.VerifNewControlBuf(2) // no `limit` op (e.g. a shrunk case): default limit 2
	}
	switch f[0] {
	case "put":
		if err := h.v.Put(f[1][0], atoiS(f[2])); err != nil {
			return h.status("err")
		}
		return h.status("ok")
	case "get":
		id, st := h.v.Get(false)
		if st == "got" {
			return h.status("got_" + strconv.Itoa(id))
		}
		return h.status(st)
	case "getb":
		h.mu.Lock()
		if h.consOut {
			h.mu.Unlock()
			return h.status("busy")
		}
		h.consOut = true
		h.mu.Unlock()
		h.wg.Add(1)
		go func() {
			defer h.wg.Done()
			id, st := h.v.Get(true)
			if st == "got" {
				st = "got " + strconv.Itoa(id)
			}
			h.mu.Lock()
			h.consRes = st
			h.mu.Unlock()
		}()
		return h.status("-")
	case "thr":
		r := atoiS(f[1])
		h.mu.Lock()
		h.inside[r] = true
		h.mu.Unlock()
		h.wg.Add(1)
		go func() {
			defer h.wg.Done()
			h.v.Throttle()
			h.mu.Lock()
			delete(h.inside, r)
			h.mu.Unlock()
		}()
		return h.status("-")
	case "finish":
		ids := h.v.Finish()
		s := make([]string, len(ids))
		for i, id := range ids {
			s[i] = strconv.Itoa(id)
		}
		return h.status("orph=" + joinOrDash(s))
	case "done":
		h.v.CloseDone()
		return h.status("-")
	}
	return "bad-op"
}

func (h *controlbufH) Close() {
	if h.dead {
		// c.mu is held by the panicked call: anything that touches the buffer would hang for real
		// (a goroutine blocked on a sync.Mutex is not "durably blocked" for synctest). Leave the
		// parked goroutines where they are; the bubble then ends with synctest's deadlock panic,
		// which the check attributes to this case as a CRASH.
		return
	}
	if h.v != nil {
		h.v.Finish()
		h.v.CloseDone()
	}
	h.wg.Wait()
}
