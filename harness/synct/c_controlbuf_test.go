package synct

import (
	"fmt"
	"runtime"
	"sort"
	"strconv"
	"strings"
	"sync"
	"sync/atomic"

	"google.golang.org/grpc/internal/transport"
)

// component s_controlbuf (C16, T2): the real transport.controlBuffer; readers (throttle callers)
// and the blocking consumer are goroutines of the bubble, so "who is still blocked" is observable
// once the bubble is quiescent.
//
//	limit <n>          new controlBuffer with throttle limit n (default without this op: 2)
//	put <t|u|h> <id>   executeAndPut(nil, item): t throttled, u unthrottled, h clientHeaders
//	get                get(false) from the driving goroutine
//	getb               a consumer goroutine calls get(true) (at most one outstanding)
//	thr <r>            reader goroutine r calls throttle()
//	finish | done      finish() | close the done channel
//	finishrace <it> …  finish() runs in its own goroutine and is HELD inside the first onOrphaned callback
//	                   of its orphan sweep; while it is held every <it> runs in its own goroutine
//	                   (p<t|u|h><id> = put, g = get(false)) until it has returned or is parked on c.mu
//	                   (read off the goroutine dump: no timing guess); then finish() is released.
//	                   If nothing is orphaned there is no such window: the items run after finish().
//	                   result: orph=<ids>/<res>,<res>…  (res per item: ok|err|got_<id>|none)
//
// Output: <result> blocked=<readers still inside throttle(), sorted> cons=<-|parked|got <id>|err|doneerr>
// result: ok|err (put)  got <id>|none|err (get)  orph=<ids> (finish)  - (others)
type controlbufH struct {
	v *transport.VerifControlBuf

	mu      sync.Mutex
	inside  map[int]bool
	consOut bool   // a consumer goroutine is outstanding
	consRes string // its result, once it returned
	wg      sync.WaitGroup
	dead    bool
}

func init() {
	register("s_controlbuf", func() SHandler {
		return &controlbufH{inside: map[int]bool{}}
	})
}

func (h *controlbufH) status(res string) string {
	settle()
	h.mu.Lock()
	defer h.mu.Unlock()
	var bl []int
	for r := range h.inside {
		bl = append(bl, r)
	}
	sort.Ints(bl)
	bs := make([]string, len(bl))
	for i, r := range bl {
		bs[i] = strconv.Itoa(r)
	}
	cons := "-"
	if h.consOut {
		if h.consRes != "" {
			cons = h.consRes
			h.consOut = false
			h.consRes = ""
		} else {
			cons = "parked"
		}
	}
	return fmt.Sprintf("%s blocked=%s cons=%s", res, joinOrDash(bs), strings.ReplaceAll(cons, " ", "_"))
}

// Op: a panic inside the controlBuffer (recovered by the harness as PANIC) leaves c.mu locked, so the
// buffer must never be touched again in this case: later ops answer "dead".
func (h *controlbufH) Op(f []string) (out string) {
	if h.dead {
		return "dead"
	}
	defer func() {
		if r := recover(); r != nil {
			h.dead = true
			panic(r)
		}
	}()
	return h.op(f)
}

func (h *controlbufH) op(f []string) string {
	if f[0] == "limit" {
		h.v = transport.VerifNewControlBuf(atoiS(f[1]))
		return h.status("-")
	}
	if h.v == nil {
		h.v = transport.VerifNewControlBuf(2) // no `limit` op (e.g. a shrunk case): default limit 2
	}
	switch f[0] {
	case "put":
		if err := h.v.Put(f[1][0], atoiS(f[2])); err != nil {
			return h.status("err")
		}
		return h.status("ok")
	case "get":
		id, st := h.v.Get(false)
		if st == "got" {
			return h.status("got_" + strconv.Itoa(id))
		}
		return h.status(st)
	case "getb":
		h.mu.Lock()
		if h.consOut {
			h.mu.Unlock()
			return h.status("busy")
		}
		h.consOut = true
		h.mu.Unlock()
		h.wg.Add(1)
		go func() {
			defer h.wg.Done()
			id, st := h.v.Get(true)
			if st == "got" {
				st = "got " + strconv.Itoa(id)
			}
			h.mu.Lock()
			h.consRes = st
			h.mu.Unlock()
		}()
		return h.status("-")
	case "thr":
		r := atoiS(f[1])
		h.mu.Lock()
		h.inside[r] = true
		h.mu.Unlock()
		h.wg.Add(1)
		go func() {
			defer h.wg.Done()
			h.v.Throttle()
			h.mu.Lock()
			delete(h.inside, r)
			h.mu.Unlock()
		}()
		return h.status("-")
	case "finish":
		ids := h.v.Finish()
		s := make([]string, len(ids))
		for i, id := range ids {
			s[i] = strconv.Itoa(id)
		}
		return h.status("orph=" + joinOrDash(s))
	case "finishrace":
		return h.status(h.finishRace(f[1:]))
	case "done":
		h.v.CloseDone()
		return h.status("-")
	}
	return "bad-op"
}

// raceItem runs one racing op and returns its result token.
func (h *controlbufH) raceItem(it string) string {
	if it == "g" {
		id, st := h.v.Get(false)
		if st == "got" {
			return "got_" + strconv.Itoa(id)
		}
		return st
	}
	if err := h.v.Put(it[1], atoiS(it[2:])); err != nil {
		return "err"
	}
	return "ok"
}

// goid returns the current goroutine's id (from its stack header).
func goid() string {
	var b [64]byte
	n := runtime.Stack(b[:], false)
	f := strings.Fields(string(b[:n]))
	if len(f) >= 2 {
		return f[1]
	}
	return "?"
}

// parkedOnMutex reports whether goroutine id is blocked acquiring a sync.Mutex.
func parkedOnMutex(id string) bool {
	buf := make([]byte, 1<<20)
	n := runtime.Stack(buf, true)
	dump := string(buf[:n])
	i := strings.Index(dump, "goroutine "+id+" [")
	if i < 0 {
		return false
	}
	rest := dump[i:]
	j := strings.Index(rest, "]")
	if j < 0 {
		return false
	}
	st := rest[:j]
	return strings.Contains(st, "sync.Mutex.Lock") || strings.Contains(st, "semacquire")
}

func (h *controlbufH) finishRace(items []string) string {
	inOrphan := make(chan struct{})
	resume := make(chan struct{})
	var once sync.Once
	h.v.OnOrphan = func(int) { once.Do(func() { close(inOrphan); <-resume }) }
	finDone := make(chan []int, 1)
	go func() { finDone <- h.v.Finish() }()
	res := make([]string, len(items))
	var ids []int
	select {
	case ids = <-finDone:
		// nothing was orphaned: no window; the items simply come after finish()
		h.v.OnOrphan = nil
		for i, it := range items {
			res[i] = h.raceItem(it)
		}
	case <-inOrphan:
		var wg sync.WaitGroup
		gids := make([]atomic.Value, len(items))
		dones := make([]atomic.Bool, len(items))
		for i, it := range items {
			wg.Add(1)
			go func() {
				defer wg.Done()
				gids[i].Store(goid())
				res[i] = h.raceItem(it)
				dones[i].Store(true)
			}()
		}
		// wait until every racing goroutine has returned or is parked on the buffer's mutex
		for i := range items {
			for spin := 0; spin < 200000; spin++ {
				if dones[i].Load() {
					break
				}
				if g, _ := gids[i].Load().(string); g != "" && parkedOnMutex(g) {
					break
				}
				runtime.Gosched()
			}
		}
		close(resume)
		ids = <-finDone
		wg.Wait()
		h.v.OnOrphan = nil
	}
	s := make([]string, len(ids))
	for i, id := range ids {
		s[i] = strconv.Itoa(id)
	}
	return "orph=" + joinOrDash(s) + "/" + joinOrDash(res)
}

func (h *controlbufH) Close() {
	if h.dead {
		// c.mu is held by the panicked call: anything that touches the buffer would hang for real
		// (a goroutine blocked on a sync.Mutex is not "durably blocked" for synctest). Leave the
		// parked goroutines where they are; the bubble then ends with synctest's deadlock panic,
		// which the check attributes to this case as a CRASH.
		return
	}
	if h.v != nil {
		h.v.Finish()
		h.v.CloseDone()
	}
	h.wg.Wait()
}
