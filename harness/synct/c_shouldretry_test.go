package synct

import (
	"context"
	"encoding/hex"
	"fmt"
	"math"
	"strconv"
	"strings"
	"time"

	"google.golang.org/grpc"
	"google.golang.org/grpc/codes"
	"google.golang.org/grpc/status"
)

// component s_shouldretry (C19, C18): the real csAttempt.shouldRetry driven call by call on an
// attempt in a described state, inside a bubble so that the retry timer is observed as elapsed
// virtual time; the real retryThrottler (built by the real service-config path) persists
// across the ops of a case.
//
//	thr <maxTokens> <tokenRatio> | thr none       -> ok tok=<float64 bits> | err | none
//	throttle                                     -> <bool> tok=<bits>
//	success                                      -> tok=<bits>
//	sr k=v ...                                   -> transparent | noretry | exhausted | retry dur=<ns> | ctxerr
//	                                                 followed by nr=<numRetries> sp=<sincePushback> tok=<bits|nil>
type shouldRetryC struct {
	thr *grpc.VerifThrottler
}

func init() {
	register("s_shouldretry", func() SHandler { return &shouldRetryC{thr: noThrottler()} })
}

// noThrottler is what a channel without retryThrottling stores: a nil *retryThrottler.
func noThrottler() *grpc.VerifThrottler {
	sc, err := grpc.VerifParseSC(`{}`, 5)
	if err != nil {
		panic(err)
	}
	t := grpc.VerifNewThrottler(sc)
	if !t.IsNil() {
		panic("throttler without retryThrottling")
	}
	return t
}

func kv(f []string) map[string]string {
	m := map[string]string{}
	for _, x := range f {
		if i := strings.IndexByte(x, '='); i >= 0 {
			m[x[:i]] = x[i+1:]
		}
	}
	return m
}

func (c *shouldRetryC) tok() string {
	if c.thr.IsNil() {
		return "tok=nil"
	}
	t, _, _, _ := c.thr.State()
	return "tok=" + strconv.FormatUint(math.Float64bits(t), 10)
}

// decodePushback: "-" = header absent; otherwise comma separated x<hex> values.
func decodePushback(s string) []string {
	if s == "-" {
		return nil
	}
	out := []string{}
	for _, p := range strings.Split(s, ",") {
		b, err := hex.DecodeString(strings.TrimPrefix(p, "x"))
		if err != nil {
			panic("bad pushback " + p)
		}
		out = append(out, string(b))
	}
	return out
}

func mustInt(s string) int {
	n, err := strconv.Atoi(s)
	if err != nil {
		panic("bad int " + s)
	}
	return n
}

func (c *shouldRetryC) Op(f []string) string {
	switch f[0] {
	case "thr":
		// thr none | thr <maxTokens> <tokenRatio> <1 = the config also has a (empty) methodConfig list>
		if f[1] == "none" {
			c.thr = noThrottler()
			return "none"
		}
		mc := ""
		if len(f) > 3 && f[3] == "1" {
			mc = `"methodConfig":[],`
		}
		js := fmt.Sprintf(`{%s"retryThrottling":{"maxTokens":%s,"tokenRatio":%s}}`, mc, f[1], f[2])
		sc, err := grpc.VerifParseSC(js, 5)
		if err != nil {
			c.thr = noThrottler()
			return "err"
		}
		c.thr = grpc.VerifNewThrottler(sc)
		_, mx, th, ra := c.thr.State()
		return fmt.Sprintf("ok %s max=%d thresh=%d ratio=%d", c.tok(), math.Float64bits(mx), math.Float64bits(th), math.Float64bits(ra))
	case "throttle":
		return fmt.Sprint(c.thr.Throttle(), " ", c.tok())
	case "success":
		c.thr.SuccessfulRPC()
		return c.tok()
	case "sr":
		m := kv(f[1:])
		b := func(k string) bool { return m[k] == "1" }
		ctx, cancel := context.WithCancel(context.Background())
		defer cancel()
		if b("ctx") {
			cancel()
		}
		in := grpc.VerifSRIn{
			Ctx: ctx, Finished: b("fin"), Committed: b("com"), Drop: b("drop"),
			HasStream: b("st"), AllowTransparent: b("atr"), Unprocessed: b("unp"), TrailersOnly: b("to"),
			Pushback: decodePushback(m["pb"]), Code: codes.Code(mustInt(m["code"])),
			FirstAttempt: b("first"), DisableRetry: b("dis"),
			NumRetries: mustInt(m["nr"]), SincePushback: mustInt(m["sp"]), Throttler: c.thr,
		}
		if p := m["pol"]; p != "-" {
			q := strings.Split(p, ":")
			in.HasPolicy = true
			in.MaxAttempts = mustInt(q[0])
			i64 := func(s string) int64 { v, err := strconv.ParseInt(s, 10, 64); if err != nil { panic(err) }; return v }
			in.InitialBackoff = time.Duration(i64(q[1]))
			in.MaxBackoff = time.Duration(i64(q[2]))
			bits, err := strconv.ParseUint(q[3], 10, 64)
			if err != nil {
				panic(err)
			}
			in.Multiplier = math.Float64frombits(bits)
			if q[4] != "-" {
				for _, x := range strings.Split(q[4], ",") {
					in.Codes = append(in.Codes, mustInt(x))
				}
			}
		}
		t0 := time.Now()
		out := grpc.VerifShouldRetry(in)
		el := time.Since(t0)
		tail := fmt.Sprintf(" nr=%d sp=%d %s", out.NumRetries, out.SincePushback, c.tok())
		switch {
		case out.Transparent && out.Err == nil:
			return "transparent" + tail
		case out.Err == nil:
			return fmt.Sprintf("retry dur=%d", int64(el)) + tail
		case out.SameErr:
			return "noretry" + tail
		case strings.Contains(out.Err.Error(), "max retries exhausted"):
			return "exhausted" + tail
		case status.Code(out.Err) == codes.Canceled:
			return "ctxerr" + tail
		}
		return "other " + out.Err.Error() + tail
	}
	return "bad-op"
}

func (c *shouldRetryC) Close() {}
