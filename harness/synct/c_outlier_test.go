package synct

// component s_outlier (C40): the REAL outlier detection balancer, built through its registered
// builder, with a stub child policy (registered below), a recording parent balancer.ClientConn
// (fake SubConns, recording metrics recorder) and the package's afterFunc wrapped so that every
// run of intervalTimerAlgorithm is followed by a state snapshot. Time is the bubble's virtual
// clock; all inputs are integers (milliseconds, call counts, percentages).
//
// ops (addresses are "a<id>", sub-connections are numbered 1,2,… in creation order):
//   cfg <interval_ms> <base_ms> <maxej_ms> <maxpct> <sr|-> <fp|-> <ids|->   UpdateClientConnState
//        sr = stdevFactor:enforcement:minHosts:requestVolume   fp = threshold:enforcement:minHosts:requestVolume
//   calls <serial> <succ> <fail>    pick that sub-connection through the picker last sent to the parent, finish calls
//   sc <serial> <state>             raw connectivity update of the underlying SubConn (0 idle 1 connecting 2 ready 3 tf)
//   health <serial> <state>         health update of the underlying SubConn (if a listener is registered)
//   newsc <id> / rmsc <serial>      the child creates / shuts down a sub-connection
//   childstate <state>              the child pushes a new picker
//   sleep <ms>                      virtual time passes (interval timers fire on their own)
//   fire                            intervalTimerAlgorithm is called directly (as the package's tests do)
//
// output:  {F <t_ms> ev=<events> n=<numEjected> eps=<…>}* S n=… ts=<timerStart> eps=… dl=<child deliveries> up=<parent updates> subs=<…>

import (
	"encoding/json"
	"errors"
	"fmt"
	"sort"
	"strconv"
	"strings"
	"time"

	"google.golang.org/grpc/balancer"
	"google.golang.org/grpc/connectivity"
	estats "google.golang.org/grpc/experimental/stats"
	od "google.golang.org/grpc/internal/xds/balancer/outlierdetection"
	"google.golang.org/grpc/resolver"
	"google.golang.org/grpc/serviceconfig"
)

const odChildName = "verif_od_child"

var odCur *odCase // the case being driven (cases run one after the other)

type odFake struct {
	balancer.SubConn
	serial   int
	addr     string
	listener func(balancer.SubConnState)
	healthCb func(balancer.SubConnState)
	dead     bool
}

func (f *odFake) Connect()                           {}
func (f *odFake) UpdateAddresses([]resolver.Address) {}
func (f *odFake) Shutdown() {
	if f.dead {
		return
	}
	f.dead = true
	f.healthCb = nil
	go f.listener(balancer.SubConnState{ConnectivityState: connectivity.Shutdown})
}
func (f *odFake) RegisterHealthListener(cb func(balancer.SubConnState)) { f.healthCb = cb }
func (f *odFake) GetOrBuildProducer(balancer.ProducerBuilder) (balancer.Producer, func()) {
	panic("GetOrBuildProducer")
}

type odChildSC struct {
	serial int
	addr   string
	sc     balancer.SubConn
	raw    string
	hl     bool
	last   string
	dead   bool
}

type odCase struct {
	balancer.ClientConn
	t0      time.Time
	bal     balancer.Balancer
	child   *odChild
	fakes   map[int]*odFake
	subs    []*odChildSC
	serial  int
	pending int
	target  int
	lastUp  *balancer.State
	ups     []string
	dl      []string
	events  []string
	prev    map[string]int64
	fires   []string
	chState connectivity.State
	quiet   bool
}

// ---- parent ClientConn

type odRec struct {
	estats.MetricsRecorder
	h *odCase
}

func (h *odCase) NewSubConn(addrs []resolver.Address, opts balancer.NewSubConnOptions) (balancer.SubConn, error) {
	f := &odFake{serial: h.pending, addr: addrs[0].Addr, listener: opts.StateListener}
	h.fakes[f.serial] = f
	return f, nil
}
func (h *odCase) RemoveSubConn(balancer.SubConn)                                   {}
func (h *odCase) UpdateAddresses(balancer.SubConn, []resolver.Address)             {}
func (h *odCase) ResolveNow(resolver.ResolveNowOptions)                            {}
func (h *odCase) Target() string                                                   { return "verif" }
func (h *odCase) MetricsRecorder() estats.MetricsRecorder                          { return &odRec{h: h} }
func (r *odRec) RecordFloat64Count(*estats.Float64CountHandle, float64, ...string) {}
func (r *odRec) RecordInt64Histo(*estats.Int64HistoHandle, int64, ...string)       {}
func (r *odRec) RecordFloat64Histo(*estats.Float64HistoHandle, float64, ...string) {}
func (r *odRec) RecordInt64Gauge(*estats.Int64GaugeHandle, int64, ...string)       {}
func (r *odRec) RecordInt64UpDownCount(*estats.Int64UpDownCountHandle, int64, ...string) {
}
func (r *odRec) RegisterAsyncReporter(estats.AsyncMetricReporter, ...estats.AsyncMetric) func() {
	return func() {}
}

func (h *odCase) UpdateState(s balancer.State) {
	h.lastUp = &s
	noop := "?"
	if p, ok := s.Picker.(interface{ VerifNoop() bool }); ok {
		if p.VerifNoop() {
			noop = "1"
		} else {
			noop = "0"
		}
	}
	h.ups = append(h.ups, fmt.Sprintf("%d/%s", int(s.ConnectivityState), noop))
}

// RecordInt64Count runs inside ejectEndpoint / the algorithms, i.e. on the goroutine holding b.mu.
func (r *odRec) RecordInt64Count(handle *estats.Int64CountHandle, _ int64, labels ...string) {
	h := r.h
	name := handle.Descriptor().Name
	alg := "?"
	if len(labels) > 1 {
		switch labels[1] {
		case "success_rate":
			alg = "sr"
		case "failure_percentage":
			alg = "fp"
		}
	}
	switch {
	case strings.HasSuffix(name, "ejections_enforced"):
		snap := od.VerifSnapshot(h.bal, false)
		who := "?"
		for _, e := range snap.Eps {
			if e.Mult != h.prev[e.Addr] {
				who = e.Addr[1:]
			}
			h.prev[e.Addr] = e.Mult
		}
		h.events = append(h.events, "E."+alg+"."+who)
	case strings.HasSuffix(name, "ejections_unenforced"):
		rs := "?"
		if len(labels) > 2 {
			switch labels[2] {
			case "max_ejection_overflow":
				rs = "Um"
			case "enforcement_percentage":
				rs = "Ue"
			}
		}
		h.events = append(h.events, rs+"."+alg)
	}
}

func (h *odCase) ms(t time.Time) string {
	if t.IsZero() {
		return "-"
	}
	return strconv.FormatInt(int64(t.Sub(h.t0)/time.Millisecond), 10)
}

func (h *odCase) snapStr(lock, withSws bool) string {
	s := od.VerifSnapshot(h.bal, lock)
	sort.Slice(s.Eps, func(i, j int) bool { return odInt(s.Eps[i].Addr[1:]) < odInt(s.Eps[j].Addr[1:]) })
	var eps []string
	for _, e := range s.Eps {
		x := fmt.Sprintf("%s:%s:%d:%d:%d:%d:%d", e.Addr[1:], h.ms(e.Ts), e.Mult, e.ActS, e.ActF, e.InS, e.InF)
		if withSws {
			x += fmt.Sprintf(":%d", e.NumSws)
		}
		eps = append(eps, x)
		h.prev[e.Addr] = e.Mult
	}
	for a := range h.prev {
		found := false
		for _, e := range s.Eps {
			found = found || e.Addr == a
		}
		if !found {
			delete(h.prev, a)
		}
	}
	return fmt.Sprintf("n=%d ts=%s eps=%s", s.NumEjected, h.ms(s.TimerStart), odJoin(eps, ","))
}

func odDlSerial(s string) int64 { return odInt(s[1:strings.Index(s, ":")]) }

func odJoin(l []string, sep string) string {
	if len(l) == 0 {
		return "-"
	}
	return strings.Join(l, sep)
}

// afterFire runs right after intervalTimerAlgorithm returned.
func (h *odCase) afterFire() {
	now := h.ms(time.Now())
	h.fires = append(h.fires, fmt.Sprintf("F %s ev=%s %s", now, odJoin(h.events, ";"), h.snapStr(true, false)))
	h.events = nil
}

// ---- stub child policy

type odChildBuilder struct{}

func (odChildBuilder) Name() string { return odChildName }
func (odChildBuilder) Build(cc balancer.ClientConn, _ balancer.BuildOptions) balancer.Balancer {
	c := &odChild{cc: cc, h: odCur}
	odCur.child = c
	return c
}
func (odChildBuilder) ParseConfig(json.RawMessage) (serviceconfig.LoadBalancingConfig, error) {
	return struct {
		serviceconfig.LoadBalancingConfig
	}{}, nil
}

type odChild struct {
	cc balancer.ClientConn
	h  *odCase
}

type odPicker struct{ h *odCase }

func (p *odPicker) Pick(balancer.PickInfo) (balancer.PickResult, error) {
	for _, s := range p.h.subs {
		if s.serial == p.h.target && !s.dead {
			return balancer.PickResult{SubConn: s.sc}, nil
		}
	}
	return balancer.PickResult{}, errors.New("no such sub-connection")
}

func (c *odChild) newSC(addr string) {
	h := c.h
	h.serial++
	rec := &odChildSC{serial: h.serial, addr: addr, raw: "-", last: "-"}
	h.pending = rec.serial
	sc, err := c.cc.NewSubConn([]resolver.Address{{Addr: addr}}, balancer.NewSubConnOptions{
		StateListener: func(s balancer.SubConnState) {
			rec.raw = strconv.Itoa(int(s.ConnectivityState))
			h.dl = append(h.dl, fmt.Sprintf("r%d:%s", rec.serial, rec.raw))
			rec.hl = false
			rec.last = "-"
			switch s.ConnectivityState {
			case connectivity.Ready:
				rec.sc.RegisterHealthListener(func(hs balancer.SubConnState) {
					rec.last = strconv.Itoa(int(hs.ConnectivityState))
					h.dl = append(h.dl, fmt.Sprintf("h%d:%s", rec.serial, rec.last))
				})
				rec.hl = true
			case connectivity.Shutdown:
				rec.dead = true
			}
		},
	})
	if err != nil {
		panic(err)
	}
	rec.sc = sc
	h.subs = append(h.subs, rec)
}

func (c *odChild) pushState() {
	c.cc.UpdateState(balancer.State{ConnectivityState: c.h.chState, Picker: &odPicker{c.h}})
}

func (c *odChild) UpdateClientConnState(ccs balancer.ClientConnState) error {
	want := map[string]bool{}
	for _, ep := range ccs.ResolverState.Endpoints {
		want[ep.Addresses[0].Addr] = true
	}
	for _, s := range c.h.subs {
		if !s.dead && !want[s.addr] {
			s.dead = true
			s.sc.Shutdown()
		}
	}
	for _, ep := range ccs.ResolverState.Endpoints {
		a := ep.Addresses[0].Addr
		have := false
		for _, s := range c.h.subs {
			have = have || (!s.dead && s.addr == a)
		}
		if !have {
			c.newSC(a)
		}
	}
	if !c.h.quiet {
		c.pushState()
	}
	return nil
}
func (c *odChild) ResolverError(error) {}
func (c *odChild) UpdateSubConnState(balancer.SubConn, balancer.SubConnState) {
}
func (c *odChild) Close()    {}
func (c *odChild) ExitIdle() {}

// ---- the component

func init() {
	balancer.Register(odChildBuilder{})
	register("s_outlier", func() SHandler {
		h := &odCase{t0: time.Now(), fakes: map[int]*odFake{}, prev: map[string]int64{}, chState: connectivity.Ready}
		odCur = h
		od.VerifSetAfterFunc(func(d time.Duration, fn func()) *time.Timer {
			return time.AfterFunc(d, func() { fn(); h.afterFire() })
		})
		h.bal = balancer.Get(od.Name).Build(h, balancer.BuildOptions{})
		return h
	})
}

func odDur(ms int64) string { return fmt.Sprintf("%d.%03ds", ms/1000, ms%1000) }

func odAlg(kind, s string) string {
	p := strings.Split(s, ":")
	first := "stdevFactor"
	if kind == "fp" {
		first = "threshold"
	}
	return fmt.Sprintf(`{"%s":%s,"enforcementPercentage":%s,"minimumHosts":%s,"requestVolume":%s}`, first, p[0], p[1], p[2], p[3])
}

func (h *odCase) state() string {
	var subs []string
	for _, s := range h.subs {
		if s.dead {
			continue
		}
		hl := "0"
		if s.hl {
			hl = "1"
		}
		subs = append(subs, fmt.Sprintf("%d:%s:%s:%s:%s", s.serial, s.addr[1:], s.raw, hl, s.last))
	}
	out := ""
	for _, f := range h.fires {
		out += f + " "
	}
	sort.SliceStable(h.dl, func(i, j int) bool { return odDlSerial(h.dl[i]) < odDlSerial(h.dl[j]) })
	out += "S " + h.snapStr(true, true) + " dl=" + odJoin(h.dl, ";") + " up=" + odJoin(h.ups, ";") + " subs=" + odJoin(subs, ",")
	h.fires, h.dl, h.ups = nil, nil, nil
	return out
}

func (h *odCase) Op(f []string) string {
	switch f[0] {
	case "cfg":
		if len(f) != 8 {
			return "bad-op"
		}
		js := fmt.Sprintf(`{"interval":"%s","baseEjectionTime":"%s","maxEjectionTime":"%s","maxEjectionPercent":%s`,
			odDur(odInt(f[1])), odDur(odInt(f[2])), odDur(odInt(f[3])), f[4])
		if f[5] != "-" {
			js += `,"successRateEjection":` + odAlg("sr", f[5])
		}
		if f[6] != "-" {
			js += `,"failurePercentageEjection":` + odAlg("fp", f[6])
		}
		js += `,"childPolicy":[{"` + odChildName + `":{}}]}`
		cfg, err := balancer.Get(od.Name).(balancer.ConfigParser).ParseConfig(json.RawMessage(js))
		if err != nil {
			return "cfgerr"
		}
		var eps []resolver.Endpoint
		if f[7] != "-" {
			for _, id := range strings.Split(f[7], ",") {
				eps = append(eps, resolver.Endpoint{Addresses: []resolver.Address{{Addr: "a" + id}}})
			}
		}
		if err := h.bal.UpdateClientConnState(balancer.ClientConnState{ResolverState: resolver.State{Endpoints: eps}, BalancerConfig: cfg}); err != nil {
			return "err"
		}
	case "calls":
		if len(f) != 4 || h.lastUp == nil {
			return "nopicker"
		}
		h.target = int(odInt(f[1]))
		ns, nf := odInt(f[2]), odInt(f[3])
		for i := int64(0); i < ns+nf; i++ {
			r, err := h.lastUp.Picker.Pick(balancer.PickInfo{})
			if err != nil {
				return "nopick"
			}
			if fk, ok := r.SubConn.(*odFake); !ok || fk != h.fakes[h.target] {
				return "wrongsc"
			}
			if i < ns {
				r.Done(balancer.DoneInfo{})
			} else {
				r.Done(balancer.DoneInfo{Err: errors.New("failed")})
			}
		}
	case "sc", "health":
		if len(f) != 3 {
			return "bad-op"
		}
		fk := h.fakes[int(odInt(f[1]))]
		if fk == nil || fk.dead {
			return "dead"
		}
		st := balancer.SubConnState{ConnectivityState: connectivity.State(odInt(f[2]))}
		if odInt(f[2]) > 3 || odInt(f[2]) < 0 {
			return "bad-op"
		}
		if f[0] == "sc" {
			fk.healthCb = nil
			fk.listener(st)
		} else if fk.healthCb != nil {
			fk.healthCb(st)
		}
	case "newsc":
		if h.child == nil {
			return "nochild"
		}
		h.child.newSC("a" + f[1])
	case "rmsc":
		if h.child == nil {
			return "nochild"
		}
		for _, s := range h.subs {
			if s.serial == int(odInt(f[1])) && !s.dead {
				s.dead = true
				s.sc.Shutdown()
			}
		}
	case "childstate":
		if h.child == nil {
			return "nochild"
		}
		h.chState = connectivity.State(odInt(f[1]))
		h.child.pushState()
	case "quiet":
		h.quiet = f[1] == "1"
	case "sleep":
		time.Sleep(time.Duration(odInt(f[1])) * time.Millisecond)
	case "fire":
		if !od.VerifSnapshot(h.bal, true).HasCfg {
			return "nocfg"
		}
		od.VerifFire(h.bal)
		h.afterFire()
	default:
		return "bad-op"
	}
	settle()
	return h.state()
}

func (h *odCase) Close() {
	h.bal.Close()
	od.VerifSetAfterFunc(nil)
}

func odInt(s string) int64 {
	n, err := strconv.ParseInt(s, 10, 64)
	if err != nil {
		panic("bad int " + s)
	}
	return n
}
