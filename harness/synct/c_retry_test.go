package synct

import (
	"fmt"
	"strings"
	"time"

	"google.golang.org/grpc"
)

// component s_retry (C18, and the end-to-end leg of C19): one RPC on a real ClientConn against the
// scripted raw HTTP/2 server of retryenv_test.go.
//
//	cfg ma=<maxAttempts|0> codes=<c,c|-> ib=<ns> mb=<ns> mult=<decimal> chan=<WithMaxCallAttempts arg|0>
//	    thr=<maxTokens>:<ratio>|- dis=<0|1> kind=<u|c|b> script=<b;b;…|->
//	new <MaxRetryRPCBufferSize|d> | send <size> | close | recv | hdr | cancel | sleep <ms>
//	    -> <result> t=<virtual ns the op took> ev=<server events since the previous op>
//	       events: N<i>p<prev> new attempt i with grpc-previous-rpc-attempts=prev, M<i>:<seq>x<len>, E<i> half-close
type retryC struct {
	env     *retryEnv
	blocked bool // an op never returned: its goroutine still sits in the stream, later ops are skipped
}

func init() {
	register("s_retry", func() SHandler { return &retryC{} })
}

func ns2s(ns string) string {
	n := atoi64s(ns)
	return fmt.Sprintf("%d.%09ds", n/1000000000, n%1000000000)
}


// retryServiceConfig builds the JSON service config of a cfg op (shared with s_pickdone).
func retryServiceConfig(m map[string]string, lb string) string {
	var parts []string
	if lb != "" {
		parts = append(parts, fmt.Sprintf(`"loadBalancingConfig":[{%q:{}}]`, lb))
	}
	if m["ma"] != "0" && m["ma"] != "" {
		codes := "[]"
		if m["codes"] != "-" {
			codes = "[" + m["codes"] + "]"
		}
		parts = append(parts, fmt.Sprintf(`"methodConfig":[{"name":[{"service":"s"}],"retryPolicy":{"maxAttempts":%s,"initialBackoff":%q,"maxBackoff":%q,"backoffMultiplier":%s,"retryableStatusCodes":%s}}]`,
			m["ma"], ns2s(m["ib"]), ns2s(m["mb"]), m["mult"], codes))
	}
	if t := m["thr"]; t != "-" && t != "" {
		q := strings.Split(t, ":")
		parts = append(parts, fmt.Sprintf(`"retryThrottling":{"maxTokens":%s,"tokenRatio":%s}`, q[0], q[1]))
	}
	return "{" + strings.Join(parts, ",") + "}"
}

func (c *retryC) Op(f []string) string {
	switch f[0] {
	case "cfg":
		if c.env != nil {
			return "already-configured"
		}
		m := kv(f[1:])
		var dopts []grpc.DialOption
		if m["chan"] != "0" {
			dopts = append(dopts, grpc.WithMaxCallAttempts(mustInt(m["chan"])))
		}
		if m["dis"] == "1" {
			dopts = append(dopts, grpc.WithDisableRetry())
		}
		var copts []grpc.CallOption
		if cr := parseNS(m["ns"]); cr != nil {
			copts = append(copts, grpc.PerRPCCredentials(cr))
		}
		c.env = newRetryEnv(parseScript(m["script"]), retryServiceConfig(m, ""), dopts, m["kind"], copts)
		return "ok"
	}
	if c.env == nil {
		return "not-configured"
	}
	if c.blocked {
		return "skipped"
	}
	r := c.op(f)
	if strings.HasPrefix(r, "blocked") || strings.HasPrefix(r, "PANIC") || strings.Contains(r, "=blocked") {
		c.blocked = true
	}
	return r
}

func (c *retryC) op(f []string) string {
	switch f[0] {
	case "new":
		// new <MaxRetryRPCBufferSize | d = default>
		if len(f) > 1 && f[1] != "d" {
			return c.env.opNew("/s/m", grpc.MaxRetryRPCBufferSize(mustInt(f[1])))
		}
		return c.env.opNew("/s/m")
	case "send":
		return c.env.opSend(mustInt(f[1]))
	case "close":
		return c.env.opCloseSend()
	case "recv":
		return c.env.opRecv()
	case "sendrecv":
		return c.env.opSendRecv(mustInt(f[1]))
	case "hdr":
		return c.env.opHeader()
	case "cancel":
		return c.env.opCancel()
	case "sleep":
		return c.env.runOp(func() string { time.Sleep(time.Duration(mustInt(f[1])) * time.Millisecond); return "ok" })
	}
	return "bad-op"
}

func (c *retryC) Close() {
	if c.env != nil {
		c.env.close()
	}
}
