package synct

import (
	"bytes"
	"context"
	"encoding/hex"
	"fmt"
	"net"
	"strings"
	"sync"

	"golang.org/x/net/http2"
	"golang.org/x/net/http2/hpack"
	"google.golang.org/grpc"
	"google.golang.org/grpc/codes"
	"google.golang.org/grpc/status"
	"google.golang.org/grpc/test/bufconn"
)

// component s_dispatch (C26): a real grpc.Server over bufconn, driven by a raw HTTP/2 client
// (x/net/http2 Framer + hpack) so that arbitrary :path values can be sent.
//
//	svc <name hex> <method names hex,hex,..|-> <stream names hex,..|->   add a ServiceDesc (before serve)
//	serve <0|1>                                                          1 = install an UnknownServiceHandler
//	call <path hex>     send one request with that :path ("-" = empty value)
//	callnopath          send one request without a :path header
//
// Answer of call: ran=<handlers that ran, '+'-joined | -> res=<st:<grpc-status>:<kind> | rst:<code> | none>
// handler ids: <service index>.m<index in Methods> | <service index>.s<index in Streams> | U:<hex of the
// method string the unknown-service handler saw>.
type sDispatch struct {
	svcs   []*grpc.ServiceDesc
	srv    *grpc.Server
	lis    *bufconn.Listener
	conn   net.Conn
	fr     *http2.Framer
	wmu    sync.Mutex
	mu     sync.Mutex
	ran    []string
	resp   map[uint32]*dispResp
	nextID uint32
	done   chan struct{}
}

type dispResp struct {
	status, msg string
	gotStatus   bool
	rst         bool
	rstCode     uint32
	ended       bool
}

func init() {
	register("s_dispatch", func() SHandler {
		return &sDispatch{resp: map[uint32]*dispResp{}, nextID: 1}
	})
}

func dispHexList(s string) []string {
	if s == "-" {
		return nil
	}
	var out []string
	for _, p := range strings.Split(s, ",") {
		out = append(out, string(dispUnhex(p)))
	}
	return out
}

func dispUnhex(s string) []byte {
	if s == "-" || s == "" || s == "e" {
		return nil
	}
	b, err := hex.DecodeString(s)
	if err != nil {
		panic("bad hex " + s)
	}
	return b
}

func (s *sDispatch) note(id string) {
	s.mu.Lock()
	s.ran = append(s.ran, id)
	s.mu.Unlock()
}

func (s *sDispatch) Op(f []string) string {
	switch f[0] {
	case "svc":
		if s.srv != nil {
			return "already-serving"
		}
		name := string(dispUnhex(f[1]))
		for _, d := range s.svcs {
			if d.ServiceName == name {
				return "dup" // RegisterService would log.Fatal
			}
		}
		idx := len(s.svcs)
		sd := &grpc.ServiceDesc{ServiceName: name, HandlerType: (*any)(nil)}
		for i, m := range dispHexList(f[2]) {
			id := fmt.Sprintf("%d.m%d", idx, i)
			sd.Methods = append(sd.Methods, grpc.MethodDesc{MethodName: m,
				Handler: func(any, context.Context, func(any) error, grpc.UnaryServerInterceptor) (any, error) {
					s.note(id)
					return nil, status.Error(codes.Aborted, "h:"+id)
				}})
		}
		for i, m := range dispHexList(f[3]) {
			id := fmt.Sprintf("%d.s%d", idx, i)
			sd.Streams = append(sd.Streams, grpc.StreamDesc{StreamName: m, ServerStreams: true, ClientStreams: true,
				Handler: func(any, grpc.ServerStream) error {
					s.note(id)
					return status.Error(codes.Aborted, "h:"+id)
				}})
		}
		s.svcs = append(s.svcs, sd)
		return "ok"
	case "serve":
		if s.srv != nil {
			return "already-serving"
		}
		var opts []grpc.ServerOption
		if f[1] == "1" {
			opts = append(opts, grpc.UnknownServiceHandler(func(_ any, st grpc.ServerStream) error {
				m, _ := grpc.MethodFromServerStream(st)
				s.note("U:" + dispTohex([]byte(m)))
				return status.Error(codes.Aborted, "h:U")
			}))
		}
		s.srv = grpc.NewServer(opts...)
		for _, sd := range s.svcs {
			s.srv.RegisterService(sd, nil)
		}
		s.lis = bufconn.Listen(1 << 20)
		go s.srv.Serve(s.lis)
		c, err := s.lis.DialContext(context.Background())
		if err != nil {
			return "err " + err.Error()
		}
		s.conn = c
		s.fr = http2.NewFramer(c, c)
		s.fr.ReadMetaHeaders = hpack.NewDecoder(4096, nil)
		if _, err := c.Write([]byte(http2.ClientPreface)); err != nil {
			return "err " + err.Error()
		}
		if err := s.fr.WriteSettings(); err != nil {
			return "err " + err.Error()
		}
		s.done = make(chan struct{})
		go s.reader()
		settle()
		return "ok"
	case "call", "callnopath":
		if s.srv == nil {
			return "not-serving"
		}
		var path []byte
		if f[0] == "call" {
			path = dispUnhex(f[1])
		}
		id := s.nextID
		s.nextID += 2
		var hb bytes.Buffer
		enc := hpack.NewEncoder(&hb)
		enc.WriteField(hpack.HeaderField{Name: ":method", Value: "POST"})
		enc.WriteField(hpack.HeaderField{Name: ":scheme", Value: "http"})
		if f[0] == "call" {
			enc.WriteField(hpack.HeaderField{Name: ":path", Value: string(path)})
		}
		enc.WriteField(hpack.HeaderField{Name: ":authority", Value: "dispatch.test"})
		enc.WriteField(hpack.HeaderField{Name: "content-type", Value: "application/grpc"})
		enc.WriteField(hpack.HeaderField{Name: "te", Value: "trailers"})
		s.wmu.Lock()
		// a fresh encoder per request: no dynamic-table state is shared between requests
		err := s.fr.WriteHeaders(http2.HeadersFrameParam{StreamID: id, BlockFragment: hb.Bytes(), EndHeaders: true})
		if err == nil {
			err = s.fr.WriteData(id, true, []byte{0, 0, 0, 0, 0})
		}
		s.wmu.Unlock()
		if err != nil {
			return "err " + err.Error()
		}
		settle()
		s.mu.Lock()
		ran := s.ran
		s.ran = nil
		r := s.resp[id]
		delete(s.resp, id)
		s.mu.Unlock()
		rs := "-"
		if len(ran) > 0 {
			rs = strings.Join(ran, "+")
		}
		res := "none"
		if r != nil {
			switch {
			case r.rst && !r.gotStatus:
				res = fmt.Sprintf("rst:%d", r.rstCode)
			case r.gotStatus:
				kind := "other"
				switch {
				case strings.HasPrefix(r.msg, "malformed method name"):
					kind = "mal"
				case strings.HasPrefix(r.msg, "unknown service"):
					kind = "usvc"
				case strings.HasPrefix(r.msg, "unknown method"):
					kind = "umeth"
				case strings.HasPrefix(r.msg, "h:"):
					kind = "h"
				}
				res = "st:" + r.status + ":" + kind
				if !r.ended {
					res += ":open"
				}
			}
		}
		return "ran=" + rs + " res=" + res
	}
	return "bad-op"
}

func dispTohex(b []byte) string {
	if len(b) == 0 {
		return "-"
	}
	return hex.EncodeToString(b)
}

func (s *sDispatch) get(id uint32) *dispResp {
	r := s.resp[id]
	if r == nil {
		r = &dispResp{}
		s.resp[id] = r
	}
	return r
}

func (s *sDispatch) reader() {
	defer close(s.done)
	for {
		fr, err := s.fr.ReadFrame()
		if err != nil {
			if se, ok := err.(http2.StreamError); ok { // malformed response headers: keep reading
				s.mu.Lock()
				r := s.get(se.StreamID)
				r.rst, r.rstCode = true, 1000+uint32(se.Code)
				s.mu.Unlock()
				continue
			}
			return
		}
		switch fr := fr.(type) {
		case *http2.SettingsFrame:
			if !fr.IsAck() {
				s.wmu.Lock()
				s.fr.WriteSettingsAck()
				s.wmu.Unlock()
			}
		case *http2.PingFrame:
			if !fr.IsAck() {
				s.wmu.Lock()
				s.fr.WritePing(true, fr.Data)
				s.wmu.Unlock()
			}
		case *http2.MetaHeadersFrame:
			s.mu.Lock()
			r := s.get(fr.StreamID)
			for _, hf := range fr.Fields {
				switch hf.Name {
				case "grpc-status":
					r.status, r.gotStatus = hf.Value, true
				case "grpc-message":
					r.msg = hf.Value
				}
			}
			if fr.StreamEnded() {
				r.ended = true
			}
			s.mu.Unlock()
		case *http2.RSTStreamFrame:
			s.mu.Lock()
			r := s.get(fr.StreamID)
			r.rst, r.rstCode = true, uint32(fr.ErrCode)
			s.mu.Unlock()
		}
	}
}

func (s *sDispatch) Close() {
	if s.srv != nil {
		s.srv.Stop()
	}
	if s.conn != nil {
		s.conn.Close()
	}
	if s.lis != nil {
		s.lis.Close()
	}
	if s.done != nil {
		<-s.done
	}
}
