package synct

import "google.golang.org/grpc/verif/harness/loopyh"

// component s_loopyrun (C03): the REAL loopyWriter.run() goroutine on a real controlBuffer and a real framer over an in-memory
// conn, inside a synctest bubble. Every op puts one control item into the controlBuffer (the same op syntax as the T1
// components, without `tick`/`unk`), then the bubble is settled: run() handles the item, calls processData until it reports
// isEmpty, flushes and blocks in controlBuffer.get again. The output line has the same format: all frames written until
// quiescence and the writer's state at quiescence.
type loopyRun struct{ h *loopyh.H }

func init() {
	register("s_loopyrun", func() SHandler {
		return &loopyRun{h: &loopyh.H{Async: true, Settle: settle}}
	})
}

func (l *loopyRun) Op(f []string) string { return l.h.Op(f) }
func (l *loopyRun) Close()               { l.h.Close() }
