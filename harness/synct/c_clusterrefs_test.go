package synct

import (
	"context"
	"encoding/json"
	"fmt"
	"net/url"
	"sort"
	"strconv"
	"strings"
	"sync"

	v3routerpb "github.com/envoyproxy/go-control-plane/envoy/extensions/filters/http/router/v3"
	"google.golang.org/grpc/internal"
	iresolver "google.golang.org/grpc/internal/resolver"
	"google.golang.org/grpc/internal/xds/bootstrap"
	"google.golang.org/grpc/internal/xds/clients"
	"google.golang.org/grpc/internal/xds/clients/lrsclient"
	"google.golang.org/grpc/internal/xds/clusterspecifier"
	gxdsclient "google.golang.org/grpc/internal/xds/clients/xdsclient"
	"google.golang.org/grpc/internal/xds/httpfilter"
	_ "google.golang.org/grpc/internal/xds/httpfilter/router"
	xdsresolver "google.golang.org/grpc/internal/xds/resolver"
	"google.golang.org/grpc/internal/xds/xdsclient"
	"google.golang.org/grpc/internal/xds/xdsclient/xdsresource"
	"google.golang.org/grpc/internal/xds/xdsclient/xdsresource/version"
	"google.golang.org/grpc/resolver"
	"google.golang.org/grpc/serviceconfig"
	"google.golang.org/protobuf/types/known/anypb"
)

// component s_clusterrefs (C51, tie T2): the REAL xDS resolver (internal/xds/resolver) with its REAL
// dependency manager (internal/xds/xdsdepmgr), fed by a fake xDS client, inside a synctest bubble.
//
//	rds <r,r,...>     the management server sends a RouteConfiguration with one route per item; an item
//	                  is a cluster c (prefix "/c<c>/" -> cluster c<c>) or c+c'+… (one route with several
//	                  weighted clusters); the same cluster may be named by several routes / several
//	                  times in one route; an item p<k> is a route whose action is the cluster specifier
//	                  plugin p<k>; CDS/EDS resources are answered at once
//	pause             a callback that blocks is put at the end of the resolver's serializer queue
//	                  (updates from the dependency manager queue up behind it)
//	next              the oldest blocking callback returns: the updates behind it are processed, up to
//	                  the next blocking callback
//	select <id> <c>   SelectConfig on the config selector last given to the channel, method /c<c>/m
//	commit <id>       the RPC's OnCommitted is called (again and again if asked)
//	-> [ok|err:..] sc=<children of the last service config> xc=<XDSConfig.Clusters of the last state> act=<activeClusters name=refCount> pl=<activePlugins name=refCount> sel=<cur: the installed config selector is the newest one the channel was ever given | old | ->

type crWatcher struct {
	w  gxdsclient.ResourceWatcher
	id int
}

type crClient struct {
	mu       sync.Mutex
	bc       *bootstrap.Config
	watchers map[string]map[string][]crWatcher // typeURL -> name -> watchers
	data     map[string]map[string]gxdsclient.ResourceData
	nextID   int
}

func (c *crClient) BootstrapConfig() *bootstrap.Config { return c.bc }
func (c *crClient) ReportLoad(*bootstrap.ServerConfig) (*lrsclient.LoadStore, func(context.Context)) {
	return nil, func(context.Context) {}
}

func (c *crClient) auto(typeURL, name string) gxdsclient.ResourceData {
	switch typeURL {
	case version.V3ClusterURL:
		return &xdsresource.ClusterResourceData{Resource: xdsresource.ClusterUpdate{ClusterType: xdsresource.ClusterTypeEDS, ClusterName: name,
			LBPolicy: json.RawMessage(`[{"xds_wrr_locality_experimental": {"childPolicy": [{"round_robin": {}}]}}]`)}}
	case version.V3EndpointsURL:
		return &xdsresource.EndpointsResourceData{Resource: xdsresource.EndpointsUpdate{Localities: []xdsresource.Locality{{
			ID: clients.Locality{Region: "r"}, Weight: 1,
			Endpoints: []xdsresource.Endpoint{{ResolverEndpoint: resolver.Endpoint{Addresses: []resolver.Address{{Addr: "10.0.0.1:80"}}}, Weight: 1}}}}}}
	}
	return nil
}

func (c *crClient) WatchResource(typeURL, name string, w gxdsclient.ResourceWatcher) func() {
	c.mu.Lock()
	defer c.mu.Unlock()
	c.nextID++
	id := c.nextID
	if c.watchers[typeURL] == nil {
		c.watchers[typeURL] = map[string][]crWatcher{}
	}
	c.watchers[typeURL][name] = append(c.watchers[typeURL][name], crWatcher{w, id})
	d := c.data[typeURL][name]
	if d == nil {
		d = c.auto(typeURL, name)
	}
	if d != nil {
		// the real client also delivers asynchronously (WatchResource is called with locks held)
		go w.ResourceChanged(d, func() {})
	}
	return func() {
		c.mu.Lock()
		defer c.mu.Unlock()
		ws := c.watchers[typeURL][name]
		for i := range ws {
			if ws[i].id == id {
				c.watchers[typeURL][name] = append(ws[:i:i], ws[i+1:]...)
				break
			}
		}
	}
}

func (c *crClient) push(typeURL, name string, d gxdsclient.ResourceData) {
	c.mu.Lock()
	if c.data[typeURL] == nil {
		c.data[typeURL] = map[string]gxdsclient.ResourceData{}
	}
	c.data[typeURL][name] = d
	ws := append([]crWatcher(nil), c.watchers[typeURL][name]...)
	c.mu.Unlock()
	for _, w := range ws {
		w.w.ResourceChanged(d, func() {})
	}
}

type crSC struct {
	serviceconfig.Config
	js string
}

type crCC struct {
	resolver.ClientConn
	mu     sync.Mutex
	state  resolver.State
	pushes int
	errs   int
	sels   []iresolver.ConfigSelector // every distinct config selector given to the channel, in order
}

func (cc *crCC) UpdateState(s resolver.State) error {
	cc.mu.Lock()
	defer cc.mu.Unlock()
	cc.state = s
	cc.pushes++
	if cs := iresolver.GetConfigSelector(s); cs != nil {
		known := false
		for _, x := range cc.sels {
			if x == cs {
				known = true
			}
		}
		if !known {
			cc.sels = append(cc.sels, cs)
		}
	}
	return nil
}
func (cc *crCC) ReportError(error) { cc.mu.Lock(); cc.errs++; cc.mu.Unlock() }
func (cc *crCC) ParseServiceConfig(js string) *serviceconfig.ParseResult {
	return &serviceconfig.ParseResult{Config: &crSC{js: js}}
}

type clusterRefs struct {
	client  *crClient
	cc      *crCC
	r       resolver.Resolver
	release []func()
	commits map[string]func()
	router  xdsresource.HTTPFilter
}

func init() {
	register("s_clusterrefs", func() SHandler {
		bc, err := bootstrap.NewConfigFromContents([]byte(`{"xds_servers":[{"server_uri":"fake","channel_creds":[{"type":"insecure"}]}],"node":{"id":"n"}}`))
		if err != nil {
			panic(err)
		}
		h := &clusterRefs{commits: map[string]func(){}}
		h.client = &crClient{bc: bc, watchers: map[string]map[string][]crWatcher{}, data: map[string]map[string]gxdsclient.ResourceData{}}
		h.cc = &crCC{}
		rb := httpfilter.Get("type.googleapis.com/envoy.extensions.filters.http.router.v3.Router")
		a, _ := anypb.New(&v3routerpb.Router{})
		cfg, err := rb.ParseFilterConfig(a, httpfilter.ParseOptions{})
		if err != nil {
			panic(err)
		}
		h.router = xdsresource.HTTPFilter{Name: "router", Filter: rb, Config: cfg}
		b, err := internal.NewXDSResolverWithClientForTesting.(func(xdsclient.XDSClient) (resolver.Builder, error))(h.client)
		if err != nil {
			panic(err)
		}
		_ = xdsresolver.Scheme
		t := resolver.Target{}
		u, _ := url.Parse("xds:///svc")
		t.URL = *u
		h.r, err = b.Build(t, h.cc, resolver.BuildOptions{})
		if err != nil {
			panic(err)
		}
		settle()
		h.client.push(version.V3ListenerURL, "svc", &xdsresource.ListenerResourceData{Resource: xdsresource.ListenerUpdate{
			APIListener: &xdsresource.HTTPConnectionManagerConfig{RouteConfigName: "rc", HTTPFilters: []xdsresource.HTTPFilter{h.router}}}})
		settle()
		return h
	})
}

func (h *clusterRefs) status() string {
	h.cc.mu.Lock()
	st := h.cc.state
	n := h.cc.pushes
	h.cc.mu.Unlock()
	var sc []string
	if st.ServiceConfig != nil {
		if c, ok := st.ServiceConfig.Config.(*crSC); ok {
			var parsed struct {
				LoadBalancingConfig []map[string]struct {
					Children map[string]json.RawMessage `json:"children"`
				} `json:"loadBalancingConfig"`
			}
			if json.Unmarshal([]byte(c.js), &parsed) == nil {
				for _, m := range parsed.LoadBalancingConfig {
					for _, v := range m {
						for k := range v.Children {
							if strings.HasPrefix(k, "cluster_specifier_plugin:") {
								sc = append(sc, strings.TrimPrefix(k, "cluster_specifier_plugin:"))
							} else {
								sc = append(sc, strings.TrimPrefix(strings.TrimPrefix(k, "cluster:"), "c"))
							}
						}
					}
				}
			}
		}
	}
	var xc []string
	if x := xdsresource.XDSConfigFromResolverState(st); x != nil {
		for k, v := range x.Clusters {
			if v.Err == nil {
				xc = append(xc, strings.TrimPrefix(k, "c"))
			}
		}
	}
	var act, pl []string
	for _, e := range xdsresolver.VerifActiveClusters(h.r) {
		act = append(act, strings.TrimPrefix(strings.TrimPrefix(e, "cluster:"), "c"))
	}
	for _, e := range xdsresolver.VerifActivePlugins(h.r) {
		pl = append(pl, strings.TrimPrefix(e, "cluster_specifier_plugin:"))
	}
	// is the config selector the channel has now the newest one it was ever given?
	sel := "-"
	if cs := iresolver.GetConfigSelector(st); cs != nil {
		h.cc.mu.Lock()
		if len(h.cc.sels) > 0 && h.cc.sels[len(h.cc.sels)-1] == cs {
			sel = "cur"
		} else {
			sel = "old"
		}
		h.cc.mu.Unlock()
	}
	// clusters (numbers) first, then plugins (p<k>), each group by number
	key := func(x string) int {
		x = strings.Split(x, "=")[0]
		if strings.HasPrefix(x, "p") {
			n, _ := strconv.Atoi(x[1:])
			return 1000 + n
		}
		n, _ := strconv.Atoi(x)
		return n
	}
	num := func(l []string) string {
		sort.Slice(l, func(i, j int) bool { return key(l[i]) < key(l[j]) })
		if len(l) == 0 {
			return "-"
		}
		return strings.Join(l, ",")
	}
	_ = n
	return fmt.Sprintf("sc=%s xc=%s act=%s pl=%s sel=%s", num(sc), num(xc), num(act), num(pl), sel)
}

func (h *clusterRefs) Op(f []string) string {
	res := ""
	switch f[0] {
	case "rds":
		// one route per comma-separated item; an item a+b+... is ONE route with those weighted
		// clusters; the k-th route (k > 0) that starts with a cluster already named by an earlier
		// route gets the extra prefix "/c<c>x<k>/" so that the same cluster can be the target of
		// several routes (a specific route and a default route to the same cluster, …)
		var routes []*xdsresource.Route
		plugins := map[string]clusterspecifier.BalancerConfig{}
		seen := map[string]int{}
		if f[1] != "-" {
			for _, item := range strings.Split(f[1], ",") {
				if strings.HasPrefix(item, "p") { // a route whose action is a cluster specifier plugin
					p := "/" + item + "/"
					routes = append(routes, &xdsresource.Route{Prefix: &p, ActionType: xdsresource.RouteActionRoute, ClusterSpecifierPlugin: item})
					plugins[item] = clusterspecifier.BalancerConfig{{"pick_first": map[string]any{}}}
					continue
				}
				cs := strings.Split(item, "+")
				p := "/c" + cs[0] + "/"
				if k := seen[cs[0]]; k > 0 {
					p = "/c" + cs[0] + "x" + strconv.Itoa(k) + "/"
				}
				seen[cs[0]]++
				var wcs []xdsresource.WeightedCluster
				for _, c := range cs {
					wcs = append(wcs, xdsresource.WeightedCluster{Name: "c" + c, Weight: 1})
				}
				routes = append(routes, &xdsresource.Route{Prefix: &p, ActionType: xdsresource.RouteActionRoute, WeightedClusters: wcs})
			}
		}
		h.client.push(version.V3RouteConfigURL, "rc", &xdsresource.RouteConfigResourceData{Resource: xdsresource.RouteConfigUpdate{
			VirtualHosts: []*xdsresource.VirtualHost{{Domains: []string{"*"}, Routes: routes}}, ClusterSpecifierPlugins: plugins}})
	case "pause":
		h.release = append(h.release, xdsresolver.VerifPauseSerializer(h.r))
	case "next":
		if len(h.release) == 0 {
			return "bad-op"
		}
		h.release[0]()
		h.release = h.release[1:]
	case "select":
		h.cc.mu.Lock()
		st := h.cc.state
		h.cc.mu.Unlock()
		cs := iresolver.GetConfigSelector(st)
		if cs == nil {
			res = "err:nocs "
			break
		}
		method := "/c" + f[2] + "/m"
		if strings.HasPrefix(f[2], "p") {
			method = "/" + f[2] + "/m"
		}
		cfg, err := cs.SelectConfig(iresolver.RPCInfo{Context: context.Background(), Method: method})
		if err != nil {
			res = "err:select "
			break
		}
		if _, dup := h.commits[f[1]]; dup {
			return "bad-op"
		}
		h.commits[f[1]] = cfg.OnCommitted
		res = "ok "
	case "commit":
		c := h.commits[f[1]]
		if c == nil {
			res = "err:norpc "
			break
		}
		c()
		res = "ok "
	default:
		return "bad-op"
	}
	settle()
	return res + h.status()
}

func (h *clusterRefs) Close() {
	for _, r := range h.release {
		r()
	}
	h.release = nil
	settle()
	h.r.Close()
}
