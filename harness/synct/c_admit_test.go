package synct

import (
	"bytes"
	"encoding/hex"
	"fmt"
	"net"
	"sort"
	"strings"
	"sync"
	"time"

	"golang.org/x/net/http2"
	"golang.org/x/net/http2/hpack"
	"google.golang.org/grpc"
	"google.golang.org/grpc/internal/transport"
	"google.golang.org/grpc/metadata"
)

// component s_admit (C12): a REAL grpc.Server (Serve on an in-memory listener → http2Server →
// operateHeaders → serveStreams → handleStream → registered handler) against a scripted raw-frame
// client (x/net/http2.Framer + hpack).
//
//	start <MaxConcurrentStreams> [mhl=<MaxHeaderListSize>]
//	hdr <id> <es|-> <hexname>:<hexvalue> ...   HEADERS (END_HEADERS, optional END_STREAM), fields in order
//	rst <id> <code>        RST_STREAM from the client
//	data <id> <es|->       empty DATA frame
//	finish <id>            the handler of the request that carried x-id=<id> returns nil
//	sleep <ms>             advance virtual time
//	frame <type> <flags> <id> <hexpayload>    arbitrary frame
//	raw <hex>              arbitrary bytes
//
// output: ev=<frames seen by the client since the last op: H<id>:<:status>:<grpc-status> R<id>:<code> G<code> X(conn closed)>
//
//	started=<handlers started in this op: their x-id> run=<handlers running now>
//	act=<len(activeStreams)> mx=<maxStreamID> closed=<0|1>
type admitH struct {
	srv      *grpc.Server
	lis      *pipeListener
	cli      net.Conn
	fr       *http2.Framer
	henc     *hpack.Encoder
	hbuf     bytes.Buffer
	mu       sync.Mutex
	events   []string
	closed   bool
	started  []string
	running  map[string]chan struct{}
	nrun     int
	readerOK chan struct{}
}

type pipeListener struct {
	ch   chan net.Conn
	done chan struct{}
	once sync.Once
}

func (l *pipeListener) Accept() (net.Conn, error) {
	select {
	case c := <-l.ch:
		return c, nil
	case <-l.done:
		return nil, fmt.Errorf("listener closed")
	}
}
func (l *pipeListener) Close() error   { l.once.Do(func() { close(l.done) }); return nil }
func (l *pipeListener) Addr() net.Addr { return &net.UnixAddr{Name: "pipe", Net: "pipe"} }

// Go 1.25.0's synctest ties a sync.WaitGroup to the bubble that first used it, keyed by address; a
// grpc.Server (which embeds WaitGroups) allocated at the address of a collected server of an earlier
// bubble was occasionally reported as "WaitGroup.Add called from multiple synctest bubbles". Servers
// are therefore kept reachable for the life of the process (a few KB per case).
var admitKeep []*grpc.Server

func init() {
	register("s_admit", func() SHandler { return &admitH{running: map[string]chan struct{}{}} })
}

func (h *admitH) handler(_ any, stream grpc.ServerStream) error {
	key := "?"
	if md, ok := metadata.FromIncomingContext(stream.Context()); ok {
		if v := md["x-id"]; len(v) > 0 {
			key = v[0]
		}
	}
	rel := make(chan struct{})
	h.mu.Lock()
	h.started = append(h.started, key)
	h.running[key] = rel
	h.nrun++
	h.mu.Unlock()
	defer func() {
		h.mu.Lock()
		if h.running[key] == rel {
			delete(h.running, key)
		}
		h.nrun--
		h.mu.Unlock()
	}()
	select {
	case <-rel:
		return nil
	case <-stream.Context().Done():
		return stream.Context().Err()
	}
}

func (h *admitH) peerReader() {
	defer close(h.readerOK)
	for {
		f, err := h.fr.ReadFrame()
		if err != nil {
			h.mu.Lock()
			h.events = append(h.events, "X")
			h.closed = true
			h.mu.Unlock()
			return
		}
		var e string
		switch f := f.(type) {
		case *http2.MetaHeadersFrame:
			st, gs := "-", "-"
			for _, hf := range f.Fields {
				switch hf.Name {
				case ":status":
					st = hf.Value
				case "grpc-status":
					gs = hf.Value
				}
			}
			e = fmt.Sprintf("H%d:%s:%s", f.StreamID, st, gs)
			if !f.StreamEnded() {
				e += ":open"
			}
		case *http2.RSTStreamFrame:
			e = fmt.Sprintf("R%d:%d", f.StreamID, uint32(f.ErrCode))
		case *http2.GoAwayFrame:
			e = fmt.Sprintf("G%d", uint32(f.ErrCode))
		}
		if e != "" {
			h.mu.Lock()
			h.events = append(h.events, e)
			h.mu.Unlock()
		}
	}
}

func (h *admitH) write(b []byte) {
	if len(b) == 0 {
		return
	}
	h.cli.SetWriteDeadline(time.Now().Add(time.Second))
	h.cli.Write(b)
}

func (h *admitH) report(sortEv bool) string {
	settle()
	h.mu.Lock()
	evs := h.events
	h.events = nil
	started := h.started
	h.started = nil
	run := h.nrun
	closed := h.closed
	h.mu.Unlock()
	if sortEv {
		// a grpc-timeout expiry races the handler's own ctx timer (same virtual instant): the handler may get
		// its DEADLINE_EXCEEDED trailers out before the transport's RST_STREAM(CANCEL). Canonical form: only
		// the RST_STREAM(CANCEL) of an expired stream is kept, events sorted.
		cancelled := map[string]bool{}
		for _, e := range evs {
			if strings.HasPrefix(e, "R") && strings.HasSuffix(e, ":8") {
				cancelled[e[1:len(e)-2]] = true
			}
		}
		var keep []string
		for _, e := range evs {
			id := strings.SplitN(e[1:], ":", 2)[0]
			if cancelled[id] && (e == "H"+id+":200:4" || e == "R"+id+":0") {
				continue
			}
			keep = append(keep, e)
		}
		evs = keep
		sort.Strings(evs)
	}
	ev := "-"
	if len(evs) > 0 {
		ev = strings.Join(evs, ",")
	}
	st := "-"
	if len(started) > 0 {
		sort.Strings(started)
		st = strings.Join(started, ",")
	}
	act, mx := "-", "-"
	if ts := grpc.VerifServerTransports(h.srv); len(ts) == 1 {
		a, m, _ := transport.VerifServerStreams(ts[0])
		act, mx = fmt.Sprint(a), fmt.Sprint(m)
	}
	c := 0
	if closed {
		c = 1
	}
	return fmt.Sprintf("ev=%s started=%s run=%d act=%s mx=%s closed=%d", ev, st, run, act, mx, c)
}

func hexField(s string) []byte {
	if s == "-" || s == "" {
		return nil
	}
	b, _ := hex.DecodeString(s)
	return b
}

func (h *admitH) Op(f []string) string {
	if f[0] != "start" && h.srv == nil {
		return "not-started"
	}
	var fb bytes.Buffer
	wf := http2.NewFramer(&fb, nil)
	wf.AllowIllegalWrites = true
	sortEv := false
	switch f[0] {
	case "start":
		if h.srv != nil {
			return "bad-op"
		}
		opts := []grpc.ServerOption{grpc.MaxConcurrentStreams(uint32(atou(f[1])))}
		if v, ok := quotaKV(f, "mhl"); ok {
			opts = append(opts, grpc.MaxHeaderListSize(uint32(atou(v))))
		}
		h.srv = grpc.NewServer(opts...)
		admitKeep = append(admitKeep, h.srv)
		h.srv.RegisterService(&grpc.ServiceDesc{
			ServiceName: "s",
			HandlerType: (*any)(nil),
			Streams:     []grpc.StreamDesc{{StreamName: "m", Handler: h.handler, ServerStreams: true, ClientStreams: true}},
		}, struct{}{})
		h.lis = &pipeListener{ch: make(chan net.Conn, 1), done: make(chan struct{})}
		var sconn net.Conn
		h.cli, sconn = net.Pipe()
		h.lis.ch <- sconn
		go h.srv.Serve(h.lis)
		h.fr = http2.NewFramer(nil, h.cli)
		h.fr.ReadMetaHeaders = hpack.NewDecoder(4096, nil)
		h.henc = hpack.NewEncoder(&h.hbuf)
		h.readerOK = make(chan struct{})
		go h.peerReader()
		fb.WriteString(http2.ClientPreface)
		wf.WriteSettings()
		h.write(fb.Bytes())
	case "hdr":
		h.hbuf.Reset()
		for _, fld := range f[3:] {
			nv := strings.SplitN(fld, ":", 2)
			if len(nv) != 2 {
				return "bad-op"
			}
			h.henc.WriteField(hpack.HeaderField{Name: string(hexField(nv[0])), Value: string(hexField(nv[1]))})
		}
		wf.WriteHeaders(http2.HeadersFrameParam{StreamID: uint32(atou(f[1])), BlockFragment: h.hbuf.Bytes(),
			EndStream: f[2] == "es", EndHeaders: true})
		h.write(fb.Bytes())
	case "rst":
		wf.WriteRSTStream(uint32(atou(f[1])), http2.ErrCode(atou(f[2])))
		h.write(fb.Bytes())
	case "data":
		wf.WriteData(uint32(atou(f[1])), f[2] == "es", nil)
		h.write(fb.Bytes())
	case "finish":
		h.mu.Lock()
		rel := h.running[f[1]]
		delete(h.running, f[1])
		h.mu.Unlock()
		if rel != nil {
			close(rel)
		}
	case "sleep":
		time.Sleep(time.Duration(atou(f[1])) * time.Millisecond)
		sortEv = true
	case "frame":
		wf.WriteRawFrame(http2.FrameType(atou(f[1])), http2.Flags(atou(f[2])), uint32(atou(f[3])), hexField(f[4]))
		h.write(fb.Bytes())
	case "raw":
		h.write(hexField(f[1]))
	default:
		return "bad-op"
	}
	return h.report(sortEv)
}

func (h *admitH) Close() {
	if h.srv == nil {
		return
	}
	h.srv.Stop()
	h.cli.Close()
	<-h.readerOK
}
