package main

import (
	"errors"
	"fmt"
	"runtime"
	"sort"
	"strconv"
	"strings"
	"sync"

	"google.golang.org/grpc/internal/xds/clients"
	"google.golang.org/grpc/internal/xds/clients/lrsclient"
)

// component loadstore (C50). Ties T3 + T1 + a concurrent stress, all on the REAL
// lrsclient.PerClusterReporter obtained from a real LoadStore.
//
//	spawn <tid> start <l> | finish <l> ok|err | drop <c> | load <l> <n> <v> | stats
//	    registers a goroutine that will make that call (nothing runs yet)          -> ok
//	step <tid>   the goroutine runs from its current yield point (an atomic access / a mutex
//	             acquisition in the instrumented copy of load_store.go) to the next one
//	run <tid>    the goroutine runs until its call returns
//	    -> <label|done> D=<drops> L=<localities> O=<current Range orders> [rep=<value returned by stats()>]
//	par <reps> <nsnap> <script>...   real concurrency (no scheduler): one goroutine per script, each
//	             repeating its script <reps> times, plus one goroutine calling stats() <nsnap>
//	             times meanwhile, then a final stats()
//	    -> par <sums over all reports + residual> | <unpredictable: per-locality max in-progress seen, final in-progress>
//
// l, c, n are small integers: locality l = {r<l>, z, s<l>}, category 0 = "" else cat<c>, load name n<n>.

type lsThread struct {
	name    string
	call    []string
	resume  chan struct{}
	label   string
	started bool
	done    bool
	rep     string
}

type lsSched struct {
	ls      *lrsclient.LoadStore
	p       *lrsclient.PerClusterReporter
	threads map[string]*lsThread
	parked  chan *lsThread
	current *lsThread
	wg      sync.WaitGroup
}

var lsActive *lsSched

func lsLoc(l string) clients.Locality {
	return clients.Locality{Region: "r" + l, Zone: "z", SubZone: "s" + l}
}
func lsLocID(l clients.Locality) int { return atoi(strings.TrimPrefix(l.Region, "r")) }
func lsCat(c string) string {
	if c == "0" {
		return ""
	}
	return "cat" + c
}
func lsCatID(c string) int {
	if c == "" {
		return 0
	}
	return atoi(strings.TrimPrefix(c, "cat"))
}
func lsNameID(n string) int { return atoi(strings.TrimPrefix(n, "n")) }

func lsSum(f float64) string {
	if f != float64(int64(f)) {
		return strconv.FormatFloat(f, 'g', -1, 64) // never for the integer-valued loads the generator uses
	}
	return strconv.FormatInt(int64(f), 10)
}

func lsIDs(ids []int) string {
	if len(ids) == 0 {
		return "-"
	}
	s := make([]string, len(ids))
	for i, v := range ids {
		s[i] = strconv.Itoa(v)
	}
	return strings.Join(s, ",")
}

func lsLoads(ls []lrsclient.VerifLoad) string {
	ls = append([]lrsclient.VerifLoad(nil), ls...)
	sort.Slice(ls, func(i, j int) bool { return lsNameID(ls[i].Name) < lsNameID(ls[j].Name) })
	p := []string{}
	for _, l := range ls {
		p = append(p, fmt.Sprintf("%d:%d:%s", lsNameID(l.Name), l.Count, lsSum(l.Sum)))
	}
	return "[" + strings.Join(p, ";") + "]"
}

func lsLocs(locs []lrsclient.VerifLocality) string {
	locs = append([]lrsclient.VerifLocality(nil), locs...)
	sort.Slice(locs, func(i, j int) bool { return lsLocID(locs[i].Loc) < lsLocID(locs[j].Loc) })
	p := []string{}
	for _, l := range locs {
		p = append(p, fmt.Sprintf("%d:%d/%d/%d/%d%s", lsLocID(l.Loc), l.Succeeded, l.Errored, l.InProgress, l.Issued, lsLoads(l.Loads)))
	}
	if len(p) == 0 {
		return "-"
	}
	return strings.Join(p, ",")
}

func (s *lsSched) dump() string {
	drops, locs := s.p.VerifDump()
	var corder, lorder []int
	dm := map[int]uint64{}
	for _, d := range drops {
		corder = append(corder, lsCatID(d.Name))
		dm[lsCatID(d.Name)] = d.Count
	}
	sorted := append([]int(nil), corder...)
	sort.Ints(sorted)
	dp := []string{}
	for _, c := range sorted {
		dp = append(dp, fmt.Sprintf("%d:%d", c, dm[c]))
	}
	ds := "-"
	if len(dp) > 0 {
		ds = strings.Join(dp, ",")
	}
	ord := []string{}
	for _, l := range locs {
		lorder = append(lorder, lsLocID(l.Loc))
	}
	for _, l := range locs {
		var no []int
		for _, n := range l.Loads {
			no = append(no, lsNameID(n.Name))
		}
		ord = append(ord, fmt.Sprintf("%d=%s", lsLocID(l.Loc), lsIDs(no)))
	}
	o := lsIDs(corder) + "|" + lsIDs(lorder)
	if len(ord) > 0 {
		o += "|" + strings.Join(ord, "|")
	}
	return "D=" + ds + " L=" + lsLocs(locs) + " O=" + o
}

func lsReport(r *lrsclient.VerifReport) string {
	if r == nil {
		return "nil"
	}
	var cs []int
	for c := range r.Drops {
		cs = append(cs, lsCatID(c))
	}
	sort.Ints(cs)
	dp := []string{}
	for _, c := range cs {
		dp = append(dp, fmt.Sprintf("%d:%d", c, r.Drops[lsCat(strconv.Itoa(c))]))
	}
	ds := "-"
	if len(dp) > 0 {
		ds = strings.Join(dp, ",")
	}
	return fmt.Sprintf("T%d|%s|%s", r.TotalDrops, ds, lsLocs(r.Localities))
}

func (s *lsSched) hook(label string) {
	if lsActive != s || s.current == nil {
		return
	}
	t := s.current
	t.label = label
	s.parked <- t
	<-t.resume
}

func (s *lsSched) body(t *lsThread) func() {
	c := t.call
	switch c[0] {
	case "start":
		return func() { s.p.CallStarted(lsLoc(c[1])) }
	case "finish":
		var err error
		if c[2] != "ok" {
			err = errors.New("rpc failed")
		}
		return func() { s.p.CallFinished(lsLoc(c[1]), err) }
	case "drop":
		return func() { s.p.CallDropped(lsCat(c[1])) }
	case "load":
		return func() { s.p.CallServerLoad(lsLoc(c[1]), "n"+c[2], float64(atoi64(c[3]))) }
	case "stats":
		return func() { t.rep = lsReport(s.p.VerifStats()) }
	}
	panic("bad call " + strings.Join(c, " "))
}

// one scheduled step: returns the label the goroutine parked at (or "done")
func (s *lsSched) step(t *lsThread) string {
	if t.done {
		return "finished-thread"
	}
	s.current = t
	if !t.started {
		t.started = true
		f := s.body(t)
		s.wg.Add(1)
		go func() {
			defer s.wg.Done()
			f()
			if lsActive != s {
				return
			}
			t.label = "done"
			t.done = true
			s.parked <- t
		}()
	} else {
		t.resume <- struct{}{}
	}
	<-s.parked
	s.current = nil
	return t.label
}

func (s *lsSched) out(t *lsThread, label string) string {
	o := label + " " + s.dump()
	if t.done && t.call[0] == "stats" {
		o += " rep=" + t.rep
	}
	return o
}

// ---- stress (real concurrency, hook disabled)

func (s *lsSched) par(f []string) string {
	reps, nsnap := atoi(f[1]), atoi(f[2])
	scripts := f[3:]
	for _, t := range s.threads {
		if t.started && !t.done {
			return "bad-op: par while threads are parked"
		}
	}
	saved := lrsclient.VerifHook
	lrsclient.VerifHook = nil
	defer func() { lrsclient.VerifHook = saved }()
	var wg sync.WaitGroup
	start := make(chan struct{})
	for _, sc := range scripts {
		toks := strings.Split(sc, ",")
		wg.Add(1)
		go func() {
			defer wg.Done()
			<-start
			for r := 0; r < reps; r++ {
				for _, tk := range toks {
					arg := tk[1:]
					switch tk[0] {
					case 's':
						s.p.CallStarted(lsLoc(arg))
					case 'f':
						s.p.CallFinished(lsLoc(arg), nil)
					case 'e':
						s.p.CallFinished(lsLoc(arg), errors.New("x"))
					case 'd':
						s.p.CallDropped(lsCat(arg))
					case 'w':
						a := strings.Split(arg, ".")
						s.p.CallServerLoad(lsLoc(a[0]), "n"+a[1], float64(atoi64(a[2])))
					}
				}
				if r%16 == 0 {
					runtime.Gosched()
				}
			}
		}()
	}
	var reports []*lrsclient.VerifReport
	stop := make(chan struct{})
	var swg sync.WaitGroup
	swg.Add(1)
	go func() {
		defer swg.Done()
		<-start
		for i := 0; i < nsnap; i++ {
			select {
			case <-stop:
				return
			default:
			}
			if r := s.p.VerifStats(); r != nil {
				reports = append(reports, r)
			}
			runtime.Gosched()
		}
	}()
	close(start)
	wg.Wait()
	close(stop)
	swg.Wait()
	midReports := len(reports)
	final := s.p.VerifStats()
	if final != nil {
		reports = append(reports, final)
	}
	// sums over all reports
	type k2 struct{ a, b int }
	succ, errd, iss, inpMax, inpFinal := map[int]uint64{}, map[int]uint64{}, map[int]uint64{}, map[int]uint64{}, map[int]uint64{}
	drops := map[int]uint64{}
	lc, lsum := map[k2]uint64{}, map[k2]float64{}
	var total uint64
	for i, r := range reports {
		total += r.TotalDrops
		for c, d := range r.Drops {
			drops[lsCatID(c)] += d
		}
		for _, l := range r.Localities {
			id := lsLocID(l.Loc)
			succ[id] += l.Succeeded
			errd[id] += l.Errored
			iss[id] += l.Issued
			if i < midReports {
				if l.InProgress > inpMax[id] {
					inpMax[id] = l.InProgress
				}
			}
			if r == final {
				inpFinal[id] = l.InProgress
			}
			for _, n := range l.Loads {
				lc[k2{id, lsNameID(n.Name)}] += n.Count
				lsum[k2{id, lsNameID(n.Name)}] += n.Sum
			}
		}
	}
	// residual left in the store after the final stats()
	rd, rl := s.p.VerifDump()
	for _, d := range rd {
		total += d.Count
		if d.Name != "" {
			drops[lsCatID(d.Name)] += d.Count
		}
	}
	for _, l := range rl {
		id := lsLocID(l.Loc)
		succ[id] += l.Succeeded
		errd[id] += l.Errored
		iss[id] += l.Issued
		for _, n := range l.Loads {
			lc[k2{id, lsNameID(n.Name)}] += n.Count
			lsum[k2{id, lsNameID(n.Name)}] += n.Sum
		}
	}
	m1 := func(m map[int]uint64) string {
		var ks []int
		for k, v := range m {
			if v != 0 {
				ks = append(ks, k)
			}
		}
		sort.Ints(ks)
		p := []string{}
		for _, k := range ks {
			p = append(p, fmt.Sprintf("%d:%d", k, m[k]))
		}
		if len(p) == 0 {
			return "-"
		}
		return strings.Join(p, ",")
	}
	var ks []k2
	for k, v := range lc {
		if v != 0 {
			ks = append(ks, k)
		}
	}
	sort.Slice(ks, func(i, j int) bool { return ks[i].a < ks[j].a || (ks[i].a == ks[j].a && ks[i].b < ks[j].b) })
	lp := []string{}
	for _, k := range ks {
		lp = append(lp, fmt.Sprintf("%d.%d:%d:%s", k.a, k.b, lc[k], lsSum(lsum[k])))
	}
	loads := "-"
	if len(lp) > 0 {
		loads = strings.Join(lp, ",")
	}
	return fmt.Sprintf("par issued=%s succ=%s err=%s drops=%s total=%d loads=%s | inpmax=%s inpfinal=%s",
		m1(iss), m1(succ), m1(errd), m1(drops), total, loads, m1(inpMax), m1(inpFinal))
}

func init() {
	register("loadstore", func() Handler {
		if old := lsActive; old != nil {
			lsActive = nil
			lrsclient.VerifHook = nil
			for _, t := range old.threads {
				if t.started && !t.done {
					t.resume <- struct{}{}
				}
			}
			old.wg.Wait()
		}
		s := &lsSched{threads: map[string]*lsThread{}, parked: make(chan *lsThread)}
		s.ls = lrsclient.VerifNewLoadStore()
		s.p = s.ls.ReporterForCluster("cluster", "service")
		lsActive = s
		lrsclient.VerifHook = s.hook
		return func(f []string) string {
			switch f[0] {
			case "spawn":
				if len(f) < 3 || s.threads[f[1]] != nil {
					return "bad-op"
				}
				s.threads[f[1]] = &lsThread{name: f[1], call: f[2:], resume: make(chan struct{})}
				return "ok"
			case "step", "run":
				t := s.threads[f[1]]
				if t == nil {
					return "bad-op"
				}
				if t.done {
					return "finished-thread"
				}
				label := s.step(t)
				for f[0] == "run" && !t.done {
					label = s.step(t)
				}
				return s.out(t, label)
			case "par":
				return s.par(f)
			}
			return "bad-op"
		}
	})
}
