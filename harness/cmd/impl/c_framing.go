package main

import (
	"bytes"
	"errors"
	"fmt"
	"io"
	"math"
	"strconv"

	"google.golang.org/grpc"
	"google.golang.org/grpc/codes"
	"google.golang.org/grpc/encoding"
	_ "google.golang.org/grpc/encoding/gzip"
	"google.golang.org/grpc/mem"
	"google.golang.org/grpc/status"
)

// component framing (C06): the REAL parser.recvMsg / recvAndDecompress / compress / msgHeader /
// decompress / checkRecvPayload driven over a scripted streamReader.
//
//	cfg <limit> <kind:none|gzip|xor|lgzip|lxor> <rc:empty|identity|named> <server:0|1>
//	chunks <n,n,…>            how the scripted reader cuts Read(n) results into buffers
//	send <c:0|1> <msghex>     compress (iff c=1) + msgHeader, appended to the stream -> wire hex
//	sendn <c> <n> <bytehex>   same for a message of n equal bytes
//	raw <hex>                 append raw bytes to the stream
//	recv                      one recvAndDecompress -> ok <hex> <mat> | err <CODE> <mat>
//	dec <limit> <kind> <hex>  decompress() directly -> ok <hex> <mat> | err <CODE> <mat>
//	chk <pf> <rc> <have> <server>   checkRecvPayload -> OK | <CODE>
//	lgz <limit|max> <n> <bytehex>   gzip n equal bytes, doWithMaxSize(limit) -> <len> | err
//	hdr <pf> <datalen> <complen>    msgHeader -> <hdr hex> <data|comp>

// ---- scripted streamReader (same contract as transport.Stream: exactly n bytes or an error)
type scriptReader struct {
	buf    []byte
	chunks []int
	ci     int
}

func (r *scriptReader) next() int {
	if len(r.chunks) == 0 {
		return math.MaxInt32
	}
	c := r.chunks[r.ci%len(r.chunks)]
	r.ci++
	if c <= 0 {
		c = 1
	}
	return c
}

func (r *scriptReader) ReadMessageHeader(h []byte) error {
	if len(r.buf) == 0 {
		return io.EOF
	}
	if len(r.buf) < len(h) {
		r.buf = nil
		return io.ErrUnexpectedEOF
	}
	copy(h, r.buf[:len(h)])
	r.buf = r.buf[len(h):]
	return nil
}

func (r *scriptReader) Read(n int) (mem.BufferSlice, error) {
	if n == 0 {
		return nil, nil
	}
	if len(r.buf) == 0 {
		return nil, io.EOF
	}
	if len(r.buf) < n {
		r.buf = nil
		return nil, io.ErrUnexpectedEOF
	}
	var out mem.BufferSlice
	for n > 0 {
		c := r.next()
		if c > n {
			c = n
		}
		b := make([]byte, c)
		copy(b, r.buf[:c])
		out = append(out, mem.SliceBuffer(b))
		r.buf = r.buf[c:]
		n -= c
	}
	return out, nil
}

// ---- byte-counting reader: how many DEcompressed bytes were pulled out of a decompressor
type countReader struct {
	r io.Reader
	n *int64
}

func (c *countReader) Read(p []byte) (int, error) {
	k, err := c.r.Read(p)
	*c.n += int64(k)
	return k, err
}

func (c *countReader) Close() error {
	if cl, ok := c.r.(io.Closer); ok {
		return cl.Close()
	}
	return nil
}

// countingCompressor: the real registered encoding.Compressor (gzip), its reader wrapped in a counter.
type countingCompressor struct {
	inner encoding.Compressor
	n     *int64
}

func (c *countingCompressor) Name() string                                  { return c.inner.Name() }
func (c *countingCompressor) Compress(w io.Writer) (io.WriteCloser, error) { return c.inner.Compress(w) }
func (c *countingCompressor) Decompress(r io.Reader) (io.Reader, error) {
	z, err := c.inner.Decompress(r)
	if err != nil {
		return nil, err
	}
	return &countReader{r: z, n: c.n}, nil
}

// ---- custom "xor" codec: 'X' ++ (data xor 0x5A) ++ 0xA5.  Decompress fails up front on a missing or
// wrong magic byte; the reader yields the data 7 bytes at a time and ends with an error instead of
// io.EOF when the trailer is missing or wrong.
const (
	xorMagic   = 0x58
	xorRunMagic = 0x52
	xorKey     = 0x5A
	xorTrailer = 0xA5
)

var errXor = errors.New("xor: corrupt")

func xorEncode(p []byte) []byte {
	out := make([]byte, 0, len(p)+2)
	out = append(out, xorMagic)
	for _, b := range p {
		out = append(out, b^xorKey)
	}
	return append(out, xorTrailer)
}

type xorWriter struct {
	w   io.Writer
	buf []byte
}

func (x *xorWriter) Write(p []byte) (int, error) { x.buf = append(x.buf, p...); return len(p), nil }
func (x *xorWriter) Close() error               { _, err := x.w.Write(xorEncode(x.buf)); return err }

type xorReader struct {
	body []byte // xor-coded bytes still to be yielded …
	rep  int64  // … or: this many copies of repB (run-length form)
	repB byte
	bad  bool
	n    *int64
}

func (x *xorReader) Read(p []byte) (int, error) {
	if len(x.body) == 0 && x.rep == 0 {
		if x.bad {
			return 0, errXor
		}
		return 0, io.EOF
	}
	k := 7
	if x.rep > 0 {
		k = 4099
	}
	if k > len(p) {
		k = len(p)
	}
	if x.rep > 0 {
		if int64(k) > x.rep {
			k = int(x.rep)
		}
		for i := 0; i < k; i++ {
			p[i] = x.repB
		}
		x.rep -= int64(k)
	} else {
		if k > len(x.body) {
			k = len(x.body)
		}
		for i := 0; i < k; i++ {
			p[i] = x.body[i] ^ xorKey
		}
		x.body = x.body[k:]
	}
	*x.n += int64(k)
	return k, nil
}

// newXorReader: 'X' form as above; 'R' ++ be32(n) ++ b ++ 0xA5 decompresses to n copies of b (a 7-byte bomb).
func newXorReader(r io.Reader, n *int64) (*xorReader, error) {
	all, err := io.ReadAll(r)
	if err != nil {
		return nil, err
	}
	if len(all) == 0 {
		return nil, errXor
	}
	if all[0] == xorRunMagic {
		if len(all) < 6 {
			return nil, errXor
		}
		cnt := int64(all[1])<<24 | int64(all[2])<<16 | int64(all[3])<<8 | int64(all[4])
		return &xorReader{rep: cnt, repB: all[5], bad: !(len(all) == 7 && all[6] == xorTrailer), n: n}, nil
	}
	if all[0] != xorMagic {
		return nil, errXor
	}
	rest := all[1:]
	if len(rest) == 0 {
		return &xorReader{bad: true, n: n}, nil
	}
	return &xorReader{body: rest[:len(rest)-1], bad: rest[len(rest)-1] != xorTrailer, n: n}, nil
}

type xorCompressor struct{ n *int64 }

func (x *xorCompressor) Name() string                                  { return "xor" }
func (x *xorCompressor) Compress(w io.Writer) (io.WriteCloser, error) { return &xorWriter{w: w}, nil }
func (x *xorCompressor) Decompress(r io.Reader) (io.Reader, error) {
	xr, err := newXorReader(r, x.n)
	if err != nil {
		return nil, err
	}
	return xr, nil
}

// legacy (deprecated grpc.Compressor / grpc.Decompressor) flavour of the same codec
type legacyXor struct{ n *int64 }

func (l *legacyXor) Type() string { return "xor" }
func (l *legacyXor) Do(w io.Writer, p []byte) error {
	_, err := w.Write(xorEncode(p))
	return err
}

type legacyXorD struct{ n *int64 }

func (l *legacyXorD) Type() string { return "xor" }
func (l *legacyXorD) Do(r io.Reader) ([]byte, error) {
	xr, err := newXorReader(r, l.n)
	if err != nil {
		return nil, err
	}
	return io.ReadAll(xr)
}

type framingState struct {
	limit  int
	kind   string
	rc     string
	server bool
	rd     *scriptReader
	p      *grpc.VerifParser
	mat    int64
}

func (s *framingState) codecs(kind string) (cp grpc.Compressor, dc grpc.Decompressor, comp encoding.Compressor, observable bool) {
	switch kind {
	case "none":
		return nil, nil, nil, true
	case "gzip":
		return nil, nil, &countingCompressor{inner: encoding.GetCompressor("gzip"), n: &s.mat}, true
	case "xor":
		return nil, nil, &xorCompressor{n: &s.mat}, true
	case "lgzip":
		return grpc.NewGZIPCompressor(), grpc.NewGZIPDecompressor(), nil, false
	case "lxor":
		return &legacyXor{n: &s.mat}, &legacyXorD{n: &s.mat}, nil, true
	}
	panic("bad kind " + kind)
}

func rcString(rc, kind string) string {
	switch rc {
	case "empty":
		return ""
	case "identity":
		return "identity"
	}
	if kind == "none" {
		return "gzip"
	}
	return kind
}

func errCode(err error) string {
	switch {
	case err == io.EOF:
		return "EOF"
	case err == io.ErrUnexpectedEOF:
		return "UEOF"
	}
	if st, ok := status.FromError(err); ok {
		switch st.Code() {
		case codes.ResourceExhausted:
			return "RESOURCE_EXHAUSTED"
		case codes.Internal:
			return "INTERNAL"
		case codes.Unimplemented:
			return "UNIMPLEMENTED"
		}
		return "CODE" + strconv.Itoa(int(st.Code()))
	}
	return "OTHER"
}

func matStr(observable bool, n int64) string {
	if !observable {
		return "-"
	}
	return strconv.FormatInt(n, 10)
}

func split2(b []byte) mem.BufferSlice {
	// hand the data over as two buffers so that multi-buffer slices are exercised
	if len(b) < 2 {
		return mem.BufferSlice{mem.SliceBuffer(b)}
	}
	h := len(b) / 2
	return mem.BufferSlice{mem.SliceBuffer(b[:h]), mem.SliceBuffer(b[h:])}
}

func init() {
	register("framing", func() Handler {
		s := &framingState{limit: 4 << 20, kind: "none", rc: "empty", rd: &scriptReader{}}
		s.p = grpc.VerifNewParser(s.rd)
		send := func(c string, msg []byte) string {
			var cp grpc.Compressor
			var comp encoding.Compressor
			if c == "1" {
				cp, _, comp, _ = s.codecs(s.kind)
			}
			data := split2(append([]byte(nil), msg...))
			compData, pf, err := grpc.VerifCompress(data, cp, comp)
			if err != nil {
				return "err " + errCode(err)
			}
			hdr, payload := grpc.VerifMsgHeader(data, compData, pf)
			wire := append(append([]byte(nil), hdr...), payload.Materialize()...)
			s.rd.buf = append(s.rd.buf, wire...)
			return tohex(wire)
		}
		return func(f []string) string {
			switch f[0] {
			case "cfg":
				s.limit, s.kind, s.rc, s.server = atoi(f[1]), f[2], f[3], f[4] == "1"
				s.codecs(s.kind)
				return "ok"
			case "chunks":
				s.rd.chunks = nil
				for _, v := range natList(f[1]) {
					s.rd.chunks = append(s.rd.chunks, int(v))
				}
				s.rd.ci = 0
				return "ok"
			case "send":
				return send(f[1], unhex(f[2]))
			case "sendn":
				return send(f[1], bytes.Repeat(unhex(f[3])[:1], atoi(f[2])))
			case "raw":
				s.rd.buf = append(s.rd.buf, unhex(f[1])...)
				return "ok"
			case "recv":
				_, dc, comp, obs := s.codecs(s.kind)
				s.mat = 0
				out, err := s.p.RecvAndDecompress(rcString(s.rc, s.kind), dc, s.limit, comp, s.server)
				if err != nil {
					return "err " + errCode(err) + " " + matStr(obs, s.mat)
				}
				b := out.Materialize()
				out.Free()
				return "ok " + tohex(b) + " " + matStr(obs, s.mat)
			case "dec":
				_, dc, comp, obs := s.codecs(f[2])
				s.mat = 0
				out, err := grpc.VerifDecompress(comp, split2(unhex(f[3])), dc, atoi(f[1]))
				if err != nil {
					return "err " + errCode(err) + " " + matStr(obs, s.mat)
				}
				b := out.Materialize()
				out.Free()
				return "ok " + tohex(b) + " " + matStr(obs, s.mat)
			case "chk":
				rc := rcString(f[2], "gzip")
				code, ok := grpc.VerifCheckRecvPayload(uint8(atoi(f[1])), rc, f[3] == "1", f[4] == "1")
				if ok {
					return "OK"
				}
				return errCode(status.Error(codes.Code(code), ""))
			case "lgz":
				var z bytes.Buffer
				if err := grpc.NewGZIPCompressor().Do(&z, bytes.Repeat(unhex(f[3])[:1], atoi(f[2]))); err != nil {
					return "err compress"
				}
				lim := int64(math.MaxInt64)
				if f[1] != "max" {
					lim = atoi64(f[1])
				}
				b, err := grpc.VerifGzipDoWithMaxSize(&z, lim)
				if err != nil {
					return "err " + err.Error()
				}
				return strconv.Itoa(len(b))
			case "hdr":
				data := mem.BufferSlice{mem.SliceBuffer(make([]byte, atoi(f[2])))}
				comp := mem.BufferSlice{mem.SliceBuffer(make([]byte, atoi(f[3])))}
				hdr, payload := grpc.VerifMsgHeader(data, comp, uint8(atoi(f[1])))
				which := "data"
				if payload.Len() == comp.Len() && (atoi(f[2]) != atoi(f[3])) {
					which = "comp"
				} else if atoi(f[2]) == atoi(f[3]) {
					which = fmt.Sprintf("len%d", payload.Len())
				}
				return tohex(hdr) + " " + which
			}
			return "bad-op"
		}
	})
}
