package main

import (
	"fmt"

	"google.golang.org/grpc/internal/resolver/dns"
)

// component dnstarget (C56, T1): parse <hex target> <hex default port> | fmt <hex addr>
func init() {
	register("dnstarget", func() Handler {
		return func(f []string) string {
			switch f[0] {
			case "parse":
				t, d := string(unhex(f[1])), string(unhex(f[2]))
				ip := 0
				if dns.VerifIPKind(t) != 0 {
					ip = 1
				}
				h, p, e := dns.VerifParseTarget(t, d)
				if e != "" {
					return fmt.Sprintf("ip=%d err %s", ip, e)
				}
				return fmt.Sprintf("ip=%d ok %s %s", ip, tohex([]byte(h)), tohex([]byte(p)))
			case "fmt":
				a := string(unhex(f[1]))
				k := dns.VerifIPKind(a)
				s, ok := dns.VerifFormatIP(a)
				if !ok {
					return fmt.Sprintf("ip=%d err", k)
				}
				return fmt.Sprintf("ip=%d ok %s", k, tohex([]byte(s)))
			}
			return "bad-op"
		}
	})
}
