package main

import (
	"strconv"

	imem "google.golang.org/grpc/internal/mem"
)

// component mempool (C53); protocol in lean/GrpcModel/Driver/Mempool.lean.

type mempoolPool interface {
	Get(int) *[]byte
	Put(*[]byte)
}

func init() {
	register("mempool", func() Handler {
		var pool mempoolPool = imem.NopBufferPool{}
		var hs []*[]byte
		var out []bool
		last := map[*[]byte]int{}
		exps := func(f []string) []uint8 {
			var e []uint8
			for _, x := range f {
				e = append(e, uint8(atoi(x)))
			}
			return e
		}
		ints := func(f []string) []int {
			var e []int
			for _, x := range f {
				e = append(e, atoi(x))
			}
			return e
		}
		return func(f []string) string {
			switch f[0] {
			case "pool":
				hs, out, last = nil, nil, map[*[]byte]int{}
				switch f[1] {
				case "bin":
					p, err := imem.NewBinaryTieredBufferPool(exps(f[2:])...)
					if err != nil {
						return "pool-error"
					}
					pool = p
				case "dirtybin":
					p, err := imem.NewDirtyBinaryTieredBufferPool(exps(f[2:])...)
					if err != nil {
						return "pool-error"
					}
					pool = p
				case "tiered":
					pool = imem.NewTieredBufferPool(ints(f[2:])...)
				case "simple":
					pool = imem.NewTieredBufferPool() // no tiers: every request goes to the zeroing SimpleBufferPool
				case "dirtysimple":
					pool = imem.NewDirtySimplePool()
				case "nop":
					pool = imem.NopBufferPool{}
				default:
					return "bad-op"
				}
				return "ok"
			case "get":
				n := atoi(f[1])
				p := pool.Get(n)
				full := (*p)[:cap(*p)]
				zero := true
				for _, b := range full {
					if b != 0 {
						zero = false
						break
					}
				}
				res := "new"
				if h0, ok := last[p]; ok {
					res = "reused " + strconv.Itoa(h0)
				}
				last[p] = len(hs)
				hs = append(hs, p)
				out = append(out, true)
				return res + " " + strconv.Itoa(len(*p)) + " " + strconv.Itoa(cap(*p)) + " zero=" + strconv.FormatBool(zero)
			case "dirty", "put", "putcap":
				h := atoi(f[1])
				if h >= len(hs) || !out[h] {
					return "bad-op"
				}
				p := hs[h]
				switch f[0] {
				case "dirty":
					full := (*p)[:cap(*p)]
					for i := range full {
						full[i] = 0xAB
					}
				case "put":
					out[h] = false
					pool.Put(p)
				case "putcap":
					c := atoi(f[2])
					b := *p
					if c > cap(b) {
						c = cap(b)
					}
					l := len(b)
					if l > c {
						l = c
					}
					*p = b[:l:c]
					out[h] = false
					pool.Put(p)
				}
				return "ok"
			}
			return "bad-op"
		}
	})
}
