package main

import (
	"context"
	"sort"
	"strings"

	imetadata "google.golang.org/grpc/internal/metadata"
	"google.golang.org/grpc/internal/transport"
	"google.golang.org/grpc/metadata"
)

// component mdcodec (C09, T1): the pure functions on the metadata path.
//
//	res <namehex>            isReservedHeader, isWhitelistedHeader   -> two bits "rw"
//	enc <keyhex> <valhex>    encodeMetadataHeader                    -> hex
//	dec <keyhex> <valhex>    decodeMetadataHeader                    -> ok <hex> | err
//	valid <md>               imetadata.Validate (md = keyhex=v,v;…)  -> ok | err
//	append <keyhex>          metadata.AppendToOutgoingContext + FromOutgoingContext: the stored key -> hex
func mcParseMD(s string) metadata.MD {
	md := metadata.MD{}
	if s == "-" {
		return md
	}
	for _, p := range strings.Split(s, ";") {
		kv := strings.SplitN(p, "=", 2)
		k := string(unhex(kv[0]))
		var vals []string
		if len(kv) == 2 && kv[1] != "" {
			for _, v := range strings.Split(kv[1], ",") {
				if v == "~" {
					vals = append(vals, "")
				} else {
					vals = append(vals, string(unhex(v)))
				}
			}
		}
		md[k] = append(md[k], vals...)
	}
	return md
}

func bit(b bool) string {
	if b {
		return "1"
	}
	return "0"
}

func init() {
	register("mdcodec", func() Handler {
		return func(f []string) string {
			switch f[0] {
			case "res":
				n := string(unhex(f[1]))
				return bit(transport.VerifMdwIsReservedHeader(n)) + bit(transport.VerifMdwIsWhitelistedHeader(n))
			case "enc":
				return tohex([]byte(transport.VerifMdwEncodeMetadataHeader(string(unhex(f[1])), string(unhex(f[2])))))
			case "dec":
				v, err := transport.VerifMdwDecodeMetadataHeader(string(unhex(f[1])), string(unhex(f[2])))
				if err != nil {
					return "err"
				}
				return "ok " + tohex([]byte(v))
			case "valid":
				if err := imetadata.Validate(mcParseMD(f[1])); err != nil {
					return "err"
				}
				return "ok"
			case "append":
				ctx := metadata.AppendToOutgoingContext(context.Background(), string(unhex(f[1])), "v")
				md, _ := metadata.FromOutgoingContext(ctx)
				keys := []string{}
				for k := range md {
					keys = append(keys, k)
				}
				sort.Strings(keys)
				if len(keys) != 1 {
					return "keys=" + tohex([]byte(strings.Join(keys, ",")))
				}
				return tohex([]byte(keys[0]))
			}
			return "bad-op"
		}
	})
}
