package main

import "google.golang.org/grpc/verif/harness/loopyh"

// components loopy (C01), loopyord (C02), loopylive (C03): one REAL loopyWriter over a REAL framer on an in-memory conn,
// driven one control item / one processData call per op line (T1). The op syntax and the output format are documented
// in harness/loopyh/loopyh.go.
func init() {
	mk := func() Handler {
		h := &loopyh.H{}
		return h.Op
	}
	register("loopy", mk)
	register("loopyord", mk)
	register("loopylive", mk)
}
