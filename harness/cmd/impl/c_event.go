package main

import (
	"fmt"
	"strings"

	"google.golang.org/grpc/internal/grpcsync"
)

// component event (C57, tie T3): threads f<n> = Fire, h<n> = HasFired.
// Output: `<label|done> fired=<0|1> closed=<0|1> ret=<t|f|-> trues=<Fire calls that returned true> falses=<…false> busy=<calls in flight>`.
func init() {
	register("event", func() Handler {
		var e *grpcsync.Event
		trues, falses := 0, 0
		s := c57Install(func(t *c57Thread) func() string {
			switch t.name[0] {
			case 'f':
				return func() string { return c57tf(e.Fire()) }
			case 'h':
				return func() string { return c57tf(e.HasFired()) }
			}
			panic("bad thread " + t.name)
		})
		e = grpcsync.NewEvent()
		b := func(x bool) int {
			if x {
				return 1
			}
			return 0
		}
		return func(f []string) string {
			if f[0] == "step" && len(f) == 2 && strings.ContainsRune("fh", rune(f[1][0])) {
				label, ret := s.step(f[1])
				if f[1][0] == 'f' && ret == "t" {
					trues++
				}
				if f[1][0] == 'f' && ret == "f" {
					falses++
				}
				fired, closed := e.VerifState()
				return fmt.Sprintf("%s fired=%d closed=%d ret=%s trues=%d falses=%d busy=%d", label, b(fired), b(closed), ret, trues, falses, s.busy())
			}
			return "bad-op"
		}
	})
}
