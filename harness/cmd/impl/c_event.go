package main

import (
	"fmt"
	"runtime"
	"strings"
	"sync"
	"sync/atomic"

	"google.golang.org/grpc/internal/grpcsync"
)

// component event (C57, tie T3): threads f<n> = Fire, h<n> = HasFired.
// Output: `<label|done> fired=<0|1> closed=<0|1> ret=<t|f|-> trues=<Fire calls that returned true> falses=<…false> busy=<calls in flight>`.
//
// `cfire <n> <rounds>`: real parallelism instead of a replayed schedule — in every round n goroutines leave a
// spin barrier together and call Fire() on a fresh Event (no scheduler hook installed). This reaches windows
// that lie between accesses the source instrumenter cannot separate (inside closures, inside sync primitives).
// Output: `rounds=<r> bad=<rounds in which the number of true results was not 1> maxtrue=<largest number of true
// results in a round> unfired=<rounds after which HasFired() was false or Done() not closed>`.
func init() {
	register("event", func() Handler {
		var e *grpcsync.Event
		trues, falses := 0, 0
		s := c57Install(func(t *c57Thread) func() string {
			switch t.name[0] {
			case 'f':
				return func() string { return c57tf(e.Fire()) }
			case 'h':
				return func() string { return c57tf(e.HasFired()) }
			}
			panic("bad thread " + t.name)
		})
		e = grpcsync.NewEvent()
		b := func(x bool) int {
			if x {
				return 1
			}
			return 0
		}
		return func(f []string) string {
			if f[0] == "cfire" && len(f) == 3 {
				n, rounds := atoi(f[1]), atoi(f[2])
				if n < 1 || n > 64 || rounds < 1 {
					return "bad-op"
				}
				saved := grpcsync.VerifHook
				grpcsync.VerifHook = nil
				defer func() { grpcsync.VerifHook = saved }()
				if runtime.GOMAXPROCS(0) < 2 {
					defer runtime.GOMAXPROCS(runtime.GOMAXPROCS(4))
				}
				bad, maxTrue, unfired := 0, 0, 0
				for r := 0; r < rounds; r++ {
					ev := grpcsync.NewEvent()
					var ready, trues atomic.Int32
					var start atomic.Bool
					var wg sync.WaitGroup
					for i := 0; i < n; i++ {
						wg.Add(1)
						go func() {
							defer wg.Done()
							ready.Add(1)
							// spin rather than block: all workers are on a CPU and leave the barrier within
							// nanoseconds of each other
							for !start.Load() {
							}
							if ev.Fire() {
								trues.Add(1)
							}
						}()
					}
					for ready.Load() != int32(n) {
						runtime.Gosched()
					}
					start.Store(true)
					wg.Wait()
					t := int(trues.Load())
					if t != 1 {
						bad++
					}
					if t > maxTrue {
						maxTrue = t
					}
					fired, closed := ev.VerifState()
					if !fired || !closed {
						unfired++
					}
				}
				return fmt.Sprintf("rounds=%d bad=%d maxtrue=%d unfired=%d", rounds, bad, maxTrue, unfired)
			}
			if f[0] == "step" && len(f) == 2 && strings.ContainsRune("fh", rune(f[1][0])) {
				label, ret := s.step(f[1])
				if f[1][0] == 'f' && ret == "t" {
					trues++
				}
				if f[1][0] == 'f' && ret == "f" {
					falses++
				}
				fired, closed := e.VerifState()
				return fmt.Sprintf("%s fired=%d closed=%d ret=%s trues=%d falses=%d busy=%d", label, b(fired), b(closed), ret, trues, falses, s.busy())
			}
			return "bad-op"
		}
	})
}
