package main

import (
	"context"
	"sort"
	"strconv"
	"strings"

	"google.golang.org/grpc/metadata"
)

// component md (C28): the public metadata API; protocol in lean/GrpcModel/Driver/Md.lean.

func mdTok(s string) string {
	if s == "~" {
		return ""
	}
	return s
}

func mdShowTok(s string) string {
	if s == "" {
		return "~"
	}
	return s
}

func mdVals(s string) []string {
	if s == "-" {
		return nil
	}
	var out []string
	for _, v := range strings.Split(s, ",") {
		out = append(out, mdTok(v))
	}
	return out
}

func mdShowVals(v []string) string {
	if len(v) == 0 {
		return "-"
	}
	p := make([]string, len(v))
	for i, x := range v {
		p[i] = mdShowTok(x)
	}
	return strings.Join(p, ",")
}

func mdParse(s string) metadata.MD {
	md := metadata.MD{}
	if s == "-" {
		return md
	}
	for _, g := range strings.Split(s, ";") {
		kv := strings.Split(g, "=")
		if len(kv) != 2 {
			panic("bad group " + g)
		}
		k := mdTok(kv[0])
		if _, dup := md[k]; dup {
			panic("duplicate key in literal")
		}
		vals := []string{}
		if kv[1] != "!" {
			for _, v := range strings.Split(kv[1], ",") {
				vals = append(vals, mdTok(v))
			}
		}
		md[k] = vals
	}
	return md
}

func mdDump(md metadata.MD) string {
	if len(md) == 0 {
		return "-"
	}
	keys := make([]string, 0, len(md))
	for k := range md {
		keys = append(keys, k)
	}
	sort.Strings(keys)
	p := make([]string, len(keys))
	for i, k := range keys {
		v := md[k]
		if len(v) == 0 {
			p[i] = mdShowTok(k) + "=!"
			continue
		}
		q := make([]string, len(v))
		for j, x := range v {
			q[j] = mdShowTok(x)
		}
		p[i] = mdShowTok(k) + "=" + strings.Join(q, ",")
	}
	return strings.Join(p, ";")
}

func mdSwapCase(s string) string {
	b := []byte(s)
	for i, c := range b {
		if 'a' <= c && c <= 'z' {
			b[i] = c - 32
		} else if 'A' <= c && c <= 'Z' {
			b[i] = c + 32
		}
	}
	return string(b)
}

func mdEqVals(a, b []string) bool {
	if len(a) != len(b) {
		return false
	}
	for i := range a {
		if a[i] != b[i] {
			return false
		}
	}
	return true
}

// mdScribbleSlice overwrites the whole backing array of a returned slice.
func mdScribbleSlice(s []string) {
	s = s[:cap(s)]
	for i := range s {
		s[i] = "SCRIBBLED"
	}
}

// mdScribble mutates a returned MD in every way a caller can: overwrite the backing arrays of all
// value slices, append to every key, add a key, delete every key.
func mdScribble(md metadata.MD) {
	for k, v := range md {
		mdScribbleSlice(v)
		md[k] = append(md[k], "SCRIBBLED2")
		if len(md[k]) > 0 {
			md[k][0] = "SCRIBBLED3"
		}
	}
	md["scribbled-key"] = []string{"x"}
	for k := range md {
		delete(md, k)
	}
}

func mdPairsArgs(f []string) []string {
	out := make([]string, len(f))
	for i, x := range f {
		out[i] = mdTok(x)
	}
	return out
}

func init() {
	register("md", func() Handler {
		mds := map[int]metadata.MD{}
		ctxs := map[int]context.Context{}
		getMD := func(s string) (metadata.MD, bool) {
			m, ok := mds[atoi(s)]
			return m, ok
		}
		create := func(d string, md metadata.MD) string {
			mds[atoi(d)] = md
			return mdDump(md)
		}
		fresh := func(d string) bool { _, ok := mds[atoi(d)]; return !ok }
		freshCtx := func(c string) bool { _, ok := ctxs[atoi(c)]; return !ok }
		return func(f []string) (out string) {
			defer func() {
				// Pairs / AppendToOutgoingContext panic (documented) on an odd number of arguments
				if r := recover(); r != nil {
					if s, ok := r.(string); ok && strings.Contains(s, "odd number of input pairs") {
						out = "panic"
						return
					}
					panic(r)
				}
			}()
			switch f[0] {
			case "lit":
				if !fresh(f[1]) {
					return "bad-op"
				}
				return create(f[1], mdParse(f[2]))
			case "new":
				if !fresh(f[1]) {
					return "bad-op"
				}
				m := map[string]string{}
				if f[2] != "-" {
					for _, g := range strings.Split(f[2], ";") {
						kv := strings.Split(g, "=")
						m[mdTok(kv[0])] = mdTok(kv[1])
					}
				}
				return create(f[1], metadata.New(m))
			case "pairs":
				if !fresh(f[1]) {
					return "bad-op"
				}
				return create(f[1], metadata.Pairs(mdPairsArgs(f[2:])...))
			case "copy":
				s, ok := getMD(f[2])
				if !ok || !fresh(f[1]) {
					return "bad-op"
				}
				return create(f[1], s.Copy())
			case "join":
				var srcs []metadata.MD
				for _, x := range f[2:] {
					s, ok := getMD(x)
					if !ok {
						return "bad-op"
					}
					srcs = append(srcs, s)
				}
				if !fresh(f[1]) {
					return "bad-op"
				}
				return create(f[1], metadata.Join(srcs...))
			case "get":
				md, ok := getMD(f[1])
				if !ok {
					return "bad-op"
				}
				k := mdTok(f[2])
				v := md.Get(k)
				ci := mdEqVals(v, md.Get(strings.ToLower(k))) && mdEqVals(v, md.Get(strings.ToUpper(k))) && mdEqVals(v, md.Get(mdSwapCase(k)))
				return mdShowVals(v) + " ci=" + strconv.FormatBool(ci)
			case "set", "append", "delete":
				md, ok := getMD(f[1])
				if !ok {
					return "bad-op"
				}
				k := mdTok(f[2])
				twin := md.Copy()
				switch f[0] {
				case "set":
					md.Set(k, mdVals(f[3])...)
					twin.Set(mdSwapCase(k), mdVals(f[3])...)
				case "append":
					md.Append(k, mdVals(f[3])...)
					twin.Append(mdSwapCase(k), mdVals(f[3])...)
				case "delete":
					md.Delete(k)
					twin.Delete(mdSwapCase(k))
				}
				return "ok ci=" + strconv.FormatBool(mdDump(md) == mdDump(twin))
			case "len":
				md, ok := getMD(f[1])
				if !ok {
					return "bad-op"
				}
				return strconv.Itoa(md.Len())
			case "dump":
				md, ok := getMD(f[1])
				if !ok {
					return "bad-op"
				}
				return mdDump(md)
			case "scribble":
				md, ok := getMD(f[1])
				if !ok {
					return "bad-op"
				}
				mdScribble(md)
				return "ok"
			case "bg":
				if !freshCtx(f[1]) {
					return "bad-op"
				}
				ctxs[atoi(f[1])] = context.Background()
				return "ok"
			case "newin", "newout":
				p, okp := ctxs[atoi(f[2])]
				md, okm := getMD(f[3])
				if !okp || !okm || !freshCtx(f[1]) {
					return "bad-op"
				}
				if f[0] == "newin" {
					ctxs[atoi(f[1])] = metadata.NewIncomingContext(p, md)
				} else {
					ctxs[atoi(f[1])] = metadata.NewOutgoingContext(p, md)
				}
				return "ok"
			case "appendout":
				p, okp := ctxs[atoi(f[2])]
				if !okp {
					return "bad-op"
				}
				if len(f[3:])%2 == 1 {
					// let the real function panic, but do not let a fresh-check mask it
					metadata.AppendToOutgoingContext(p, mdPairsArgs(f[3:])...)
				}
				if !freshCtx(f[1]) {
					return "bad-op"
				}
				ctxs[atoi(f[1])] = metadata.AppendToOutgoingContext(p, mdPairsArgs(f[3:])...)
				return "ok"
			case "fromin", "fromout":
				c, okc := ctxs[atoi(f[2])]
				if !okc || !fresh(f[1]) {
					return "bad-op"
				}
				var md metadata.MD
				var ok bool
				if f[0] == "fromin" {
					md, ok = metadata.FromIncomingContext(c)
				} else {
					md, ok = metadata.FromOutgoingContext(c)
				}
				if !ok {
					return "none"
				}
				return create(f[1], md)
			case "valin", "valout":
				c, okc := ctxs[atoi(f[1])]
				if !okc {
					return "bad-op"
				}
				k := mdTok(f[2])
				var v []string
				var full metadata.MD
				if f[0] == "valin" {
					v = metadata.ValueFromIncomingContext(c, k)
					full, _ = metadata.FromIncomingContext(c)
				} else {
					v = metadata.ValueFromOutgoingContext(c, k)
					full, _ = metadata.FromOutgoingContext(c)
				}
				return mdShowVals(v) + " full=" + mdShowVals(full[strings.ToLower(k)])
			case "pcopy":
				md, ok := getMD(f[1])
				if !ok {
					return "bad-op"
				}
				before := mdDump(md)
				mdScribble(md.Copy())
				return before + "|" + mdDump(md)
			case "pjoin":
				var srcs []metadata.MD
				for _, x := range f[1:] {
					s, ok := getMD(x)
					if !ok {
						return "bad-op"
					}
					srcs = append(srcs, s)
				}
				show := func() string {
					p := make([]string, len(srcs))
					for i, s := range srcs {
						p[i] = mdDump(s)
					}
					return strings.Join(p, " ")
				}
				before := show()
				mdScribble(metadata.Join(srcs...))
				return before + "|" + show()
			case "pfromin", "pfromout":
				c, okc := ctxs[atoi(f[1])]
				if !okc {
					return "bad-op"
				}
				read := func() (metadata.MD, bool) {
					if f[0] == "pfromin" {
						return metadata.FromIncomingContext(c)
					}
					return metadata.FromOutgoingContext(c)
				}
				show := func() string {
					md, ok := read()
					if !ok {
						return "none"
					}
					return mdDump(md)
				}
				before := show()
				if md, ok := read(); ok {
					mdScribble(md)
				}
				return before + "|" + show()
			case "pvalin", "pvalout":
				c, okc := ctxs[atoi(f[1])]
				if !okc {
					return "bad-op"
				}
				k := mdTok(f[2])
				read := func() []string {
					if f[0] == "pvalin" {
						return metadata.ValueFromIncomingContext(c, k)
					}
					return metadata.ValueFromOutgoingContext(c, k)
				}
				before := mdShowVals(read())
				v := read()
				mdScribbleSlice(v)
				v = append(v, "SCRIBBLED2")
				_ = v
				return before + "|" + mdShowVals(read())
			}
			return "bad-op"
		}
	})
}
