package main

import (
	"encoding/hex"
	"encoding/json"
	"fmt"
	"math"
	"strings"

	"google.golang.org/grpc"
	iserviceconfig "google.golang.org/grpc/internal/serviceconfig"
)

// component retrycfg (C19, C18): the parser side of the retry policy.
//
//	dur x<hex of the JSON string content>                  -> ok <ns> | err      (real Duration.UnmarshalJSON)
//	rp <WithMaxCallAttempts arg> <maxAttempts> x<hex initialBackoff> x<hex maxBackoff> <multiplier> <codes|->
//	                                                       -> ok <maxAttempts> <initial ns> <max ns> <mult bits> <codes> | err
//	   (real parseServiceConfig/convertRetryPolicy with the channel limit the real dial option stores)
func init() {
	register("retrycfg", func() Handler {
		xs := func(s string) string {
			b, err := hex.DecodeString(strings.TrimPrefix(s, "x"))
			if err != nil {
				panic("bad hex " + s)
			}
			return string(b)
		}
		return func(f []string) string {
			switch f[0] {
			case "dur":
				js, _ := json.Marshal(xs(f[1]))
				var d iserviceconfig.Duration
				if err := d.UnmarshalJSON(js); err != nil {
					return "err"
				}
				return fmt.Sprintf("ok %d", int64(d))
			case "rp":
				ib, _ := json.Marshal(xs(f[3]))
				mb, _ := json.Marshal(xs(f[4]))
				codes := "[]"
				if f[6] != "-" {
					codes = "[" + f[6] + "]"
				}
				js := fmt.Sprintf(`{"methodConfig":[{"name":[{"service":"s"}],"retryPolicy":{"maxAttempts":%s,"initialBackoff":%s,"maxBackoff":%s,"backoffMultiplier":%s,"retryableStatusCodes":%s}}]}`,
					f[2], ib, mb, f[5], codes)
				sc, err := grpc.VerifParseSC(js, grpc.VerifChannelMaxAttempts(atoi(f[1])))
				if err != nil {
					return "err"
				}
				ok, ma, i, m, mu, cs := grpc.VerifRetryPolicy(sc, "/s/")
				if !ok {
					return "nopolicy"
				}
				c64 := make([]int64, len(cs))
				for k, v := range cs {
					c64[k] = int64(v)
				}
				return fmt.Sprintf("ok %d %d %d %d %s", ma, int64(i), int64(m), math.Float64bits(mu), showNatList(c64))
			}
			return "bad-op"
		}
	})
}
