package main

import (
	"fmt"
	"strings"

	"google.golang.org/grpc/balancer/pickfirst"
	"google.golang.org/grpc/resolver"
)

// pfRender turns the protocol's address token (<4|6|u>.<n>) into an address string of that family.
func pfRender(tok string) string {
	p := strings.Split(tok, ".")
	n := atoi(p[1])
	switch p[0] {
	case "4":
		if n >= 100 {
			return fmt.Sprintf("[::ffff:10.0.%d.%d]:80", (n-100)/256, (n-100)%256) // IPv4-mapped: family v4
		}
		return fmt.Sprintf("10.0.%d.%d:80", n/256, n%256)
	case "6":
		return fmt.Sprintf("[fd00::%x]:80", n)
	default:
		if n%2 == 0 {
			return fmt.Sprintf("host%d", n) // no port
		}
		return fmt.Sprintf("host%d:80", n) // not an IP
	}
}

// component pfaddr (C34): prep <addr,...> | fam <addr>
func init() {
	register("pfaddr", func() Handler {
		return func(f []string) string {
			switch f[0] {
			case "prep":
				var in []resolver.Address
				back := map[string]string{}
				if f[1] != "-" {
					for _, t := range strings.Split(f[1], ",") {
						a := pfRender(t)
						back[a] = t
						in = append(in, resolver.Address{Addr: a})
					}
				}
				var out []string
				for _, a := range pickfirst.VerifPreprocess(in) {
					out = append(out, back[a.Addr])
				}
				if len(out) == 0 {
					return "-"
				}
				return strings.Join(out, ",")
			case "fam":
				return []string{"u", "4", "6"}[pickfirst.VerifAddressFamily(pfRender(f[1]))]
			}
			return "bad-op"
		}
	})
}
