package main

import (
	"fmt"
	"strings"
	"sync"

	"google.golang.org/grpc/internal/idle"
)

// component idle (C29), tie T3: every op `step <thread>` lets ONE goroutine of the real
// idle.Manager run from its current yield point (an atomic access or a lock acquisition in the
// instrumented copy of idle.go) to the next one. Threads: r<n> = an RPC (OnCallBegin … OnCallEnd,
// repeated), t<n> = a timer callback (handleIdleTimeout), c<n> = Connect (ExitIdleMode), k = Close.
// Output: `<label the thread is parked at | done> cnt= act= idle= closed= en= ex= active= cb=`.

type idleThread struct {
	name    string
	resume  chan struct{}
	label   string
	started bool
	phase   int // r-threads: 0 = next call is OnCallBegin, 1 = in call (next is OnCallEnd)
}

// idleCC is the fake ClientConn. Its callbacks are yield points too: a goroutine can be parked INSIDE
// cc.ExitIdleMode()/cc.EnterIdleMode() ("the channel is leaving / entering idle mode") while others run.
type idleCC struct {
	enters, exits int
	inCb          string // "x" / "e" while a goroutine is inside the exit / enter callback
}

func (c *idleCC) EnterIdleMode() {
	c.enters++
	c.inCb = "e"
	if h := idle.VerifHook; h != nil {
		h("cc.EnterIdleMode")
	}
	c.inCb = ""
}
func (c *idleCC) ExitIdleMode() {
	c.exits++
	c.inCb = "x"
	if h := idle.VerifHook; h != nil {
		h("cc.ExitIdleMode")
	}
	c.inCb = ""
}

type idleSched struct {
	m       *idle.Manager
	cc      *idleCC
	threads map[string]*idleThread
	parked  chan *idleThread
	current *idleThread
	wg      sync.WaitGroup
}

var idleActive *idleSched // the scheduler of the current case

func (s *idleSched) hook(label string) {
	if idleActive != s {
		return // a goroutine left over from a previous case: let it run to completion
	}
	t := s.current
	t.label = label
	s.parked <- t
	<-t.resume
}

func (s *idleSched) body(t *idleThread) func() {
	switch t.name[0] {
	case 'r':
		if t.phase == 0 {
			return func() { s.m.OnCallBegin(); t.phase = 1 }
		}
		return func() { s.m.OnCallEnd(); t.phase = 0 }
	case 't':
		return s.m.VerifHandleIdleTimeout
	case 'c':
		return s.m.ExitIdleMode
	case 'k':
		return s.m.Close
	}
	panic("bad thread " + t.name)
}

func (s *idleSched) step(name string) string {
	t := s.threads[name]
	if t == nil {
		t = &idleThread{name: name, resume: make(chan struct{})}
		s.threads[name] = t
	}
	s.current = t
	if !t.started {
		t.started = true
		f := s.body(t)
		s.wg.Add(1)
		go func() {
			defer s.wg.Done()
			f()
			if idleActive != s {
				return
			}
			t.label = "done"
			t.started = false
			s.parked <- t
		}()
	} else {
		t.resume <- struct{}{}
	}
	<-s.parked
	cnt, act, idl, closed := s.m.VerifState()
	active := 0
	for _, x := range s.threads {
		if x.name[0] == 'r' && x.phase == 1 && !x.started {
			active++
		}
	}
	cb := s.cc.inCb
	if cb == "" {
		cb = "-"
	}
	return fmt.Sprintf("%s cnt=%d act=%d idle=%v closed=%d en=%d ex=%d active=%d cb=%s", t.label, cnt, act, idl, closed, s.cc.enters, s.cc.exits, active, cb)
}

func init() {
	register("idle", func() Handler {
		// release whatever the previous case left parked
		if old := idleActive; old != nil {
			idleActive = nil
			idle.VerifHook = nil
			for _, t := range old.threads {
				if t.started {
					t.resume <- struct{}{}
				}
			}
			old.wg.Wait()
		}
		idle.VerifNoTimers()
		s := &idleSched{cc: &idleCC{}, threads: map[string]*idleThread{}, parked: make(chan *idleThread)}
		s.m = idle.NewManager(s.cc, 1)
		idleActive = s
		idle.VerifHook = s.hook
		return func(f []string) string {
			if f[0] == "step" && len(f) == 2 && strings.ContainsRune("rtck", rune(f[1][0])) {
				return s.step(f[1])
			}
			return "bad-op"
		}
	})
}
