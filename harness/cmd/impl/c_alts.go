package main

import (
	"encoding/binary"
	"errors"
	"fmt"
	"net"
	"strings"
	"time"

	"google.golang.org/grpc/credentials/alts"
)

// component alts (C52, T1): a real ALTS record conn pair (AES-128-GCM rekey) over an in-memory
// wire the op lines control byte by byte.
//
//	new <maxFrame>            create client(writer)/server(reader)
//	write <len> <seed>        client.Write of `len` pseudo-random bytes (LCG from seed)
//	deliver <k>               hand the first k undelivered wire bytes to the server's socket
//	tamper <off> <xor>        XOR the undelivered wire byte at offset off
//	dropbytes <off> <len>     delete undelivered wire bytes
//	swaprec | duprec          swap the first two / duplicate the first undelivered record
//	read <n>                  server.Read with an n-byte buffer
//	ctr <hex12> <ovf> <times> Counter.Inc applied `times` times
type altsWire struct {
	wire    []byte // written by the client, not yet delivered
	inbound []byte // delivered to the server's socket, not yet read
}

var errAltsWouldBlock = errors.New("verif: would block")

type altsClientRaw struct{ w *altsWire }

func (c altsClientRaw) Write(b []byte) (int, error) { c.w.wire = append(c.w.wire, b...); return len(b), nil }
func (c altsClientRaw) Read([]byte) (int, error)     { return 0, errAltsWouldBlock }

type altsServerRaw struct{ w *altsWire }

func (c altsServerRaw) Read(b []byte) (int, error) {
	if len(c.w.inbound) == 0 {
		return 0, errAltsWouldBlock
	}
	n := copy(b, c.w.inbound)
	c.w.inbound = c.w.inbound[n:]
	return n, nil
}
func (c altsServerRaw) Write(b []byte) (int, error) { return len(b), nil }

type altsNop struct{}

func (altsNop) Close() error                     { return nil }
func (altsNop) LocalAddr() net.Addr              { return nil }
func (altsNop) RemoteAddr() net.Addr             { return nil }
func (altsNop) SetDeadline(time.Time) error      { return nil }
func (altsNop) SetReadDeadline(time.Time) error  { return nil }
func (altsNop) SetWriteDeadline(time.Time) error { return nil }

type altsCli struct {
	altsClientRaw
	altsNop
}
type altsSrv struct {
	altsServerRaw
	altsNop
}

func altsLCG(n int, seed uint32) []byte {
	x := uint64(seed)
	b := make([]byte, n)
	for i := range b {
		x = (x*1103515245 + 12345) % 2147483648
		b[i] = byte(x >> 16)
	}
	return b
}

// records of a byte stream by its length fields: (start, total length) of each complete record
func altsRecords(w []byte) [][2]int {
	var r [][2]int
	off := 0
	for off+4 <= len(w) {
		l := int(binary.LittleEndian.Uint32(w[off:]))
		if l > 1<<21 || off+4+l > len(w) {
			break
		}
		r = append(r, [2]int{off, 4 + l})
		off += 4 + l
	}
	return r
}

func rle(v []int) string {
	if len(v) == 0 {
		return "-"
	}
	var p []string
	for i := 0; i < len(v); {
		j := i
		for j < len(v) && v[j] == v[i] {
			j++
		}
		p = append(p, fmt.Sprintf("%dx%d", v[i], j-i))
		i = j
	}
	return strings.Join(p, ",")
}

func init() {
	register("alts", func() Handler {
		w := &altsWire{}
		var cli, srv net.Conn
		key := altsLCG(44, 4242)
		return func(f []string) string {
			switch f[0] {
			case "new":
				var err error
				cli, err = alts.VerifNewConn(altsCli{altsClientRaw{w}, altsNop{}}, false, key, atoi(f[1]))
				if err != nil {
					return "err " + err.Error()
				}
				srv, err = alts.VerifNewConn(altsSrv{altsServerRaw{w}, altsNop{}}, true, key, atoi(f[1]))
				if err != nil {
					return "err " + err.Error()
				}
				return "ok"
			case "write":
				before := len(w.wire)
				n, err := cli.Write(altsLCG(atoi(f[1]), uint32(atoi(f[2]))))
				if err != nil {
					return "err " + err.Error()
				}
				var lens []int
				for _, r := range altsRecords(w.wire[before:]) {
					lens = append(lens, r[1])
				}
				return fmt.Sprintf("n=%d frames=%s", n, rle(lens))
			case "deliver":
				k := atoi(f[1])
				if k > len(w.wire) {
					k = len(w.wire)
				}
				w.inbound = append(w.inbound, w.wire[:k]...)
				w.wire = w.wire[k:]
				return fmt.Sprintf("ok wire=%d", len(w.wire))
			case "tamper":
				off := atoi(f[1])
				if off >= len(w.wire) {
					return "none"
				}
				w.wire[off] ^= byte(atoi(f[2]))
				return "ok"
			case "dropbytes":
				off, l := atoi(f[1]), atoi(f[2])
				if off+l > len(w.wire) {
					return "none"
				}
				w.wire = append(append([]byte(nil), w.wire[:off]...), w.wire[off+l:]...)
				return "ok"
			case "swaprec", "duprec":
				rs := altsRecords(w.wire)
				if f[0] == "duprec" {
					if len(rs) < 1 {
						return "none"
					}
					a := append([]byte(nil), w.wire[:rs[0][1]]...)
					w.wire = append(a, w.wire...)
					return "ok"
				}
				if len(rs) < 2 {
					return "none"
				}
				a := append([]byte(nil), w.wire[:rs[0][1]]...)
				b := append([]byte(nil), w.wire[rs[1][0]:rs[1][0]+rs[1][1]]...)
				rest := append([]byte(nil), w.wire[rs[1][0]+rs[1][1]:]...)
				w.wire = append(append(b, a...), rest...)
				return "ok"
			case "read":
				buf := make([]byte, atoi(f[1]))
				n, err := srv.Read(buf)
				if err != nil {
					s := err.Error()
					switch {
					case err == errAltsWouldBlock:
						return "block"
					case strings.Contains(s, "authentication failed"):
						return "fail auth"
					case strings.Contains(s, "larger than the limit"):
						return "fail tooLong"
					case strings.Contains(s, "shorter than message type"):
						return "fail shortType"
					case strings.Contains(s, "incorrect message type"):
						return "fail badType"
					case strings.Contains(s, "invalid counter"):
						return "fail counter"
					}
					return "fail other " + s
				}
				return "data " + tohex(buf[:n])
			case "ctr":
				v, inv := alts.VerifCounterInc(unhex(f[1]), atoi(f[2]), atoi(f[3]))
				if inv {
					return "invalid"
				}
				return "ok " + tohex(v)
			}
			return "bad-op"
		}
	})
}
