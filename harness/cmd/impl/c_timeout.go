package main

import (
	"strconv"
	"time"

	"google.golang.org/grpc/internal/grpcutil"
	"google.golang.org/grpc/internal/transport"
)

// component timeout (C07): enc <int64 ns> | dec <hex>
func init() {
	register("timeout", func() Handler {
		return func(f []string) string {
			switch f[0] {
			case "enc":
				return grpcutil.EncodeDuration(time.Duration(atoi64(f[1])))
			case "dec":
				d, err := transport.VerifDecodeTimeout(string(unhex(f[1])))
				if err != nil {
					return "err"
				}
				return "ok " + strconv.FormatInt(int64(d), 10)
			}
			return "bad-op"
		}
	})
}
