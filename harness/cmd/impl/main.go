// Command impl drives the REAL grpc-go code (built from /repo's working tree, tag
// `verif`, export shims injected with -overlay) through the line protocol shared with
// the Lean model driver (lean/GrpcModel/Driver/Loop.lean):
//
//	impl <component>  < ops  > outputs
//
// One op per input line, one canonical output line per op. `reset` starts a new case.
// A panic inside the implementation is caught and printed as `PANIC <msg>`.
package main

import (
	"bufio"
	"fmt"
	"os"
	"sort"
	"strings"
)

// Handler executes one op (already split into fields) and returns the canonical output.
type Handler func(f []string) string

var registry = map[string]func() Handler{}

// register is called from init() of each component file c_<name>.go.
func register(name string, factory func() Handler) { registry[name] = factory }

func safeCall(h Handler, f []string) (out string) {
	defer func() {
		if r := recover(); r != nil {
			out = "PANIC " + strings.ReplaceAll(fmt.Sprint(r), "\n", " ")
		}
	}()
	return h(f)
}

func main() {
	if len(os.Args) != 2 || registry[os.Args[1]] == nil {
		names := []string{}
		for n := range registry {
			names = append(names, n)
		}
		sort.Strings(names)
		fmt.Fprintln(os.Stderr, "usage: impl <component>; components:", strings.Join(names, " "))
		os.Exit(2)
	}
	factory := registry[os.Args[1]]
	h := factory()
	in := bufio.NewScanner(os.Stdin)
	in.Buffer(make([]byte, 1<<24), 1<<24)
	out := bufio.NewWriterSize(os.Stdout, 1<<16)
	defer out.Flush()
	for in.Scan() {
		f := strings.Fields(in.Text())
		if len(f) == 1 && f[0] == "reset" {
			h = factory()
			fmt.Fprintln(out, "reset")
			continue
		}
		if len(f) == 0 {
			fmt.Fprintln(out, "bad-op")
			continue
		}
		s := safeCall(h, f)
		s = strings.NewReplacer("\n", " ", "\t", " ").Replace(s)
		fmt.Fprintln(out, s)
	}
}
