package main

import (
	"fmt"
	"strconv"

	"google.golang.org/grpc/internal/transport"
)

// component inflow (C04): the real inFlow / trInFlow, one method call per op
// (see lean/GrpcModel/Driver/InFlow.lean for the op list).
func init() {
	register("inflow", func() Handler {
		f := transport.VerifNewInFlow(0)
		t := transport.VerifNewTrInFlow(0)
		u32 := func(s string) uint32 {
			n, err := strconv.ParseUint(s, 10, 32)
			if err != nil {
				panic("bad uint32 " + s)
			}
			return uint32(n)
		}
		fs := func() string {
			a, b, c, d := f.Fields()
			return fmt.Sprintf(" | %d %d %d %d", a, b, c, d)
		}
		ts := func() string {
			a, b, c := t.Fields()
			return fmt.Sprintf(" | %d %d %d", a, b, c)
		}
		return func(a []string) string {
			switch a[0] {
			case "init":
				f = transport.VerifNewInFlow(u32(a[1]))
				return "ok" + fs()
			case "data":
				if err := f.OnData(u32(a[1])); err != nil {
					return "err" + fs()
				}
				return "ok" + fs()
			case "pad", "read":
				return strconv.FormatUint(uint64(f.OnRead(u32(a[1]))), 10) + fs()
			case "req":
				// requestRead(n int) → adjustWindow(s, uint32(n))
				return strconv.FormatUint(uint64(f.MaybeAdjust(uint32(atou64(a[1])))), 10) + fs()
			case "lim":
				f.NewLimit(u32(a[1]))
				return "done" + fs()
			case "tinit":
				t = transport.VerifNewTrInFlow(u32(a[1]))
				return "ok" + ts()
			case "tdata":
				return strconv.FormatUint(uint64(t.OnData(u32(a[1]))), 10) + ts()
			case "treset":
				return strconv.FormatUint(uint64(t.Reset()), 10) + ts()
			case "tlim":
				return strconv.FormatUint(uint64(t.NewLimit(u32(a[1]))), 10) + ts()
			case "consts":
				x, y, z := transport.VerifFlowConsts()
				return fmt.Sprintf("%d %d %d", x, y, z)
			}
			return "bad-op"
		}
	})
}
