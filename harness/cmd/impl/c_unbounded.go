package main

import (
	"strconv"

	"google.golang.org/grpc/internal/buffer"
)

// component unbounded (C31, T1): one goroutine drives the real buffer.Unbounded[int]:
//
//	put <v> -> ok | closed ; load -> - ; close -> - ; recv -> got <v> | eos | empty
//
// recv is a non-blocking receive on Get() (the consumer's channel receive is its own atomic op).
func init() {
	register("unbounded", func() Handler {
		b := buffer.NewUnbounded[int]()
		return func(f []string) string {
			switch f[0] {
			case "put":
				if err := b.Put(atoi(f[1])); err != nil {
					return "closed"
				}
				return "ok"
			case "load":
				b.Load()
				return "-"
			case "close":
				b.Close()
				return "-"
			case "recv":
				select {
				case v, ok := <-b.Get():
					if !ok {
						return "eos"
					}
					return "got " + strconv.Itoa(v)
				default:
					return "empty"
				}
			}
			return "bad-op"
		}
	})
}
