package main

import (
	"fmt"
	"io"
	"strconv"
	"strings"

	"google.golang.org/grpc/internal"
	"google.golang.org/grpc/mem"
)

// component membuffer (C53); protocol in lean/GrpcModel/Driver/Membuffer.lean.

// trackPool is a mem.BufferPool that never reuses memory, logs every Get/Put and poisons what it
// gets back, so that a read through a dangling reference or a double Put is visible.
type trackPool struct {
	ids  map[*[]byte]int
	next int
	log  []string
}

func (p *trackPool) Get(n int) *[]byte {
	b := make([]byte, n, n+n%3)
	id := p.next
	p.next++
	p.ids[&b] = id
	p.log = append(p.log, fmt.Sprintf("G%d:%d", id, n))
	return &b
}

func (p *trackPool) Put(b *[]byte) {
	id, ok := p.ids[b]
	if !ok {
		p.log = append(p.log, "P?")
		return
	}
	s := (*b)[:cap(*b)]
	for i := range s {
		s[i] = 0xDE
	}
	p.log = append(p.log, "P"+strconv.Itoa(id))
}

func membufPat(seed, n int) []byte {
	b := make([]byte, n)
	for i := range b {
		b[i] = byte((seed*31 + i*7 + 3) % 256)
	}
	return b
}

func membufKind(b mem.Buffer) string {
	if b == nil {
		return "nil"
	}
	switch b.(type) {
	case mem.SliceBuffer:
		return "sl"
	}
	if fmt.Sprintf("%T", b) == "mem.emptyBuffer" {
		return "empty"
	}
	return "buf"
}

func membufSame(a, b mem.Buffer) bool {
	return membufKind(a) == "buf" && membufKind(b) == "buf" && a == b
}

func init() {
	register("membuffer", func() Handler {
		setThresh := internal.SetBufferPoolingThresholdForTesting.(func(int))
		setThresh(1 << 10)
		pool := &trackPool{ids: map[*[]byte]int{}}
		slots := map[int]mem.Buffer{}
		has := map[int]bool{}
		readers := map[int]*mem.Reader{}
		get := func(s string) (mem.Buffer, bool) { i := atoi(s); return slots[i], has[i] }
		set := func(s string, b mem.Buffer) { i := atoi(s); slots[i] = b; has[i] = true }
		list := func(fs []string) (mem.BufferSlice, bool) {
			var bs mem.BufferSlice
			for _, x := range fs {
				b, ok := get(x)
				if !ok {
					return nil, false
				}
				bs = append(bs, b)
			}
			return bs, true
		}
		return func(f []string) (out string) {
			pool.log = nil
			defer func() {
				if r := recover(); r != nil {
					out = "err"
					return
				}
				if out != "bad-op" && len(pool.log) > 0 {
					out += " | " + strings.Join(pool.log, " ")
				}
			}()
			switch f[0] {
			case "thresh":
				setThresh(atoi(f[1]))
				return "ok"
			case "newbuf":
				n := atoi(f[2])
				p := pool.Get(n)
				copy(*p, membufPat(atoi(f[1]), n))
				b := mem.NewBuffer(p, pool)
				set(f[1], b)
				return membufKind(b)
			case "newnil":
				n, c := atoi(f[2]), atoi(f[3])
				if c < n {
					c = n
				}
				data := make([]byte, n, c)
				copy(data, membufPat(atoi(f[1]), n))
				b := mem.NewBuffer(&data, nil)
				set(f[1], b)
				return membufKind(b)
			case "copy":
				b := mem.Copy(membufPat(atoi(f[1]), atoi(f[2])), pool)
				set(f[1], b)
				return membufKind(b)
			case "ref", "free", "len", "data":
				b, ok := get(f[1])
				if !ok {
					return "bad-op"
				}
				switch f[0] {
				case "ref":
					b.Ref()
					return "ok"
				case "free":
					b.Free()
					return "ok"
				case "len":
					return strconv.Itoa(b.Len())
				}
				return tohex(b.ReadOnlyData())
			case "slice":
				b, ok := get(f[2])
				if !ok {
					return "bad-op"
				}
				r := b.Slice(atoi(f[3]), atoi(f[4]))
				set(f[1], r)
				if membufSame(r, b) {
					return "buf same"
				}
				return membufKind(r)
			case "split":
				b, ok := get(f[3])
				if !ok {
					return "bad-op"
				}
				l, r := mem.SplitUnsafe(b, atoi(f[4]))
				set(f[1], l)
				set(f[2], r)
				return membufKind(l) + " " + membufKind(r)
			case "read":
				b, ok := get(f[2])
				if !ok {
					return "bad-op"
				}
				dst := make([]byte, atoi(f[3]))
				n, rest := mem.ReadUnsafe(dst, b)
				set(f[1], rest)
				return tohex(dst[:n]) + " " + membufKind(rest)
			case "mat":
				bs, ok := list(f[1:])
				if !ok {
					return "bad-op"
				}
				return tohex(bs.Materialize())
			case "mattobuf":
				bs, ok := list(f[2:])
				if !ok {
					return "bad-op"
				}
				r := bs.MaterializeToBuffer(pool)
				set(f[1], r)
				if len(bs) == 1 && membufSame(r, bs[0]) {
					return "buf same"
				}
				return membufKind(r)
			case "reader":
				bs, ok := list(f[2:])
				if !ok {
					return "bad-op"
				}
				r := bs.Reader()
				readers[atoi(f[1])] = r
				return "ok " + strconv.Itoa(r.Remaining())
			case "rread", "rbyte", "rdiscard", "rpeek", "rclose", "rrem", "readall":
				ri := 1
				if f[0] == "readall" {
					ri = 2
				}
				r, ok := readers[atoi(f[ri])]
				if !ok {
					return "bad-op"
				}
				switch f[0] {
				case "rread":
					buf := make([]byte, atoi(f[2]))
					n, err := r.Read(buf)
					if err == io.EOF {
						return "eof"
					}
					return tohex(buf[:n])
				case "rbyte":
					b, err := r.ReadByte()
					if err == io.EOF {
						return "eof"
					}
					return tohex([]byte{b})
				case "rdiscard":
					n, err := r.Discard(atoi(f[2]))
					if err != nil {
						return strconv.Itoa(n) + " short"
					}
					return strconv.Itoa(n) + " ok"
				case "rpeek":
					res, err := r.Peek(atoi(f[2]), nil)
					if err != nil {
						return "short"
					}
					var all []byte
					for _, x := range res {
						all = append(all, x...)
					}
					return tohex(all)
				case "rclose":
					r.Close()
					return "ok"
				case "rrem":
					return strconv.Itoa(r.Remaining())
				case "readall":
					bs, err := mem.ReadAll(struct{ io.Reader }{r}, pool)
					if err != nil {
						return "readall-error"
					}
					switch len(bs) {
					case 0:
						set(f[1], nil)
						return "0"
					case 1:
						set(f[1], bs[0])
						return "1 " + tohex(bs[0].ReadOnlyData())
					}
					return "readall-many"
				}
			}
			return "bad-op"
		}
	})
}
