package main

import (
	"fmt"
	"runtime"
	"strings"
	"sync"
	"sync/atomic"

	"google.golang.org/grpc/grpclog"
	"google.golang.org/grpc/internal/grpcsync"
)

// Shared by components `refcounted` and `event` (C57), tie T3: every op `step <thread>` lets ONE
// goroutine of the real code run from its current yield point (an access to the typed atomic in
// the instrumented copy of refcounted.go / event.go) to the next one.

type c57Thread struct {
	name    string
	resume  chan struct{}
	label   string
	started bool
	ret     string
}

type c57Sched struct {
	threads map[string]*c57Thread
	parked  chan *c57Thread
	current *c57Thread
	wg      sync.WaitGroup
	body    func(t *c57Thread) func() string // the call a thread makes when it is (re)started
}

var c57Active *c57Sched

func (s *c57Sched) hook(label string) {
	if c57Active != s {
		return // left over from a previous case: run to completion
	}
	t := s.current
	t.label = label
	s.parked <- t
	<-t.resume
}

// step releases thread `name` for exactly one atomic access; returns (label it is parked at | done, ret).
func (s *c57Sched) step(name string) (string, string) {
	t := s.threads[name]
	if t == nil {
		t = &c57Thread{name: name, resume: make(chan struct{})}
		s.threads[name] = t
	}
	s.current = t
	t.ret = "-"
	if !t.started {
		t.started = true
		f := s.body(t)
		s.wg.Add(1)
		go func() {
			defer s.wg.Done()
			r := f()
			if c57Active != s {
				return
			}
			t.ret = r
			t.label = "done"
			t.started = false
			s.parked <- t
		}()
	} else {
		t.resume <- struct{}{}
	}
	<-s.parked
	return t.label, t.ret
}

func (s *c57Sched) busy() int {
	n := 0
	for _, t := range s.threads {
		if t.started {
			n++
		}
	}
	return n
}

func c57Install(body func(t *c57Thread) func() string) *c57Sched {
	if old := c57Active; old != nil {
		c57Active = nil
		grpcsync.VerifHook = nil
		for _, t := range old.threads {
			if t.started {
				t.resume <- struct{}{}
			}
		}
		old.wg.Wait()
	}
	s := &c57Sched{threads: map[string]*c57Thread{}, parked: make(chan *c57Thread), body: body}
	c57Active = s
	grpcsync.VerifHook = s.hook
	return s
}

// c57Logger counts logger.Errorf calls of the code under test.
type c57Logger struct{ errs int }

func (l *c57Logger) Info(...any)             {}
func (l *c57Logger) Infoln(...any)           {}
func (l *c57Logger) Infof(string, ...any)    {}
func (l *c57Logger) Warning(...any)          {}
func (l *c57Logger) Warningln(...any)        {}
func (l *c57Logger) Warningf(string, ...any) {}
func (l *c57Logger) Error(...any)            { l.errs++ }
func (l *c57Logger) Errorln(...any)          { l.errs++ }
func (l *c57Logger) Errorf(string, ...any)   { l.errs++ }
func (l *c57Logger) Fatal(...any)            { panic("fatal log") }
func (l *c57Logger) Fatalln(...any)          { panic("fatal log") }
func (l *c57Logger) Fatalf(string, ...any)   { panic("fatal log") }
func (l *c57Logger) V(int) bool              { return false }

func c57tf(b bool) string {
	if b {
		return "t"
	}
	return "f"
}

// component refcounted: threads i<n> = TryIncrement, a<n> = Increment, d<n> = Decrement.
// Output: `<label|done> cnt=<refCount> zeros=<onZero calls> errs=<Errorf calls> ret=<t|f|-> busy=<calls in flight>`.
func init() {
	register("refcounted", func() Handler {
		zeros := 0
		var rc *grpcsync.RefCounted[int]
		s := c57Install(func(t *c57Thread) func() string {
			switch t.name[0] {
			case 'i':
				return func() string { return c57tf(rc.TryIncrement()) }
			case 'a':
				return func() string { rc.Increment(); return "-" }
			case 'd':
				return func() string { rc.Decrement(); return "-" }
			}
			panic("bad thread " + t.name)
		})
		// (c57Install has drained the previous case's goroutines: their log calls went to its logger)
		lg := &c57Logger{}
		grpclog.SetLoggerV2(lg)
		// NewRefCounted's Store(1) is a yield point too, but no scheduler thread is current: run it unhooked
		grpcsync.VerifHook = nil
		rc = grpcsync.NewRefCounted(42, func() { zeros++ })
		grpcsync.VerifHook = s.hook
		return func(f []string) string {
			if f[0] == "cref" && len(f) == 3 {
				// real parallelism: per round a fresh RefCounted (count 1); n goroutines leave a spin barrier
				// together, each doing TryIncrement and, if that succeeded, Decrement; one more releases the
				// creator's reference. Whatever the interleaving: cleanup exactly once, final count 0, and a
				// TryIncrement afterwards fails.
				n, rounds := atoi(f[1]), atoi(f[2])
				if n < 1 || n > 64 || rounds < 1 {
					return "bad-op"
				}
				saved := grpcsync.VerifHook
				grpcsync.VerifHook = nil
				defer func() { grpcsync.VerifHook = saved }()
				if runtime.GOMAXPROCS(0) < 2 {
					defer runtime.GOMAXPROCS(runtime.GOMAXPROCS(4))
				}
				bad, maxZeros, resurrected := 0, 0, 0
				for r := 0; r < rounds; r++ {
					var z, ready atomic.Int32
					var start atomic.Bool
					c := grpcsync.NewRefCounted(r, func() { z.Add(1) })
					var wg sync.WaitGroup
					for i := 0; i <= n; i++ {
						wg.Add(1)
						go func() {
							defer wg.Done()
							ready.Add(1)
							// spin rather than block: all workers are on a CPU and leave the barrier within
							// nanoseconds of each other
							for !start.Load() {
							}
							if i == n {
								c.Decrement()
							} else if c.TryIncrement() {
								c.Decrement()
							}
						}()
					}
					for ready.Load() != int32(n+1) {
						runtime.Gosched()
					}
					start.Store(true)
					wg.Wait()
					zz := int(z.Load())
					if zz != 1 || c.VerifCount() != 0 {
						bad++
					}
					if zz > maxZeros {
						maxZeros = zz
					}
					if c.TryIncrement() {
						resurrected++
					}
				}
				return fmt.Sprintf("rounds=%d bad=%d maxzeros=%d resurrected=%d", rounds, bad, maxZeros, resurrected)
			}
			if f[0] == "step" && len(f) == 2 && strings.ContainsRune("iad", rune(f[1][0])) {
				label, ret := s.step(f[1])
				return fmt.Sprintf("%s cnt=%d zeros=%d errs=%d ret=%s busy=%d", label, rc.VerifCount(), zeros, lg.errs, ret, s.busy())
			}
			return "bad-op"
		}
	})
}
