package main

import (
	"google.golang.org/grpc/internal/grpcutil"
	"google.golang.org/grpc/internal/transport"
)

// component binhdr (C12, T1): the pure helpers the admission model ports.
//
//	bin <hex>   decodeBinHeader accepts?          -> ok | err
//	ct <hex>    grpcutil.ContentSubtype's boolean -> ok | err
//	to <hex>    decodeTimeout accepts?            -> ok | err
func init() {
	register("binhdr", func() Handler {
		return func(f []string) string {
			switch f[0] {
			case "bin":
				if _, err := transport.VerifDecodeBinHeader(string(unhex(f[1]))); err != nil {
					return "err"
				}
				return "ok"
			case "to":
				if _, err := transport.VerifDecodeTimeout(string(unhex(f[1]))); err != nil {
					return "err"
				}
				return "ok"
			case "ct":
				if _, ok := grpcutil.ContentSubtype(string(unhex(f[1]))); !ok {
					return "err"
				}
				return "ok"
			}
			return "bad-op"
		}
	})
}
