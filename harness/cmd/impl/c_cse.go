package main

import (
	"fmt"

	"google.golang.org/grpc/balancer"
	"google.golang.org/grpc/connectivity"
)

func lbState(s string) connectivity.State {
	switch s {
	case "I":
		return connectivity.Idle
	case "C":
		return connectivity.Connecting
	case "R":
		return connectivity.Ready
	case "T":
		return connectivity.TransientFailure
	case "S":
		return connectivity.Shutdown
	}
	panic("bad state " + s)
}

func lbLetter(s connectivity.State) string {
	switch s {
	case connectivity.Idle:
		return "I"
	case connectivity.Connecting:
		return "C"
	case connectivity.Ready:
		return "R"
	case connectivity.TransientFailure:
		return "T"
	case connectivity.Shutdown:
		return "S"
	}
	return fmt.Sprintf("?%d", int(s))
}

// component cse (C35): add <S> | change <i> <S> | remove <i> | rt <old> <new> | cur
func init() {
	register("cse", func() Handler {
		cse := &balancer.ConnectivityStateEvaluator{}
		var kids []connectivity.State
		show := func(s connectivity.State) string {
			c := cse.VerifCounters()
			return fmt.Sprintf("%s %d,%d,%d,%d", lbLetter(s), c[0], c[1], c[2], c[3])
		}
		return func(f []string) string {
			switch f[0] {
			case "add":
				s := lbState(f[1])
				if s == connectivity.Shutdown {
					return "bad-op"
				}
				kids = append([]connectivity.State{s}, kids...)
				return show(cse.RecordTransition(connectivity.Shutdown, s))
			case "change":
				i, s := atoi(f[1]), lbState(f[2])
				if s == connectivity.Shutdown || i >= len(kids) {
					return "bad-op"
				}
				old := kids[i]
				kids[i] = s
				return show(cse.RecordTransition(old, s))
			case "remove":
				i := atoi(f[1])
				if i >= len(kids) {
					return "bad-op"
				}
				old := kids[i]
				kids = append(kids[:i:i], kids[i+1:]...)
				return show(cse.RecordTransition(old, connectivity.Shutdown))
			case "rt":
				return show(cse.RecordTransition(lbState(f[1]), lbState(f[2])))
			case "cur":
				return show(cse.CurrentState())
			}
			return "bad-op"
		}
	})
}
