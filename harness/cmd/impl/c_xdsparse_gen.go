package main

import "google.golang.org/protobuf/types/known/anypb"

func xdsParseKind(kind string, a *anypb.Any) string {
	switch kind {
	case "eds":
		return edsParse(a)
	}
	return "bad-op"
}

func xdsOtherOp(f []string) string { return "bad-op" }
