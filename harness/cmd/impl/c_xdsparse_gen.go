package main

import (
	"encoding/json"
	"fmt"
	"math/rand"
	"strconv"
	"strings"
	"time"

	v3clusterpb "github.com/envoyproxy/go-control-plane/envoy/config/cluster/v3"
	v3corepb "github.com/envoyproxy/go-control-plane/envoy/config/core/v3"
	v3endpointpb "github.com/envoyproxy/go-control-plane/envoy/config/endpoint/v3"
	v3listenerpb "github.com/envoyproxy/go-control-plane/envoy/config/listener/v3"
	v3routepb "github.com/envoyproxy/go-control-plane/envoy/config/route/v3"
	v3aggregatepb "github.com/envoyproxy/go-control-plane/envoy/extensions/clusters/aggregate/v3"
	v3faultpb "github.com/envoyproxy/go-control-plane/envoy/extensions/filters/http/fault/v3"
	v3routerpb "github.com/envoyproxy/go-control-plane/envoy/extensions/filters/http/router/v3"
	v3httppb "github.com/envoyproxy/go-control-plane/envoy/extensions/filters/network/http_connection_manager/v3"
	v3ringhashpb "github.com/envoyproxy/go-control-plane/envoy/extensions/load_balancing_policies/ring_hash/v3"
	v3roundrobinpb "github.com/envoyproxy/go-control-plane/envoy/extensions/load_balancing_policies/round_robin/v3"
	v3wrrlocalitypb "github.com/envoyproxy/go-control-plane/envoy/extensions/load_balancing_policies/wrr_locality/v3"
	v3matcherpb "github.com/envoyproxy/go-control-plane/envoy/type/matcher/v3"
	v3typepb "github.com/envoyproxy/go-control-plane/envoy/type/v3"
	iserviceconfig "google.golang.org/grpc/internal/serviceconfig"
	"google.golang.org/grpc/internal/xds/xdsclient/xdsresource"
	"google.golang.org/grpc/internal/xds/xdsclient/xdsresource/version"
	_ "google.golang.org/grpc/xds" // registers the xDS balancers, HTTP filters and cluster specifier plugins
	"google.golang.org/protobuf/proto"
	"google.golang.org/protobuf/types/known/anypb"
	"google.golang.org/protobuf/types/known/durationpb"
	"google.golang.org/protobuf/types/known/wrapperspb"
)

// gen <kind> <seed> <size> <nmut>: a structurally valid RouteConfiguration / Cluster / Listener /
// ClusterLoadAssignment built from a PRNG seeded by the op line (field values random, mostly
// valid, each validation rule violated with small probability), serialised, <nmut> random byte
// mutations applied, then given to the real unmarshal function.
// wc <w,w,...>: a RouteConfiguration whose single route has these weighted clusters.

func mustAny(m proto.Message) *anypb.Any {
	a, err := anypb.New(m)
	if err != nil {
		panic(err)
	}
	return a
}

func pick[T any](r *rand.Rand, xs ...T) T { return xs[r.Intn(len(xs))] }
func chance(r *rand.Rand, p float64) bool { return r.Float64() < p }

// ---------------------------------------------------------------- RDS

func genRetry(r *rand.Rand) *v3routepb.RetryPolicy {
	if chance(r, 0.6) {
		return nil
	}
	rp := &v3routepb.RetryPolicy{RetryOn: pick(r, "cancelled,unavailable", "Internal, deadline-exceeded", "5xx", "", "resource-exhausted")}
	if chance(r, 0.6) {
		rp.NumRetries = wrapperspb.UInt32(pick(r, uint32(0), 1, 1, 2, 2, 3, 5, 1<<31))
	}
	if chance(r, 0.5) {
		rp.RetryBackOff = &v3routepb.RetryPolicy_RetryBackOff{}
		if chance(r, 0.8) {
			rp.RetryBackOff.BaseInterval = durationpb.New(pick(r, time.Duration(0), time.Millisecond, time.Millisecond, 25*time.Millisecond, time.Second, time.Second, -time.Second))
		}
		if chance(r, 0.5) {
			rp.RetryBackOff.MaxInterval = durationpb.New(pick(r, time.Duration(0), time.Millisecond, time.Second, time.Minute, time.Minute, time.Minute, -time.Second))
		}
	}
	return rp
}

func genRoute(r *rand.Rand, cspNames []string) *v3routepb.Route {
	rt := &v3routepb.Route{}
	if !chance(r, 0.03) {
		m := &v3routepb.RouteMatch{}
		switch pick(r, 0, 0, 0, 1, 1, 2, 3, 4, 4, 4, 4, 4, 4, 4, 4, 4, 4, 4, 4, 4, 4, 4, 4, 4, 4, 4, 4, 4, 4, 4, 4, 4) {
		case 0:
			m.PathSpecifier = &v3routepb.RouteMatch_Path{Path: "/s/m"}
		case 1:
			m.PathSpecifier = &v3routepb.RouteMatch_SafeRegex{SafeRegex: &v3matcherpb.RegexMatcher{Regex: pick(r, "/a.*", "/a.*", "/b/.*", "(", "[a-z]+")}}
		case 2:
			m.PathSpecifier = &v3routepb.RouteMatch_ConnectMatcher_{ConnectMatcher: &v3routepb.RouteMatch_ConnectMatcher{}}
		case 3:
			// no path specifier
		default:
			m.PathSpecifier = &v3routepb.RouteMatch_Prefix{Prefix: pick(r, "", "/", "/svc/")}
		}
		if chance(r, 0.2) {
			m.CaseSensitive = wrapperspb.Bool(chance(r, 0.5))
		}
		if chance(r, 0.06) {
			m.QueryParameters = []*v3routepb.QueryParameterMatcher{{Name: "q"}}
		}
		for i := pick(r, 0, 0, 0, 1, 1, 2); i > 0; i-- {
			h := &v3routepb.HeaderMatcher{Name: pick(r, "h", "x-y", ""), InvertMatch: chance(r, 0.3)}
			switch r.Intn(9) {
			case 0:
				h.HeaderMatchSpecifier = &v3routepb.HeaderMatcher_ExactMatch{ExactMatch: pick(r, "v", "v", "v", "w", "")}
			case 1:
				h.HeaderMatchSpecifier = &v3routepb.HeaderMatcher_SafeRegexMatch{SafeRegexMatch: &v3matcherpb.RegexMatcher{Regex: pick(r, "a+", "b+", "c", "d.*", "(")}}
			case 2:
				h.HeaderMatchSpecifier = &v3routepb.HeaderMatcher_RangeMatch{RangeMatch: &v3typepb.Int64Range{Start: r.Int63n(10), End: r.Int63n(10)}}
			case 3:
				h.HeaderMatchSpecifier = &v3routepb.HeaderMatcher_PresentMatch{PresentMatch: chance(r, 0.5)}
			case 4:
				h.HeaderMatchSpecifier = &v3routepb.HeaderMatcher_PrefixMatch{PrefixMatch: pick(r, "p", "p", "p", "pp", "")}
			case 5:
				h.HeaderMatchSpecifier = &v3routepb.HeaderMatcher_SuffixMatch{SuffixMatch: pick(r, "s", "s", "s", "ss", "")}
			case 6:
				h.HeaderMatchSpecifier = &v3routepb.HeaderMatcher_ContainsMatch{ContainsMatch: pick(r, "c", "c", "c", "cc", "")}
			case 7:
				var sm *v3matcherpb.StringMatcher
				if chance(r, 0.95) {
					sm = &v3matcherpb.StringMatcher{MatchPattern: &v3matcherpb.StringMatcher_Exact{Exact: "e"}, IgnoreCase: chance(r, 0.5)}
				}
				h.HeaderMatchSpecifier = &v3routepb.HeaderMatcher_StringMatch{StringMatch: sm}
			}
			m.Headers = append(m.Headers, h)
		}
		if chance(r, 0.2) {
			m.RuntimeFraction = &v3corepb.RuntimeFractionalPercent{DefaultValue: &v3typepb.FractionalPercent{
				Numerator: pick(r, uint32(0), 1, 50, 100, 1000000, 1<<31), Denominator: v3typepb.FractionalPercent_DenominatorType(r.Intn(4))}}
		}
		rt.Match = m
	}
	switch r.Intn(12) {
	case 0:
		rt.Action = &v3routepb.Route_NonForwardingAction{NonForwardingAction: &v3routepb.NonForwardingAction{}}
	case 1:
		rt.Action = &v3routepb.Route_Redirect{Redirect: &v3routepb.RedirectAction{}}
	case 2:
		// no action
	default:
		ra := &v3routepb.RouteAction{RetryPolicy: genRetry(r)}
		switch r.Intn(10) {
		case 0, 1, 2, 3:
			ra.ClusterSpecifier = &v3routepb.RouteAction_Cluster{Cluster: pick(r, "A", "B", "")}
		case 4, 5, 6:
			wc := &v3routepb.WeightedCluster{}
			for i := r.Intn(4); i > 0; i-- {
				c := &v3routepb.WeightedCluster_ClusterWeight{Name: pick(r, "A", "B", "C")}
				if chance(r, 0.9) {
					c.Weight = wrapperspb.UInt32(pick(r, uint32(0), 1, 2, 30, 70, 1<<31, 1<<32-1))
				}
				wc.Clusters = append(wc.Clusters, c)
			}
			ra.ClusterSpecifier = &v3routepb.RouteAction_WeightedClusters{WeightedClusters: wc}
		case 7:
			ra.ClusterSpecifier = &v3routepb.RouteAction_ClusterHeader{ClusterHeader: "x-cluster"}
		case 8:
			ra.ClusterSpecifier = &v3routepb.RouteAction_ClusterSpecifierPlugin{ClusterSpecifierPlugin: pick(r, append(append(append([]string{}, cspNames...), cspNames...), "undeclared")...)}
		}
		if chance(r, 0.2) {
			ra.MaxStreamDuration = &v3routepb.RouteAction_MaxStreamDuration{MaxStreamDuration: durationpb.New(time.Second)}
		}
		for i := r.Intn(3); i > 0 && chance(r, 0.3); i-- {
			hp := &v3routepb.RouteAction_HashPolicy{Terminal: chance(r, 0.3)}
			switch r.Intn(3) {
			case 0:
				hp.PolicySpecifier = &v3routepb.RouteAction_HashPolicy_Header_{Header: &v3routepb.RouteAction_HashPolicy_Header{HeaderName: "h",
					RegexRewrite: &v3matcherpb.RegexMatchAndSubstitute{Pattern: &v3matcherpb.RegexMatcher{Regex: pick(r, "a", "a", "a", "b", "(")}, Substitution: "b"}}}
			case 1:
				hp.PolicySpecifier = &v3routepb.RouteAction_HashPolicy_FilterState_{FilterState: &v3routepb.RouteAction_HashPolicy_FilterState{Key: pick(r, "io.grpc.channel_id", "other")}}
			case 2:
				hp.PolicySpecifier = &v3routepb.RouteAction_HashPolicy_Cookie_{Cookie: &v3routepb.RouteAction_HashPolicy_Cookie{Name: "c"}}
			}
			ra.HashPolicy = append(ra.HashPolicy, hp)
		}
		rt.Action = &v3routepb.Route_Route{Route: ra}
	}
	if chance(r, 0.1) {
		rt.TypedPerFilterConfig = map[string]*anypb.Any{"f": pick(r, mustAny(&v3faultpb.HTTPFault{}), mustAny(wrapperspb.String("unknown")),
			mustAny(&v3routepb.FilterConfig{IsOptional: true, Config: mustAny(wrapperspb.String("unknown"))}))}
	}
	return rt
}

func genRouteConfig(r *rand.Rand, size int) *v3routepb.RouteConfiguration {
	rc := &v3routepb.RouteConfiguration{Name: "rc"}
	if chance(r, 0.02) {
		rc.Name = ""
	}
	var cspNames []string
	for i := r.Intn(3); i > 0 && chance(r, 0.4); i-- {
		name := pick(r, "p1", "p2")
		cspNames = append(cspNames, name)
		rc.ClusterSpecifierPlugins = append(rc.ClusterSpecifierPlugins, &v3routepb.ClusterSpecifierPlugin{
			Extension:  &v3corepb.TypedExtensionConfig{Name: name, TypedConfig: mustAny(wrapperspb.String("no such plugin"))},
			IsOptional: chance(r, 0.93)})
	}
	for i := r.Intn(size + 1); i > 0; i-- {
		vh := &v3routepb.VirtualHost{RetryPolicy: genRetry(r)}
		for j := r.Intn(3); j > 0; j-- {
			vh.Domains = append(vh.Domains, pick(r, "*", "a.example.com", "*.b"))
		}
		for j := r.Intn(size + 2); j > 0; j-- {
			vh.Routes = append(vh.Routes, genRoute(r, cspNames))
		}
		rc.VirtualHosts = append(rc.VirtualHosts, vh)
	}
	return rc
}

func dumpRetry(rc *xdsresource.RetryConfig) string {
	if rc == nil {
		return "-"
	}
	return fmt.Sprintf("%d:%d:%d:%d", len(rc.RetryOn), rc.NumRetries, int64(rc.RetryBackoff.BaseInterval), int64(rc.RetryBackoff.MaxInterval))
}

func dumpRDS(u xdsresource.RouteConfigUpdate) string {
	var b strings.Builder
	referenced := map[string]bool{}
	for _, vh := range u.VirtualHosts {
		for _, rt := range vh.Routes {
			if rt.ClusterSpecifierPlugin != "" {
				referenced[rt.ClusterSpecifierPlugin] = true
			}
		}
	}
	unref := 0
	for n := range u.ClusterSpecifierPlugins {
		if !referenced[n] {
			unref++
		}
	}
	fmt.Fprintf(&b, "%d %d %d", len(u.ClusterSpecifierPlugins), unref, len(u.VirtualHosts))
	for _, vh := range u.VirtualHosts {
		fmt.Fprintf(&b, " %d %s %d", len(vh.Domains), dumpRetry(vh.RetryConfig), len(vh.Routes))
		for _, rt := range vh.Routes {
			pk := 0
			if rt.Prefix != nil {
				pk++
			}
			if rt.Path != nil {
				pk++
			}
			if rt.Regex != nil {
				pk++
			}
			csp := 0
			if rt.ClusterSpecifierPlugin != "" {
				csp = 2
				if cfg, ok := u.ClusterSpecifierPlugins[rt.ClusterSpecifierPlugin]; ok && cfg != nil {
					csp = 1
				}
			}
			fmt.Fprintf(&b, " %d %d %d %s %d", pk, int(rt.ActionType), csp, dumpRetry(rt.RetryConfig), len(rt.WeightedClusters))
			for _, wc := range rt.WeightedClusters {
				fmt.Fprintf(&b, " %d", wc.Weight)
			}
		}
	}
	return b.String()
}

func rdsParse(a *anypb.Any) string {
	_, u, err := xdsresource.VerifUnmarshalRouteConfig(a, nil, nil)
	if err != nil {
		m := err.Error()
		switch {
		case strings.Contains(m, "total weight of clusters exceeds MaxUint32"):
			return "err wcsum"
		case strings.Contains(m, "has no valid cluster in WeightedCluster action"):
			return "err wcempty"
		}
		return "err x"
	}
	return "ok " + dumpRDS(u)
}

// ---------------------------------------------------------------- CDS

var ringSizes = []uint64{0, 1, 5, 1023, 1024, 1025, 4095, 4096, 4097, 8388608, 8388609}

// ringCluster(i) is an otherwise valid EDS cluster with the legacy RING_HASH policy whose minimum / maximum ring size are
// entry i/12 and i%12 of {unset} + ringSizes: the whole grid of unset / explicit boundary values (0, around the parser's
// defaults 1024 and 4096, the 8M cap).
func ringCluster(i int) *v3clusterpb.Cluster {
	c := &v3clusterpb.Cluster{Name: "c"}
	c.ClusterDiscoveryType = &v3clusterpb.Cluster_Type{Type: v3clusterpb.Cluster_EDS}
	c.EdsClusterConfig = &v3clusterpb.Cluster_EdsClusterConfig{EdsConfig: &v3corepb.ConfigSource{ConfigSourceSpecifier: &v3corepb.ConfigSource_Ads{Ads: &v3corepb.AggregatedConfigSource{}}}}
	c.LbPolicy = v3clusterpb.Cluster_RING_HASH
	rh := &v3clusterpb.Cluster_RingHashLbConfig{}
	n := len(ringSizes) + 1
	if a := (i / n) % n; a > 0 {
		rh.MinimumRingSize = wrapperspb.UInt64(ringSizes[a-1])
	}
	if b := i % n; b > 0 {
		rh.MaximumRingSize = wrapperspb.UInt64(ringSizes[b-1])
	}
	c.LbConfig = &v3clusterpb.Cluster_RingHashLbConfig_{RingHashLbConfig: rh}
	return c
}

func genCluster(r *rand.Rand) *v3clusterpb.Cluster {
	c := &v3clusterpb.Cluster{Name: pick(r, "c", "c", "c", "c", "c", "xdstp://a/envoy.config.cluster.v3.Cluster/c")}
	ads := &v3corepb.ConfigSource{ConfigSourceSpecifier: &v3corepb.ConfigSource_Ads{Ads: &v3corepb.AggregatedConfigSource{}}}
	self := &v3corepb.ConfigSource{ConfigSourceSpecifier: &v3corepb.ConfigSource_Self{Self: &v3corepb.SelfConfigSource{}}}
	path := &v3corepb.ConfigSource{ConfigSourceSpecifier: &v3corepb.ConfigSource_Path{Path: "/x"}}
	if chance(r, 0.12) {
		// the ring-size class on an otherwise valid EDS cluster: every combination of unset / explicit boundary values
		// of the legacy RING_HASH minimum and maximum (0, below/at/above the parser's defaults 1024 and 4096, the 8M cap)
		c.ClusterDiscoveryType = &v3clusterpb.Cluster_Type{Type: v3clusterpb.Cluster_EDS}
		c.EdsClusterConfig = &v3clusterpb.Cluster_EdsClusterConfig{EdsConfig: ads}
		c.LbPolicy = v3clusterpb.Cluster_RING_HASH
		rh := &v3clusterpb.Cluster_RingHashLbConfig{}
		sizes := []uint64{0, 1, 5, 1023, 1024, 1025, 4095, 4096, 4097, 8388608, 8388609}
		if chance(r, 0.75) {
			rh.MinimumRingSize = wrapperspb.UInt64(pick(r, sizes...))
		}
		if chance(r, 0.75) {
			rh.MaximumRingSize = wrapperspb.UInt64(pick(r, sizes...))
		}
		c.LbConfig = &v3clusterpb.Cluster_RingHashLbConfig_{RingHashLbConfig: rh}
		return c
	}
	switch r.Intn(30) / 3 {
	case 0, 1, 2, 3, 4:
		c.ClusterDiscoveryType = &v3clusterpb.Cluster_Type{Type: v3clusterpb.Cluster_EDS}
		c.EdsClusterConfig = &v3clusterpb.Cluster_EdsClusterConfig{EdsConfig: pick(r, ads, ads, ads, ads, ads, self, self, path, nil), ServiceName: pick(r, "", "svc")}
	case 5, 6:
		c.ClusterDiscoveryType = &v3clusterpb.Cluster_Type{Type: v3clusterpb.Cluster_LOGICAL_DNS}
		if chance(r, 0.9) {
			la := &v3endpointpb.ClusterLoadAssignment{}
			for i := pick(r, 1, 1, 1, 1, 1, 1, 1, 0, 2); i > 0; i-- {
				l := &v3endpointpb.LocalityLbEndpoints{}
				for j := pick(r, 1, 1, 1, 1, 1, 1, 1, 0, 2); j > 0; j-- {
					e := &v3endpointpb.LbEndpoint{}
					if chance(r, 0.9) {
						ep := &v3endpointpb.Endpoint{}
						if chance(r, 0.9) {
							ep.Address = &v3corepb.Address{Address: &v3corepb.Address_SocketAddress{SocketAddress: &v3corepb.SocketAddress{
								Address: pick(r, "dns.example.com", "dns.example.com", "dns.example.com", "dns.example.com", "", "::1"), ResolverName: pick(r, "", "", "", "", "", "", "", "custom"),
								PortSpecifier: &v3corepb.SocketAddress_PortValue{PortValue: pick(r, uint32(443), 443, 443, 443, 443, 0)}}}}
						}
						e.HostIdentifier = &v3endpointpb.LbEndpoint_Endpoint{Endpoint: ep}
					}
					l.LbEndpoints = append(l.LbEndpoints, e)
				}
				la.Endpoints = append(la.Endpoints, l)
			}
			c.LoadAssignment = la
		}
	case 7, 8:
		agg := &v3aggregatepb.ClusterConfig{}
		for i := pick(r, 1, 2, 2, 3, 0); i > 0; i-- {
			agg.Clusters = append(agg.Clusters, pick(r, "a", "b"))
		}
		c.ClusterDiscoveryType = &v3clusterpb.Cluster_ClusterType{ClusterType: &v3clusterpb.Cluster_CustomClusterType{
			Name: pick(r, "envoy.clusters.aggregate", "envoy.clusters.aggregate", "envoy.clusters.aggregate", "envoy.clusters.aggregate", "envoy.clusters.aggregate", "other"), TypedConfig: mustAny(agg)}}
	case 9:
		c.ClusterDiscoveryType = &v3clusterpb.Cluster_Type{Type: v3clusterpb.Cluster_STATIC}
	}
	switch pick(r, 0, 0, 0, 0, 0, 0, 3, 3, 3, 3, 5, 5, 5, 6, 7, 7, 7, 7) {
	case 0, 1, 2:
		c.LbPolicy = v3clusterpb.Cluster_ROUND_ROBIN
	case 3, 4:
		c.LbPolicy = v3clusterpb.Cluster_RING_HASH
		if chance(r, 0.7) {
			rh := &v3clusterpb.Cluster_RingHashLbConfig{HashFunction: pick(r, v3clusterpb.Cluster_RingHashLbConfig_XX_HASH, v3clusterpb.Cluster_RingHashLbConfig_XX_HASH, v3clusterpb.Cluster_RingHashLbConfig_XX_HASH, v3clusterpb.Cluster_RingHashLbConfig_XX_HASH, v3clusterpb.Cluster_RingHashLbConfig_XX_HASH, v3clusterpb.Cluster_RingHashLbConfig_XX_HASH, v3clusterpb.Cluster_RingHashLbConfig_MURMUR_HASH_2)}
			if chance(r, 0.6) {
				rh.MinimumRingSize = wrapperspb.UInt64(pick(r, uint64(0), 1, 10, 1024, 8388608, 8388609, 1<<40))
			}
			if chance(r, 0.6) {
				rh.MaximumRingSize = wrapperspb.UInt64(pick(r, uint64(0), 1, 5, 4096, 8388608, 8388609, 1<<40))
			}
			c.LbConfig = &v3clusterpb.Cluster_RingHashLbConfig_{RingHashLbConfig: rh}
		}
	case 5:
		c.LbPolicy = v3clusterpb.Cluster_LEAST_REQUEST
		if chance(r, 0.7) {
			c.LbConfig = &v3clusterpb.Cluster_LeastRequestLbConfig_{LeastRequestLbConfig: &v3clusterpb.Cluster_LeastRequestLbConfig{ChoiceCount: wrapperspb.UInt32(pick(r, uint32(0), 1, 2, 2, 2, 3, 3, 5, 1<<31))}}
		}
	case 6:
		c.LbPolicy = v3clusterpb.Cluster_MAGLEV
	case 7:
		rr := mustAny(&v3roundrobinpb.RoundRobin{})
		pol := func(a *anypb.Any) *v3clusterpb.LoadBalancingPolicy {
			return &v3clusterpb.LoadBalancingPolicy{Policies: []*v3clusterpb.LoadBalancingPolicy_Policy{{TypedExtensionConfig: &v3corepb.TypedExtensionConfig{Name: "p", TypedConfig: a}}}}
		}
		switch r.Intn(5) {
		case 0:
			c.LoadBalancingPolicy = pol(rr)
		case 1:
			c.LoadBalancingPolicy = pol(mustAny(&v3wrrlocalitypb.WrrLocality{EndpointPickingPolicy: pol(rr)}))
		case 2:
			c.LoadBalancingPolicy = pol(mustAny(&v3ringhashpb.RingHash{HashFunction: v3ringhashpb.RingHash_XX_HASH,
				MinimumRingSize: wrapperspb.UInt64(pick(r, uint64(1), 10, 2000)), MaximumRingSize: wrapperspb.UInt64(pick(r, uint64(5), 1000, 8388609))}))
		case 3:
			c.LoadBalancingPolicy = pol(mustAny(wrapperspb.String("unknown policy")))
		case 4:
			c.LoadBalancingPolicy = &v3clusterpb.LoadBalancingPolicy{}
		}
	}
	if chance(r, 0.3) {
		th := &v3clusterpb.CircuitBreakers_Thresholds{Priority: pick(r, v3corepb.RoutingPriority_DEFAULT, v3corepb.RoutingPriority_HIGH)}
		if chance(r, 0.8) {
			th.MaxRequests = wrapperspb.UInt32(pick(r, uint32(0), 1, 1024, 1<<32-1))
		}
		c.CircuitBreakers = &v3clusterpb.CircuitBreakers{Thresholds: []*v3clusterpb.CircuitBreakers_Thresholds{th}}
	}
	if chance(r, 0.3) {
		od := &v3clusterpb.OutlierDetection{}
		if chance(r, 0.5) {
			od.Interval = pick(r, durationpb.New(time.Second), durationpb.New(time.Second), durationpb.New(10*time.Second), durationpb.New(0), durationpb.New(time.Second), durationpb.New(time.Second), durationpb.New(-time.Second), &durationpb.Duration{Seconds: 1, Nanos: -1}, &durationpb.Duration{Seconds: 1 << 40})
		}
		if chance(r, 0.5) {
			od.BaseEjectionTime = pick(r, durationpb.New(time.Second), durationpb.New(time.Second), durationpb.New(time.Second), durationpb.New(0), durationpb.New(time.Second), durationpb.New(-1))
		}
		if chance(r, 0.5) {
			od.MaxEjectionTime = pick(r, durationpb.New(time.Minute), durationpb.New(time.Minute), durationpb.New(time.Minute), durationpb.New(0), durationpb.New(time.Minute), durationpb.New(-1))
		}
		if chance(r, 0.5) {
			od.MaxEjectionPercent = wrapperspb.UInt32(pick(r, uint32(0), 10, 10, 50, 100, 100, 101))
		}
		if chance(r, 0.5) {
			od.EnforcingSuccessRate = wrapperspb.UInt32(pick(r, uint32(0), 0, 50, 100, 100, 100, 101))
		}
		if chance(r, 0.5) {
			od.FailurePercentageThreshold = wrapperspb.UInt32(pick(r, uint32(0), 85, 85, 85, 100, 100, 101))
		}
		if chance(r, 0.5) {
			od.EnforcingFailurePercentage = wrapperspb.UInt32(pick(r, uint32(0), 50, 50, 50, 100, 100, 101))
		}
		if chance(r, 0.3) {
			od.SuccessRateStdevFactor = wrapperspb.UInt32(1900)
		}
		c.OutlierDetection = od
	}
	if chance(r, 0.2) {
		c.LrsServer = pick(r, self, self, self, self, self, ads)
	}
	if chance(r, 0.02) {
		c.TransportSocketMatches = []*v3clusterpb.Cluster_TransportSocketMatch{{Name: "m"}}
	}
	if chance(r, 0.03) {
		c.TransportSocket = &v3corepb.TransportSocket{Name: pick(r, "envoy.transport_sockets.tls", "other"),
			ConfigType: &v3corepb.TransportSocket_TypedConfig{TypedConfig: mustAny(wrapperspb.String("not a tls context"))}}
	}
	if chance(r, 0.1) {
		c.Metadata = edsMetadata(uint32(r.Intn(4)))
	}
	return c
}

func cdsParse(a *anypb.Any) string {
	_, u, err := xdsresource.VerifUnmarshalCluster(a, nil)
	if err != nil {
		return "err x"
	}
	// is the LB policy JSON of the accepted update a config the LB registry can parse?
	lbok := "0"
	if len(u.LBPolicy) > 0 {
		bc := &iserviceconfig.BalancerConfig{}
		if err := json.Unmarshal(u.LBPolicy, bc); err == nil {
			lbok = "1"
		} else if strings.Contains(err.Error(), `policy "ring_hash_experimental"`) {
			lbok = "ringsize"
		}
	}
	// ring sizes of a ring_hash LB policy (the CDS invariant bounds them: min <= max <= 8M)
	rh := "-"
	var pol []map[string]json.RawMessage
	if json.Unmarshal(u.LBPolicy, &pol) == nil {
		for _, m := range pol {
			if raw, ok := m["ring_hash_experimental"]; ok {
				var sz struct {
					Min uint64 `json:"minRingSize"`
					Max uint64 `json:"maxRingSize"`
				}
				if json.Unmarshal(raw, &sz) == nil {
					rh = fmt.Sprintf("%d:%d", sz.Min, sz.Max)
				}
			}
		}
	}
	odok := 1
	if u.OutlierDetection != nil && !json.Valid(u.OutlierDetection) {
		odok = 0
	}
	mr := "-"
	if u.MaxRequests != nil {
		mr = strconv.FormatUint(uint64(*u.MaxRequests), 10)
	}
	return fmt.Sprintf("ok %s %d %s %s %d %s %d %s %s", hx(u.ClusterName), int(u.ClusterType), hx(u.EDSServiceName), hx(u.DNSHostName),
		len(u.PrioritizedClusterNames), lbok, odok, mr, rh)
}

// ---------------------------------------------------------------- LDS

func genHTTPFilters(r *rand.Rand) []*v3httppb.HttpFilter {
	router := func(name string) *v3httppb.HttpFilter {
		return &v3httppb.HttpFilter{Name: name, ConfigType: &v3httppb.HttpFilter_TypedConfig{TypedConfig: mustAny(&v3routerpb.Router{})}}
	}
	fault := func(name string) *v3httppb.HttpFilter {
		return &v3httppb.HttpFilter{Name: name, ConfigType: &v3httppb.HttpFilter_TypedConfig{TypedConfig: mustAny(&v3faultpb.HTTPFault{})}}
	}
	unknown := func(name string, opt bool) *v3httppb.HttpFilter {
		return &v3httppb.HttpFilter{Name: name, IsOptional: opt, ConfigType: &v3httppb.HttpFilter_TypedConfig{TypedConfig: mustAny(wrapperspb.String("unknown"))}}
	}
	var fs []*v3httppb.HttpFilter
	for i := r.Intn(3); i > 0; i-- {
		switch r.Intn(8) {
		case 0:
			fs = append(fs, unknown(pick(r, "u1", "u2"), chance(r, 0.8)))
		case 1:
			fs = append(fs, router(pick(r, "r0", "router")))
		case 2:
			fs = append(fs, &v3httppb.HttpFilter{Name: "noconfig", IsOptional: chance(r, 0.5)})
		default:
			fs = append(fs, fault(pick(r, "f1", "f2", "f3", "f4", "f5", "f1", "f2", "f3", "f4", "f5", "")))
		}
	}
	if chance(r, 0.92) {
		fs = append(fs, router("router"))
	}
	return fs
}

func genHCM(r *rand.Rand, size int) *v3httppb.HttpConnectionManager {
	hcm := &v3httppb.HttpConnectionManager{HttpFilters: genHTTPFilters(r)}
	ads := &v3corepb.ConfigSource{ConfigSourceSpecifier: &v3corepb.ConfigSource_Ads{Ads: &v3corepb.AggregatedConfigSource{}}}
	switch r.Intn(24) {
	case 0:
		// no route specifier
	case 1, 2, 4, 5, 6, 7, 8:
		hcm.RouteSpecifier = &v3httppb.HttpConnectionManager_RouteConfig{RouteConfig: genRouteConfig(r, size)}
	case 3:
		hcm.RouteSpecifier = &v3httppb.HttpConnectionManager_ScopedRoutes{ScopedRoutes: &v3httppb.ScopedRoutes{Name: "s"}}
	default:
		hcm.RouteSpecifier = &v3httppb.HttpConnectionManager_Rds{Rds: &v3httppb.Rds{
			ConfigSource:    pick(r, ads, ads, ads, ads, ads, ads, ads, ads, nil, &v3corepb.ConfigSource{ConfigSourceSpecifier: &v3corepb.ConfigSource_Path{Path: "/x"}}),
			RouteConfigName: pick(r, "rc", "rc", "rc", "rc", "rc", "rc", "rc", "rc", "")}}
	}
	if chance(r, 0.02) {
		hcm.XffNumTrustedHops = 1
	}
	if chance(r, 0.02) {
		hcm.OriginalIpDetectionExtensions = []*v3corepb.TypedExtensionConfig{{Name: "x"}}
	}
	if chance(r, 0.3) {
		hcm.CommonHttpProtocolOptions = &v3corepb.HttpProtocolOptions{MaxStreamDuration: durationpb.New(time.Duration(r.Intn(5)) * time.Second)}
	}
	return hcm
}

func genListener(r *rand.Rand, size int) *v3listenerpb.Listener {
	l := &v3listenerpb.Listener{Name: "l"}
	if chance(r, 0.02) {
		l.Name = ""
	}
	if chance(r, 0.7) {
		a := mustAny(genHCM(r, size))
		if chance(r, 0.05) {
			a = mustAny(wrapperspb.String("not an hcm"))
		}
		l.ApiListener = &v3listenerpb.ApiListener{ApiListener: a}
		return l
	}
	// server side
	if chance(r, 0.9) {
		l.Address = &v3corepb.Address{Address: &v3corepb.Address_SocketAddress{SocketAddress: &v3corepb.SocketAddress{
			Address: pick(r, "0.0.0.0", "10.0.0.1", "::"), PortSpecifier: &v3corepb.SocketAddress_PortValue{PortValue: pick(r, uint32(80), 443, 0)}}}}
	}
	fc := func() *v3listenerpb.FilterChain {
		f := &v3listenerpb.FilterChain{Name: pick(r, "fc", "")}
		hcm := genHCM(r, size)
		if chance(r, 0.96) {
			f.Filters = []*v3listenerpb.Filter{{Name: "hcm", ConfigType: &v3listenerpb.Filter_TypedConfig{TypedConfig: mustAny(hcm)}}}
		}
		if chance(r, 0.4) {
			m := &v3listenerpb.FilterChainMatch{}
			if chance(r, 0.5) {
				m.PrefixRanges = []*v3corepb.CidrRange{{AddressPrefix: pick(r, "10.0.0.0", "10.1.0.0", "192.168.0.0", "bad", "::1"), PrefixLen: wrapperspb.UInt32(pick(r, uint32(8), 16, 24, 24, 64, 200))}}
			}
			if chance(r, 0.3) {
				m.SourcePorts = []uint32{pick(r, uint32(1), 80, 81, 82, 70000)}
			}
			if chance(r, 0.2) {
				m.DestinationPort = wrapperspb.UInt32(80)
			}
			if chance(r, 0.2) {
				m.ServerNames = []string{"sni"}
			}
			f.FilterChainMatch = m
		}
		return f
	}
	for i := r.Intn(3); i > 0; i-- {
		l.FilterChains = append(l.FilterChains, fc())
	}
	if chance(r, 0.6) {
		l.DefaultFilterChain = fc()
	}
	return l
}

func ldsParse(a *anypb.Any) string {
	_, u, err := xdsresource.VerifUnmarshalListener(a, nil, nil)
	if err != nil {
		return "err x"
	}
	if u.APIListener != nil {
		h := u.APIListener
		var b strings.Builder
		fmt.Fprintf(&b, "ok api %s", hx(h.RouteConfigName))
		if h.InlineRouteConfig != nil {
			fmt.Fprintf(&b, " 1 %s", dumpRDS(*h.InlineRouteConfig))
		} else {
			b.WriteString(" 0")
		}
		fmt.Fprintf(&b, " %d %d", int64(h.MaxStreamDuration), len(h.HTTPFilters))
		for _, f := range h.HTTPFilters {
			t := 0
			if f.Filter.IsTerminal() {
				t = 1
			}
			fmt.Fprintf(&b, " %s %d", hx(f.Name), t)
		}
		return b.String()
	}
	if u.TCPListener != nil {
		return fmt.Sprintf("ok tcp %s %s", hx(u.TCPListener.Address), hx(u.TCPListener.Port))
	}
	return "ok neither"
}

// ---------------------------------------------------------------- dispatch

func xdsParseKind(kind string, a *anypb.Any) string {
	switch kind {
	case "eds":
		return edsParse(a)
	case "rds":
		return rdsParse(a)
	case "cds":
		return cdsParse(a)
	case "lds":
		return ldsParse(a)
	}
	return "bad-op"
}

func mutate(r *rand.Rand, bs []byte, n int) []byte {
	bs = append([]byte(nil), bs...)
	for ; n > 0; n-- {
		if len(bs) == 0 {
			bs = append(bs, byte(r.Intn(256)))
			continue
		}
		i := r.Intn(len(bs))
		switch r.Intn(5) {
		case 0:
			bs[i] ^= 1 << uint(r.Intn(8))
		case 1:
			bs[i] = byte(r.Intn(256))
		case 2:
			bs = append(bs[:i], bs[i+1:]...)
		case 3:
			bs = append(bs[:i], append([]byte{byte(r.Intn(256))}, bs[i:]...)...)
		case 4:
			bs = bs[:i]
		}
	}
	return bs
}

func xdsOtherOp(f []string) string {
	switch f[0] {
	case "wc":
		wc := &v3routepb.WeightedCluster{}
		for i, w := range natList(f[1]) {
			wc.Clusters = append(wc.Clusters, &v3routepb.WeightedCluster_ClusterWeight{Name: "c" + strconv.Itoa(i), Weight: wrapperspb.UInt32(uint32(w))})
		}
		rc := &v3routepb.RouteConfiguration{Name: "rc", VirtualHosts: []*v3routepb.VirtualHost{{Domains: []string{"*"}, Routes: []*v3routepb.Route{{
			Match:  &v3routepb.RouteMatch{PathSpecifier: &v3routepb.RouteMatch_Prefix{Prefix: ""}},
			Action: &v3routepb.Route_Route{Route: &v3routepb.RouteAction{ClusterSpecifier: &v3routepb.RouteAction_WeightedClusters{WeightedClusters: wc}}}}}}}}
		a := mustAny(rc)
		return twice(func() string {
			_, u, err := xdsresource.VerifUnmarshalRouteConfig(a, nil, nil)
			if err != nil {
				m := err.Error()
				switch {
				case strings.Contains(m, "total weight of clusters exceeds MaxUint32"):
					return "err wcsum"
				case strings.Contains(m, "has no valid cluster in WeightedCluster action"):
					return "err wcempty"
				}
				return "err other:" + strings.ReplaceAll(m, " ", "_")
			}
			var ws []string
			for _, c := range u.VirtualHosts[0].Routes[0].WeightedClusters {
				ws = append(ws, strconv.FormatUint(uint64(c.Weight), 10))
			}
			return "ok " + strings.Join(ws, ",")
		})
	case "gen":
		kind := f[1]
		r := rand.New(rand.NewSource(atoi64(f[2])))
		size, nmut := atoi(f[3]), atoi(f[4])
		var m proto.Message
		switch kind {
		case "rds":
			m = genRouteConfig(r, size)
		case "cds":
			if size >= 100 {
				m = ringCluster(size - 100) // directed: the whole ring-size grid, see ringCluster
			} else {
				m = genCluster(r)
			}
		case "lds":
			m = genListener(r, size)
		default:
			return "bad-op"
		}
		bs, err := proto.MarshalOptions{Deterministic: true}.Marshal(m)
		if err != nil {
			return "bad-op marshal"
		}
		bs = mutate(r, bs, nmut)
		a := &anypb.Any{TypeUrl: xdsKindURL[kind], Value: bs}
		if chance(r, 0.1) {
			a = wrapResource(a)
		}
		return twice(func() string { return xdsParseKind(kind, a) })
	}
	return "bad-op"
}

var _ = version.V3ListenerURL
