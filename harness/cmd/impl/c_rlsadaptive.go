package main

import (
	"fmt"
	"strings"
	"time"

	"google.golang.org/grpc/balancer/rls"
)

// component rlsadaptive (C41): the real adaptive.lookback and adaptive.Throttler (re-exported through
// the shims), clock and random source under harness control. Times are UnixNano values.
//
//	lnew <bins> <durationNs>
//	ladd <tNs> <v>                 -> head= total= buf=<idx:val of the non-zero bins>
//	lsum <tNs>                     -> <sum> head= total= buf=
//	tnew                           adaptive.New()
//	should <tNs> <rn> <rd>         ShouldThrottle with clock = tNs and random draw rn/rd  -> <t|f> acc=<head>:<total> thr=<head>:<total>
//	resp <tNs> <0|1>               RegisterBackendResponse(throttled)                     -> ok acc= thr=
func init() {
	register("rlsadaptive", func() Handler {
		var now time.Time
		var rnd float64
		rls.VerifSetClock(func() time.Time { return now })
		rls.VerifSetRand(func() float64 { return rnd })
		lb := rls.VerifNewLookback(1, 1)
		th := rls.VerifNewThrottler()
		showLB := func() string {
			head, total, buf := lb.State()
			var p []string
			for i, v := range buf {
				if v != 0 {
					p = append(p, fmt.Sprintf("%d:%d", i, v))
				}
			}
			s := "-"
			if len(p) > 0 {
				s = strings.Join(p, ",")
			}
			return fmt.Sprintf("head=%d total=%d buf=%s", head, total, s)
		}
		showT := func() string {
			ah, at, th_, tt := th.VerifPeek()
			return fmt.Sprintf("acc=%d:%d thr=%d:%d", ah, at, th_, tt)
		}
		return func(f []string) string {
			switch f[0] {
			case "lnew":
				lb = rls.VerifNewLookback(atoi64(f[1]), time.Duration(atoi64(f[2])))
				return "ok"
			case "ladd":
				lb.Add(time.Unix(0, atoi64(f[1])), atoi64(f[2]))
				return showLB()
			case "lsum":
				s := lb.Sum(time.Unix(0, atoi64(f[1])))
				return fmt.Sprintf("%d %s", s, showLB())
			case "tnew":
				th = rls.VerifNewThrottler()
				return "ok"
			case "should":
				now = time.Unix(0, atoi64(f[1]))
				rnd = float64(atoi64(f[2])) / float64(atoi64(f[3]))
				r := th.ShouldThrottle()
				return c57tf(r) + " " + showT()
			case "resp":
				now = time.Unix(0, atoi64(f[1]))
				th.RegisterBackendResponse(f[2] == "1")
				return "ok " + showT()
			}
			return "bad-op"
		}
	})
}
