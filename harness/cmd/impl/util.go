package main

import (
	"encoding/hex"
	"strconv"
	"strings"
)

// unhex decodes the protocol's hex byte strings ("-" = empty).
func unhex(s string) []byte {
	if s == "-" || s == "" {
		return nil
	}
	b, err := hex.DecodeString(s)
	if err != nil {
		panic("bad hex " + s)
	}
	return b
}

func tohex(b []byte) string {
	if len(b) == 0 {
		return "-"
	}
	return hex.EncodeToString(b)
}

func atoi(s string) int {
	n, err := strconv.Atoi(s)
	if err != nil {
		panic("bad int " + s)
	}
	return n
}

func atoi64(s string) int64 {
	n, err := strconv.ParseInt(s, 10, 64)
	if err != nil {
		panic("bad int64 " + s)
	}
	return n
}

func atou64(s string) uint64 {
	n, err := strconv.ParseUint(s, 10, 64)
	if err != nil {
		panic("bad uint64 " + s)
	}
	return n
}

// natList parses "a,b,c" ("-" = empty).
func natList(s string) []int64 {
	if s == "-" || s == "" {
		return nil
	}
	var r []int64
	for _, p := range strings.Split(s, ",") {
		r = append(r, atoi64(p))
	}
	return r
}

func showNatList(l []int64) string {
	if len(l) == 0 {
		return "-"
	}
	p := make([]string, len(l))
	for i, v := range l {
		p[i] = strconv.FormatInt(v, 10)
	}
	return strings.Join(p, ",")
}
