package main

import (
	"encoding/hex"
	"fmt"
	"sort"
	"strings"

	"google.golang.org/grpc/balancer/rls"
	rlspb "google.golang.org/grpc/internal/proto/grpc_lookup_v1"
	"google.golang.org/grpc/metadata"
)

// component rlskeys (C41): the real keys.MakeBuilderMap / BuilderMap.RLSKey (re-exported by the
// shim in package rls) and, for op `share`, the real dataCache keyed the way the picker keys it.
// All strings travel hex-encoded ("-" = empty string / empty list).
//
//	kb <names> <headers> <consts> <host> <service> <method>     append a GrpcKeyBuilder to the config
//	     names   = svc:method;…      headers = key:required(0|1):name|name|…;…      consts = k:v;…
//	build                                                        MakeBuilderMap -> ok <paths, sorted> | err
//	key <host> <path> <md>            md = name:val|val|…;…       RLSKey -> none | map=<k:v;… sorted> str=<hex>
//	share <host> <path> <md1> <md2>   both keys; an entry is added to a dataCache under cacheKey{path, Str1}
//	                                  and looked up with cacheKey{path, Str2} -> mapseq=<0|1> streq=<0|1> shared=<0|1>

func rkHex(s string) string {
	if s == "" {
		return "-"
	}
	return hex.EncodeToString([]byte(s))
}

func rkUnhex(s string) string { return string(unhex(s)) }

func rkSplit(s, sep string) []string {
	if s == "-" || s == "" {
		return nil
	}
	return strings.Split(s, sep)
}

func rkMD(s string) metadata.MD {
	md := metadata.MD{}
	for _, it := range rkSplit(s, ";") {
		p := strings.SplitN(it, ":", 2)
		vals := []string{}
		if len(p) == 2 && p[1] != "" {
			for _, v := range strings.Split(p[1], "|") {
				vals = append(vals, rkUnhex(v))
			}
		}
		md[rkUnhex(p[0])] = vals
	}
	return md
}

func rkShowMap(m map[string]string) string {
	ks := make([]string, 0, len(m))
	for k := range m {
		ks = append(ks, k)
	}
	sort.Strings(ks)
	parts := make([]string, len(ks))
	for i, k := range ks {
		parts[i] = rkHex(k) + ":" + rkHex(m[k])
	}
	if len(parts) == 0 {
		return "-"
	}
	return strings.Join(parts, ";")
}

func rkSameMap(a, b map[string]string) bool {
	if (a == nil) != (b == nil) || len(a) != len(b) {
		return false
	}
	for k, v := range a {
		if w, ok := b[k]; !ok || w != v {
			return false
		}
	}
	return true
}

func init() {
	register("rlskeys", func() Handler {
		cfg := &rlspb.RouteLookupConfig{}
		type keyMap = struct {
			Map map[string]string
			Str string
		}
		var rlsKey func(md metadata.MD, host, path string) keyMap
		b01 := func(b bool) int {
			if b {
				return 1
			}
			return 0
		}
		return func(f []string) string {
			switch f[0] {
			case "kb":
				kb := &rlspb.GrpcKeyBuilder{}
				for _, n := range rkSplit(f[1], ";") {
					p := strings.Split(n, ":")
					kb.Names = append(kb.Names, &rlspb.GrpcKeyBuilder_Name{Service: rkUnhex(p[0]), Method: rkUnhex(p[1])})
				}
				for _, h := range rkSplit(f[2], ";") {
					p := strings.Split(h, ":")
					nm := &rlspb.NameMatcher{Key: rkUnhex(p[0]), RequiredMatch: p[1] == "1"}
					for _, x := range rkSplit(p[2], "|") {
						nm.Names = append(nm.Names, rkUnhex(x))
					}
					kb.Headers = append(kb.Headers, nm)
				}
				if cs := rkSplit(f[3], ";"); len(cs) > 0 {
					kb.ConstantKeys = map[string]string{}
					for _, c := range cs {
						p := strings.Split(c, ":")
						kb.ConstantKeys[rkUnhex(p[0])] = rkUnhex(p[1])
					}
				}
				if f[4] != "-" || f[5] != "-" || f[6] != "-" {
					kb.ExtraKeys = &rlspb.GrpcKeyBuilder_ExtraKeys{Host: rkUnhex(f[4]), Service: rkUnhex(f[5]), Method: rkUnhex(f[6])}
				}
				cfg.GrpcKeybuilders = append(cfg.GrpcKeybuilders, kb)
				return "ok"
			case "build":
				bm, err := rls.VerifMakeBuilderMap(cfg)
				if err != nil {
					return "err"
				}
				rlsKey = func(md metadata.MD, host, path string) keyMap {
					k := bm.RLSKey(md, host, path)
					return keyMap{Map: k.Map, Str: k.Str}
				}
				var ps []string
				for p := range bm {
					ps = append(ps, p)
				}
				sort.Strings(ps)
				for i := range ps {
					ps[i] = rkHex(ps[i])
				}
				return "ok " + strings.Join(ps, ",")
			case "key":
				if rlsKey == nil {
					return "nomap"
				}
				k := rlsKey(rkMD(f[3]), rkUnhex(f[1]), rkUnhex(f[2]))
				if k.Map == nil {
					return "none"
				}
				return "map=" + rkShowMap(k.Map) + " str=" + rkHex(k.Str)
			case "share":
				if rlsKey == nil {
					return "nomap"
				}
				path := rkUnhex(f[2])
				k1 := rlsKey(rkMD(f[3]), rkUnhex(f[1]), path)
				k2 := rlsKey(rkMD(f[4]), rkUnhex(f[1]), path)
				c := rls.VerifNewCache(1000)
				c.Add(path, k1.Str, rls.VerifEntry{Size: 1})
				_, shared := c.Get(path, k2.Str)
				return fmt.Sprintf("mapseq=%d streq=%d shared=%d", b01(rkSameMap(k1.Map, k2.Map)), b01(k1.Str == k2.Str), b01(shared))
			}
			return "bad-op"
		}
	})
}
