package main

import (
	"context"
	"errors"
	"fmt"
	"strconv"
	"strings"

	"google.golang.org/grpc/internal/grpcutil"
	"google.golang.org/grpc/internal/wrr"
	"google.golang.org/grpc/internal/xds/clusterspecifier"
	"google.golang.org/grpc/internal/xds/matcher"
	xdsresolver "google.golang.org/grpc/internal/xds/resolver"
	"google.golang.org/grpc/internal/xds/xdsclient/xdsresource"
	"google.golang.org/grpc/metadata"
)

// component routing (C46)
//
//	vhost <host> <vh>|<vh>…          vh = comma-separated domains (hex), `~` = no domains, `_` = no virtual hosts
//	                                 → index of FindBestMatchingVirtualHost's answer | none
//	frac <fraction> <t>              → 1|0 : CompositeMatcher{prefix "", fraction}.Match with RandInt64n pinned to t
//	fraccount <fraction>             → count=<n> : how many of the 10^6 possible draws t make it match
//	wrrcount <w1,w2,…>               → bound=<n> counts=<c1,…> : SelectConfig over EVERY draw of the WRR's random
//	                                   source (n = the bound randomWRR.Next asks for), tally per weighted cluster
//	select <chanID> <method> <md> <emd|none> <draws|-> <wrrDraw> <route>…
//	                                 → route=<i> cluster=<name> hash=<u64|rand> | err=nomatch|action|internal
//	  route = <path>/<hdrs>/<frac>/<action>/<clusters>/<hash>
//	    path e<ci>:<hex> | p<ci>:<hex>;  hdrs ~ | se:k:pat:inv + sp:k:pat:inv + pr:k:present:inv + rg:k:lo:hi:inv
//	    frac - | n;  action r|u;  clusters ~ | name:w,name:w | csp:name;  hash ~ | h:name:term + c:term
//
// select drives the REAL xdsResolver.newConfigSelector + configSelector.SelectConfig (shim VerifNewSelector) with
// xdsresource.RandInt64n and wrr's random source scripted; cluster names are prefixed with the route index so that
// the chosen route is observable.
func init() {
	register("routing", func() Handler {
		return func(f []string) string {
			switch f[0] {
			case "vhost":
				return opVHost(f)
			case "frac":
				return opFrac(f)
			case "fraccount":
				return opFracCount(f)
			case "wrrcount":
				return opWrrCount(f)
			case "select":
				return opSelect(f)
			}
			return "bad-op"
		}
	})
}

func opVHost(f []string) string {
	var vhs []*xdsresource.VirtualHost
	if f[2] != "_" {
		for _, v := range strings.Split(f[2], "|") {
			vh := &xdsresource.VirtualHost{}
			if v != "~" {
				for _, d := range strings.Split(v, ",") {
					vh.Domains = append(vh.Domains, string(unhex(d)))
				}
			}
			vhs = append(vhs, vh)
		}
	}
	got := xdsresource.FindBestMatchingVirtualHost(string(unhex(f[1])), vhs)
	if got == nil {
		return "none"
	}
	for i, vh := range vhs {
		if vh == got {
			return strconv.Itoa(i)
		}
	}
	return "unknown-vhost"
}

// pinFraction scripts xdsresource.RandInt64n; the returned func restores it and reports misuse.
func pinFraction(draws []int64) (restore func() string) {
	old := xdsresource.RandInt64n
	i := 0
	problem := ""
	xdsresource.RandInt64n = func(n int64) int64 {
		if n != 1000000 {
			problem = fmt.Sprintf("bad-n=%d", n)
		}
		if i >= len(draws) {
			problem = "draws-exhausted"
			return 0
		}
		i++
		return draws[i-1]
	}
	return func() string { xdsresource.RandInt64n = old; return problem }
}

func opFrac(f []string) string {
	fr := uint32(atou64(f[1]))
	empty := ""
	m := xdsresource.RouteToMatcher(&xdsresource.Route{Prefix: &empty, Fraction: &fr})
	restore := pinFraction([]int64{atoi64(f[2])})
	r := m.Match("/s/m", nil)
	if p := restore(); p != "" {
		return p
	}
	return b01(r)
}

func opFracCount(f []string) string {
	fr := uint32(atou64(f[1]))
	empty := ""
	m := xdsresource.RouteToMatcher(&xdsresource.Route{Prefix: &empty, Fraction: &fr})
	old := xdsresource.RandInt64n
	defer func() { xdsresource.RandInt64n = old }()
	var t int64
	bad := ""
	xdsresource.RandInt64n = func(n int64) int64 {
		if n != 1000000 {
			bad = fmt.Sprintf("bad-n=%d", n)
		}
		return t
	}
	count := 0
	for t = 0; t < 1000000; t++ {
		if m.Match("/s/m", nil) {
			count++
		}
	}
	if bad != "" {
		return bad
	}
	return "count=" + strconv.Itoa(count)
}

func opWrrCount(f []string) string {
	ws := natList(f[1])
	empty := ""
	rt := &xdsresource.Route{Prefix: &empty, ActionType: xdsresource.RouteActionRoute}
	for i, w := range ws {
		rt.WeightedClusters = append(rt.WeightedClusters, xdsresource.WeightedCluster{Name: strconv.Itoa(i), Weight: uint32(w)})
	}
	sel, err := xdsresolver.VerifNewSelector(&xdsresource.VirtualHost{Domains: []string{"*"}, Routes: []*xdsresource.Route{rt}}, 1, nil)
	if err != nil {
		return "err=build:" + err.Error()
	}
	var bound, draw int64 = -1, 0
	restore := wrr.VerifSetRandInt64nC46(func(n int64) int64 {
		if bound == -1 {
			bound = n
		} else if bound != n {
			bound = -2
		}
		return draw
	})
	defer restore()
	counts := make([]int64, len(ws))
	ctx := context.Background()
	pick := func() string {
		cluster, _, err := sel.VerifSelect(ctx, "/s/m")
		if err != nil {
			return "err=" + err.Error()
		}
		i, err := strconv.Atoi(strings.TrimPrefix(cluster, "cluster:"))
		if err != nil || i < 0 || i >= len(ws) {
			return "bad-cluster=" + cluster
		}
		counts[i]++
		return ""
	}
	if e := pick(); e != "" { // draw 0 also reveals the bound
		return e
	}
	if bound <= 0 || bound > 1<<20 {
		return fmt.Sprintf("bad-bound=%d", bound)
	}
	for draw = 1; draw < bound; draw++ {
		if e := pick(); e != "" {
			return e
		}
	}
	if bound < 0 {
		return "bound-changed"
	}
	return fmt.Sprintf("bound=%d counts=%s", bound, showNatList(counts))
}

func parseRoute(i int, tok string, plugins map[string]clusterspecifier.BalancerConfig) *xdsresource.Route {
	p := strings.Split(tok, "/")
	if len(p) != 6 {
		panic("bad route " + tok)
	}
	rt := &xdsresource.Route{}
	kind, pat, _ := strings.Cut(p[0], ":")
	s := string(unhex(pat))
	rt.CaseInsensitive = kind[1] == '1'
	if kind[0] == 'e' {
		rt.Path = &s
	} else {
		rt.Prefix = &s
	}
	if p[1] != "~" {
		for _, h := range strings.Split(p[1], "+") {
			q := strings.Split(h, ":")
			hm := &xdsresource.HeaderMatcher{Name: string(unhex(q[1]))}
			inv := q[len(q)-1] == "1"
			hm.InvertMatch = &inv
			switch q[0] {
			case "se":
				sm := matcher.NewExactStringMatcher(string(unhex(q[2])), false)
				hm.StringMatch = &sm
			case "sp":
				sm := matcher.NewPrefixStringMatcher(string(unhex(q[2])), false)
				hm.StringMatch = &sm
			case "pr":
				pr := q[2] == "1"
				hm.PresentMatch = &pr
			case "rg":
				hm.RangeMatch = &xdsresource.Int64Range{Start: atoi64(q[2]), End: atoi64(q[3])}
			default:
				panic("bad header matcher " + h)
			}
			rt.Headers = append(rt.Headers, hm)
		}
	}
	if p[2] != "-" {
		fr := uint32(atou64(p[2]))
		rt.Fraction = &fr
	}
	if p[3] == "r" {
		rt.ActionType = xdsresource.RouteActionRoute
	} else {
		rt.ActionType = xdsresource.RouteActionNonForwardingAction
	}
	switch {
	case p[4] == "~":
	case strings.HasPrefix(p[4], "csp:"):
		name := fmt.Sprintf("%d/%s", i, p[4][4:])
		rt.ClusterSpecifierPlugin = name
		plugins[name] = clusterspecifier.BalancerConfig{{"verif_lb": map[string]any{}}}
	default:
		for _, c := range strings.Split(p[4], ",") {
			n, w, _ := strings.Cut(c, ":")
			rt.WeightedClusters = append(rt.WeightedClusters, xdsresource.WeightedCluster{Name: fmt.Sprintf("%d/%s", i, n), Weight: uint32(atou64(w))})
		}
	}
	if p[5] != "~" {
		for _, h := range strings.Split(p[5], "+") {
			q := strings.Split(h, ":")
			switch q[0] {
			case "h":
				rt.HashPolicies = append(rt.HashPolicies, &xdsresource.HashPolicy{HashPolicyType: xdsresource.HashPolicyTypeHeader, HeaderName: string(unhex(q[1])), Terminal: q[2] == "1"})
			case "c":
				rt.HashPolicies = append(rt.HashPolicies, &xdsresource.HashPolicy{HashPolicyType: xdsresource.HashPolicyTypeChannelID, Terminal: q[1] == "1"})
			default:
				panic("bad hash policy " + h)
			}
		}
	}
	return rt
}

func opSelect(f []string) string {
	chanID := atou64(f[1])
	method := string(unhex(f[2]))
	ctx := context.Background()
	ctx = metadata.NewOutgoingContext(ctx, parseMD(f[3]))
	if f[4] != "none" {
		ctx = grpcutil.WithExtraMetadata(ctx, parseMD(f[4]))
	}
	var draws []int64
	if f[5] != "-" {
		draws = natList(f[5])
	}
	wrrDraw := atou64(f[6])
	plugins := map[string]clusterspecifier.BalancerConfig{}
	vh := &xdsresource.VirtualHost{Domains: []string{"*"}}
	for i, tok := range f[7:] {
		vh.Routes = append(vh.Routes, parseRoute(i, tok, plugins))
	}
	if len(draws) < len(vh.Routes) {
		return "bad-op"
	}
	sel, err := xdsresolver.VerifNewSelector(vh, chanID, plugins)
	if err != nil {
		return "err=build:" + err.Error()
	}
	run := func() (string, uint64) {
		restoreF := pinFraction(draws)
		wrrProblem := ""
		restoreW := wrr.VerifSetRandInt64nC46(func(n int64) int64 {
			if n <= 0 {
				wrrProblem = fmt.Sprintf("wrr-bad-n=%d", n)
				return 0
			}
			return int64(wrrDraw % uint64(n))
		})
		cluster, hash, err := sel.VerifSelect(ctx, method)
		restoreW()
		if p := restoreF(); p != "" {
			return p, 0
		}
		if wrrProblem != "" {
			return wrrProblem, 0
		}
		switch {
		case err == nil:
		case errors.Is(err, xdsresolver.VerifErrNoMatch):
			return "err=nomatch", 0
		case errors.Is(err, xdsresolver.VerifErrAction):
			return "err=action", 0
		case strings.Contains(err.Error(), "error retrieving cluster for match"):
			return "err=internal", 0
		default:
			return "err=other:" + err.Error(), 0
		}
		i, _, _ := strings.Cut(strings.TrimPrefix(strings.TrimPrefix(cluster, "cluster_specifier_plugin:"), "cluster:"), "/")
		return "route=" + i + " cluster=" + cluster, hash
	}
	s1, h1 := run()
	s2, h2 := run()
	if s1 != s2 {
		return "nondeterministic: " + s1 + " vs " + s2
	}
	if !strings.HasPrefix(s1, "route=") {
		return s1
	}
	if h1 != h2 {
		return s1 + " hash=rand"
	}
	return s1 + " hash=" + strconv.FormatUint(h1, 10)
}
