package main

import (
	"math"
	"strconv"
	"time"

	gbackoff "google.golang.org/grpc/backoff"
	ibackoff "google.golang.org/grpc/internal/backoff"
)

// component backoff (C20): bo <base ns> <mult float64 bits> <jitter float64 bits> <max ns> <retries> <k>
// calls the real Exponential.Backoff(retries) k times and prints the smallest and the largest result.
func init() {
	register("backoff", func() Handler {
		return func(f []string) string {
			switch f[0] {
			case "bo":
				e := ibackoff.Exponential{Config: gbackoff.Config{
					BaseDelay:  time.Duration(atoi64(f[1])),
					Multiplier: math.Float64frombits(atou64(f[2])),
					Jitter:     math.Float64frombits(atou64(f[3])),
					MaxDelay:   time.Duration(atoi64(f[4])),
				}}
				retries, k := atoi(f[5]), atoi(f[6])
				lo, hi := int64(math.MaxInt64), int64(math.MinInt64)
				for i := 0; i < k; i++ {
					d := int64(e.Backoff(retries))
					lo, hi = min(lo, d), max(hi, d)
				}
				return strconv.FormatInt(lo, 10) + " " + strconv.FormatInt(hi, 10)
			}
			return "bad-op"
		}
	})
}
