package main

import (
	"context"
	"errors"
	"fmt"
	"io"
	"strconv"
	"strings"

	"google.golang.org/grpc"
	"google.golang.org/grpc/balancer"
	"google.golang.org/grpc/codes"
	istatus "google.golang.org/grpc/internal/status"
	"google.golang.org/grpc/internal/transport"
	"google.golang.org/grpc/status"
)

// component rpcerr (C24, T1):
//
//	torpc <spec>       → <canon(toRPCErr(err))> same=<0|1>     canon: nil | eof | st:<code> | raw
//	fromerr <spec>     → ok=<0|1> code=<c>                     status.FromError
//	restricted <code>  → 0|1                                   internal/status.IsRestrictedControlPlaneCode
//
// spec = wrapper:…:terminal, wrappers w (fmt.Errorf %w) | nse (*transport.NewStreamError) | conn
// (transport.ConnectionError), terminals nil eof ueof ctxd ctxc nosub st.<c> gst.<c> nilst plain.
type rpcerrGS struct{ st *status.Status }

func (e rpcerrGS) Error() string              { return "custom status error" }
func (e rpcerrGS) GRPCStatus() *status.Status { return e.st }

func rpcerrParse(spec string) error {
	parts := strings.Split(spec, ":")
	var err error
	t := parts[len(parts)-1]
	switch {
	case t == "nil":
		err = nil
	case t == "eof":
		err = io.EOF
	case t == "ueof":
		err = io.ErrUnexpectedEOF
	case t == "ctxd":
		err = context.DeadlineExceeded
	case t == "ctxc":
		err = context.Canceled
	case t == "nosub":
		err = balancer.ErrNoSubConnAvailable
	case t == "nilst":
		err = rpcerrGS{nil}
	case t == "plain":
		err = errors.New("plain error")
	case strings.HasPrefix(t, "st."):
		err = status.Error(codes.Code(atou64(t[3:])), "m")
	case strings.HasPrefix(t, "gst."):
		err = rpcerrGS{status.New(codes.Code(atou64(t[4:])), "m")}
	default:
		panic("bad spec " + spec)
	}
	for i := len(parts) - 2; i >= 0; i-- {
		switch parts[i] {
		case "w":
			err = fmt.Errorf("wrapped: %w", err)
		case "nse":
			err = &transport.NewStreamError{Err: err}
		case "conn":
			err = transport.VerifNewConnectionError("scripted", err)
		default:
			panic("bad spec " + spec)
		}
	}
	return err
}

func rpcerrCanon(err error) string {
	if err == nil {
		return "nil"
	}
	if err == io.EOF {
		return "eof"
	}
	if st, ok := status.FromError(err); ok {
		return "st:" + strconv.FormatUint(uint64(st.Code()), 10)
	}
	return "raw"
}

func init() {
	register("rpcerr", func() Handler {
		return func(f []string) string {
			switch f[0] {
			case "torpc":
				in := rpcerrParse(f[1])
				out := grpc.VerifToRPCErr(in)
				same := 0
				if out == in {
					same = 1
				}
				return fmt.Sprintf("%s same=%d", rpcerrCanon(out), same)
			case "fromerr":
				in := rpcerrParse(f[1])
				st, ok := status.FromError(in)
				if ok {
					return fmt.Sprintf("ok=1 code=%d", uint32(st.Code()))
				}
				return fmt.Sprintf("ok=0 code=%d", uint32(st.Code()))
			case "restricted":
				if istatus.IsRestrictedControlPlaneCode(status.New(codes.Code(atou64(f[1])), "m")) {
					return "1"
				}
				return "0"
			}
			return "bad-op"
		}
	})
}
