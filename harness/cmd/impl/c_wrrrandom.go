package main

import (
	"context"
	"errors"
	"fmt"
	"strconv"
	"strings"

	"google.golang.org/grpc/balancer"
	"google.golang.org/grpc/connectivity"
	"google.golang.org/grpc/internal/wrr"
	"google.golang.org/grpc/internal/xds/balancer/clusterimpl"
	"google.golang.org/grpc/internal/xds/clients"
	"google.golang.org/grpc/internal/xds/xdsclient"
)

// component wrrrandom (C38): the real internal/wrr random + EDF selectors, the clusterimpl
// droppers / picker and the xdsclient ClusterRequestsCounter, with the random source
// (wrr.randInt64n) replaced by values dictated by the op.
//
//	rw <w1,w2,..>          NewRandom + Add(i, w_i)                      → ok
//	rnext <r>              Next with the random source answering r      → item <i> n=<bound asked> | nil
//	renum <w1,w2,..>       enumerate the whole random source            → range=<n> counts=<c1,c2,..>
//	edf <w1,..> ; enext <k>  NewEDF + Adds ; k Next calls               → ok ; i1,i2,..
//	gcd <a> <b> ; rpm <numerator> <denominator>                          → value
//	denum <rpm>            real newDropper, whole random source         → range=<n> drops=<k>
//	pk <ready 0|1> <max|-> <rpm1,rpm2,..|->   new real picker (shares the case's request counter) → ok
//	pick <childok 0|1> <r1,r2,..|->   Pick → drop <k>|cb|childerr|ok <id>, then n=<in flight> bounds=<asked bounds> ls=<category reported|->
//	done <id>              Done of admitted RPC <id>                     → n=<in flight>
var wrrrandomCases int

type verifLoadStore struct{ dropped []string }

func (l *verifLoadStore) CallStarted(clients.Locality)                    {}
func (l *verifLoadStore) CallFinished(clients.Locality, error)            {}
func (l *verifLoadStore) CallServerLoad(clients.Locality, string, float64) {}
func (l *verifLoadStore) CallDropped(category string)                     { l.dropped = append(l.dropped, category) }

type verifChildPicker struct{ ok *bool }

func (p verifChildPicker) Pick(balancer.PickInfo) (balancer.PickResult, error) {
	if *p.ok {
		return balancer.PickResult{}, nil
	}
	return balancer.PickResult{}, errors.New("child pick failed")
}

func init() {
	register("wrrrandom", func() Handler {
		wrrrandomCases++
		var (
			rands   []int64 // answers of the random source, consumed in order
			bounds  []int64 // bounds the code asked for
			rw      wrr.WRR
			edf     wrr.WRR
			pk      balancer.Picker
			ls      = &verifLoadStore{}
			childOK bool
			dones   = map[int]func(balancer.DoneInfo){}
			nextID  int
		)
		clusterName := fmt.Sprintf("verif-cluster-%d", wrrrandomCases)
		counter := xdsclient.GetClusterRequestsCounter(clusterName, "")
		var vb *clusterimpl.VerifBalancer
		wrr.VerifSetRandInt64n(func(n int64) int64 {
			bounds = append(bounds, n)
			if n <= 0 {
				panic("rand.Int64N called with a non-positive bound")
			}
			var r int64 // a missing dictated value counts as 0
			if len(rands) > 0 {
				r = rands[0]
				rands = rands[1:]
			}
			if r < 0 {
				panic(fmt.Sprintf("test error: negative random value %d", r))
			}
			return r % n // any dictated value is reduced into the range the code asked for
		})
		build := func(mk func() wrr.WRR, ws []int64) wrr.WRR {
			w := mk()
			for i, x := range ws {
				w.Add(i, x)
			}
			return w
		}
		show := func(l []int64) string { return showNatList(l) }
		return func(f []string) string {
			switch f[0] {
			case "rw":
				rw = build(wrr.NewRandom, natList(f[1]))
				return "ok"
			case "rnext":
				if rw == nil {
					return "no-wrr"
				}
				rands, bounds = []int64{atoi64(f[1])}, nil
				it := rw.Next()
				if it == nil {
					return "nil"
				}
				return fmt.Sprintf("item %d n=%s", it.(int), show(bounds))
			case "renum":
				ws := natList(f[1])
				w := build(wrr.NewRandom, ws)
				if len(ws) == 0 {
					if w.Next() != nil {
						return "non-nil"
					}
					return "nil"
				}
				counts := make([]int64, len(ws))
				// first call discovers the bound
				rands, bounds = []int64{0}, nil
				counts[w.Next().(int)]++
				n := bounds[0]
				for r := int64(1); r < n; r++ {
					rands, bounds = []int64{r}, nil
					counts[w.Next().(int)]++
					if bounds[0] != n {
						return "bound-changed"
					}
				}
				return fmt.Sprintf("range=%d counts=%s", n, show(counts))
			case "edf":
				edf = build(wrr.NewEDF, natList(f[1]))
				return "ok"
			case "enext":
				if edf == nil {
					return "no-wrr"
				}
				k := atoi(f[1])
				var out []int64
				for j := 0; j < k; j++ {
					it := edf.Next()
					if it == nil {
						return "nil"
					}
					out = append(out, int64(it.(int)))
				}
				return show(out)
			case "gcd":
				return strconv.FormatUint(uint64(clusterimpl.VerifGcd(uint32(atou64(f[1])), uint32(atou64(f[2])))), 10)
			case "rpm":
				return strconv.FormatUint(uint64(clusterimpl.VerifDropRequestsPerMillion(uint32(atou64(f[1])), uint32(atou64(f[2])))), 10)
			case "denum":
				d := clusterimpl.VerifNewDropper(clusterimpl.DropConfig{Category: "c", RequestsPerMillion: uint32(atou64(f[1]))})
				rands, bounds = []int64{0}, nil
				var drops int64
				if d.Drop() {
					drops++
				}
				n := bounds[0]
				for r := int64(1); r < n; r++ {
					rands, bounds = []int64{r}, nil
					if d.Drop() {
						drops++
					}
					if bounds[0] != n {
						return "bound-changed"
					}
				}
				return fmt.Sprintf("range=%d drops=%d", n, drops)
			case "pk":
				st := connectivity.Connecting
				if f[1] == "1" {
					st = connectivity.Ready
				}
				var c *xdsclient.ClusterRequestsCounter
				var max uint32
				if f[2] != "-" {
					c, max = counter, uint32(atou64(f[2]))
				}
				var dcs []clusterimpl.DropConfig
				for i, r := range natList(f[3]) {
					dcs = append(dcs, clusterimpl.DropConfig{Category: fmt.Sprintf("c%d", i), RequestsPerMillion: uint32(r)})
				}
				pk = clusterimpl.VerifNewPicker(dcs, balancer.State{ConnectivityState: st, Picker: verifChildPicker{ok: &childOK}}, ls, c, max)
				return "ok"
			case "cfgupd":
				// the real EDS-update path: handleClusterConfigLocked (dropRequestsPerMillion, dropper
				// (re)construction, request counter, max_requests) followed by newPickerLocked
				st := connectivity.Connecting
				if f[1] == "1" {
					st = connectivity.Ready
				}
				var max *uint32
				if f[2] != "-" {
					m := uint32(atou64(f[2]))
					max = &m
				}
				var ds []clusterimpl.VerifDrop
				if f[3] != "-" {
					for _, part := range strings.Split(f[3], ",") {
						q := strings.Split(part, ":")
						ds = append(ds, clusterimpl.VerifDrop{Category: q[0], Numerator: uint32(atou64(q[1])), Denominator: uint32(atou64(q[2]))})
					}
				}
				if vb == nil {
					vb = clusterimpl.VerifNewBalancer()
				}
				var changed bool
				pk, changed = vb.ApplyClusterConfig(clusterName, ds, max, balancer.State{ConnectivityState: st, Picker: verifChildPicker{ok: &childOK}}, ls)
				if vb.Counter() != counter {
					return "other-counter"
				}
				return fmt.Sprintf("ok changed=%v", changed)
			case "pick":
				if pk == nil {
					return "no-picker"
				}
				childOK = f[1] == "1"
				rands, bounds = natList(f[2]), nil
				ls.dropped = nil
				pr, err := pk.Pick(balancer.PickInfo{Ctx: context.Background()})
				var res string
				switch {
				case err == nil:
					id := nextID
					nextID++
					if pr.Done != nil {
						dones[id] = pr.Done
					}
					res = fmt.Sprintf("ok %d", id)
				case strings.Contains(err.Error(), "RPC is dropped"):
					res = "drop"
				case strings.Contains(err.Error(), "max requests"):
					res = "cb"
				case strings.Contains(err.Error(), "child pick failed"):
					res = "childerr"
				default:
					res = "err " + err.Error()
				}
				lsS := "-"
				if len(ls.dropped) > 0 {
					lsS = "[" + strings.Join(ls.dropped, ",") + "]"
				}
				return fmt.Sprintf("%s n=%d bounds=%s ls=%s", res, xdsclient.VerifNumRequests(counter), show(bounds), lsS)
			case "done":
				d, ok := dones[atoi(f[1])]
				if !ok {
					return "no-such-rpc"
				}
				delete(dones, atoi(f[1]))
				d(balancer.DoneInfo{})
				return fmt.Sprintf("n=%d", xdsclient.VerifNumRequests(counter))
			}
			return "bad-op"
		}
	})
}
