package main

import (
	"strconv"
	"unicode/utf8"
)

// component utf8 (primitive of C08): the real unicode/utf8 and string conversions that
// lean/GrpcModel/Prim/Utf8.lean models.  dec <hex> | enc <rune> | valid <hex> | san <hex>
func init() {
	register("utf8", func() Handler {
		return func(f []string) string {
			if len(f) != 2 {
				return "bad-op"
			}
			switch f[0] {
			case "dec":
				b := unhex(f[1])
				r, n := utf8.DecodeRuneInString(string(b))
				r2, n2 := utf8.DecodeRune(b)
				out := strconv.Itoa(int(r)) + " " + strconv.Itoa(n)
				if r2 != r || n2 != n {
					out += " DecodeRune-differs"
				}
				return out
			case "enc":
				r := rune(atoi64(f[1]))
				s := []byte(string(r))
				if string(utf8.AppendRune(nil, r)) != string(s) {
					return tohex(s) + " AppendRune-differs"
				}
				return tohex(s)
			case "valid":
				b := unhex(f[1])
				v := utf8.ValidString(string(b))
				if utf8.Valid(b) != v {
					return strconv.FormatBool(v) + " Valid-differs"
				}
				return strconv.FormatBool(v)
			case "san":
				return tohex([]byte(string([]rune(string(unhex(f[1]))))))
			}
			return "bad-op"
		}
	})
}
