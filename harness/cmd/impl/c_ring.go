package main

import (
	"fmt"
	"sort"
	"strconv"
	"strings"

	"google.golang.org/grpc/balancer"
	"google.golang.org/grpc/balancer/ringhash"
	"google.golang.org/grpc/connectivity"
)

// component ring (C37): the real ringhash newRing / ring.pick / ring.next / picker.Pick.
//
//	ring <min> <max> <key:weight:h0;h1;..>,<key:weight:..>,..   (the hash table is for the model only)
//	        → n=<entries> counts=<per endpoint in key order> items=<hash:ep,..>  (ring order, ep = key-order index)
//	pick <h>                ring.pick → index
//	next <idx>              ring.next → index
//	walk <h> <states>       picker.Pick with request hash h; states = one of I C R T S per endpoint in key order
//	rwalk <h> <states>      picker.Pick with generated ("random") hash h
//	        → ep=<key-order index of the endpoint delegated to> | queue | err <text> ; exit=<endpoints whose exitIdle ran>
func init() {
	register("ring", func() Handler {
		var (
			r    *ringhash.VerifRing
			keys []string // in key order
		)
		keyIndex := func(k string) int64 {
			for i, x := range keys {
				if x == k {
					return int64(i)
				}
			}
			return -1
		}
		stateOf := func(c byte) connectivity.State {
			switch c {
			case 'I':
				return connectivity.Idle
			case 'C':
				return connectivity.Connecting
			case 'R':
				return connectivity.Ready
			case 'T':
				return connectivity.TransientFailure
			}
			return connectivity.Shutdown
		}
		return func(f []string) string {
			switch f[0] {
			case "ring":
				var eps []ringhash.VerifEndpoint
				keys = nil
				for _, p := range strings.Split(f[3], ",") {
					q := strings.Split(p, ":")
					eps = append(eps, ringhash.VerifEndpoint{HashKey: q[0], Weight: uint32(atou64(q[1]))})
					keys = append(keys, q[0])
				}
				sort.Strings(keys)
				r = ringhash.VerifNewRing(eps, atou64(f[1]), atou64(f[2]))
				items := r.Items()
				counts := make([]int64, len(keys))
				parts := make([]string, len(items))
				for i, it := range items {
					if it.Idx != i {
						return "bad-idx"
					}
					k := keyIndex(it.HashKey)
					counts[k]++
					parts[i] = strconv.FormatUint(it.Hash, 10) + ":" + strconv.FormatInt(k, 10)
				}
				is := "-"
				if len(parts) > 0 {
					is = strings.Join(parts, ",")
				}
				return fmt.Sprintf("n=%d counts=%s items=%s", len(items), showNatList(counts), is)
			case "pick":
				if r == nil {
					return "no-ring"
				}
				return strconv.Itoa(r.Pick(atou64(f[1])))
			case "next":
				if r == nil {
					return "no-ring"
				}
				if atoi(f[1]) >= len(r.Items()) {
					return "bad-op" // ring.next is only ever called with an entry of this ring
				}
				return strconv.Itoa(r.Next(atoi(f[1])))
			case "walk", "rwalk":
				if r == nil {
					return "no-ring"
				}
				if len(f[2]) != len(keys) {
					return "bad-op"
				}
				st := map[string]connectivity.State{}
				for i, k := range keys {
					st[k] = stateOf(f[2][i])
				}
				res, exited := r.PickerPick(st, f[0] == "rwalk", atou64(f[1]))
				var ex []int64
				for _, k := range exited {
					ex = append(ex, keyIndex(k))
				}
				switch {
				case strings.HasPrefix(res, "EP:"):
					res = fmt.Sprintf("ep=%d", keyIndex(res[3:]))
				case res == balancer.ErrNoSubConnAvailable.Error():
					res = "queue"
				default:
					res = "err " + res
				}
				return res + " exit=" + showNatList(ex)
			}
			return "bad-op"
		}
	})
}
