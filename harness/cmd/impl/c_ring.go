package main

import (
	"encoding/json"
	"fmt"
	"sort"
	"strconv"
	"strings"

	"google.golang.org/grpc/balancer"
	"google.golang.org/grpc/balancer/ringhash"
	"google.golang.org/grpc/connectivity"
	"google.golang.org/grpc/experimental/balancer/weight"
	"google.golang.org/grpc/resolver"
)

// ringStubCC is the minimal balancer.ClientConn a ringhash balancer needs when no RPC is made.
type ringStubCC struct {
	balancer.ClientConn // nil: satisfies the embedding requirement; unexpected calls panic
}

type ringStubSC struct{ balancer.SubConn }

func (ringStubSC) Connect()                          {}
func (ringStubSC) Shutdown()                         {}
func (ringStubSC) UpdateAddresses([]resolver.Address) {}
func (ringStubSC) GetOrBuildProducer(balancer.ProducerBuilder) (balancer.Producer, func()) {
	return nil, func() {}
}
func (ringStubSC) RegisterHealthListener(func(balancer.SubConnState)) {}

func (ringStubCC) NewSubConn([]resolver.Address, balancer.NewSubConnOptions) (balancer.SubConn, error) {
	return ringStubSC{}, nil
}
func (ringStubCC) RemoveSubConn(balancer.SubConn)                   {}
func (ringStubCC) UpdateAddresses(balancer.SubConn, []resolver.Address) {}
func (ringStubCC) UpdateState(balancer.State)                       {}
func (ringStubCC) ResolveNow(resolver.ResolveNowOptions)            {}
func (ringStubCC) Target() string                                   { return "verif" }

// component ring (C37): the real ringhash newRing / ring.pick / ring.next / picker.Pick.
//
//	ring <min> <max> <key:weight:h0;h1;..>,<key:weight:..>,..   (the hash table is for the model only)
//	        → n=<entries> counts=<per endpoint in key order> items=<hash:ep,..>  (ring order, ep = key-order index)
//	pick <h>                ring.pick → index
//	next <idx>              ring.next → index
//	walk <h> <states>       picker.Pick with request hash h; states = one of I C R T S per endpoint in key order
//	rwalk <h> <states>      picker.Pick with generated ("random") hash h
//	        → ep=<key-order index of the endpoint delegated to> | queue | err <text> ; exit=<endpoints whose exitIdle ran>
func init() {
	register("ring", func() Handler {
		var (
			r    *ringhash.VerifRing
			keys []string // in key order
			bal  balancer.Balancer
		)
		describe := func(items []ringhash.VerifItem, keyIndex func(string) int64) string {
			counts := make([]int64, len(keys))
			parts := make([]string, len(items))
			for i, it := range items {
				if it.Idx != i {
					return "bad-idx"
				}
				k := keyIndex(it.HashKey)
				if k < 0 {
					return "stale-endpoint-on-ring"
				}
				counts[k]++
				parts[i] = strconv.FormatUint(it.Hash, 10) + ":" + strconv.FormatInt(k, 10)
			}
			is := "-"
			if len(parts) > 0 {
				is = strings.Join(parts, ",")
			}
			return fmt.Sprintf("n=%d counts=%s items=%s", len(items), showNatList(counts), is)
		}
		keyIndex := func(k string) int64 {
			for i, x := range keys {
				if x == k {
					return int64(i)
				}
			}
			return -1
		}
		stateOf := func(c byte) connectivity.State {
			switch c {
			case 'I':
				return connectivity.Idle
			case 'C':
				return connectivity.Connecting
			case 'R':
				return connectivity.Ready
			case 'T':
				return connectivity.TransientFailure
			}
			return connectivity.Shutdown
		}
		return func(f []string) string {
			switch f[0] {
			case "ring":
				var eps []ringhash.VerifEndpoint
				keys = nil
				for _, p := range strings.Split(f[3], ",") {
					q := strings.Split(p, ":")
					eps = append(eps, ringhash.VerifEndpoint{HashKey: q[0], Weight: uint32(atou64(q[1]))})
					keys = append(keys, q[0])
				}
				sort.Strings(keys)
				r = ringhash.VerifNewRing(eps, atou64(f[1]), atou64(f[2]))
				items := r.Items()
				counts := make([]int64, len(keys))
				parts := make([]string, len(items))
				for i, it := range items {
					if it.Idx != i {
						return "bad-idx"
					}
					k := keyIndex(it.HashKey)
					counts[k]++
					parts[i] = strconv.FormatUint(it.Hash, 10) + ":" + strconv.FormatInt(k, 10)
				}
				is := "-"
				if len(parts) > 0 {
					is = strings.Join(parts, ",")
				}
				return fmt.Sprintf("n=%d counts=%s items=%s", len(items), showNatList(counts), is)
			case "bal":
				// resolver + LB-config update through the REAL ringhash balancer (built by the registered
				// builder, child = endpointsharding over lazy pick_first); the ring it holds afterwards
				if bal == nil {
					bal = balancer.Get(ringhash.Name).Build(ringStubCC{}, balancer.BuildOptions{})
				}
				var eps []resolver.Endpoint
				keys = nil
				for _, p := range strings.Split(f[3], ",") {
					q := strings.Split(p, ":")
					e := resolver.Endpoint{Addresses: []resolver.Address{{Addr: q[0]}}}
					eps = append(eps, weight.Set(e, weight.EndpointInfo{Weight: uint32(atou64(q[1]))}))
					keys = append(keys, q[0])
				}
				sort.Strings(keys)
				cfgJSON := fmt.Sprintf(`{"minRingSize": %d, "maxRingSize": %d}`, atou64(f[1]), atou64(f[2]))
				cfg, err := balancer.Get(ringhash.Name).(balancer.ConfigParser).ParseConfig(json.RawMessage(cfgJSON))
				if err != nil {
					return "config-rejected"
				}
				if err := bal.UpdateClientConnState(balancer.ClientConnState{ResolverState: resolver.State{Endpoints: eps}, BalancerConfig: cfg}); err != nil {
					return "err " + err.Error()
				}
				r = nil
				return describe(ringhash.VerifBalancerRing(bal), keyIndex)
			case "pick":
				if r == nil {
					return "no-ring"
				}
				return strconv.Itoa(r.Pick(atou64(f[1])))
			case "next":
				if r == nil {
					return "no-ring"
				}
				if atoi(f[1]) >= len(r.Items()) {
					return "bad-op" // ring.next is only ever called with an entry of this ring
				}
				return strconv.Itoa(r.Next(atoi(f[1])))
			case "walk", "rwalk":
				if r == nil {
					return "no-ring"
				}
				if len(f[2]) != len(keys) {
					return "bad-op"
				}
				st := map[string]connectivity.State{}
				for i, k := range keys {
					st[k] = stateOf(f[2][i])
				}
				res, exited := r.PickerPick(st, f[0] == "rwalk", atou64(f[1]))
				var ex []int64
				for _, k := range exited {
					ex = append(ex, keyIndex(k))
				}
				switch {
				case strings.HasPrefix(res, "EP:"):
					res = fmt.Sprintf("ep=%d", keyIndex(res[3:]))
				case res == balancer.ErrNoSubConnAvailable.Error():
					res = "queue"
				default:
					res = "err " + res
				}
				return res + " exit=" + showNatList(ex)
			}
			return "bad-op"
		}
	})
}
