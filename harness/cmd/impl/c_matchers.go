package main

import (
	"fmt"
	"regexp"
	"strings"

	v3matcherpb "github.com/envoyproxy/go-control-plane/envoy/type/matcher/v3"
	"google.golang.org/grpc/internal/xds/matcher"
	"google.golang.org/grpc/internal/xds/xdsclient/xdsresource"
	"google.golang.org/grpc/metadata"
)

// component matchers (C47)
//
//	sm new|proto <kind> <ic> <pat> <input>            kind: exact prefix suffix contains regex
//	hm <kind> <key> <inv> <md> <args...>              kind: exact prefix suffix contains (pat) | regex (re) |
//	                                                  range (start end) | present (0|1) | string (ctor smkind ic pat)
//	path exact|prefix|regex <ci> <pat> <path>
//
// strings are hex ("-" = empty); regexes are a prefix-notation AST (see reParse) rendered to Go syntax and
// compiled with the real matcher.CompileSafeRegex; md is "_" (empty map) or `key:v1,v2;key:` entries (hex).
func init() {
	register("matchers", func() Handler {
		return func(f []string) string {
			switch f[0] {
			case "sm":
				sm, err := mkStringMatcher(f[1], f[2], f[3] == "1", f[4])
				if err != nil {
					return "err"
				}
				return b01(sm.Match(string(unhex(f[5]))))
			case "hm":
				key, inv, md := string(unhex(f[2])), f[3] == "1", parseMD(f[4])
				var m matcher.HeaderMatcher
				switch f[1] {
				case "exact":
					m = matcher.NewHeaderExactMatcher(key, string(unhex(f[5])), inv)
				case "prefix":
					m = matcher.NewHeaderPrefixMatcher(key, string(unhex(f[5])), inv)
				case "suffix":
					m = matcher.NewHeaderSuffixMatcher(key, string(unhex(f[5])), inv)
				case "contains":
					m = matcher.NewHeaderContainsMatcher(key, string(unhex(f[5])), inv)
				case "regex":
					re, err := matcher.CompileSafeRegex(reRender(f[5]))
					if err != nil {
						return "err"
					}
					m = matcher.NewHeaderRegexMatcher(key, re, inv)
				case "range":
					m = matcher.NewHeaderRangeMatcher(key, atoi64(f[5]), atoi64(f[6]), inv)
				case "present":
					m = matcher.NewHeaderPresentMatcher(key, f[5] == "1", inv)
				case "string":
					sm, err := mkStringMatcher(f[5], f[6], f[7] == "1", f[8])
					if err != nil {
						return "err"
					}
					m = matcher.NewHeaderStringMatcher(key, sm, inv)
				default:
					return "bad-op"
				}
				return b01(m.Match(md))
			case "path":
				var re *regexp.Regexp
				pat := ""
				if f[1] == "regex" {
					var err error
					if re, err = matcher.CompileSafeRegex(reRender(f[3])); err != nil {
						return "err"
					}
				} else {
					pat = string(unhex(f[3]))
				}
				return b01(xdsresource.VerifPathMatch(f[1], pat, f[2] == "1", re, string(unhex(f[4]))))
			}
			return "bad-op"
		}
	})
}

func b01(b bool) string {
	if b {
		return "1"
	}
	return "0"
}

func mkStringMatcher(ctor, kind string, ic bool, pat string) (matcher.StringMatcher, error) {
	if ctor == "new" {
		switch kind {
		case "exact":
			return matcher.NewExactStringMatcher(string(unhex(pat)), ic), nil
		case "prefix":
			return matcher.NewPrefixStringMatcher(string(unhex(pat)), ic), nil
		case "suffix":
			return matcher.NewSuffixStringMatcher(string(unhex(pat)), ic), nil
		case "contains":
			return matcher.NewContainsStringMatcher(string(unhex(pat)), ic), nil
		case "regex":
			re, err := matcher.CompileSafeRegex(reRender(pat))
			if err != nil {
				return matcher.StringMatcher{}, err
			}
			return matcher.NewRegexStringMatcher(re), nil
		}
		panic("bad string matcher kind " + kind)
	}
	p := &v3matcherpb.StringMatcher{IgnoreCase: ic}
	switch kind {
	case "exact":
		p.MatchPattern = &v3matcherpb.StringMatcher_Exact{Exact: string(unhex(pat))}
	case "prefix":
		p.MatchPattern = &v3matcherpb.StringMatcher_Prefix{Prefix: string(unhex(pat))}
	case "suffix":
		p.MatchPattern = &v3matcherpb.StringMatcher_Suffix{Suffix: string(unhex(pat))}
	case "contains":
		p.MatchPattern = &v3matcherpb.StringMatcher_Contains{Contains: string(unhex(pat))}
	case "regex":
		p.MatchPattern = &v3matcherpb.StringMatcher_SafeRegex{SafeRegex: &v3matcherpb.RegexMatcher{Regex: reRender(pat)}}
	default:
		panic("bad string matcher kind " + kind)
	}
	return matcher.StringMatcherFromProto(p)
}

func parseMD(s string) metadata.MD {
	md := metadata.MD{}
	if s == "_" {
		return md
	}
	for _, e := range strings.Split(s, ";") {
		k, vs, ok := strings.Cut(e, ":")
		if !ok {
			panic("bad md entry " + e)
		}
		vals := []string{}
		if vs != "" {
			for _, v := range strings.Split(vs, ",") {
				vals = append(vals, string(unhex(v)))
			}
		}
		md[string(unhex(k))] = vals
	}
	return md
}

// regex AST in prefix notation: c<hh> literal byte (ASCII), d = `.`, r<hh><hh> = [lo-hi], e = empty string, n = nothing,
// s<A><B> = AB, a<A><B> = A|B, k<A> = A*, x = a syntactically invalid pattern.
type reNode struct {
	op     byte
	lo, hi int
	l, r   *reNode
}

func reParse(s string, i int) (*reNode, int) {
	hx := func(j int) int { var v int; fmt.Sscanf(s[j:j+2], "%02x", &v); return v }
	switch s[i] {
	case 'c':
		return &reNode{op: 'c', lo: hx(i + 1)}, i + 3
	case 'd', 'e', 'x', 'n':
		return &reNode{op: s[i]}, i + 1
	case 'r':
		return &reNode{op: 'r', lo: hx(i + 1), hi: hx(i + 3)}, i + 5
	case 's', 'a':
		l, j := reParse(s, i+1)
		r, k := reParse(s, j)
		return &reNode{op: s[i], l: l, r: r}, k
	case 'k':
		l, j := reParse(s, i+1)
		return &reNode{op: 'k', l: l}, j
	}
	panic("bad regex ast " + s)
}

// precedence levels: 0 alternation, 1 concatenation, 2 repetition, 3 atom. A top-level alternation is rendered WITHOUT a
// group of its own, so the `^(?:…)$` wrapping of CompileSafeRegex is what makes it a full-string match.
func (n *reNode) render(level int) string {
	var s string
	my := 3
	switch n.op {
	case 'c':
		s = fmt.Sprintf(`\x%02x`, n.lo)
	case 'd':
		s = "."
	case 'e':
		s = "(?:)"
	case 'n':
		s = `[^\x00-\x{10FFFF}]` // the empty class: matches nothing
	case 'x':
		s = "(" // invalid: missing closing parenthesis
	case 'r':
		s = fmt.Sprintf(`[\x%02x-\x%02x]`, n.lo, n.hi)
	case 's':
		s, my = n.l.render(1)+n.r.render(1), 1
	case 'a':
		s, my = n.l.render(0)+"|"+n.r.render(0), 0
	case 'k':
		s, my = n.l.render(3)+"*", 2
	}
	if my < level {
		return "(?:" + s + ")"
	}
	return s
}

func reRender(s string) string {
	n, j := reParse(s, 0)
	if j != len(s) {
		panic("trailing garbage in regex ast " + s)
	}
	return n.render(0)
}
