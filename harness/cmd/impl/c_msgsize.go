package main

import (
	"fmt"
	"strconv"

	"google.golang.org/grpc"
)

// component msgsize (C21):
//
//	gms <mc|-> <dopt|-> <default>     → getMaxSize
//	minp <a> <b>                      → minPointers
//	scp <req|-> <resp|->              → limits parseServiceConfig stores for {"methodConfig":[{"name":[{}],...}]}
func init() {
	register("msgsize", func() Handler {
		optInt := func(s string) *int {
			if s == "-" {
				return nil
			}
			v := int(atoi64(s))
			return &v
		}
		show := func(p *int) string {
			if p == nil {
				return "-"
			}
			return strconv.Itoa(*p)
		}
		return func(f []string) string {
			switch f[0] {
			case "gms":
				return strconv.Itoa(grpc.VerifGetMaxSize(optInt(f[1]), optInt(f[2]), int(atoi64(f[3]))))
			case "minp":
				return strconv.Itoa(grpc.VerifMinPointers(int(atoi64(f[1])), int(atoi64(f[2]))))
			case "scp":
				js := `{"methodConfig":[{"name":[{}]`
				if f[1] != "-" {
					js += `,"maxRequestMessageBytes":` + f[1]
				}
				if f[2] != "-" {
					js += `,"maxResponseMessageBytes":` + f[2]
				}
				js += "}]}"
				req, resp, err := grpc.VerifParseSCLimits(js, "")
				if err != nil {
					return "err"
				}
				return fmt.Sprintf("%s %s", show(req), show(resp))
			}
			return "bad-op"
		}
	})
}
