package main

import (
	"fmt"
	"net"
	"net/netip"
	"strings"

	v3corepb "github.com/envoyproxy/go-control-plane/envoy/config/core/v3"
	v3listenerpb "github.com/envoyproxy/go-control-plane/envoy/config/listener/v3"
	v3routerpb "github.com/envoyproxy/go-control-plane/envoy/extensions/filters/http/router/v3"
	v3httppb "github.com/envoyproxy/go-control-plane/envoy/extensions/filters/network/http_connection_manager/v3"
	"google.golang.org/grpc/internal/xds/bootstrap"
	"google.golang.org/grpc/internal/xds/clients/xdsclient"
	_ "google.golang.org/grpc/internal/xds/httpfilter/router" // registers the router filter
	xdsserver "google.golang.org/grpc/internal/xds/server"
	"google.golang.org/grpc/internal/xds/xdsclient/xdsresource"
	"google.golang.org/protobuf/proto"
	"google.golang.org/protobuf/types/known/anypb"
	"google.golang.org/protobuf/types/known/wrapperspb"
)

// component filterchain (C49): see lean/GrpcModel/Driver/Filterchain.lean for the op grammar.
//
//	lis …   → a real v3 Listener proto through the real LDS decoder/validation (unmarshal_lds.go) and
//	          newFilterChainManager
//	look …  → the real filterChainManager.lookup with the parameters Accept() would pass

func fcAny(m proto.Message) *anypb.Any {
	a, err := anypb.New(m)
	if err != nil {
		panic(err)
	}
	return a
}

func fcFilters(route string) []*v3listenerpb.Filter {
	return []*v3listenerpb.Filter{{
		Name: "hcm",
		ConfigType: &v3listenerpb.Filter_TypedConfig{TypedConfig: fcAny(&v3httppb.HttpConnectionManager{
			RouteSpecifier: &v3httppb.HttpConnectionManager_Rds{Rds: &v3httppb.Rds{
				ConfigSource:    &v3corepb.ConfigSource{ConfigSourceSpecifier: &v3corepb.ConfigSource_Ads{Ads: &v3corepb.AggregatedConfigSource{}}},
				RouteConfigName: route,
			}},
			HttpFilters: []*v3httppb.HttpFilter{{
				Name:       "router",
				ConfigType: &v3httppb.HttpFilter_TypedConfig{TypedConfig: fcAny(&v3routerpb.Router{})},
			}},
		})},
	}}
}

func fcCidrs(t *rbacToks) []*v3corepb.CidrRange {
	n := t.nat()
	var l []*v3corepb.CidrRange
	for i := 0; i < n; i++ {
		l = append(l, t.cidr())
	}
	return l
}

func fcAddr(t *rbacToks) netip.Addr {
	switch t.tok() {
	case "a4", "a6":
		// what Accept() does with the *net.TCPAddr of the connection
		ip, _ := netip.AddrFromSlice(net.IP(unhex(t.tok())))
		return ip.Unmap()
	}
	panic("filterchain: bad addr")
}

var fcBootstrap = func() *bootstrap.Config {
	bc, err := bootstrap.NewConfigFromContents([]byte(`{"xds_servers":[{"server_uri":"ipv4:///127.0.0.1:443","channel_creds":[{"type":"insecure"}]}]}`))
	if err != nil {
		panic(err)
	}
	return bc
}()

func init() {
	register("filterchain", func() Handler {
		var mgr *xdsserver.VerifFilterChainManager
		return func(f []string) string {
			t := &rbacToks{f: f, i: 1}
			switch f[0] {
			case "lis":
				mgr = nil
				hasDefault := t.bool01()
				n := t.nat()
				lis := &v3listenerpb.Listener{
					Name: "lis",
					Address: &v3corepb.Address{Address: &v3corepb.Address_SocketAddress{SocketAddress: &v3corepb.SocketAddress{
						Address: "0.0.0.0", PortSpecifier: &v3corepb.SocketAddress_PortValue{PortValue: 80}}}},
				}
				if hasDefault {
					lis.DefaultFilterChain = &v3listenerpb.FilterChain{Name: "default", Filters: fcFilters("default")}
				}
				for i := 0; i < n; i++ {
					m := &v3listenerpb.FilterChainMatch{}
					if t.bool01() {
						m.DestinationPort = wrapperspb.UInt32(8080)
					}
					if t.bool01() {
						m.ServerNames = []string{"a.b"}
					}
					switch t.nat() {
					case 0:
					case 1:
						m.TransportProtocol = "raw_buffer"
					default:
						m.TransportProtocol = "tls"
					}
					if t.bool01() {
						m.ApplicationProtocols = []string{"h2"}
					}
					m.SourceType = v3listenerpb.FilterChainMatch_ConnectionSourceType(t.nat())
					m.PrefixRanges = fcCidrs(t)
					m.SourcePrefixRanges = fcCidrs(t)
					np := t.nat()
					for j := 0; j < np; j++ {
						m.SourcePorts = append(m.SourcePorts, uint32(t.nat()))
					}
					name := fmt.Sprintf("fc%d", i)
					lis.FilterChains = append(lis.FilterChains, &v3listenerpb.FilterChain{Name: name, FilterChainMatch: m, Filters: fcFilters(name)})
				}
				if t.i != len(f) {
					return "bad-op"
				}
				dec := xdsresource.NewListenerResourceTypeDecoder(fcBootstrap, nil)
				res, err := dec.Decode(xdsclient.NewAnyProto(fcAny(lis)), xdsclient.DecodeOptions{})
				if err != nil {
					e := err.Error()
					switch {
					case strings.Contains(e, "overlapping matching rules"):
						return "reject:overlap"
					case strings.Contains(e, "invalid address"), strings.Contains(e, "is invalid for"):
						return "reject:prefix"
					case strings.Contains(e, "unsupported source type"):
						return "reject:srctype"
					case strings.Contains(e, "no supported filter chains and no default filter chain"):
						return "reject:empty"
					}
					return "reject:other " + e
				}
				upd := res.Resource.(*xdsresource.ListenerResourceData).Resource
				if upd.TCPListener == nil {
					return "reject:not-tcp"
				}
				mgr = xdsserver.VerifNewFilterChainManager(upd.TCPListener)
				return "ok"
			case "look":
				if mgr == nil {
					return "nolis"
				}
				wild := t.bool01()
				dst := fcAddr(t)
				src := fcAddr(t)
				port := t.nat()
				if t.i != len(f) {
					return "bad-op"
				}
				name, isDef, err := mgr.Lookup(wild, dst, src, port)
				if err != nil {
					if strings.Contains(err.Error(), "multiple matching filter chains") {
						return "err:multiple"
					}
					if strings.Contains(err.Error(), "no matching filter chain") {
						return "err:none"
					}
					return "err:other " + err.Error()
				}
				if isDef != (name == "default") {
					return "inconsistent-default " + name
				}
				return name
			}
			return "bad-op"
		}
	})
}
