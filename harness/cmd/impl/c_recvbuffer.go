package main

import (
	"fmt"
	"io"
	"strconv"
	"time"

	"google.golang.org/grpc/internal/envconfig"
	"google.golang.org/grpc/internal/transport"
	"google.golang.org/grpc/mem"
)

// component recvbuffer (C05): the real recvBuffer + recvBufferReader driven op by op from this
// one goroutine (see lean/GrpcModel/Driver/RecvBuffer.lean for the op list).

// rbPool hands out exact-length buffers filled with 0xEE and poisons returned buffers with 0xDD,
// so bytes that compaction fails to overwrite, or that are read after Free, are visible.
type rbPool struct{ out map[*[]byte]bool }

func (p *rbPool) Get(n int) *[]byte {
	b := make([]byte, n)
	for i := range b {
		b[i] = 0xEE
	}
	p.out[&b] = true
	return &b
}

func (p *rbPool) Put(b *[]byte) {
	if !p.out[b] {
		panic("buffer returned to the pool twice (or never taken from it)")
	}
	delete(p.out, b)
	s := (*b)[:cap(*b)]
	for i := range s {
		s[i] = 0xDD
	}
}

type rbErr int

func (e rbErr) Error() string { return "verif error " + strconv.Itoa(int(e)) }

func rbErrCode(err error) string {
	if err == nil {
		return "-"
	}
	if err == io.EOF {
		return "1"
	}
	if e, ok := err.(rbErr); ok {
		return strconv.Itoa(int(e))
	}
	return "unknown:" + err.Error()
}

func init() {
	register("recvbuffer", func() Handler {
		envconfig.EnableReceiveBufferCompaction = true
		pool := &rbPool{out: map[*[]byte]bool{}}
		v := transport.VerifNewRecv(pool)
		var held *transport.VerifRecvMsg
		started := false
		state := func() string {
			bl, bb, sl, sb := v.Ledger()
			last := "-"
			if n := v.ReaderLast(); n >= 0 {
				last = strconv.Itoa(n)
			}
			h := "-"
			if held != nil {
				if isErr, err, n := held.Describe(); isErr {
					h = "e" + rbErrCode(err)
				} else {
					h = "d" + strconv.Itoa(n)
				}
			}
			return fmt.Sprintf(" | c=%d bl=%d bb=%d sl=%d sb=%d last=%s e=%s h=%s", v.ChanLen(), bl, bb, sl, sb, last, rbErrCode(v.ReaderErr()), h)
		}
		bufAnswer := func(buf mem.Buffer, err error) string {
			if err != nil {
				if buf != nil {
					return "PANIC buffer returned together with an error"
				}
				return "e " + rbErrCode(err)
			}
			s := "d " + tohex(buf.ReadOnlyData())
			buf.Free()
			return s
		}
		hdrAnswer := func(h []byte, n int, err error) string {
			if err != nil {
				if n != 0 {
					return "PANIC n != 0 returned together with an error"
				}
				return "e " + rbErrCode(err)
			}
			return "d " + tohex(h[:n])
		}
		// wouldBlock: Read/ReadMessageHeader reach `<-r.recv.get()` and the channel is empty.
		wouldBlock := func() bool {
			return v.ReaderErr() == nil && v.ReaderLast() < 0 && v.ChanLen() == 0
		}
		// Reader calls are made only when the real code is not supposed to block; a changed tree
		// may block anyway. The call then runs to a deadline on a helper goroutine and the stream
		// is declared dead (every later op answers `dead`) instead of hanging the whole run.
		dead := false
		guarded := func(call func() string) string {
			ch := make(chan string, 1)
			go func() {
				defer func() {
					if r := recover(); r != nil {
						ch <- "PANIC " + fmt.Sprint(r)
					}
				}()
				ch <- call()
			}()
			select {
			case s := <-ch:
				return s
			case <-time.After(3 * time.Second):
				dead = true
				return "PANIC reader call blocked although data or an error was available"
			}
		}
		return func(f []string) string {
			if dead {
				return "dead"
			}
			switch f[0] {
			case "cfg":
				if started {
					return "late-cfg"
				}
				started = true
				envconfig.EnableReceiveBufferCompaction = f[1] != "0"
				return "ok"
			case "consts":
				a, b, c := transport.VerifRecvConsts()
				return fmt.Sprintf("%d %d %d", a, b, c)
			}
			started = true
			switch f[0] {
			case "put":
				if f[1] == "d" {
					v.Put(mem.Copy(unhex(f[2]), pool), nil)
				} else if k := atoi(f[2]); k == 1 {
					v.Put(nil, io.EOF)
				} else {
					v.Put(nil, rbErr(k))
				}
				return "ok" + state()
			case "load":
				v.Load()
				return "ok" + state()
			case "read":
				if held != nil {
					return "busy" + state()
				}
				if wouldBlock() {
					return "blocked" + state()
				}
				return guarded(func() string {
					buf, err := v.Read(atoi(f[1]))
					return bufAnswer(buf, err) + state()
				})
			case "hdr":
				if held != nil {
					return "busy" + state()
				}
				if wouldBlock() {
					return "blocked" + state()
				}
				return guarded(func() string {
					h := make([]byte, atoi(f[1]))
					n, err := v.ReadMessageHeader(h)
					return hdrAnswer(h, n, err) + state()
				})
			case "rbegin":
				if held != nil {
					return "busy" + state()
				}
				// the prefix of Read / ReadMessageHeader: `if r.err != nil {return}; if r.last != nil {…return}`
				if v.ReaderErr() != nil || v.ReaderLast() >= 0 {
					return "skip" + state()
				}
				m, ok := v.TryRecv()
				if !ok {
					return "blocked" + state()
				}
				held = &m
				return "took" + state()
			case "fin":
				if held == nil {
					return "skip" + state()
				}
				m := *held
				held = nil
				buf, err := v.ReadAdditional(m, atoi(f[1]))
				return bufAnswer(buf, err) + state()
			case "finh":
				if held == nil {
					return "skip" + state()
				}
				m := *held
				held = nil
				h := make([]byte, atoi(f[1]))
				n, err := v.ReadHeaderAdditional(m, h)
				return hdrAnswer(h, n, err) + state()
			}
			return "bad-op"
		}
	})
}
