package main

import (
	"fmt"
	"strconv"
	"strings"

	v3corepb "github.com/envoyproxy/go-control-plane/envoy/config/core/v3"
	v3endpointpb "github.com/envoyproxy/go-control-plane/envoy/config/endpoint/v3"
	v3discoverypb "github.com/envoyproxy/go-control-plane/envoy/service/discovery/v3"
	v3typepb "github.com/envoyproxy/go-control-plane/envoy/type/v3"
	"google.golang.org/grpc/experimental/balancer/hostname"
	"google.golang.org/grpc/internal/envconfig"
	"google.golang.org/grpc/internal/xds/xdsclient/xdsresource"
	"google.golang.org/grpc/internal/xds/xdsclient/xdsresource/version"
	"google.golang.org/protobuf/proto"
	"google.golang.org/protobuf/types/known/anypb"
	"google.golang.org/protobuf/types/known/structpb"
	"google.golang.org/protobuf/types/known/wrapperspb"
)

// component xdsparse (C45): the REAL xdsresource.unmarshal*Resource functions (the ones the
// resource decoders call; no panic recovery on this path) on protos built from the op line.
//
//	eds <dual> <conn> <compat> <wrap> <namehex> <ndrops> {<cathex> <num> <den>}
//	    <nlocs> {<hasloc> <regionhex> <zonehex> <subhex> <weight> <prio> <md> <neps>
//	             {<w|-> <health> <hostnamehex> <md> <naddr> {<hosthex> <port>}}}
//	    md: 0 no metadata, 1 filter_metadata struct, 2 typed metadata (envoy Address, registered
//	    converter) whose conversion fails, 3 typed metadata of an unknown type.  wrap = 1: the Any is
//	    wrapped in a discovery.v3.Resource.
//	raw <kind> <hex>      arbitrary bytes as the value of an Any of that resource type (eds|rds|cds|lds)
//	-> ok <canonical dump of the update> | err <class>     (every input is parsed twice: NONDET if the answers differ)

type toks struct {
	f []string
	i int
}

func (t *toks) next() string {
	if t.i >= len(t.f) {
		panic("op line too short")
	}
	s := t.f[t.i]
	t.i++
	return s
}
func (t *toks) num() uint32 {
	n, err := strconv.ParseUint(t.next(), 10, 32)
	if err != nil {
		panic("bad uint32")
	}
	return uint32(n)
}
func (t *toks) str() string { return string(unhex(t.next())) }

func hx(s string) string { return tohex([]byte(s)) }

func edsMetadata(md uint32) *v3corepb.Metadata {
	switch md {
	case 1:
		st, _ := structpb.NewStruct(map[string]any{"hash_key": "hk", "n": 1.0})
		return &v3corepb.Metadata{FilterMetadata: map[string]*structpb.Struct{"envoy.lb": st}}
	case 2:
		// an envoy Address without socket_address: the registered converter fails
		a, _ := anypb.New(&v3corepb.Address{})
		return &v3corepb.Metadata{TypedFilterMetadata: map[string]*anypb.Any{"envoy.http11_proxy_transport_socket.proxy_address": a}}
	case 3:
		a, _ := anypb.New(wrapperspb.String("x"))
		return &v3corepb.Metadata{TypedFilterMetadata: map[string]*anypb.Any{"k": a}}
	}
	return nil
}

func buildCLA(t *toks) *v3endpointpb.ClusterLoadAssignment {
	cla := &v3endpointpb.ClusterLoadAssignment{ClusterName: t.str()}
	nd := int(t.num())
	if nd > 0 {
		cla.Policy = &v3endpointpb.ClusterLoadAssignment_Policy{}
	}
	for i := 0; i < nd; i++ {
		cat, num, den := t.str(), t.num(), t.num()
		cla.Policy.DropOverloads = append(cla.Policy.DropOverloads, &v3endpointpb.ClusterLoadAssignment_Policy_DropOverload{
			Category:       cat,
			DropPercentage: &v3typepb.FractionalPercent{Numerator: num, Denominator: v3typepb.FractionalPercent_DenominatorType(den)},
		})
	}
	nl := int(t.num())
	for i := 0; i < nl; i++ {
		l := &v3endpointpb.LocalityLbEndpoints{}
		hasloc, region, zone, sub := t.num(), t.str(), t.str(), t.str()
		if hasloc == 1 {
			l.Locality = &v3corepb.Locality{Region: region, Zone: zone, SubZone: sub}
		}
		if w := t.num(); w != 0 || i%2 == 0 { // weight 0: explicit zero on even positions, unset on odd ones
			l.LoadBalancingWeight = wrapperspb.UInt32(w)
		}
		l.Priority = t.num()
		l.Metadata = edsMetadata(t.num())
		ne := int(t.num())
		for j := 0; j < ne; j++ {
			e := &v3endpointpb.LbEndpoint{}
			if w := t.next(); w != "-" {
				n, err := strconv.ParseUint(w, 10, 32)
				if err != nil {
					panic("bad weight")
				}
				e.LoadBalancingWeight = wrapperspb.UInt32(uint32(n))
			}
			e.HealthStatus = v3corepb.HealthStatus(t.num())
			hostname := t.str()
			e.Metadata = edsMetadata(t.num())
			na := int(t.num())
			var ep *v3endpointpb.Endpoint
			if na > 0 || hostname != "" {
				ep = &v3endpointpb.Endpoint{Hostname: hostname}
			}
			for k := 0; k < na; k++ {
				host, port := t.str(), t.num()
				a := &v3corepb.Address{Address: &v3corepb.Address_SocketAddress{SocketAddress: &v3corepb.SocketAddress{
					Address: host, PortSpecifier: &v3corepb.SocketAddress_PortValue{PortValue: port}}}}
				if k == 0 {
					ep.Address = a
				} else {
					ep.AdditionalAddresses = append(ep.AdditionalAddresses, &v3endpointpb.Endpoint_AdditionalAddress{Address: a})
				}
			}
			if ep != nil {
				e.HostIdentifier = &v3endpointpb.LbEndpoint_Endpoint{Endpoint: ep}
			}
			l.LbEndpoints = append(l.LbEndpoints, e)
		}
		cla.Endpoints = append(cla.Endpoints, l)
	}
	return cla
}

func edsErrClass(err error) string {
	m := err.Error()
	for _, p := range [][2]string{
		{"failed to unwrap resource", "unwrap"},
		{"unexpected resource type", "type"},
		{"failed to unmarshal resource", "proto"},
		{"empty resource name", "noname"},
		{"unsupported denominator", "denom"},
		{"locality without ID", "noloc"},
		{"sum of weights of localities", "locsum"},
		{"duplicate locality", "duploc"},
		{"endpoint with zero weight", "zeroweight"},
		{"sum of weights of endpoints", "epsum"},
		{"duplicate endpoint", "dupaddr"},
		{"metadata conversion", "md"},
		{"missing (with different priorities", "prio"},
	} {
		if strings.Contains(m, p[0]) {
			return "err " + p[1]
		}
	}
	return "err other:" + strings.ReplaceAll(m, " ", "_")
}

// canonical dump of an accepted EndpointsUpdate (the grammar the Lean monitor parses)
func edsDump(u xdsresource.EndpointsUpdate) string {
	var b strings.Builder
	fmt.Fprintf(&b, "ok %d", len(u.Drops))
	for _, d := range u.Drops {
		fmt.Fprintf(&b, " %s %d %d", hx(d.Category), d.Numerator, d.Denominator)
	}
	fmt.Fprintf(&b, " %d", len(u.Localities))
	for _, l := range u.Localities {
		fmt.Fprintf(&b, " %s %s %s %d %d %d", hx(l.ID.Region), hx(l.ID.Zone), hx(l.ID.SubZone), l.Weight, l.Priority, len(l.Endpoints))
		for _, e := range l.Endpoints {
			fmt.Fprintf(&b, " %d %d %s %d", e.Weight, int32(e.HealthStatus), hx(hostname.FromEndpoint(e.ResolverEndpoint)), len(e.ResolverEndpoint.Addresses))
			for _, a := range e.ResolverEndpoint.Addresses {
				fmt.Fprintf(&b, " %s", hx(a.Addr))
			}
		}
	}
	return b.String()
}

func edsParse(a *anypb.Any) string {
	_, u, err := xdsresource.VerifUnmarshalEndpoints(a)
	if err != nil {
		return edsErrClass(err)
	}
	return edsDump(u)
}

func twice(f func() string) string {
	a := f()
	b := f()
	if a != b {
		return "NONDET first=" + a + " second=" + b
	}
	return a
}

func wrapResource(a *anypb.Any) *anypb.Any {
	w, err := anypb.New(&v3discoverypb.Resource{Name: "wrapped", Resource: a})
	if err != nil {
		panic(err)
	}
	return w
}

var xdsKindURL = map[string]string{"eds": version.V3EndpointsURL, "rds": version.V3RouteConfigURL, "cds": version.V3ClusterURL, "lds": version.V3ListenerURL}

func init() {
	register("xdsparse", func() Handler {
		// the Address converter is registered at init time only under GRPC_EXPERIMENTAL_XDS_HTTP_CONNECT
		xdsresource.RegisterMetadataConverterForTesting(version.V3AddressURL)
		return func(f []string) string {
			switch f[0] {
			case "eds":
				t := &toks{f: f, i: 1}
				envconfig.XDSDualstackEndpointsEnabled = t.num() == 1
				envconfig.XDSHTTPConnectEnabled = t.num() == 1
				envconfig.XDSEndpointHashKeyBackwardCompat = t.num() == 1
				wrap := t.num() == 1
				cla := buildCLA(t)
				bs, err := proto.Marshal(cla)
				if err != nil {
					return "bad-op marshal: " + err.Error()
				}
				a := &anypb.Any{TypeUrl: version.V3EndpointsURL, Value: bs}
				if wrap {
					a = wrapResource(a)
				}
				return twice(func() string { return edsParse(a) })
			case "raw":
				url, ok := xdsKindURL[f[1]]
				if !ok {
					return "bad-op"
				}
				a := &anypb.Any{TypeUrl: url, Value: unhex(f[2])}
				return twice(func() string { return xdsParseKind(f[1], a) })
			}
			return xdsOtherOp(f)
		}
	})
}
