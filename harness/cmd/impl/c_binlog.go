package main

import (
	"sort"
	"strconv"
	"strings"

	binlogpb "google.golang.org/grpc/binarylog/grpc_binarylog_v1"
	"google.golang.org/grpc/internal/binarylog"
	"google.golang.org/grpc/metadata"
)

// component binlog (C55); protocol in lean/GrpcModel/Driver/Binlog.lean.

func binlogParseEntries(s string) []*binlogpb.MetadataEntry {
	if s == "-" {
		return nil
	}
	var es []*binlogpb.MetadataEntry
	for _, p := range strings.Split(s, ",") {
		kv := strings.Split(p, "=")
		if len(kv) != 2 {
			panic("bad entry " + p)
		}
		// Value is always non-nil-or-nil exactly as unhex gives it; the code only takes len().
		es = append(es, &binlogpb.MetadataEntry{Key: string(unhex(kv[0])), Value: unhex(kv[1])})
	}
	return es
}

func binlogParseMD(s string) metadata.MD {
	md := metadata.MD{}
	if s == "-" {
		return md
	}
	for _, g := range strings.Split(s, ";") {
		kv := strings.Split(g, "=")
		if len(kv) != 2 {
			panic("bad group " + g)
		}
		k := string(unhex(kv[0]))
		if _, dup := md[k]; dup {
			panic("duplicate key in md op")
		}
		vals := []string{}
		if kv[1] != "!" {
			for _, v := range strings.Split(kv[1], ",") {
				vals = append(vals, string(unhex(v)))
			}
		}
		md[k] = vals
	}
	return md
}

func binlogShowEntries(es []*binlogpb.MetadataEntry) string {
	if len(es) == 0 {
		return "-"
	}
	p := make([]string, len(es))
	for i, e := range es {
		p[i] = tohex([]byte(e.GetKey())) + "=" + tohex(e.GetValue())
	}
	return strings.Join(p, ",")
}

func binlogFlag(b bool) string {
	if b {
		return "T"
	}
	return "F"
}

func init() {
	register("binlog", func() Handler {
		return func(f []string) string {
			switch f[0] {
			case "omit":
				return strconv.FormatBool(binarylog.VerifMetadataKeyOmit(string(unhex(f[1]))))
			case "mdproto":
				md := binlogParseMD(f[1])
				es := binarylog.VerifMdToMetadataProto(md).GetEntry()
				// grouped: the entries of one key are contiguous and are exactly md[key] in order
				grouped := true
				seen := map[string]bool{}
				for i := 0; i < len(es); {
					k := es[i].GetKey()
					if seen[k] {
						grouped = false
					}
					seen[k] = true
					vs, ok := md[k]
					if !ok || i+len(vs) > len(es) {
						grouped = false
						break
					}
					for j, v := range vs {
						if es[i+j].GetKey() != k || string(es[i+j].GetValue()) != v {
							grouped = false
						}
					}
					if len(vs) == 0 {
						grouped = false
						break
					}
					i += len(vs)
				}
				// canonical order: stable sort by key (Go map order is random)
				sorted := append([]*binlogpb.MetadataEntry(nil), es...)
				sort.SliceStable(sorted, func(a, b int) bool { return sorted[a].GetKey() < sorted[b].GetKey() })
				return binlogShowEntries(sorted) + " grouped=" + strconv.FormatBool(grouped)
			case "trunc":
				ml := binarylog.NewTruncatingMethodLogger(atou64(f[1]), binarylog.VerifMaxUInt)
				m := &binlogpb.Metadata{Entry: binlogParseEntries(f[2])}
				tr := ml.VerifTruncateMetadata(m)
				return binlogFlag(tr) + " " + binlogShowEntries(m.GetEntry())
			case "msg":
				ml := binarylog.NewTruncatingMethodLogger(binarylog.VerifMaxUInt, atou64(f[1]))
				data := unhex(f[2])
				orig := append([]byte(nil), data...)
				m := &binlogpb.Message{Length: uint32(len(data)), Data: data}
				tr := ml.VerifTruncateMessage(m)
				if string(orig) != string(data) {
					return "payload-mutated"
				}
				return binlogFlag(tr) + " " + strconv.FormatUint(uint64(m.GetLength()), 10) + " " + tohex(m.GetData())
			case "build":
				ml := binarylog.NewTruncatingMethodLogger(atou64(f[2]), atou64(f[3]))
				var c binarylog.LogEntryConfig
				switch f[1] {
				case "ch":
					c = &binarylog.ClientHeader{OnClientSide: true, Header: binlogParseMD(f[4]), MethodName: "/s/m", Authority: "a"}
				case "sh":
					c = &binarylog.ServerHeader{OnClientSide: false, Header: binlogParseMD(f[4])}
				case "tr":
					c = &binarylog.ServerTrailer{OnClientSide: true, Trailer: binlogParseMD(f[4])}
				case "cm":
					c = &binarylog.ClientMessage{OnClientSide: true, Message: unhex(f[4])}
				case "sm":
					c = &binarylog.ServerMessage{OnClientSide: false, Message: unhex(f[4])}
				default:
					return "bad-op"
				}
				e := ml.Build(c)
				switch f[1] {
				case "ch":
					return binlogFlag(e.GetPayloadTruncated()) + " " + binlogShowEntries(e.GetClientHeader().GetMetadata().GetEntry())
				case "sh":
					return binlogFlag(e.GetPayloadTruncated()) + " " + binlogShowEntries(e.GetServerHeader().GetMetadata().GetEntry())
				case "tr":
					return binlogFlag(e.GetPayloadTruncated()) + " " + binlogShowEntries(e.GetTrailer().GetMetadata().GetEntry())
				default:
					m := e.GetMessage()
					return binlogFlag(e.GetPayloadTruncated()) + " " + strconv.FormatUint(uint64(m.GetLength()), 10) + " " + tohex(m.GetData())
				}
			}
			return "bad-op"
		}
	})
}
