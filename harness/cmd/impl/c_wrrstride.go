package main

import (
	"fmt"
	"math"
	"strconv"
	"strings"
	"time"

	wrr "google.golang.org/grpc/balancer/weightedroundrobin"
)

// component wrrstride (C36): the real edfScheduler / rrScheduler / picker.newScheduler /
// endpointWeight of balancer/weightedroundrobin.
//
//	win <w1,w2,..> <v0> <L>       real edfScheduler, counter at v0, run until L sequence numbers are
//	                              consumed → counts=<picks per backend within the L numbers>
//	                              maxc=<max consumed by a call not crossing 2^32> maxw=<consumed by
//	                              the call crossing 2^32, 0 if none> v=<final counter>
//	edf <w1,..> <v0> | rr <n> <v0>  install a scheduler (harness-owned uint32 counter) → ok
//	next <k>                      k calls of nextIndex → i1,i2,..;v=<counter>
//	scale <bits,bits,..>          picker.newScheduler on endpoints with these float64 weights
//	                              → nil | rr <n> | edf <w,..>
//	cfg <blackout ns> <expiration ns> <penalty bits> ; eps <k> ; adv <ns>
//	report <i> <app> <cpu> <rps> <eps>   (float64 bits) real OnLoadReport → <weightVal bits> <nonEmptySince> <lastUpdated>
//	weight <i>                    real weight(now, exp, blackout) → <bits> <nonEmptySince after>
//	sched <v0>                    real picker over all endpoints (weights via the real weight()) → as scale
func init() {
	register("wrrstride", func() Handler {
		base := time.Date(2024, 1, 1, 0, 0, 0, 0, time.UTC)
		now := base
		restore := wrr.VerifSetTimeNow(func() time.Time { return now })
		_ = restore
		var (
			counter   uint32
			budget    int
			next      func() int
			cfg       = wrr.VerifCfg{Blackout: 10 * time.Second, Expiration: 180 * time.Second, Penalty: 1}
			endpoints []*wrr.VerifEW
			picker    *wrr.VerifPicker
		)
		inc := func() uint32 {
			budget--
			if budget < 0 {
				panic("hang: nextIndex consumed its whole sequence-number budget")
			}
			counter++
			return counter
		}
		relT := func(t time.Time) string {
			if t.Equal(time.Time{}) {
				return "-"
			}
			return strconv.FormatInt(int64(t.Sub(base)), 10)
		}
		bitsList := func(s string) []float64 {
			var r []float64
			if s == "-" {
				return r
			}
			for _, p := range strings.Split(s, ",") {
				r = append(r, math.Float64frombits(atou64(p)))
			}
			return r
		}
		u16List := func(s string) []uint16 {
			var r []uint16
			for _, v := range natList(s) {
				if v < 0 || v > 65535 {
					panic("weight out of uint16 range")
				}
				r = append(r, uint16(v))
			}
			return r
		}
		showSched := func(kind string, n uint32, ws []uint16) string {
			switch kind {
			case "rr":
				return fmt.Sprintf("rr %d", n)
			case "edf":
				l := make([]int64, len(ws))
				for i, w := range ws {
					l[i] = int64(w)
				}
				return "edf " + showNatList(l)
			}
			return kind
		}
		return func(f []string) string {
			switch f[0] {
			case "win":
				ws := u16List(f[1])
				n := len(ws)
				if n == 0 {
					return "bad-op"
				}
				counter = uint32(atou64(f[2]))
				L := atou64(f[3])
				ni := wrr.VerifNewEDF(ws, inc)
				counts := make([]int64, n)
				var used, maxc, maxw uint64
				for used < L {
					start := counter
					budget = 70000 * n
					i := ni()
					c := uint64(counter - start) // uint32 arithmetic: exact across the wrap
					if uint64(start)+c >= 1<<32 {
						maxw = c
					} else if c > maxc {
						maxc = c
					}
					used += c
					if used <= L {
						counts[i]++
					}
				}
				return fmt.Sprintf("counts=%s maxc=%d maxw=%d v=%d", showNatList(counts), maxc, maxw, counter)
			case "edf":
				ws := u16List(f[1])
				if len(ws) == 0 {
					return "bad-op"
				}
				counter = uint32(atou64(f[2]))
				n := len(ws)
				ni := wrr.VerifNewEDF(ws, inc)
				next = func() int { budget = 70000 * n; return ni() }
				picker = nil
				return "ok"
			case "rr":
				n := atou64(f[1])
				if n == 0 {
					return "bad-op"
				}
				counter = uint32(atou64(f[2]))
				ni := wrr.VerifNewRR(uint32(n), inc)
				next = func() int { budget = 1; return ni() }
				picker = nil
				return "ok"
			case "next":
				if next == nil {
					return "no-scheduler"
				}
				k := atoi(f[1])
				out := make([]int64, k)
				for j := range out {
					out[j] = int64(next())
				}
				v := counter
				if picker != nil {
					v = picker.Idx()
				}
				return fmt.Sprintf("%s;v=%d", showNatList(out), v)
			case "scale":
				ws := bitsList(f[1])
				c := wrr.VerifCfg{Blackout: 0, Expiration: time.Hour, Penalty: 1}
				var es []*wrr.VerifEW
				for _, w := range ws {
					e := wrr.VerifNewEW(c)
					e.SetFields(w, now, now)
					es = append(es, e)
				}
				p := wrr.VerifNewPicker(c, es, 0)
				return showSched(p.NewScheduler(false))
			case "cfg":
				cfg = wrr.VerifCfg{Blackout: time.Duration(atoi64(f[1])), Expiration: time.Duration(atoi64(f[2])), Penalty: math.Float64frombits(atou64(f[3]))}
				endpoints, picker, next = nil, nil, nil
				return "ok"
			case "eps":
				endpoints = nil
				for i := 0; i < atoi(f[1]); i++ {
					endpoints = append(endpoints, wrr.VerifNewEW(cfg))
				}
				picker, next = nil, nil
				return "ok"
			case "adv":
				now = now.Add(time.Duration(atoi64(f[1])))
				return "ok"
			case "report":
				i := atoi(f[1])
				if i >= len(endpoints) {
					return "bad-op"
				}
				fl := func(s string) float64 { return math.Float64frombits(atou64(s)) }
				endpoints[i].OnLoadReport(fl(f[2]), fl(f[3]), fl(f[4]), fl(f[5]))
				wv, ne, lu := endpoints[i].Fields()
				return fmt.Sprintf("%d %s %s", math.Float64bits(wv), relT(ne), relT(lu))
			case "weight":
				i := atoi(f[1])
				if i >= len(endpoints) {
					return "bad-op"
				}
				w := endpoints[i].Weight(now, cfg.Expiration, cfg.Blackout, false)
				_, ne, _ := endpoints[i].Fields()
				return fmt.Sprintf("%d %s", math.Float64bits(w), relT(ne))
			case "sched":
				picker = wrr.VerifNewPicker(cfg, endpoints, uint32(atou64(f[1])))
				picker.Guard = func() {
					budget--
					if budget < 0 {
						panic("hang: nextIndex consumed its whole sequence-number budget")
					}
				}
				out := showSched(picker.NewScheduler(false))
				if out == "nil" {
					next = nil
				} else {
					n := len(endpoints)
					p := picker
					next = func() int { budget = 70000 * n; return p.Next() }
				}
				return out
			}
			return "bad-op"
		}
	})
}
