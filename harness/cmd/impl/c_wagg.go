package main

import (
	"errors"
	"fmt"
	"sort"
	"strings"

	"google.golang.org/grpc/balancer"
	"google.golang.org/grpc/balancer/weightedtarget/weightedaggregator"
	"google.golang.org/grpc/experimental/stats"
	"google.golang.org/grpc/grpclog"
	"google.golang.org/grpc/internal"
	igrpclog "google.golang.org/grpc/internal/grpclog"
	istats "google.golang.org/grpc/internal/stats"
	"google.golang.org/grpc/internal/wrr"
	"google.golang.org/grpc/resolver"
)

// component wagg (C35): the real weightedaggregator.Aggregator. Ops/answers: lean/GrpcModel/Driver/Wagg.lean

type waggPicker struct{ child, serial int }

func (p *waggPicker) Pick(balancer.PickInfo) (balancer.PickResult, error) {
	return balancer.PickResult{}, balancer.ErrNoSubConnAvailable
}

type waggItem struct {
	item   any
	weight int64
}

type waggWRR struct{ items []waggItem }

func (w *waggWRR) Add(item any, weight int64) { w.items = append(w.items, waggItem{item, weight}) }
func (w *waggWRR) Next() any {
	if len(w.items) == 0 {
		return nil
	}
	return w.items[0].item
}

type waggCC struct {
	internal.EnforceClientConnEmbedding
	pushed *balancer.State
}

func (cc *waggCC) NewSubConn([]resolver.Address, balancer.NewSubConnOptions) (balancer.SubConn, error) {
	return nil, errors.New("unused")
}
func (cc *waggCC) RemoveSubConn(balancer.SubConn)                       {}
func (cc *waggCC) UpdateAddresses(balancer.SubConn, []resolver.Address) {}
func (cc *waggCC) ResolveNow(resolver.ResolveNowOptions)                {}
func (cc *waggCC) Target() string                                       { return "verif" }
func (cc *waggCC) MetricsRecorder() stats.MetricsRecorder               { return istats.NewMetricsRecorderList(nil) }
func (cc *waggCC) UpdateState(s balancer.State)                         { cc.pushed = &s }

var waggLogger = grpclog.Component("verif-wagg")

func init() {
	register("wagg", func() Handler {
		cc := &waggCC{}
		agg := weightedaggregator.New(cc, igrpclog.NewPrefixLogger(waggLogger, "[wagg] "), func() wrr.WRR { return &waggWRR{} })
		serial := 0
		// which stub picker belongs to which child id: the initial ErrPicker of an entry is anonymous,
		// the group lists (child, picker serial, weight) through the stub pickers only
		added := map[int]bool{}
		stopped := false
		show := func() string {
			out := "-"
			if cc.pushed != nil {
				st := *cc.pushed
				cc.pushed = nil
				pd := "?"
				if w, ok := weightedaggregator.VerifGroupWRR(st.Picker); ok {
					var ms []string
					items := w.(*waggWRR).items
					type m struct{ c, p int; w int64 }
					var l []m
					for _, it := range items {
						if sp, ok := it.item.(*waggPicker); ok {
							l = append(l, m{sp.child, sp.serial, it.weight})
						} else {
							l = append(l, m{0, 0, it.weight}) // initial ErrPicker of a child that never reported: anonymous
						}
					}
					sort.Slice(l, func(i, j int) bool {
						if l[i].c != l[j].c {
							return l[i].c < l[j].c
						}
						return l[i].w < l[j].w
					})
					for _, x := range l {
						ms = append(ms, fmt.Sprintf("%d/%d/%d", x.c, x.p, x.w))
					}
					pd = "g:" + strings.Join(ms, ",")
				} else if _, err := st.Picker.Pick(balancer.PickInfo{}); err == balancer.ErrNoSubConnAvailable {
					pd = "errNoSub"
				} else if err != nil && strings.Contains(err.Error(), "no targets to pick from") {
					pd = "errNoTargets"
				}
				out = lbLetter(st.ConnectivityState) + ";" + pd
			}
			c := agg.VerifCounters()
			return fmt.Sprintf("%s cse=%d,%d,%d,%d", out, c[0], c[1], c[2], c[3])
		}
		return func(f []string) string {
			if stopped {
				return "bad-op" // the aggregator is not used after Stop
			}
			switch f[0] {
			case "start":
				agg.Start()
			case "stop":
				agg.Stop()
				stopped = true
			case "pause":
				agg.PauseStateUpdates()
			case "resume":
				agg.ResumeStateUpdates()
			case "need":
				agg.NeedUpdateStateOnResume()
			case "add":
				id := atoi(f[1])
				if added[id] {
					return "bad-op" // an id is added once until it is removed
				}
				added[id] = true
				agg.Add(fmt.Sprint(id), uint32(atoi(f[2])))
			case "remove":
				id := atoi(f[1])
				delete(added, id)
				agg.Remove(fmt.Sprint(id))
			case "weight":
				agg.UpdateWeight(f[1], uint32(atoi(f[2])))
			case "upd":
				if added[atoi(f[1])] {
					serial++
				}
				agg.UpdateState(f[1], balancer.State{ConnectivityState: lbState(f[2]), Picker: &waggPicker{atoi(f[1]), serial}})
			default:
				return "bad-op"
			}
			return show()
		}
	})
}
