package main

import (
	"context"
	"crypto/tls"
	"crypto/x509"
	"crypto/x509/pkix"
	"encoding/json"
	"net"
	"net/netip"
	"net/url"
	"strconv"
	"time"

	v3corepb "github.com/envoyproxy/go-control-plane/envoy/config/core/v3"
	v3rbacpb "github.com/envoyproxy/go-control-plane/envoy/config/rbac/v3"
	v3routepb "github.com/envoyproxy/go-control-plane/envoy/config/route/v3"
	v3matcherpb "github.com/envoyproxy/go-control-plane/envoy/type/matcher/v3"
	v3typepb "github.com/envoyproxy/go-control-plane/envoy/type/v3"
	"google.golang.org/grpc"
	"google.golang.org/grpc/authz"
	"google.golang.org/grpc/codes"
	"google.golang.org/grpc/credentials"
	"google.golang.org/grpc/internal/transport"
	"google.golang.org/grpc/internal/xds/rbac"
	"google.golang.org/grpc/metadata"
	"google.golang.org/grpc/peer"
	"google.golang.org/grpc/status"
	"google.golang.org/protobuf/types/known/wrapperspb"
)

// component rbac (C48): see lean/GrpcModel/Driver/Rbac.lean for the op grammar.
//
//	chain …  → real rbac.NewChainEngine on real v3 RBAC protos
//	authz …  → real authz.NewStatic on the policy rendered as JSON
//	req …    → real ChainEngine.IsAuthorized / StaticInterceptor.UnaryInterceptor on a context carrying
//	           synthetic metadata, peer (address, TLS certificates), method and connection

type rbacToks struct {
	f []string
	i int
}

func (t *rbacToks) tok() string {
	if t.i >= len(t.f) {
		panic("rbac: short op")
	}
	s := t.f[t.i]
	t.i++
	return s
}
func (t *rbacToks) nat() int    { return atoi(t.tok()) }
func (t *rbacToks) str() string { return string(unhex(t.tok())) }
func (t *rbacToks) bool01() bool {
	switch t.tok() {
	case "1":
		return true
	case "0":
		return false
	}
	panic("rbac: bad bool")
}

func (t *rbacToks) strm() *v3matcherpb.StringMatcher {
	k, ic, s := t.tok(), t.bool01(), t.str()
	m := &v3matcherpb.StringMatcher{IgnoreCase: ic}
	switch k {
	case "ex":
		m.MatchPattern = &v3matcherpb.StringMatcher_Exact{Exact: s}
	case "pf":
		m.MatchPattern = &v3matcherpb.StringMatcher_Prefix{Prefix: s}
	case "sf":
		m.MatchPattern = &v3matcherpb.StringMatcher_Suffix{Suffix: s}
	case "ct":
		m.MatchPattern = &v3matcherpb.StringMatcher_Contains{Contains: s}
	case "re":
		m.MatchPattern = &v3matcherpb.StringMatcher_SafeRegex{SafeRegex: &v3matcherpb.RegexMatcher{Regex: s}}
	case "un":
	case "nil":
		return nil
	default:
		panic("rbac: bad strm")
	}
	return m
}

func (t *rbacToks) hdr() *v3routepb.HeaderMatcher {
	h := &v3routepb.HeaderMatcher{Name: t.str(), InvertMatch: t.bool01()}
	switch t.tok() {
	case "ex":
		h.HeaderMatchSpecifier = &v3routepb.HeaderMatcher_ExactMatch{ExactMatch: t.str()}
	case "re":
		h.HeaderMatchSpecifier = &v3routepb.HeaderMatcher_SafeRegexMatch{SafeRegexMatch: &v3matcherpb.RegexMatcher{Regex: t.str()}}
	case "pf":
		h.HeaderMatchSpecifier = &v3routepb.HeaderMatcher_PrefixMatch{PrefixMatch: t.str()}
	case "sf":
		h.HeaderMatchSpecifier = &v3routepb.HeaderMatcher_SuffixMatch{SuffixMatch: t.str()}
	case "ct":
		h.HeaderMatchSpecifier = &v3routepb.HeaderMatcher_ContainsMatch{ContainsMatch: t.str()}
	case "rg":
		lo, hi := atoi64(t.tok()), atoi64(t.tok())
		h.HeaderMatchSpecifier = &v3routepb.HeaderMatcher_RangeMatch{RangeMatch: &v3typepb.Int64Range{Start: lo, End: hi}}
	case "pr":
		h.HeaderMatchSpecifier = &v3routepb.HeaderMatcher_PresentMatch{PresentMatch: t.bool01()}
	case "sm":
		h.HeaderMatchSpecifier = &v3routepb.HeaderMatcher_StringMatch{StringMatch: t.strm()}
	case "un":
	default:
		panic("rbac: bad hdr")
	}
	return h
}

func ipOf(raw []byte) netip.Addr {
	switch len(raw) {
	case 4:
		return netip.AddrFrom4([4]byte(raw))
	case 16:
		return netip.AddrFrom16([16]byte(raw))
	}
	panic("rbac: bad ip length")
}

func (t *rbacToks) cidr() *v3corepb.CidrRange {
	switch t.tok() {
	case "c4", "c6":
		a := ipOf(unhex(t.tok()))
		return &v3corepb.CidrRange{AddressPrefix: a.String(), PrefixLen: wrapperspb.UInt32(uint32(t.nat()))}
	case "cbad":
		return &v3corepb.CidrRange{AddressPrefix: "not-an-ip", PrefixLen: wrapperspb.UInt32(uint32(t.nat()))}
	}
	panic("rbac: bad cidr")
}

func (t *rbacToks) perms() []*v3rbacpb.Permission {
	n := t.nat()
	l := make([]*v3rbacpb.Permission, 0, n)
	for i := 0; i < n; i++ {
		l = append(l, t.perm())
	}
	return l
}

func (t *rbacToks) perm() *v3rbacpb.Permission {
	switch t.tok() {
	case "and":
		return &v3rbacpb.Permission{Rule: &v3rbacpb.Permission_AndRules{AndRules: &v3rbacpb.Permission_Set{Rules: t.perms()}}}
	case "or":
		return &v3rbacpb.Permission{Rule: &v3rbacpb.Permission_OrRules{OrRules: &v3rbacpb.Permission_Set{Rules: t.perms()}}}
	case "any":
		return &v3rbacpb.Permission{Rule: &v3rbacpb.Permission_Any{Any: true}}
	case "hdr":
		return &v3rbacpb.Permission{Rule: &v3rbacpb.Permission_Header{Header: t.hdr()}}
	case "path":
		return &v3rbacpb.Permission{Rule: &v3rbacpb.Permission_UrlPath{UrlPath: pathMatcher(t.strm())}}
	case "dip":
		return &v3rbacpb.Permission{Rule: &v3rbacpb.Permission_DestinationIp{DestinationIp: t.cidr()}}
	case "dport":
		return &v3rbacpb.Permission{Rule: &v3rbacpb.Permission_DestinationPort{DestinationPort: uint32(t.nat())}}
	case "not":
		return &v3rbacpb.Permission{Rule: &v3rbacpb.Permission_NotRule{NotRule: t.perm()}}
	case "meta":
		return &v3rbacpb.Permission{Rule: &v3rbacpb.Permission_Metadata{Metadata: &v3matcherpb.MetadataMatcher{Invert: t.bool01()}}}
	case "sni":
		return &v3rbacpb.Permission{Rule: &v3rbacpb.Permission_RequestedServerName{RequestedServerName: t.strm()}}
	case "unsup":
		return &v3rbacpb.Permission{Rule: &v3rbacpb.Permission_DestinationPortRange{DestinationPortRange: &v3typepb.Int32Range{Start: 1, End: 65535}}}
	}
	panic("rbac: bad perm")
}

func pathMatcher(m *v3matcherpb.StringMatcher) *v3matcherpb.PathMatcher {
	if m == nil {
		return &v3matcherpb.PathMatcher{}
	}
	return &v3matcherpb.PathMatcher{Rule: &v3matcherpb.PathMatcher_Path{Path: m}}
}

func (t *rbacToks) prins() []*v3rbacpb.Principal {
	n := t.nat()
	l := make([]*v3rbacpb.Principal, 0, n)
	for i := 0; i < n; i++ {
		l = append(l, t.prin())
	}
	return l
}

func (t *rbacToks) prin() *v3rbacpb.Principal {
	switch t.tok() {
	case "and":
		return &v3rbacpb.Principal{Identifier: &v3rbacpb.Principal_AndIds{AndIds: &v3rbacpb.Principal_Set{Ids: t.prins()}}}
	case "or":
		return &v3rbacpb.Principal{Identifier: &v3rbacpb.Principal_OrIds{OrIds: &v3rbacpb.Principal_Set{Ids: t.prins()}}}
	case "any":
		return &v3rbacpb.Principal{Identifier: &v3rbacpb.Principal_Any{Any: true}}
	case "auth":
		return &v3rbacpb.Principal{Identifier: &v3rbacpb.Principal_Authenticated_{Authenticated: &v3rbacpb.Principal_Authenticated{PrincipalName: t.strm()}}}
	case "rip":
		k := t.nat()
		c := t.cidr()
		switch k {
		case 0:
			return &v3rbacpb.Principal{Identifier: &v3rbacpb.Principal_DirectRemoteIp{DirectRemoteIp: c}}
		case 1:
			return &v3rbacpb.Principal{Identifier: &v3rbacpb.Principal_SourceIp{SourceIp: c}}
		default:
			return &v3rbacpb.Principal{Identifier: &v3rbacpb.Principal_RemoteIp{RemoteIp: c}}
		}
	case "hdr":
		return &v3rbacpb.Principal{Identifier: &v3rbacpb.Principal_Header{Header: t.hdr()}}
	case "path":
		return &v3rbacpb.Principal{Identifier: &v3rbacpb.Principal_UrlPath{UrlPath: pathMatcher(t.strm())}}
	case "meta":
		return &v3rbacpb.Principal{Identifier: &v3rbacpb.Principal_Metadata{Metadata: &v3matcherpb.MetadataMatcher{Invert: t.bool01()}}}
	case "not":
		return &v3rbacpb.Principal{Identifier: &v3rbacpb.Principal_NotId{NotId: t.prin()}}
	case "unsup":
		return &v3rbacpb.Principal{}
	}
	panic("rbac: bad prin")
}

func (t *rbacToks) engine() *v3rbacpb.RBAC {
	e := &v3rbacpb.RBAC{Policies: map[string]*v3rbacpb.Policy{}}
	switch t.tok() {
	case "A":
		e.Action = v3rbacpb.RBAC_ALLOW
	case "D":
		e.Action = v3rbacpb.RBAC_DENY
	case "L":
		e.Action = v3rbacpb.RBAC_LOG
	default:
		panic("rbac: bad action")
	}
	n := t.nat()
	for i := 0; i < n; i++ {
		perms := t.perms()
		prins := t.prins()
		e.Policies["p"+strconv.Itoa(i)] = &v3rbacpb.Policy{Permissions: perms, Principals: prins}
	}
	return e
}

// SDK policy → JSON (the shape authz.translatePolicy decodes)
type rbacJHeader struct {
	Key    string   `json:"key"`
	Values []string `json:"values"`
}
type rbacJPeer struct {
	Principals []string `json:"principals,omitempty"`
}
type rbacJRequest struct {
	Paths   []string      `json:"paths,omitempty"`
	Headers []rbacJHeader `json:"headers,omitempty"`
}
type rbacJRule struct {
	Name    string       `json:"name"`
	Source  rbacJPeer    `json:"source"`
	Request rbacJRequest `json:"request"`
}
type rbacJPolicy struct {
	Name       string      `json:"name"`
	DenyRules  []rbacJRule `json:"deny_rules,omitempty"`
	AllowRules []rbacJRule `json:"allow_rules,omitempty"`
}

func (t *rbacToks) strs() []string {
	n := t.nat()
	var l []string
	for i := 0; i < n; i++ {
		l = append(l, t.str())
	}
	return l
}

func (t *rbacToks) rules() []rbacJRule {
	n := t.nat()
	var l []rbacJRule
	for i := 0; i < n; i++ {
		r := rbacJRule{Name: t.str()}
		r.Source.Principals = t.strs()
		r.Request.Paths = t.strs()
		nh := t.nat()
		for j := 0; j < nh; j++ {
			h := rbacJHeader{Key: t.str()}
			h.Values = t.strs()
			if h.Values == nil {
				h.Values = []string{}
			}
			r.Request.Headers = append(r.Request.Headers, h)
		}
		l = append(l, r)
	}
	return l
}

type rbacAddr struct{ s string }

func (a rbacAddr) Network() string { return "tcp" }
func (a rbacAddr) String() string  { return a.s }

func (t *rbacToks) addr() net.Addr {
	switch t.tok() {
	case "t4", "t6":
		raw := unhex(t.tok())
		return &net.TCPAddr{IP: net.IP(raw), Port: t.nat()}
	case "r4", "r6":
		return rbacAddr{ipOf(unhex(t.tok())).String()}
	case "nm":
		return rbacAddr{"bufconn"}
	}
	panic("rbac: bad addr")
}

// an AuthInfo that claims "tls" without being credentials.TLSInfo
type rbacOtherAuth struct{ credentials.CommonAuthInfo }

func (rbacOtherAuth) AuthType() string { return "tls" }

func (t *rbacToks) auth() credentials.AuthInfo {
	switch t.tok() {
	case "none":
		return nil
	case "other":
		return rbacOtherAuth{}
	case "tls":
		n := t.nat()
		var certs []*x509.Certificate
		for i := 0; i < n; i++ {
			c := &x509.Certificate{}
			for _, u := range t.strs() {
				pu, err := url.Parse(u)
				if err != nil || pu.String() != u {
					panic("rbac: uri does not round-trip: " + u)
				}
				c.URIs = append(c.URIs, pu)
			}
			c.DNSNames = t.strs()
			c.Subject = pkix.Name{CommonName: t.str()}
			certs = append(certs, c)
		}
		return credentials.TLSInfo{State: tls.ConnectionState{PeerCertificates: certs}}
	}
	panic("rbac: bad auth")
}

type rbacConn struct{ local net.Addr }

func (c rbacConn) Read([]byte) (int, error)         { return 0, net.ErrClosed }
func (c rbacConn) Write([]byte) (int, error)        { return 0, net.ErrClosed }
func (c rbacConn) Close() error                     { return nil }
func (c rbacConn) LocalAddr() net.Addr              { return c.local }
func (c rbacConn) RemoteAddr() net.Addr             { return rbacAddr{"remote"} }
func (c rbacConn) SetDeadline(time.Time) error      { return nil }
func (c rbacConn) SetReadDeadline(time.Time) error  { return nil }
func (c rbacConn) SetWriteDeadline(time.Time) error { return nil }

type rbacStream struct{ method string }

func (s *rbacStream) Method() string               { return s.method }
func (s *rbacStream) SetHeader(metadata.MD) error  { return nil }
func (s *rbacStream) SendHeader(metadata.MD) error { return nil }
func (s *rbacStream) SetTrailer(metadata.MD) error { return nil }

func (t *rbacToks) request() context.Context {
	missing := t.tok()
	path := t.str()
	md := metadata.MD{}
	n := t.nat()
	for i := 0; i < n; i++ {
		k := t.str()
		vs := t.strs()
		if vs == nil {
			vs = []string{}
		}
		md[k] = vs
	}
	src := t.addr()
	dst := t.addr()
	ai := t.auth()
	ctx := context.Background()
	if missing != "md" {
		ctx = metadata.NewIncomingContext(ctx, md)
	}
	if missing != "peer" {
		ctx = peer.NewContext(ctx, &peer.Peer{Addr: src, AuthInfo: ai})
	}
	if missing != "method" {
		ctx = grpc.NewContextWithServerTransportStream(ctx, &rbacStream{method: path})
	}
	if missing != "conn" {
		ctx = transport.SetConnection(ctx, rbacConn{local: dst})
	}
	return ctx
}

func rbacDecision(err error, icpt, called bool) string {
	switch status.Code(err) {
	case codes.OK:
		if err != nil {
			return "non-status-error"
		}
		if icpt && !called {
			return "allow-but-handler-not-run"
		}
		return "allow"
	case codes.PermissionDenied:
		if icpt && called {
			return "deny-but-handler-run"
		}
		return "deny"
	case codes.Internal:
		return "internal"
	}
	return "code-" + status.Code(err).String()
}

func init() {
	register("rbac", func() Handler {
		var chain *rbac.ChainEngine
		var static *authz.StaticInterceptor
		return func(f []string) string {
			t := &rbacToks{f: f, i: 1}
			switch f[0] {
			case "chain":
				chain, static = nil, nil
				n := t.nat()
				var engines []*v3rbacpb.RBAC
				for i := 0; i < n; i++ {
					engines = append(engines, t.engine())
				}
				if t.i != len(f) {
					return "bad-op"
				}
				c, err := rbac.NewChainEngine(engines, "verif")
				if err != nil {
					return "builderr"
				}
				chain = c
				return "built"
			case "authz":
				chain, static = nil, nil
				p := rbacJPolicy{Name: t.str()}
				p.DenyRules = t.rules()
				p.AllowRules = t.rules()
				if t.i != len(f) {
					return "bad-op"
				}
				js, err := json.Marshal(p)
				if err != nil {
					panic(err)
				}
				s, err := authz.NewStatic(string(js))
				if err != nil {
					return "builderr"
				}
				static = s
				return "built"
			case "json": // debugging aid: the JSON the `authz` op would feed to NewStatic
				p := rbacJPolicy{Name: t.str()}
				p.DenyRules = t.rules()
				p.AllowRules = t.rules()
				js, _ := json.Marshal(p)
				return string(js)
			case "req":
				ctx := t.request()
				if t.i != len(f) {
					return "bad-op"
				}
				switch {
				case chain != nil:
					return rbacDecision(chain.IsAuthorized(ctx), false, false)
				case static != nil:
					called := false
					_, err := static.UnaryInterceptor(ctx, nil, &grpc.UnaryServerInfo{FullMethod: "ignored"},
						func(context.Context, any) (any, error) { called = true; return nil, nil })
					return rbacDecision(err, true, called)
				}
				return "nochain"
			}
			return "bad-op"
		}
	})
}
