package main

import (
	"strconv"
	"strings"

	spb "google.golang.org/genproto/googleapis/rpc/status"
	"google.golang.org/grpc/codes"
	istatus "google.golang.org/grpc/internal/status"
	"google.golang.org/grpc/internal/transport"
	"google.golang.org/protobuf/proto"
	"google.golang.org/protobuf/types/known/anypb"
)

// component statusfn (C10, T1): the pure functions on the status path.
//
//	encmsg <hex>                      encodeGrpcMessage          -> hex
//	decmsg <hex>                      decodeGrpcMessage          -> hex
//	b64enc <hex>                      encodeBinHeader            -> hex of the header text
//	b64dec <hex>                      decodeBinHeader            -> ok <hex> | err
//	marshal <code> <msghex> <details> proto.Marshal(spb.Status)  -> ok <hex> | err
//	unmarshal <hex>                   proto.Unmarshal            -> ok <code> <msghex> <details> | err
//	nwp <code> <msghex> <v,v|->       istatus.NewWithProto       -> st <code> <msghex> <details> | mismatch
func sfDetails(s string) []*anypb.Any {
	if s == "-" {
		return nil
	}
	var out []*anypb.Any
	for _, p := range strings.Split(s, ",") {
		uv := strings.SplitN(p, ".", 2)
		out = append(out, &anypb.Any{TypeUrl: string(unhex(uv[0])), Value: unhex(uv[1])})
	}
	return out
}

func sfShowDetails(ds []*anypb.Any) string {
	if len(ds) == 0 {
		return "-"
	}
	parts := make([]string, len(ds))
	for i, d := range ds {
		parts[i] = tohex([]byte(d.GetTypeUrl())) + "." + tohex(d.GetValue())
	}
	return strings.Join(parts, ",")
}

func sfShow(p *spb.Status) string {
	return strconv.FormatUint(uint64(uint32(p.GetCode())), 10) + " " + tohex([]byte(p.GetMessage())) + " " + sfShowDetails(p.GetDetails())
}

func init() {
	register("statusfn", func() Handler {
		return func(f []string) string {
			switch f[0] {
			case "encmsg":
				return tohex([]byte(transport.VerifMdwEncodeGrpcMessage(string(unhex(f[1])))))
			case "decmsg":
				return tohex([]byte(transport.VerifMdwDecodeGrpcMessage(string(unhex(f[1])))))
			case "b64enc":
				return tohex([]byte(transport.VerifMdwEncodeBinHeader(unhex(f[1]))))
			case "b64dec":
				b, err := transport.VerifMdwDecodeBinHeader(string(unhex(f[1])))
				if err != nil {
					return "err"
				}
				return "ok " + tohex(b)
			case "marshal":
				p := &spb.Status{Code: int32(uint32(atou64(f[1]))), Message: string(unhex(f[2])), Details: sfDetails(f[3])}
				b, err := proto.Marshal(p)
				if err != nil {
					return "err"
				}
				return "ok " + tohex(b)
			case "unmarshal":
				p := &spb.Status{}
				if err := proto.Unmarshal(unhex(f[1]), p); err != nil {
					return "err"
				}
				return "ok " + sfShow(p)
			case "nwp":
				var vals []string
				if f[3] != "-" {
					for _, v := range strings.Split(f[3], ",") {
						if v == "~" {
							vals = append(vals, "")
						} else {
							vals = append(vals, string(unhex(v)))
						}
					}
				}
				code := codes.Code(uint32(atou64(f[1])))
				msg := string(unhex(f[2]))
				st := istatus.NewWithProto(code, msg, vals)
				p := st.Proto()
				// the mismatch message embeds a protobuf text rendering (unstable by design): print a token
				if len(vals) == 1 && st.Code() == codes.Internal && strings.HasPrefix(p.GetMessage(), "grpc-status-details-bin mismatch: ") {
					return "mismatch"
				}
				return "st " + sfShow(p)
			}
			return "bad-op"
		}
	})
}
