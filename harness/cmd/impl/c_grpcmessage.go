package main

import (
	"google.golang.org/grpc/internal/transport"
)

// component grpcmessage (C08): enc|encu|dec|decu|rt <hex>
func init() {
	register("grpcmessage", func() Handler {
		return func(f []string) string {
			if len(f) != 2 {
				return "bad-op"
			}
			m := string(unhex(f[1]))
			switch f[0] {
			case "enc":
				return tohex([]byte(transport.VerifEncodeGrpcMessage(m)))
			case "encu":
				return tohex([]byte(transport.VerifEncodeGrpcMessageUnchecked(m)))
			case "dec":
				return tohex([]byte(transport.VerifDecodeGrpcMessage(m)))
			case "decu":
				return tohex([]byte(transport.VerifDecodeGrpcMessageUnchecked(m)))
			case "rt":
				e := transport.VerifEncodeGrpcMessage(m)
				return tohex([]byte(e)) + " " + tohex([]byte(transport.VerifDecodeGrpcMessage(e)))
			}
			return "bad-op"
		}
	})
}
