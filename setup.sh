#!/bin/sh
# Offline build of the framework from files on disk: Lean models + proofs + driver, Go tools.
set -e
cd "$(dirname "$0")"
mkdir -p .build evidence
python3 tools/genmain.py
(cd lean && lake build)
python3 - <<'PY'
import sys, os
sys.path.insert(0, os.getcwd())
from vlib import core
with core.Lock():
    core.build_extract()
    core.build_impl()
print("setup ok")
PY
