#!/bin/sh
# Offline build of the framework from files on disk: Lean models + proofs + driver, Go tools.
set -e
cd "$(dirname "$0")"
mkdir -p .build evidence
python3 tools/genmain.py
python3 - <<'PY'
import sys, os
sys.path.insert(0, os.getcwd())
from vlib import core
with core.Lock():
    core.build_extract()
    try:
        core.run_t4(sorted(f[:-5] for f in os.listdir("tools/t4") if f.endswith(".json")))
    except core.Broken as b:
        print("setup: T4:", b.what)   # reported per property by the checks
    core.build_impl(True)
PY
(cd lean && lake build)
echo "setup ok"
