"""C22 Deadlines and cancellation propagate to both ends (partial)."""
from vlib.core import Case

ID = "C22"
COMPONENTS = ["s_deadline"]
T4 = ["Deadline", "Timeout"]
PROOF_MODULES = ["GrpcProofs.Properties.C22"]
THEOREMS = ["GrpcProofs.C22." + t for t in (
    "every_block_point_listens_to_ctx", "watcher_relays_ctx", "wf_reachable", "terminal_code",
    "parked_rpc_returns_ctx_code", "parked_mid_message_returns_ctx_code", "parked_wquota_unblocked", "finished_stream_returns_code",
    "ctx_done_never_blocks", "unary_never_parked_on_wquota",
    "cancel_anywhere_releases_stream", "released_stream_recv_returns_code",
    "server_deadline_ge_client_remaining", "expired_deadline_not_sent",
    "server_ctx_cancelled_on_rst", "server_ctx_cancelled_by_deadline", "server_expiry_is_deadline_exceeded",
    "server_ctx_err_sticky")]
DESIGN_REF = "DESIGN.md section 8, C22"
TECHNIQUE = ("Lean 4 model of the client RPC goroutine as a state machine over its five blocking selects (pick, NewStream stream "
             "quota, writeQuota.get, waitOnHeader, recvBufferReader) with the newClientStream watcher, closeStream/finish and the "
             "recv buffer; inductive well-formedness invariant over all event sequences and select choices; C07's round-trip "
             "theorem reused for the grpc-timeout header; tie T2: a real grpc.ClientConn and grpc.Server over bufconn inside a "
             "testing/synctest bubble, the RPC parked at each blocking point by construction (its goroutine's stack is read to "
             "confirm where), cancel / deadline fired at chosen virtual instants")
LEVEL_TEXT = ("Machine-checked Lean proofs that, in every reachable state of the modelled client path (unary and streaming RPCs, any "
              "environment events, any select choices), an RPC genuinely parked at pick / stream quota / header wait / receive "
              "returns CANCELLED or DEADLINE_EXCEEDED in the very step its context is done, that one parked on write quota (only a "
              "streaming RPC can be) is released with that status fixed and gets it from the RecvMsg calls that drain what was "
              "buffered, that a stream the application made with NewStream (whatever its StreamDesc) is closed with RST_STREAM in the "
              "very step its context is done even when the application is not inside any grpc call, that after the context is done "
              "no blocking point can block again, that the handler's deadline "
              "arrival+decode(encode(remaining)) is never earlier than the client's (C07) and that RST_STREAM or the deadline "
              "cancels the handler's context. The model is diffed against real client+server under virtual time on every run.")
LEVEL_NOTE = ("PARTIAL. The context watcher started by newClientStream for every stream that is not cc.Invoke's internal descriptor is "
              "modelled as such (St.streaming = made through NewStream, any StreamDesc flags): theorem cancel_anywhere_releases_stream "
              "covers the time the application is between two calls, and the tie drives unary-shaped hand-made streams too. Readings: 'blocked' = parked with no other select case ready (the T2 scenarios construct exactly that); when "
              "another case is ready at the same moment Go's select may take it and the RPC proceeds to the next blocking point, "
              "which again listens to the context (ctx_done_never_blocks) - it may then complete with the server's status. "
              "'Flow control' is not a place where the application goroutine blocks in grpc-go: data waits in loopy; the goroutine "
              "is then parked on write quota (next SendMsg) or in receive - both covered (scenarios wquota, window). Receive has two "
              "selects with the same case set (readMessageHeaderClient before a message, readClient inside one): one model position "
              "`recv` with the flag midMsg; the tie parks a unary RPC in each (scenarios recv / recvbody, told apart on the stack). writeQuota.get "
              "has no ctx case: it listens to s.done, closed by the watcher goroutine that newClientStream starts for non-unary RPCs "
              "only; a unary RPC never parks there (theorem unary_never_parked_on_wquota, initial quota 65536 > 0, one message). "
              "Handler ctx.Err() when the server's own deadline and the client's RST_STREAM coincide (exactly representable "
              "timeout) is a genuine race (both outcomes observed): the model answers `*` and the monitor accepts either. "
              "Trusted: Lean kernel; the hand model; testing/synctest; reading the goroutine stack for the parking place.")
GAP = ("'bounded time' is 0 ns of VIRTUAL time in a quiescent bubble; wall-clock latency (scheduler, network, a peer that does not "
       "read the RST_STREAM) is outside the model; a picker that keeps updating while the context is done is only probabilistically "
       "left (Go's random select); retries, hedging, interceptors and stats handlers are not modelled; server deadline >= client's "
       "assumes the header does not arrive before it was sent (clock skew between hosts is irrelevant: both sides use durations)")
ASSUMPTIONS = ["0 < timeout <= MaxInt64 ns", "contexts are context.WithCancel/WithTimeout (Err() is Canceled or DeadlineExceeded)",
               "no retry policy / transparent retry during the scenario", "frames for a closed stream are dropped (closeStream first caller wins)"]
RULE = ("application-driven streams made with cc.NewStream for all four StreamDesc shapes (ClientStreams x ServerStreams, including "
        "neither) against a silent or headers-first handler: cancel / deadline fired right after NewStream, after SendMsg with no "
        "RecvMsg pending, after several sends, while parked in RecvMsg, while parked in SendMsg on write quota, and after random "
        "call walks; then RecvMsg / SendMsg / server events are queried. And for each of the 7 parking scenarios (pick, squota, wquota, window, header, recv = waiting for a message to begin, recvbody = in the middle of a message: a scripted raw HTTP/2 server sent a message header announcing 100 bytes and only 10 of them): deadline RPCs with timeouts at every "
        "grpc-timeout unit boundary (exactly representable and not: n/u/m/S/M/H, 8-digit limits, +-1 ns), advanced to deadline-1, "
        "deadline, deadline+1 in one or several steps; cancel before / at / after the deadline, cancel without deadline, double "
        "cancel; server events queried before and after; malformed ops. A case is non-trivial if the real RPC was parked (`at:`) and "
        "returned through a context event; distinct = distinct op sequence.")

S = 10 ** 9
SCEN = ["pick", "squota", "wquota", "window", "header", "recv", "recvbody"]
TIMEOUTS = [1, 2, 999, 1000, 1001, 99999999, 100000000, 100000001, 5 * S, 123456789123, 99999999999, 100000000001,
            60 * S, 3600 * S, 99999999 * 1000 + 1, 99999999 * 10 ** 6 + 1, 6 * 10 ** 15 + 1, 99999999 * 60 * S + 7, 3 * 10 ** 17 + 1]


HOUR = 3600 * S


def one(rng, sc, to, mode):
    ops = ["start " + sc, "rpc %d" % to]
    if to > HOUR:
        # reaching such a deadline would replay years of keepalive / reconnect timers: check the handler's
        # deadline (header encoding in the M / H units), then cancel
        a = rng.choice([0, 1, 7 * S, 59 * 60 * S])
        return ops + ["srv", "adv %d" % a, "cancel", "srv", "cancel", "adv 1", "srv"]
    if rng.random() < 0.5:
        ops.append("srv")
    if mode == "deadline":
        k = rng.choice([0, 1, 2])
        if to > 1 and k >= 1:
            a = rng.randrange(0, to) if k == 1 or to < 3 else to - 1
            ops += ["adv %d" % a]
            if rng.random() < 0.3:
                ops.append("srv")
            ops += ["adv %d" % (to - a - 1), "adv 1"] if (to - a - 1) >= 0 and rng.random() < 0.5 else ["adv %d" % (to - a)]
        else:
            ops += ["adv %d" % (to + rng.choice([0, 0, 1, 1000]))]
        ops += ["srv", "cancel", "adv %d" % rng.choice([1, 1000, S]), "srv"]
    elif mode == "cancel":
        a = rng.randrange(0, to) if to > 0 else rng.choice([0, 1, 5 * S])
        ops += ["adv %d" % a, "cancel", "srv", "cancel"]
        if to > 0:
            ops += ["adv %d" % (to - a), "adv 1"]
        ops += ["srv"]
    else:   # cancel exactly at the deadline instant, after the timer
        ops += ["adv %d" % to, "cancel", "srv", "adv 5", "srv"]
    return ops


APP_TIMEOUTS = [0, 0, 0, 7, 1000, 5 * S, 100000001, 123456789123]


def app_case(rng, c, ss, h, to, shape):
    """an application-driven stream made with cc.NewStream(StreamDesc{ClientStreams: c, ServerStreams: ss}); the context is
    done while the application is NOT inside a grpc call (shapes 0-2), or parked in SendMsg / RecvMsg (3-5)"""
    ops = ["start app", "new %d %d %d %d" % (c, ss, h, to)]
    if rng.random() < 0.5:
        ops.append("srv")
    fire = ["cancel"] if to == 0 or rng.random() < 0.5 else ["adv %d" % (to - 1), "adv 1"] if to > 1 and rng.random() < 0.5 else ["adv %d" % to]
    small = rng.choice([0, 1, 10, 1000, 60000])
    if shape == 0:        # right after NewStream, nothing sent
        pre = []
    elif shape == 1:      # request sent, RecvMsg not called yet (a unary-shaped call made by hand)
        pre = ["send %d" % small]
    elif shape == 2:      # several messages sent, window partly used
        pre = ["send %d" % small, "send %d" % rng.choice([1, 5000, 70000]), "send 3"]
    elif shape == 3:      # parked in RecvMsg (header wait or receive)
        pre = (["send %d" % small] if rng.random() < 0.7 else []) + ["recv"]
    elif shape == 4:      # parked in SendMsg on write quota
        pre = ["send 200000", "send %d" % rng.choice([1, 100, 70000])]
    else:                 # a random walk of calls
        pre = []
        for _ in range(rng.randrange(1, 6)):
            pre.append(rng.choice(["send %d" % rng.choice([0, 1, 100, 30000, 70000, 200000]), "send 5", "recv"]))
            if pre[-1] == "recv":
                break
    tail = ["srv", "recv", "send 1", "srv", "cancel", "adv %d" % rng.choice([1, 1000, S]), "srv"]
    if rng.random() < 0.3:
        tail = ["srv", "send 1", "recv", "srv"]
    ops = ops + pre + fire + tail
    if c == 0:
        # a non-client-streaming RPC sends exactly one message (a second SendMsg is a usage error that ends the
        # stream with INTERNAL - not part of this property): keep only the first send
        seen, out = False, []
        for o in ops:
            if o.startswith("send "):
                if seen:
                    continue
                seen = True
            out.append(o)
        ops = out
    return ops


def gen_app(rng, reps):
    i = 0
    for _ in range(reps):
        for c in (0, 1):
            for ss in (0, 1):
                for shape in range(6):
                    h = rng.randrange(2)
                    to = rng.choice(APP_TIMEOUTS)
                    yield Case("s_deadline", app_case(rng, c, ss, h, to, shape), "app-%d%d-shape%d-%d" % (c, ss, shape, i)); i += 1
                # every desc shape also with the other handler kind and no deadline: pure cancellation
                yield Case("s_deadline", app_case(rng, c, ss, 1 - rng.randrange(2), 0, rng.randrange(3)), "app-%d%d-cancel-%d" % (c, ss, i)); i += 1
    yield Case("s_deadline", ["start app", "rpc 5", "send 1", "recv", "new 0 0 0", "new 2 0 0 0", "new 1 0 0 0", "new 1 0 0 0", "send x",
                              "send 1", "recv", "recv", "send 1", "cancel", "srv", "recv", "send 1"], "app-malformed")
    yield Case("s_deadline", ["start recv", "new 0 0 0 0", "send 1", "recv", "rpc 0", "cancel", "srv"], "app-ops-in-other-scenario")


def gen(rng, tier):
    yield from gen_app(rng, {"quick": 2, "thorough": 60, "search": 10}[tier])
    yield from gen_rpc(rng, tier)


def gen_rpc(rng, tier):
    reps = {"quick": 2, "thorough": 80, "search": 10}[tier]
    i = 0
    for _ in range(reps):
        for sc in SCEN:
            for to in TIMEOUTS:
                yield Case("s_deadline", one(rng, sc, to, "deadline"), "%s-deadline-%d" % (sc, i)); i += 1
                if rng.random() < 0.5:
                    yield Case("s_deadline", one(rng, sc, to, "cancel"), "%s-cancel-%d" % (sc, i)); i += 1
                if rng.random() < 0.2:
                    yield Case("s_deadline", one(rng, sc, to, "both"), "%s-both-%d" % (sc, i)); i += 1
            for _ in range(3):
                yield Case("s_deadline", one(rng, sc, 0, "cancel"), "%s-nodl-%d" % (sc, i)); i += 1
            to = rng.randrange(1, 2 ** rng.randrange(1, 60))
            yield Case("s_deadline", one(rng, sc, to, rng.choice(["deadline", "cancel"])), "%s-rand-%d" % (sc, i)); i += 1
    yield Case("s_deadline", ["rpc 5", "start bogus", "start recv", "start recv", "cancel", "srv", "adv 3", "rpc x", "rpc 10", "rpc 10",
                              "adv 6", "adv 1", "srv", "bogus"], "malformed")


def nontrivial(case, impl_lines):
    return (any(l.startswith("at:") or l == "ok" for l in impl_lines[1:]) and
            any(("ret@" in l) or ("x@" in l) or ("snd@" in l and "eof" in l) for l in impl_lines))
