"""C34 pick_first connects in order, picks only READY, keeps sticky TF."""
from vlib.core import Case

ID = "C34"
COMPONENTS = ["s_pickfirst", "pfaddr"]
T4 = ["LbConnState", "PickFirst"]
PROOF_MODULES = ["GrpcProofs.Properties.C34"]
THEOREMS = ["GrpcProofs.C34." + t for t in (
    "constants_pinned", "dedup_spec", "interleave_perm", "interleave_preserves_family_order",
    "interleave_starts_with_first_address", "preprocess_ok", "ready_reported_only_for_raw_ready",
    "pick_returns_only_ready_subconn", "stale_timer_callback_is_inert", "others_shut_down_on_ready", "connect_order_is_list_order", "tf_after_all_failed", "sticky_tf")]
DESIGN_REF = "DESIGN.md section 8, C34"
TECHNIQUE = ("Lean 4 theorems (list induction for de-dup/interleave, invariants by induction over op lists for the balancer) about a "
             "full port of the pick_first state machine + T2 differential correspondence on the real balancer (recording ClientConn and "
             "SubConns, harness-controlled happy-eyeballs timer incl. callbacks that fired before Stop(), pinned shuffle) + T1 on the address pre-processing")
LEVEL_TEXT = ("Machine-checked Lean proofs: for every address list, pre-processing is a permutation of the de-duplicated input that keeps "
              "each family's order and starts with the resolver's first address; for every op history of the model, READY is only "
              "reported / a SubConn only picked while that SubConn's raw state is READY, all other SubConns are shut down when one "
              "becomes READY, connections within a pass are requested in strictly increasing list position, TRANSIENT_FAILURE is "
              "reported when the last address failed, and (sticky_tf, full strength since /repo 97a72f7) from TRANSIENT_FAILURE with "
              "a non-empty list and no READY SubConn every continuation of any length — resolver updates with ANY non-empty list, "
              "SubConn reports, timer, Pick, ExitIdle, resolver errors — reports nothing but TRANSIENT_FAILURE until a SubConn "
              "becomes READY or goes CONNECTING->IDLE; the callback of a cancelled happy-eyeballs timer that had already fired "
              "(waiting for b.mu when Stop() came) is inert, and while READY is the reported state the READY SubConn is the only one.")
LEVEL_NOTE = ("Trusted: Lean kernel; hand model lean/GrpcModel/Model/PickFirst.lean tied by differential runs. Domain of the fake channel "
              "(what the real channel guarantees): SubConn states are reported only for existing SubConns, SHUTDOWN only after "
              "Shutdown(); health updates only reach a listener registered since the SubConn last became READY. Readings: (1) 'latest "
              "state' of a SubConn is its raw connectivity state as last reported by the channel; with health checking READY is "
              "reported on the health listener's READY while the raw state is READY. (2) the sticky-TF period ends when a SubConn "
              "becomes READY, when a SubConn goes CONNECTING->IDLE (the code treats that as a connection that succeeded and dropped, "
              "issue 7862), or when the resolver replaces the list by an empty one (everything is torn down; the code's comment: "
              "stickiness applies to connectivity failures only). (3) 'pass' = from a reset of the address-list index to the next. "
              "(4) interleaveAddresses is modelled by rounds (one member of each family per cycle), the loop's modular index is not "
              "ported literally; the pfaddr tie compares it with the real function. Weighted shuffling (A113) is switched off in "
              "the harness; plain shuffling is pinned to list reversal.")
GAP = ("A113 weighted shuffle (floats); the race between the timer goroutine and channel calls is modelled at the mutex grain: a "
       "timer either fires as an op of its own or, having fired before it was stopped, runs its callback later (`late`); "
       "NewSubConn errors; illegal BalancerConfig types")
ASSUMPTIONS = ["b.mu serialises all entry points: a history is a sequence of ops", "addresses differ only in Addr (no attributes/server names)"]
RULE = ("s_pickfirst: random op sequences (<= 70 ops): resolver updates (1-6 addresses of 3 families out of a pool of 9, duplicates, "
        "multi-address endpoints, as Endpoints or Addresses, shuffle on/off, health listener on/off, empty lists), SubConn state "
        "reports that mostly follow the SubConn life cycle (IDLE->CONNECTING->READY|TF|IDLE, TF->IDLE, READY->IDLE) with 15% arbitrary "
        "ones and stale reports for shut-down SubConns, health updates, timer ticks, late callbacks of cancelled timers (random, and "
        "a directed family: every way a timer gets cancelled — READY, TF of the current address, CONNECTING->IDLE, resolver update "
        "with the same/another first address, empty update, health-gated READY, Close — x list length 2-4 x position x follow-up), "
        "Pick, ExitIdle, ResolverError, Close. The monitor also checks that no other SubConn exists while READY is reported and "
        "that nothing is created after Close. pfaddr: "
        "every list of length <= 4 over 6 addresses (2 per family) + random lists up to 12 with duplicates and IPv4-mapped IPv6. "
        "A case is non-trivial when a SubConn became READY or TRANSIENT_FAILURE was reported.")

POOL = ["4.1", "4.2", "4.3", "6.1", "6.2", "6.3", "u.1", "u.2", "4.101"]
NEXT = {"I": "CCCCI", "C": "RRTTTTI", "T": "IIIT", "R": "IIT", "S": "S"}


def gen_case(rng, maxlen, ci):
    ops = []
    created = 0
    last = {}
    n_addrs = 0
    health = rng.random() < 0.3
    pool = rng.sample(POOL, rng.randrange(2, len(POOL) + 1))
    fail_bias = rng.choice([0.3, 0.6, 0.9])
    closed = False
    for _ in range(rng.randrange(3, maxlen)):
        x = rng.random()
        if not ops or x < 0.10:
            if rng.random() < 0.08:
                eps = "-"
                n_addrs = 0
            else:
                k = rng.randrange(1, 7)
                es = []
                i = 0
                picks = [rng.choice(pool) for _ in range(k)]
                while i < k:
                    m = 1 if rng.random() < 0.7 else 2
                    es.append("+".join(picks[i:i + m]))
                    i += m
                eps = ",".join(es)
                n_addrs = len(set(picks))
            ops.append("update %d %d %s %s" % (1 if health else 0, 1 if rng.random() < 0.2 else 0, rng.choice("eeea"), eps))
            if eps != "-":
                created += 1
                if rng.random() < 0.6:
                    last = {j + 1: v for j, v in last.items()}
        elif x < 0.66 and created:
            # newest SubConns are the ones in use: relative ids (~k = k-th newest), states follow the SubConn life cycle
            k = rng.choice([0, 0, 0, 0, 1, 1, 2, 3])
            cur = last.get(k, "I")
            if rng.random() < 0.85:
                nxt = rng.choice(NEXT[cur])
                if cur == "C" and nxt in "RT":
                    nxt = "T" if rng.random() < fail_bias else "R"
            else:
                nxt = rng.choice("ICRTS")
            last[k] = nxt
            ops.append("sc ~%d %s %d" % (k, nxt, 0 if rng.random() < 0.05 else rng.randrange(1, 4)))
            if nxt == "T" and k == 0 and rng.random() < 0.7:
                # the next address is probably tried now: a new SubConn becomes ~0
                last = {j + 1: v for j, v in last.items()}
            if nxt == "R" and health and rng.random() < 0.8:
                ops.append("health ~%d %s %d" % (k, rng.choice("RRRTC"), rng.randrange(0, 3)))
        elif x < 0.70:
            # the callback of a timer that was cancelled after it had fired (bad-op when there is none)
            ops.append("late")
        elif x < 0.74:
            ops.append("tick")
            if rng.random() < 0.6:
                last = {j + 1: v for j, v in last.items()}
        elif x < 0.80:
            ops.append("pick")
        elif x < 0.84:
            ops.append("exitidle")
        elif x < 0.88:
            ops.append("reserr")
        elif x < 0.95 and created:
            ops.append("health ~%d %s %d" % (rng.choice([0, 0, 1, 1, 2]), rng.choice("RRTC"), rng.randrange(0, 3)))
        elif x < 0.955:
            ops.append("close")
            if rng.random() < 0.7:
                break
        else:
            health = not health
    return Case("s_pickfirst", ops, "pf-%d" % ci)


def directed():
    # F13 (DESIGN.md section 7, fixed by /repo 97a72f7): in TF a resolver update adds an address; its SubConn's CONNECTING
    # must not be reported
    yield Case("s_pickfirst", ["update 0 0 e 4.1", "sc 1 C 0", "sc 1 T 1", "update 0 0 e 4.1,4.2", "sc 2 C 0"], "f13-witness")
    # same, but the update brings no new address: sticky TF holds
    yield Case("s_pickfirst", ["update 0 0 e 4.1", "sc 1 C 0", "sc 1 T 1", "update 0 0 e 4.1", "sc 1 I 0", "sc 1 C 0", "sc 1 T 2", "pick"], "sticky-ok")
    # happy eyeballs: order, timer, READY shuts the others down
    yield Case("s_pickfirst", ["update 0 0 e 6.1,6.2,4.1,u.1", "sc 1 C 0", "tick", "sc 2 C 0", "sc 1 T 1", "tick", "sc 3 C 0",
                               "sc 2 R 0", "pick", "sc 1 I 0", "sc 2 I 0", "pick", "sc 4 C 0", "sc 4 R 0", "pick"], "happy-eyeballs")
    # all fail -> TF, reconnects keep TF, then READY
    yield Case("s_pickfirst", ["update 0 0 a 4.1,4.2", "sc 1 C 0", "sc 1 T 1", "sc 2 C 0", "sc 2 T 2", "pick", "sc 1 I 0", "sc 1 C 0",
                               "sc 2 I 0", "sc 2 C 0", "sc 1 T 3", "sc 2 T 3", "sc 2 I 0", "sc 2 C 0", "sc 2 R 0", "pick"], "all-fail")
    # health listener
    yield Case("s_pickfirst", ["update 1 0 e 4.1,4.2", "sc 1 C 0", "sc 1 R 0", "pick", "health 1 C 0", "health 1 R 0", "pick",
                               "health 1 T 2", "pick", "health 1 R 0", "sc 1 I 0", "health 1 R 0", "pick"], "health")
    # a queued health update of a SubConn that was shut down meanwhile must be ignored
    yield Case("s_pickfirst", ["update 1 0 e 4.1", "sc 1 C 0", "sc 1 R 0", "health 1 R 0", "update 1 0 e 4.2", "health 1 R 0", "pick",
                               "health 1 T 1", "pick", "sc 2 C 0", "health 1 C 0"], "stale-health")
    # resolver updates around READY; empty list; resolver error
    yield Case("s_pickfirst", ["reserr", "update 0 0 e -", "update 0 1 e 4.1+6.1,4.2", "sc 1 C 0", "sc 1 R 0", "update 0 0 e 6.1,4.2",
                               "update 0 0 e 6.2", "sc 2 C 0", "reserr", "update 0 0 e -", "pick", "close", "pick", "sc 2 S 0"], "updates")
    # a happy-eyeballs timer fires while the update that cancels it is being processed: its callback runs afterwards.
    # Every way a timer gets cancelled (READY, TRANSIENT_FAILURE of the current address, CONNECTING->IDLE, resolver update
    # with the same / another first address, empty update, Close) x position in the list x what happens next
    k = 0
    for n in (2, 3, 4):
        addrs = ",".join(["4.1", "6.1", "4.2", "u.1"][:n])
        for pos in range(n - 1):
            pre = ["update 0 0 e " + addrs, "sc ~0 C 0"] + ["tick", "sc ~0 C 0"] * pos
            for cancel in (["sc ~0 R 0"], ["sc ~0 T 1"], ["sc ~0 I 0"], ["update 0 0 e " + addrs], ["update 0 0 e 6.3," + addrs],
                           ["update 0 0 e -"], ["update 1 0 e " + addrs, "sc ~0 R 0"]):
                for post in (["late", "pick", "sc ~0 C 0", "sc ~0 R 0", "pick"], ["late", "late", "tick", "sc ~0 C 0", "sc ~0 T 2", "pick"]):
                    yield Case("s_pickfirst", pre + cancel + post, "late-timer-%d" % k)
                    k += 1
    yield Case("s_pickfirst", ["update 0 0 e 4.1,4.2", "sc 1 C 0", "close", "late"], "late-timer-close")
    for l in ["6.1,6.2,4.1,4.2,u.1", "4.1,4.1,6.1,4.101,4.1,6.1", "u.1,u.2,u.1", "-", "4.1"]:
        yield Case("pfaddr", ["prep " + l], "prep-directed")
    yield Case("pfaddr", ["fam " + a for a in POOL], "families")


def gen_prep(rng, n_rand):
    small = ["4.1", "4.2", "6.1", "6.2", "u.1", "u.2"]
    ops = ["prep -"]
    for a in small:
        ops.append("prep " + a)
        for b in small:
            ops.append("prep %s,%s" % (a, b))
            for c in small:
                ops.append("prep %s,%s,%s" % (a, b, c))
                for d in small:
                    ops.append("prep %s,%s,%s,%s" % (a, b, c, d))
    for _ in range(n_rand):
        ops.append("prep " + ",".join(rng.choice(POOL) for _ in range(rng.randrange(1, 13))))
    for i in range(0, len(ops), 2000):
        yield Case("pfaddr", ops[i:i + 2000], "prep-%d" % (i // 2000))


def gen(rng, tier):
    n, ml, npre = {"quick": (1200, 55, 1000), "thorough": (30000, 70, 50000), "search": (15000, 70, 20000)}[tier]
    for c in directed():
        yield c
    for c in gen_prep(rng, npre):
        yield c
    for i in range(n):
        yield gen_case(rng, ml, i)


def nontrivial(case, impl_lines):
    if case.component == "pfaddr":
        return True
    return any("push:R" in l or "push:T:err" in l for l in impl_lines)
