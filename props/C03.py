"""C03 A stream with data and window credit is always eventually written."""
from vlib import loopygen

ID = "C03"
COMPONENTS = ["loopylive", "s_loopyrun"]
T4 = ["Loopy"]
PROOF_MODULES = ["GrpcProofs.Properties.C03"]
THEOREMS = ["GrpcProofs.C03." + t for t in (
    "c03_holds", "no_lost_wakeup", "waiting_only_without_quota", "active_list_exact", "head_served", "round_robin", "served_within",
    "idle_means_nothing_sendable")]
DESIGN_REF = "DESIGN.md section 8, C03"
TECHNIQUE = ("Lean 4 theorems: structural invariant Wf of the writer state by induction over the history (no lost wake-up is a consequence), "
             "progress and rotation of processData, and a variant argument (position on the active list) that turns 'eventually' into "
             "'within k+1 processData calls', about a line-for-line model of loopyWriter + T1 op-level differential correspondence (state dump "
             "after every op: sendQuota, activeStreams order, per-stream state/bytesOutStanding/queue head) + T4 constants")
LEVEL_TEXT = ("Machine-checked Lean proof, for every history of control items and processData calls on either side, that (1) an established "
              "stream with queued data and positive stream quota is always on the active list (no lost wake-up, for every order of data, "
              "WINDOW_UPDATE — also before the stream starts waiting — and SETTINGS), a stream is waitingOnStreamQuota only without stream quota; "
              "(2) processData with connection quota serves the head of the list with exactly min(16384, stream quota, sendQuota, head item) bytes "
              "(or parks it if it has no stream quota) and moves it to the tail while every other stream moves one place forward, untouched; "
              "(3) hence the stream at position k is served by the (k+1)-th processData call that finds connection quota; (4) no other control "
              "item reorders the list. The model is diffed op by op against the real loopyWriter and the same predicates are evaluated on the "
              "real writer's state dump and frames.")
LEVEL_NOTE = ("Trusted: Lean kernel; the hand model (tied by the differential run). Liveness is a bound on the number of writer iterations, so "
              "no scheduler fairness is assumed: loopy is one goroutine alternating handle(item) and processData(). Reading: 'eventually' is "
              "stated for consecutive processData calls (the hasdata loop of run()); control items handled in between only append to or delete "
              "from the list (orderOk, proved for every item), so they cannot push a stream back. A stream that applySettings re-activated "
              "although the new window still leaves it without quota is parked again by processData (harmless; reproduced by the model and "
              "allowed by the predicate).")
GAP = ("http2Client/http2Server producing the control items; the Go scheduler (run()'s runtime.Gosched batching heuristic only delays a flush). "
       "The run() loop itself IS tied: component s_loopyrun runs the real loopyWriter.run() goroutine on a real controlBuffer inside a synctest "
       "bubble and compares, per control item, everything written until quiescence and the state at quiescence with the model's big step "
       "(handle, then processData until isEmpty), and checks the idle condition sendQuota = 0 or activeStreams empty")
ASSUMPTIONS = ["stream ids are never registered while still established"]
RULE = ("same generator as C01 (6 profiles incl. window-starved and SETTINGS storms, hand-written cases incl. round-robin and "
        "window-update-before-waiting) for the T1 component, plus ~120 (quick) histories without tick ops for the T2 component s_loopyrun (header "
        "fields restricted to :status 200 so that HPACK block lengths are state-independent; applySettings' wake order recovered from the order "
        "in which the woken streams first write); a case is non-trivial when the real writer emitted DATA and at least one stream had to wait for stream quota")


def gen(rng, tier):
    yield from loopygen.gen_cases(rng, tier, "loopylive")
    yield from loopygen.gen_run_cases(rng, tier)


nontrivial = loopygen.nontrivial
