"""C02 Outbound per-stream byte order, completeness and END_STREAM placement."""
from vlib import loopygen

ID = "C02"
COMPONENTS = ["loopyord", "s_srvord"]
T4 = ["Loopy"]
PROOF_MODULES = ["GrpcProofs.Properties.C02"]
THEOREMS = ["GrpcProofs.C02." + t for t in (
    "c02_holds", "refinement_invariant", "drained_complete", "data_frames_consecutive", "wire_bytes_are_prefix",
    "end_stream_once_and_last", "no_panic")]
DESIGN_REF = "DESIGN.md section 8, C02"
TECHNIQUE = ("Lean 4 refinement proof (writer's per-stream item queue = unsent suffix of the application byte stream; ghost byte offsets) by "
             "induction over the history, on top of the structural invariant Wf, about a line-for-line model of loopyWriter + T1 op-level "
             "differential correspondence against the real loopyWriter (payload bytes of every DATA frame recognised by content hash) + T4")
LEVEL_TEXT = ("Machine-checked Lean proof, for every history of control items and processData calls on either side, that per stream the DATA "
              "frames carry consecutive byte ranges of exactly what the application wrote (order, no loss, no duplication, completeness once the "
              "queue drains), END_STREAM sits only on the frame that ends the stream and no DATA follows it, trailers come only after all DATA "
              "written before them, and no frame follows trailers / RST_STREAM / cleanupStream; the model is diffed op by op against the real "
              "loopyWriter on every run and the same predicate is evaluated on the frames the real writer put on its conn.")
LEVEL_NOTE = ("Trusted: Lean kernel; the hand model (tied by the differential run incl. a content hash of every DATA payload). Readings: (1) byte "
              "identity = offset in the stream's application byte stream (concatenation of the 5-byte-prefixed messages accepted while the stream "
              "is established); the harness fills every message with position-determined pseudo-random bytes, so a DATA payload identifies its "
              "range (FNV-1a of the expected range, collisions ~2^-32). (2) 'no frame follows trailers': the RST_STREAM that belongs to the same "
              "close action (serverHeaders.cleanup.rst / earlyAbortStream.rst) directly follows the trailers and is allowed (RFC 7540 8.1). "
              "(3) The environment's obligations are part of the predicate: a stream on which http2Client/http2Server would break them is no "
              "longer judged (ids never reused, nothing written after the client's END_STREAM item, trailers requested once, no "
              "cleanupStream{rst:true} for a stream that has already ended on the wire, earlyAbortStream only for unregistered ids). loopy itself "
              "does NOT guard against a late cleanupStream{rst:true}: it writes RST_STREAM for a stream that is no longer established "
              "(cleanupStreamHandler), and the real http2Server DOES break that obligation: known finding F19 (RST_STREAM(CANCEL) after trailers when "
              "a handler returns as its deadline timer fires), found and re-found on every run by the T2 component s_srvord; "
              "known_findings/C02-F19-suggested-fix.patch makes it disappear and keeps internal/transport's tests green.")
GAP = ("server side: tied by the T2 component s_srvord (a real http2Server over net.Pipe under synctest: ServerStream.Write / WriteStatus, peer "
       "WINDOW_UPDATE / SETTINGS / RST_STREAM / DATA, deadline timers), judged by the same C02 automaton on the wire (no model answer there: Go's "
       "scheduler orders the transport's goroutines); client side (http2Client.write's END_STREAM discipline) is NOT tied by a T2 run in this "
       "revision; mem.BufferSlice reader internals are exercised (multi-buffer payloads, empty buffers, pooled buffers) but not modelled beyond lengths")
ASSUMPTIONS = ["stream ids are never registered while still established", "FNV-1a 32-bit content hash identifies a byte range of the generated stream",
               "the environment obligations listed in LEVEL_NOTE hold for http2Client/http2Server (streams where they do not are skipped)"]
RULE = ("T1: same generator as C01 (6 profiles + hand-written corner cases; "
        "response HEADERS / trailers / data / window updates addressed at any time to live, finished, cleaned-up and never-registered streams, a directed after-close family (every item kind after every way a stream can end in the writer: cleanupStream with/without RST_STREAM, trailers at once / behind data / starved then reset, client END_STREAM then cleanup), "
        "~35% undisciplined histories in which streams turn `wild`); payloads split "
        "over 0-5 mem.Buffers. T2 (s_srvord): ~60 (quick) random scripts of peer frames and handler calls against a real http2Server, incl. small/zero "
        "peer windows, trailers behind starved data, peer resets, deadlines with handlers that answer DeadlineExceeded; a case is non-trivial when the real writer emitted DATA and at least one stream had to wait for stream quota")


def gen(rng, tier):
    yield from loopygen.gen_cases(rng, tier, "loopyord")
    yield from loopygen.gen_srv_cases(rng, tier)


nontrivial = loopygen.nontrivial
