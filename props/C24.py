"""C24 Every RPC error is a status with a legal code."""
from vlib.core import Case

ID = "C24"
COMPONENTS = ["rpcerr", "s_rpcerr"]
T4 = ["Errors"]
PROOF_MODULES = ["GrpcProofs.Properties.C24"]
THEOREMS = ["GrpcProofs.C24." + t for t in (
    "toRPCErr_is_status_or_nil_or_eof", "toRPCErr_nil_iff", "toRPCErr_eof_iff", "toRPCErr_idempotent",
    "restricted_table", "restricted_source_pinned", "restricted_becomes_internal", "status_kept", "filters_yield_status",
    "picker_error_outcome", "config_selector_error_is_status",
    "retry_exhausted_sendmsg_counterexample", "retry_exhausted_keeps_status_partial", "retry_backoff_ctx_done_is_status",
    "creds_error_is_status")]
DESIGN_REF = "DESIGN.md section 8, C24"
TECHNIQUE = ("Lean 4: structural induction over an inductive model of Go error values for toRPCErr; the A54 table by decide over all 17 "
             "codes and by case analysis for every other code; T1 differential on the real toRPCErr / status.FromError / "
             "IsRestrictedControlPlaneCode with every constructor and wrapper chain; T2 e2e with a real ClientConn: scripted picker, "
             "config selector, per-RPC credentials (both sites), dialer, and server/context failures on a stream; T4 code numbers and the "
             "pinned source of IsRestrictedControlPlaneCode")
LEVEL_TEXT = ("Machine-checked proof that the model of toRPCErr maps every error value (any nesting of NewStreamError, ConnectionError "
              "and %w wrappers) to nil, io.EOF or an error on which status.FromError succeeds — nil/EOF exactly for nil/EOF inputs; that "
              "the three gRFC A54 filters (picker, config selector, per-RPC credentials at both sites) turn every status error with one of "
              "the seven data-plane codes into INTERNAL and leave every other status untouched, for all code values; and what each site "
              "does with non-status errors; in particular every config-selector error, io.EOF included (fix 2bdf416, finding F24), "
              "surfaces as a status. A kernel-checked counterexample documents F31: the retry-exhausted error of SendMsg is a plain "
              "error wrapping io.EOF.")
LEVEL_NOTE = ("Reading: 'carries a gRPC status code' = status.FromError succeeds on the returned error (errors.As semantics). Invoke and "
              "NewStream have no io.EOF exemption in the statement (a config selector returning io.EOF used to leak it: F24, fixed by "
              "2bdf416). An error whose status has code OK, or a code above 16, still 'carries a status' and is not judged. "
              "public_api_errors_are_status over the full retry state machine (DESIGN) is not attempted: of the retry machine's own "
              "return paths only shouldRetry's two error-producing branches are modelled (attempt limit reached; context done during the "
              "backoff sleep), the remaining return paths of Invoke/NewStream/SendMsg/RecvMsg are covered by the e2e run only. Trusted: Lean kernel, the GoErr abstraction of Go error "
              "values (identity of sentinels, single-chain Unwrap), synctest.")
GAP = "multi-error Unwrap() []error chains; errors returned by stats handlers/interceptors; the retry path's choice among several attempt errors"
ASSUMPTIONS = ["errors.As follows a single Unwrap chain", "context/io sentinels are compared by identity"]
RULE = ("rpcerr: every terminal (nil, io.EOF, ErrUnexpectedEOF, ctx errors, ErrNoSubConnAvailable, status.Error and custom GRPCStatus "
        "implementors with codes 0..20 and large ones, nil-status implementor, plain) under every wrapper chain of depth <= 3 over "
        "{%w, NewStreamError, ConnectionError}; IsRestrictedControlPlaneCode on 0..40 and large codes. s_rpcerr: each of those terminals "
        "and a sample of chains at the picker (failfast and wait-for-ready), config-selector, transport-creds, call-creds and dialer "
        "sites, plus six stream scenarios, the context ending (deadline / cancel) while Invoke, RecvMsg or SendMsg sits in the retry backoff sleep, and the retry-exhausted-on-SendMsg scenario (maxAttempts 2..5). An op is non-trivial unless its error spec is nil.")

CODES = list(range(0, 21)) + [99, 2**31 - 1, 2**31, 2**32 - 1]
BASIC = ["eof", "ueof", "ctxd", "ctxc", "nosub", "nilst", "plain"]
WRAPS = ["w", "nse", "conn"]


def terminals(codes):
    t = list(BASIC)
    for c in codes:
        if c != 0:
            t.append("st.%d" % c)
        t.append("gst.%d" % c)
    return t


def chains(depth):
    out = [[]]
    frontier = [[]]
    for _ in range(depth):
        frontier = [[w] + c for w in WRAPS for c in frontier]
        out += frontier
    return out


def gen(rng, tier):
    # ---- T1
    ops = ["torpc nil", "fromerr nil", "torpc nse:nil", "torpc nse:nse:nil", "torpc conn:nil", "fromerr conn:nil"]
    terms = terminals(CODES)
    for ch in chains(3):
        for t in terms:
            if ch and ch[-1] == "w" and t == "nil":
                continue
            spec = ":".join(ch + [t])
            ops.append("torpc " + spec)
            if len(ch) <= 2:
                ops.append("fromerr " + spec)
    for c in list(range(0, 41)) + [99, 2**16, 2**31 - 1, 2**31, 2**32 - 1]:
        ops.append("restricted %d" % c)
    n_rand = {"quick": 500, "thorough": 20000, "search": 10000}[tier]
    for _ in range(n_rand):
        ch = [rng.choice(WRAPS) for _ in range(rng.randrange(0, 7))]
        t = rng.choice(terminals([rng.randrange(0, 2**32) if rng.random() < 0.3 else rng.randrange(0, 18)]))
        ops.append("torpc " + ":".join(ch + [t]))
    yield Case("rpcerr", ops, "rpcerr-t1")

    # ---- e2e
    ecodes = list(range(0, 18)) + [99]
    eterms = terminals(ecodes)
    sample_chains = [[], ["w"], ["nse"], ["conn"], ["w", "w"], ["w", "conn"], ["conn", "w"], ["nse", "w"], ["w", "nse"]]
    sites = []
    for t in eterms:
        for ch in sample_chains:
            if ch and tier == "quick" and rng.random() < 0.75:
                continue
            spec = ":".join(ch + [t])
            sites.append("pick %s 1" % spec)
            if not ch or rng.random() < 0.3:
                sites.append("pick %s 0" % spec)
            sites.append("cfgsel " + spec)
            sites.append("creds dial " + spec)
            sites.append("creds call " + spec)
            if not ch or rng.random() < 0.2:
                sites.append("dial %s %d" % (spec, rng.randrange(2)))
    sites.append("pick conn:nil 1")
    sites.append("cfgsel conn:nil")
    if tier == "quick":
        keep = [s for s in sites if ":" not in s.split()[-1] and ":" not in s.split()[-2]]
        rest = [s for s in sites if s not in set(keep)]
        sites = keep + rng.sample(rest, min(len(rest), 150))
    rng.shuffle(sites)
    chunk = 60
    for i in range(0, len(sites), chunk):
        yield Case("s_rpcerr", sites[i:i + chunk], "sites-%d" % (i // chunk))
    scen = ["clean", "srvstop", "cancel", "deadline", "srvplain"] + ["srvst.%d" % c for c in list(range(0, 18)) + [42, 99]]
    yield Case("s_rpcerr", ["stream " + s for s in scen], "streams")
    # the context ends (deadline / cancel) while the named API call sits in the retry backoff sleep
    yield Case("s_rpcerr", ["stream retryctx.%s.%s" % (api, how) for api in ("invoke", "recv", "send") for how in ("deadline", "cancel")],
               "retryctx")
    # F31 (a6's side finding): attempt limit hit on the SendMsg path
    for k in (2, 3, 4, 5):
        yield Case("s_rpcerr", ["stream sendretry.%d" % k], "sendretry-%d" % k)


UNIT = "op"


def nontrivial_op(op, out):
    return not op.endswith(" nil")
