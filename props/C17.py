"""C17 Blocked writers and stream waiters are always woken (writeQuota; client stream-quota waiters)."""
from vlib.core import Case

ID = "C17"
COMPONENTS = ["s_writequota", "s_streamquota"]
T4 = []
PROOF_MODULES = ["GrpcProofs.Properties.C17"]
THEOREMS = ["GrpcProofs.C17." + t for t in (
    "writequota_no_lost_wakeup", "writequota_blocked_only_if_exhausted", "writequota_released_when_replenished",
    "writequota_released_on_done", "writequota_quota_restored", "writequota_granted_only_if_positive",
    "writequota_monitor_ok", "writequota_two_getters_counterexample",
    "streamquota_no_lost_wakeup", "streamquota_never_waits_while_quota_free", "streamquota_waiting_counts",
    "streamquota_settings_broadcast", "streamquota_monitor_ok")]
DESIGN_REF = "DESIGN.md section 8, C17"
TECHNIQUE = ("Lean 4 theorems over two small-step interleaving models: writeQuota (lock-free: every sync/atomic call and channel operation of get / "
             "realReplenish is its own step; one getter, any number of replenishers, done) and the client's stream-quota waiters (the critical "
             "sections under controlBuf.mu - checkForStreamQuota, addBackStreamQuota, updateStreamQuota - and each waiter's select are the steps; "
             "channel replacement on SETTINGS is a generation counter). Invariants by induction over arbitrary op lists. Tie: T2 (testing/synctest): "
             "the real writeQuota through an export shim, and a real http2Client over net.Pipe against a scripted HTTP/2 server in the bubble, with "
             "NewStream callers as bubble goroutines.")
LEVEL_TEXT = ("Machine-checked Lean proofs for every interleaving: a getter sitting in writeQuota's select while quota > 0 always has the token or a "
              "replenisher about to send it (no lost wake-up under the single-getter contract; proved false for two getters), it is stuck only while "
              "quota <= 0 and the stream is not done, it returns within three of its own steps once quota > 0, returns errStreamDone once done is closed, "
              "and quota = initial - granted + replenished (so it is back at the initial value when everything granted was written); for stream quota: if "
              "quota > 0 and a NewStream call is parked on the current channel, the token is there or a woken waiter is about to retry; whenever the waiters "
              "are stuck the quota is <= 0; waitingStreams never under-counts; a SETTINGS increase wakes every waiter. Both models are replayed against the "
              "real code on every run.")
LEVEL_NOTE = ("Trusted: Lean kernel; the hand models lean/GrpcModel/Model/{WriteQuota,QuotaWait}.lean; atomicity of sync/atomic operations, channel operations "
              "and of the controlBuf.mu critical sections. The tie is OP-LEVEL: each op (possibly several concurrent goroutines) runs to quiescence in a "
              "synctest bubble and the observable result (getter returned / still blocked, quota; which NewStream calls were created / failed / still wait, "
              "streamQuota, waitingStreams) is compared with the model and judged by the monitor. The individual interleavings of the atomic operations "
              "inside get / realReplenish (load vs add vs send, the stale-token cases) and inside the waiters' wake-up chain are covered by the theorems "
              "ONLY - they cannot be forced without yield hooks in flowcontrol.go (the T3 tie of DESIGN.md was not built) and are exercised only as far as "
              "the Go scheduler happens to interleave the bubble's goroutines. Which of several equal NewStream callers obtains a freed unit is read off the "
              "implementation and replayed (trace validation). Sizes are naturals: int32 overflow of one get/replenish size (> 2 GiB) is outside the model. "
              "The draining / activeStreams==nil early return of checkForStreamQuota is not modelled. A waiter that gives up leaves waitingStreams "
              "incremented for ever (as in the code); the theorems show this only over-counts.")
GAP = "fine-grained atomic interleavings inside get/realReplenish (theorem-only); int32 overflow; transport draining path"
ASSUMPTIONS = ["one getter per writeQuota at a time (Write is not called concurrently on a stream) - with two the one-slot channel loses wake-ups (theorem)",
               "sizes fit int32", "sync/atomic operations are sequentially consistent"]
RULE = ("s_writequota: random cases: init 1..40, then 8-30 ops: get (sizes around the remaining quota, so that quota goes negative), replenish (sizes that do and "
        "do not cross zero), concurrent replenishers (2-4) with or without a concurrent get, done, more gets after done; s_streamquota: random cases: initial "
        "MAX_CONCURRENT_STREAMS 0..3, then 6-20 ops: NewStream callers (sequential and 2-4 concurrent), closing created streams, callers giving up, SETTINGS "
        "raising / lowering the maximum (also below the number of active streams), concurrent close + new + giveup. Non-trivial = the getter / some caller was "
        "observed blocked; distinct = distinct op text.")


def gen_wq(rng, tier):
    n = {"quick": 700, "thorough": 15000, "search": 6000}[tier]
    for i in range(n):
        q0 = rng.choice([1, 2, 3, 5, 8, 16, 40])
        ops = ["init %d" % q0]
        q = q0                # ledger (what the quota will be once the outstanding get is granted is tracked lazily)
        out = None            # size of the outstanding (parked) get
        done = False
        for _ in range(rng.randrange(8, 31)):
            r = rng.random()
            if r < 0.4:
                if out is not None:
                    continue
                sz = max(0, q + rng.choice([-1, 0, 1, 2, 5, 10])) if rng.random() < 0.6 else rng.randrange(0, 30)
                ops.append("get %d" % sz)
                if q > 0:
                    q -= sz
                elif not done:
                    out = sz
            elif r < 0.75:
                k = rng.choice([0, 1, 2, 3, 5, 10, max(0, -q), max(0, -q + 1)])
                ops.append("repl %d" % k)
                q += k
                if out is not None and q > 0:
                    q -= out
                    out = None
            elif r < 0.92:
                items = ["repl:%d" % rng.choice([0, 1, 2, 3, max(0, -q), 7]) for _ in range(rng.randrange(2, 5))]
                tot = sum(int(x.split(":")[1]) for x in items)
                gsz = None
                if out is None and rng.random() < 0.5:
                    gsz = rng.randrange(0, 12)
                    items.insert(rng.randrange(0, len(items) + 1), "get:%d" % gsz)
                ops.append("conc " + " ".join(items))
                # ledger at quiescence
                if gsz is not None:
                    if q > 0 or q + tot > 0:
                        q = q + tot - gsz
                    else:
                        q += tot
                        if not done:
                            out = gsz
                else:
                    q += tot
                    if out is not None and q > 0:
                        q -= out
                        out = None
            elif r < 0.96 and not done:
                ops.append("done")
                done = True
                out = None
        if rng.random() < 0.5 and not done:
            ops += ["done", "get 1", "repl 50", "get 1"]
        yield Case("s_writequota", ops, "wq-rand")


def gen_sq(rng, tier):
    n = {"quick": 250, "thorough": 5000, "search": 3000}[tier]
    for i in range(n):
        k0 = rng.choice([0, 1, 1, 2, 3])
        ops = ["max0 %d" % k0]
        nid = 0
        created_guess = []    # callers that may hold a stream (we do not know who won: close any known id)
        known = []
        for _ in range(rng.randrange(6, 21)):
            r = rng.random()
            if r < 0.3:
                nid += 1
                known.append(nid)
                ops.append("new %d" % nid)
            elif r < 0.5:
                items = []
                for _k in range(rng.randrange(2, 5)):
                    q = rng.random()
                    if q < 0.6 or not known:
                        nid += 1
                        items.append("new:%d" % nid)
                    elif q < 0.85:
                        items.append("close:%d" % rng.choice(known))
                    else:
                        items.append("giveup:%d" % rng.choice(known))
                for it in items:
                    if it.startswith("new:"):
                        known.append(int(it[4:]))
                ops.append("conc " + " ".join(items))
            elif r < 0.72 and known:
                ops.append("close %d" % rng.choice(known))
            elif r < 0.8 and known:
                ops.append("giveup %d" % rng.choice(known))
            else:
                ops.append("max %d" % rng.choice([0, 0, 1, 1, 2, 3, 5]))
        if rng.random() < 0.5:
            ops.append("max 100")
        yield Case("s_streamquota", ops, "sq-rand")


def gen_sq_directed(rng, tier):
    """k streams open, m callers parked, then several streams closed concurrently: the single token must be
    passed on by each woken caller (the success-path baton in checkForStreamQuota)."""
    n = {"quick": 40, "thorough": 600, "search": 300}[tier]
    for i in range(n):
        k = rng.choice([2, 3, 4])
        m = rng.randrange(2, 5)
        ops = ["max0 %d" % k]
        ops += ["new %d" % w for w in range(1, k + 1)]
        if rng.random() < 0.5:
            ops += ["new %d" % w for w in range(k + 1, k + m + 1)]
        else:
            ops.append("conc " + " ".join("new:%d" % w for w in range(k + 1, k + m + 1)))
        c = rng.randrange(2, k + 1)
        closing = rng.sample(range(1, k + 1), c)
        if rng.random() < 0.7:
            ops.append("closeall " + " ".join("%d" % w for w in closing))
        else:
            ops.append("conc " + " ".join("close:%d" % w for w in closing))
        rest = [w for w in range(1, k + 1) if w not in closing]
        if rest:
            ops.append("close %d" % rest[0])
        ops += ["new %d" % (k + m + 1), "max %d" % (k + m + 2)]
        yield Case("s_streamquota", ops, "sq-baton")


def gen(rng, tier):
    yield from gen_sq_directed(rng, tier)
    yield from gen_wq(rng, tier)
    yield from gen_sq(rng, tier)


def nontrivial(case, impl_lines):
    if case.component == "s_writequota":
        return any(l.startswith("g=parked") or " g=parked" in l for l in impl_lines)
    return any(" waiting=" in l and " waiting=- " not in l for l in impl_lines)
