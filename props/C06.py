"""C06 gRPC message framing round-trips and size limits are enforced."""
from vlib.core import Case

ID = "C06"
COMPONENTS = ["framing"]
T4 = ["Framing"]
PROOF_MODULES = ["GrpcProofs.Properties.C06"]
THEOREMS = ["GrpcProofs.C06." + t for t in (
    "parse_frames", "recv_ok_sound", "declared_oversize_is_resource_exhausted",
    "decompressed_oversize_is_resource_exhausted", "materialised_le_limit_succ",
    "legacy_custom_materialises_all_counterexample", "compressed_without_decompressor_is_error",
    "unknown_flag_is_error", "truncated_is_error_never_message", "frame_length_prefix")]
DESIGN_REF = "DESIGN.md section 8, C06"
TECHNIQUE = ("Lean 4 theorems (list algebra over the 5-byte framing, the compressor an abstract parameter with a left inverse) "
             "+ T1 differential correspondence through an export shim in package grpc + T4 regenerated constants")
LEVEL_TEXT = ("Machine-checked Lean proof, for every message list, every compressor with a left inverse, every limit and every byte "
              "stream, that parsing the concatenated frames returns the messages in order then io.EOF, that anything delivered is "
              "exactly the framed (and decompressed) payload, that declared or decompressed oversize is RESOURCE_EXHAUSTED with at most "
              "limit+1 bytes materialised, and that unknown flags, compressed flags without a usable decompressor and truncated frames "
              "are errors; the model of recvMsg/checkRecvPayload/decompress/compress/msgHeader is diffed against the real functions on every run.")
LEVEL_NOTE = ("Trusted: Lean kernel; the hand model lean/GrpcModel/Model/Framing.lean tied by differential runs of the real parser over a "
              "scripted streamReader (arbitrary buffer splits), real gzip (new and legacy API) and a custom codec behind a byte-counting reader. "
              "The streamReader contract (exactly n bytes or an error) is C05's subject and is assumed here, so 'any split into DATA frames' is "
              "exercised (chunked reader) but proved only relative to that contract. gzip is a parameter: in the driver its graph is the one "
              "observed from the real compressor. Reading: the limit+1 materialisation bound is proved for the encoding.Compressor path and the "
              "built-in legacy gzip decompressor; a third-party legacy grpc.Decompressor is called as dc.Do(r) and materialises whatever it "
              "produces (API limitation, reported as known finding C06-K1, proved as a counterexample theorem). For the built-in legacy gzip "
              "decompressor the materialised size is observed on doWithMaxSize directly (op lgz), not inside recvAndDecompress.")
GAP = "compress/gzip itself; the transport's streamReader (C05); messages >= 2^32 bytes (msgHeader's uint32 truncation is modelled, not exercised)"
ASSUMPTIONS = ["64-bit platform: maxInt = math.MaxInt64", "streamReader returns exactly n bytes or an error (C05)",
               "a compressor is a function with a left inverse (decompress(compress m) = m)"]
RULE = ("each case is a receiver configuration (limit in {0,1,4,5,16,64,300,1000,70000}, 5 decompressor kinds, 3 grpc-encoding classes, client/server) "
        "plus a scripted stream: well-formed frames of sizes around 0/limit/limit+1, compressed or not, random buffer splits; raw frames with all "
        "256 flag bytes, lying length prefixes (shorter, longer, limit, limit+1, 2^31, 2^32-1) and truncated tails; every prefix of small well-formed streams; zip bombs of up to 2,000,000 bytes "
        "through gzip (new/legacy) and 7-byte run-length bombs of the counting test codec (new/legacy API); then recv until past the end. Stateless ops: checkRecvPayload on all 256x3x2x2 "
        "inputs, doWithMaxSize and msgHeader at boundaries, decompress directly. A case is non-trivial when it contains a recv.")

KINDS = ["none", "gzip", "xor", "lgzip", "lxor"]
LIMITS = [0, 1, 4, 5, 16, 64, 300, 1000, 70000]


def hexs(bs):
    return "".join("%02x" % b for b in bs) or "-"


def be32(n):
    n &= 0xffffffff
    return [(n >> 24) & 255, (n >> 16) & 255, (n >> 8) & 255, n & 255]


def xor_enc(m):
    return [0x58] + [b ^ 0x5A for b in m] + [0xA5]


def rbytes(rng, n):
    if rng.random() < 0.3:
        return [rng.randrange(256)] * n
    return [rng.randrange(256) for _ in range(n)]


def pick_size(rng, limit):
    c = [0, 1, 2, limit - 1, limit, limit + 1, limit + 2, rng.randrange(0, 2 * limit + 2), rng.randrange(0, limit + 1)]
    n = rng.choice(c)
    return max(0, min(n, 3000))


def chunks(rng):
    if rng.random() < 0.3:
        return "-"
    return ",".join(str(rng.choice([1, 1, 2, 3, 5, 7, 16, 100, 4096])) for _ in range(rng.randrange(1, 5)))


def cfg(rng, limit=None, kind=None, rc=None):
    limit = rng.choice(LIMITS) if limit is None else limit
    kind = rng.choice(KINDS) if kind is None else kind
    if rc is None:
        rc = "named" if rng.random() < 0.8 else rng.choice(["empty", "identity"])
    return limit, kind, rc, "cfg %d %s %s %d" % (limit, kind, rc, rng.randrange(2))


def scenario_wellformed(rng):
    limit, kind, rc, c = cfg(rng)
    ops = [c, "chunks " + chunks(rng)]
    n = rng.randrange(0, 6)
    for _ in range(n):
        size = pick_size(rng, limit if rng.random() < 0.7 else max(limit // 3, 1))
        comp = 1 if (kind != "none" and rng.random() < 0.7) else 0
        if rng.random() < 0.25:
            ops.append("sendn %d %d %02x" % (comp, size, rng.randrange(256)))
        else:
            ops.append("send %d %s" % (comp, hexs(rbytes(rng, size))))
        if rng.random() < 0.3:
            ops.append("recv")
    ops += ["recv"] * (n + 2)
    return ops


def scenario_roomy(rng):
    """limit comfortably above every wire size: the all-ok path"""
    kind = rng.choice(KINDS)
    limit = rng.choice([300, 1000, 70000])
    _, _, _, c = cfg(rng, limit, kind, "named" if kind != "none" else rng.choice(["named", "empty", "identity"]))
    ops = [c, "chunks " + chunks(rng)]
    n = rng.randrange(1, 7)
    for _ in range(n):
        size = rng.choice([0, 1, 2, 5, rng.randrange(0, 200), limit // 2 - 40])
        size = max(0, min(size, 2500))
        comp = 1 if (kind != "none" and rng.random() < 0.8) else 0
        if rng.random() < 0.5:
            ops.append("send %d %s" % (comp, hexs(rbytes(rng, size))))
        else:
            ops.append("sendn %d %d %02x" % (comp, size, rng.randrange(256)))
    ops += ["recv"] * (n + 2)
    return ops


def scenario_raw(rng):
    limit, kind, rc, c = cfg(rng, rng.choice([0, 1, 4, 5, 16, 64]))
    ops = [c, "chunks " + chunks(rng)]
    n = rng.randrange(1, 4)
    for _ in range(n):
        size = rng.randrange(0, 40)
        body = rbytes(rng, size)
        flag = rng.choice([0, 0, 1, 1, 2, 3, 0x80, 0xff, rng.randrange(256)])
        payload = body
        if flag == 1 and kind in ("xor", "lxor"):
            k = rng.random()
            payload = xor_enc(body)
            if k < 0.15:
                payload = payload[:-1] + [rng.randrange(256)]       # bad trailer
            elif k < 0.25:
                payload = [rng.randrange(256)] + payload[1:]        # bad magic
            elif k < 0.30:
                payload = payload[:1]                               # magic only
            elif k < 0.35:
                payload = []
        actual = len(payload)
        declared = rng.choice([actual, actual, actual, max(0, actual - 1), actual + 1, limit, limit + 1, 0, 2**31 - 1, 2**31, 2**32 - 1,
                               rng.randrange(0, 2 * actual + 2)])
        frame = [flag] + be32(declared) + payload
        if rng.random() < 0.2:
            frame = frame[:rng.randrange(0, len(frame) + 1)]        # truncated
        ops.append("raw " + hexs(frame))
        if rng.random() < 0.4:
            ops.append("recv")
    ops += ["recv"] * (n + 2)
    return ops


def scenario_flags(kind, rc, server, flags):
    ops = []
    for fl in flags:
        ops += ["cfg 8 %s %s %d" % (kind, rc, server), "raw " + hexs([fl] + be32(3) + [0x58, 0x5b, 0xa5]), "recv", "recv"]
    return ops


def scenario_bomb(rng, tier):
    kind = rng.choice(["gzip", "lgzip", "xor", "lxor", "gzip", "lgzip"])
    limit = rng.choice([300, 1000, 4096])
    ops = ["cfg %d %s named %d" % (limit, kind, rng.randrange(2)), "chunks " + chunks(rng)]
    big = [limit - 1, limit, limit + 1, limit + 2, 2 * limit, 10 * limit]
    if kind in ("gzip", "lgzip"):
        big += [100000, 2000000 if tier != "quick" else 300000]
    sizes = [rng.choice(big) for _ in range(rng.randrange(1, 4))]
    n = 0
    for sz in sizes:
        if kind in ("xor", "lxor"):
            # the xor codec does not shrink anything: hand-craft the frame so that the WIRE size passes the limit check
            # only when it really is small; otherwise send it through the real sender
            ops.append("sendn 1 %d %02x" % (min(sz, 20000), rng.randrange(256)))
        else:
            ops.append("sendn 1 %d %02x" % (sz, rng.randrange(256)))
        n += 1
        if rng.random() < 0.5:
            ops.append("send 1 %s" % hexs(rbytes(rng, rng.randrange(1, 20))))
            n += 1
    ops += ["recv"] * (n + 1)
    return ops


def scenario_xor_bomb(rng):
    """the run-length form of the test codec: 7 bytes on the wire, n bytes after decompression, n around the limit"""
    kind = rng.choice(["xor", "lxor", "xor"])
    limit = rng.choice([7, 8, 16, 100, 1000, 4096])
    ops = ["cfg %d %s named %d" % (limit, kind, rng.randrange(2)), "chunks " + chunks(rng)]
    k = 0
    for _ in range(rng.randrange(1, 4)):
        n = rng.choice([0, 1, limit - 1, limit, limit + 1, limit + 2, 2 * limit, 4098, 4099, 4100, 50000, 1000000])
        payload = [0x52] + be32(n) + [rng.randrange(256), 0xA5]
        q = rng.random()
        if q < 0.15:
            payload[-1] = 0                      # bad trailer: error, or the limit first?
        elif q < 0.2:
            payload = payload[:rng.randrange(1, 7)]
        ops.append("raw " + hexs([1] + be32(len(payload)) + payload))
        k += 1
        if rng.random() < 0.4:
            ops.append("send 1 %s" % hexs(rbytes(rng, rng.randrange(0, 5))))
            k += 1
    ops += ["recv"] * (k + 1)
    return ops


def scenario_prefixes(rng):
    """every prefix of a small well-formed stream (uncompressed and test-codec frames): the frames that are complete
    are delivered, then io.ErrUnexpectedEOF (or io.EOF exactly at a frame boundary)"""
    kind = rng.choice(["none", "xor", "lxor"])
    frames = []
    for _ in range(rng.randrange(1, 4)):
        m = rbytes(rng, rng.randrange(0, 6))
        if kind != "none" and m and rng.random() < 0.6:
            p = xor_enc(m)
            frames.append([1] + be32(len(p)) + p)
        else:
            frames.append([0] + be32(len(m)) + m)
    stream = [b for f in frames for b in f]
    ch = chunks(rng)
    srv = rng.randrange(2)
    cases = []
    for cut in range(len(stream) + 1):
        cases.append(["cfg 64 %s named %d" % (kind, srv), "chunks " + ch, "raw " + hexs(stream[:cut])] + ["recv"] * (len(frames) + 2))
    return cases


def stateless(rng, tier):
    ops = []
    for pf in range(256):
        for rc in ("empty", "identity", "named"):
            for have in (0, 1):
                for srv in (0, 1):
                    ops.append("chk %d %s %d %d" % (pf, rc, have, srv))
    for lim in (0, 1, 2, 99, 100, 101, 1000, 32767, 32768, 32769, "max"):
        for n in (0, 1, 2, 99, 100, 101, 102, 32768, 32769, 32770, 200000):
            ops.append("lgz %s %d 00" % (lim, n))
    for pf in (0, 1, 2, 255):
        for dl in (0, 1, 255, 256, 65535, 65536, 70000):
            for cl in (0, 1, 255, 256, 65535, 65536, 70001):
                ops.append("hdr %d %d %d" % (pf, dl, cl))
    for _ in range(300 if tier == "quick" else 3000):
        size = rng.randrange(0, 30)
        body = rbytes(rng, size)
        p = xor_enc(body)
        k = rng.random()
        if k < 0.2:
            p = p[:-1] + [rng.randrange(256)]
        elif k < 0.3:
            p = rbytes(rng, rng.randrange(0, 6))
        lim = rng.choice([0, 1, size - 1, size, size + 1, 100])
        if k > 0.85:
            n = rng.choice([0, 1, lim, lim + 1, lim + 2, 5000])
            p = [0x52] + be32(max(n, 0)) + [rng.randrange(256), 0xA5][:rng.choice([2, 2, 2, 1])]
        ops.append("dec %d %s %s" % (max(lim, 0), rng.choice(["none", "xor", "lxor", "gzip", "lgzip"]), hexs(p)))
    return ops


def gen(rng, tier):
    n = {"quick": 1500, "thorough": 40000, "search": 6000}[tier]
    st = stateless(rng, tier)
    for i in range(0, len(st), 2000):
        yield Case("framing", st[i:i + 2000], "stateless-%d" % (i // 2000))
    for kind in KINDS:
        for rc in ("named", "empty", "identity"):
            for srv in (0, 1):
                if tier == "quick" and rc != "named" and srv == 1:
                    fl = [0, 1, 2, 255]
                else:
                    fl = range(256)
                yield Case("framing", scenario_flags(kind, rc, srv, fl), "flags-%s-%s-%d" % (kind, rc, srv))
    for i in range(n):
        k = i % 10
        if k < 3:
            ops = scenario_wellformed(rng)
        elif k < 6:
            ops = scenario_roomy(rng)
        elif k < 8:
            ops = scenario_raw(rng)
        elif k < 9:
            ops = scenario_bomb(rng, tier)
        else:
            ops = scenario_xor_bomb(rng)
        yield Case("framing", ops, "scn-%d" % i)
    for i in range(n // 40):
        for j, ops in enumerate(scenario_prefixes(rng)):
            yield Case("framing", ops, "prefix-%d-%d" % (i, j))


def nontrivial(case, impl_lines):
    return any(op == "recv" for op in case.ops) or case.tag.startswith("stateless")
