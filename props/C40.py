"""C40 Outlier detection ejects by the A50 rules and counts ejections correctly."""
from vlib.core import Case

ID = "C40"
COMPONENTS = ["s_outlier"]
T4 = []
PROOF_MODULES = ["GrpcProofs.Properties.C40"]
THEOREMS = ["GrpcProofs.C40." + t for t in (
    "run_reach", "eject_only_if_volume_and_criterion", "fp_criterion_exact_where_float_agrees",
    "sr_criterion_is_mean_minus_stdev", "only_the_interval_timer_ejects",
    "no_eject_at_or_above_max_percent", "timer_loops_are_InFire", "already_ejected_is_skipped",
    "counter_equals_true_count",
    "uneject_rule_step", "uneject_after_rule", "uneject_only_in_timer_or_noop",
    "ejected_looks_TF_to_child_partial", "scw_ejected_iff_endpoint_ejected", "ejected_endpoint_never_looks_healthy",
    "ejected_looks_TF_to_child_counterexample", "noop_config_unejects_all", "noop_config_unejects_all_subconns",
    "noop_config_resets_counter")]
DESIGN_REF = "DESIGN.md section 8, C40"
TECHNIQUE = ("Lean 4 theorems over an executable model of the balancer (exact rational success-rate criterion, bit-exact binary64 for the "
             "two percentage comparisons, map order and random draws as explicit arguments) + T2 correspondence: the real balancer under "
             "testing/synctest with a stub child, recording ClientConn and metrics recorder, diffed state-for-state after every operation")
LEVEL_TEXT = ("Machine-checked proofs, for every history of calls, timer firings, config changes and endpoint updates, every map iteration "
              "order and every sequence of random draws: an endpoint becomes ejected only in the interval timer and only with request "
              "volume, enough hosts and a failed criterion; numEndpointsEjected always equals the number of ejected current endpoints, "
              "so no ejection happens at or above max_ejection_percent (integer comparison); an endpoint that is ejected is never "
              "ejected again; un-ejection follows min(base*mult, max(base, max_ejection_time)); an ejected endpoint's sub-connections "
              "never show a healthy state to the child; a no-op config un-ejects everything and resets the counter. The place where "
              "the code still breaks the statement (missing TRANSIENT_FAILURE on late listener registration, F5d) is proved as a "
              "counterexample on the model and reported by the monitor on the real balancer.")
LEVEL_NOTE = ("Trusted: Lean kernel; the hand model in lean/GrpcModel/Model/Outlier.lean (tied by the differential run: every field of "
              "every endpointInfo, numEndpointsEjected, timer start, deliveries to the child and pickers sent to the parent are compared "
              "after every op). The model ports the code after the repairs 7e59030 (F5a), da1d093 (F5b), 239aef5 (F5c); reverting any "
              "of them makes the monitor report the old violation again. Readings: (1) the success-rate criterion is evaluated exactly "
              "over Q in the model and in binary64 in the code (it contains a square root); when an endpoint is within 1e-9 of the "
              "threshold the comparison of that case is suspended (model output `*`) and the ejection is not judged, except when all "
              "considered hosts have the same rate (then no host may be ejected: F5e). (2) failure percentage: A50 says `greater "
              "than`, config.go `greater than or equal`; the monitor accepts ejection at equality (11 of 20 calls, threshold 55 is "
              "ejected by binary64 rounding). (3) `appear TRANSIENT_FAILURE to the child`: the last state delivered to the child's "
              "registered health listener is TRANSIENT_FAILURE (raw connectivity updates pass through by design, A61); F5d. "
              "(4) title clause `counts ejections correctly`: numEndpointsEjected equals the number of ejected current endpoints.")
GAP = ("binary64 evaluation of mean/stddev (order dependent); uint32 bucket overflow; int64 overflow of base*multiplier; endpoints with "
       "several addresses; picks racing with the swap of the buckets; interval 0")
ASSUMPTIONS = ["fewer than 2^32 calls per endpoint and interval", "base_ejection_time * multiplier < 2^63 ns", "one address per endpoint in the tie",
               "interval >= 1 ms in the tie"]
RULE = ("scenario families over 2..8 endpoints (plus a 50 endpoint witness): success-rate and failure-percentage ejection with boundary "
        "request volumes / minimum hosts / thresholds / max_ejection_percent, enforcement 0/100/random, repeated ejection (multiplier "
        "growth and decay), un-ejection boundaries around base*mult and max(base,max), config changes (no-op, shorter interval, "
        "changed times) and resolver updates adding/removing/re-adding (ejected) endpoints, sub-connection churn (state changes, "
        "health updates while ejected, new sub-connections on ejected endpoints, shutdown), and random op soups; a case is "
        "non-trivial if at least one ejection happened; distinct = distinct op sequence")


class Sim:
    """generator-side bookkeeping of sub-connection serials (mirrors the stub child)"""

    def __init__(self):
        self.serial = 0
        self.live = {}      # serial -> endpoint id
        self.ids = []
        self.ops = []
        self.started = False
        self.readied = set()

    def subs_of(self, i):
        return [s for s, a in self.live.items() if a == i]

    def cfg(self, interval, base, maxej, pct, sr, fp, ids):
        def alg(a):
            return "-" if a is None else ":".join(str(x) for x in a)
        self.ops.append("cfg %d %d %d %d %s %s %s" % (interval, base, maxej, pct, alg(sr), alg(fp),
                                                     ",".join(str(i) for i in ids) or "-"))
        for s in [s for s, a in self.live.items() if a not in ids]:
            del self.live[s]
        for i in ids:
            if not self.subs_of(i):
                self.serial += 1
                self.live[self.serial] = i
        self.ids = list(ids)
        self.started = True

    def ready_all(self, health=True):
        for s in sorted(self.live):
            if s in self.readied:
                continue            # re-registering a health listener on an ejected endpoint is F5d territory
            self.readied.add(s)
            self.ops.append("sc %d 2" % s)
            if health:
                self.ops.append("health %d 2" % s)

    def calls(self, i, ok, bad):
        ss = self.subs_of(i)
        if ss:
            self.ops.append("calls %d %d %d" % (ss[0], ok, bad))

    def newsc(self, i):
        self.ops.append("newsc %d" % i)
        if self.started:
            self.serial += 1
            self.live[self.serial] = i
            return self.serial

    def rmsc(self, s):
        self.ops.append("rmsc %d" % s)
        self.live.pop(s, None)

    def op(self, s):
        self.ops.append(s)


def traffic(sim, rng, ids, bad, good_rate=(20, 0), bad_rate=(0, 20)):
    order = list(ids)
    rng.shuffle(order)
    for i in order:
        r = bad_rate if i in bad else good_rate
        sim.calls(i, r[0], r[1])


def sc_success_rate(rng):
    sim = Sim()
    n = rng.randrange(3, 9)
    ids = rng.sample(range(1, 12), n)
    interval = rng.choice([10, 20, 50])
    base = rng.choice([0, 10, 30, 50, 100])
    maxej = rng.choice([0, 20, 60, 300])
    pct = rng.choice([0, 10, 25, 33, 34, 50, 51, 75, 100])
    vol = rng.choice([0, 1, 5, 10, 20])
    sr = (rng.choice([0, 500, 1000, 1900]), rng.choice([0, 100, 100, 100, 50]), rng.randrange(0, n + 2), vol)
    sim.cfg(interval, base, maxej, pct, sr, None, ids)
    if rng.random() < 0.8:
        sim.ready_all(rng.random() < 0.8)
    for rnd in range(rng.randrange(1, 5)):
        nb = rng.randrange(0, min(3, n) + 1)
        bad = set(rng.sample(ids, nb))
        tot = rng.choice([max(vol, 1), max(vol, 1) + 3, 20, 40])
        for i in rng.sample(ids, n):
            if i in bad:
                f = rng.choice([tot, tot, tot // 2 + 1, tot - 1])
                sim.calls(i, tot - f, f)
            elif rng.random() < 0.9:
                t2 = rng.choice([tot, tot, max(0, vol - 1), tot + 1])
                f = rng.choice([0, 0, 0, 1])
                sim.calls(i, max(0, t2 - f), min(f, t2))
        sim.op("sleep %d" % interval if rng.random() < 0.8 else "fire")
        if rng.random() < 0.3:
            sim.op("sleep %d" % rng.choice([interval, 2 * interval, base + 1, base + interval]))
    sim.op("sleep %d" % rng.choice([interval, base * 2 + interval, 5 * interval, max(base, maxej) + 2 * interval]))
    return sim.ops


def sc_failure_pct(rng):
    sim = Sim()
    n = rng.randrange(2, 9)
    ids = list(range(1, n + 1))
    interval = rng.choice([10, 25])
    base = rng.choice([0, 5, 10, 30])
    maxej = rng.choice([0, 20, 35, 300])
    pct = rng.choice([10, 20, 25, 50, 100, 0, 66, 67])
    vol = rng.choice([1, 4, 10, 20])
    thr = rng.choice([0, 10, 50, 55, 85, 99, 100])
    fp = (thr, rng.choice([0, 100, 100, 100, 30]), rng.randrange(0, n + 2), vol)
    sr = None if rng.random() < 0.7 else (1900, 100, rng.randrange(1, n + 1), vol)
    sim.cfg(interval, base, maxej, pct, sr, fp, ids)
    sim.ready_all(True)
    for rnd in range(rng.randrange(1, 6)):
        for i in rng.sample(ids, n):
            tot = rng.choice([vol, vol, vol - 1, vol + 1, 20, 10])
            if tot <= 0:
                continue
            # failures around the threshold: exactly at, one above, one below, all, none
            at = thr * tot // 100
            f = rng.choice([0, 0, at, at + 1, max(0, at - 1), tot, tot])
            f = min(max(f, 0), tot)
            sim.calls(i, tot - f, f)
        sim.op("sleep %d" % interval)
        if rng.random() < 0.4:
            sim.op("sleep %d" % rng.choice([interval, base, base + interval, max(base, maxej)]))
    sim.op("sleep %d" % (3 * interval + 2 * max(base, maxej)))
    return sim.ops


def sc_multiplier(rng):
    """one endpoint keeps failing: ejected, un-ejected, ejected again (multiplier grows), then decays"""
    sim = Sim()
    ids = [1, 2, 3, 4, 5][:rng.randrange(3, 6)]
    interval = 10
    base = rng.choice([10, 15, 20, 30])
    maxej = rng.choice([0, 25, 40, 60, 1000])
    fp = (50, 100, 1, 2)
    sim.cfg(interval, base, maxej, rng.choice([34, 50, 100]), None, fp, ids)
    sim.ready_all(True)
    early = rng.random() < 0.15     # failing calls on an endpoint that is still ejected: F5c territory
    for rnd in range(rng.randrange(3, 9)):
        traffic(sim, rng, ids, {1} if rng.random() < 0.8 else {1, 2}, (3, 0), (0, 3))
        sim.op("sleep %d" % interval)
        if early:
            for k in range(rng.randrange(0, 7)):
                sim.op("sleep %d" % interval)
                if rng.random() < 0.3:
                    traffic(sim, rng, ids, set(), (3, 0), (0, 3))
        else:
            # long enough to be un-ejected: min(base*mult, max(base,maxej)) <= max(base,maxej); capped for huge maxej by base*9
            need = min(max(base, maxej), base * 9)
            t = 0
            while t <= need + interval:
                d = interval * rng.randrange(1, 4)
                sim.op("sleep %d" % d)
                t += d
            if rng.random() < 0.5:
                for k in range(rng.randrange(0, 4)):
                    sim.op("sleep %d" % interval)
    for k in range(rng.randrange(0, 6)):
        sim.op("sleep %d" % (interval * rng.randrange(1, 4)))
    return sim.ops


def sc_config_changes(rng):
    sim = Sim()
    ids = list(range(1, rng.randrange(3, 7)))
    interval = rng.choice([10, 20, 40])
    base, maxej, pct = rng.choice([10, 30, 100]), rng.choice([20, 300]), rng.choice([30, 50, 100])
    fp = (50, 100, 1, 2)
    sr = (1900, 100, 2, 2) if rng.random() < 0.4 else None
    if sr and rng.random() < 0.5:
        fp = None
    sim.cfg(interval, base, maxej, pct, sr, fp, ids)
    sim.ready_all(True)
    for rnd in range(rng.randrange(2, 6)):
        bad = set(rng.sample(ids, min(len(ids), rng.randrange(0, 3)))) if ids else set()
        traffic(sim, rng, ids, bad, (4, 0), (0, 4))
        sim.op("sleep %d" % rng.choice([interval, interval // 2, interval + 3]))
        r = rng.random()
        if r < 0.2:          # no-op config (un-ejects all), then back
            sim.cfg(interval, base, maxej, pct, None, None, ids)
            if rng.random() < 0.7:
                traffic(sim, rng, ids, bad, (4, 0), (0, 4))
                sim.op("sleep %d" % interval)
            sim.cfg(interval, base, maxej, pct, sr, fp, ids)
        elif r < 0.4:        # shorter / longer interval (timer re-armed with the elapsed time deducted)
            interval = rng.choice([5, 10, 20, 40, 7])
            sim.cfg(interval, base, maxej, pct, sr, fp, ids)
        elif r < 0.55:       # changed ejection times
            base, maxej = rng.choice([0, 10, 30, 100]), rng.choice([0, 20, 300])
            sim.cfg(interval, base, maxej, pct, sr, fp, ids)
        elif r < 0.75:       # resolver update: add / remove healthy endpoints only
            pool = [i for i in range(1, 9)]
            keep = [i for i in ids if i in bad or rng.random() < 0.7]
            add = [i for i in pool if i not in ids and rng.random() < 0.3]
            ids = keep + add
            rng.shuffle(ids)
            sim.cfg(interval, base, maxej, pct, sr, fp, ids)
            sim.ready_all(True)
        elif r < 0.8:        # resolver update removing possibly ejected endpoints, re-adding later (F5a territory)
            gone = [i for i in ids if i in bad]
            ids = [i for i in ids if i not in bad]
            sim.cfg(interval, base, maxej, pct, sr, fp, ids)
            sim.op("sleep %d" % interval)
            ids = ids + gone
            sim.cfg(interval, base, maxej, pct, sr, fp, ids)
            sim.ready_all(True)
        elif r < 0.85:
            sim.op("quiet %d" % rng.randrange(2))
        elif r < 0.9:
            sim.op("childstate %d" % rng.randrange(4))
    sim.op("sleep %d" % (2 * interval + base))
    return sim.ops


def sc_subconns(rng):
    """sub-connection churn around an ejection"""
    sim = Sim()
    ids = [1, 2, 3, 4]
    interval, base = 10, rng.choice([20, 40, 100])
    sim.cfg(interval, base, 300, 50, None, (50, 100, 1, 2), ids)
    sim.ready_all(rng.random() < 0.8)
    traffic(sim, rng, ids, {4}, (4, 0), (0, 4))
    sim.op("sleep %d" % interval)
    late = rng.random() < 0.25      # re-registration of a health listener while ejected (F5d territory)
    for k in range(rng.randrange(3, 12)):
        r = rng.random()
        s = rng.choice(sorted(sim.live)) if sim.live else 1
        if r < 0.25:
            sim.op("health %d %d" % (s, rng.randrange(4)))
        elif r < 0.40:
            if late or sim.live.get(s) != 4:
                sim.op("sc %d %d" % (s, rng.randrange(4)))
            else:
                sim.op("sc %d %d" % (s, rng.choice([0, 1, 3])))
        elif r < 0.5:
            t = sim.newsc(rng.choice(ids))
            if t and (late or sim.live.get(t) != 4) and rng.random() < 0.7:
                sim.op("sc %d 2" % t)
                sim.op("health %d 2" % t)
        elif r < 0.58:
            sim.rmsc(s)
        elif r < 0.8:
            sim.op("sleep %d" % rng.choice([interval, base]))
        elif r < 0.9:
            traffic(sim, rng, ids, {4} if rng.random() < 0.5 else set(), (4, 0), (0, 4))
        else:
            sim.op("childstate %d" % rng.randrange(4))
    sim.op("sleep %d" % (base + 2 * interval))
    return sim.ops


def sc_soup(rng):
    sim = Sim()
    ops_n = rng.randrange(10, 45)
    ids = []
    interval, base, maxej, pct = 10, 20, 50, 50
    sr, fp = None, (50, 100, 1, 2)
    if rng.random() < 0.1:
        sim.op(rng.choice(["fire", "calls 1 1 1", "newsc 1", "childstate 2", "sleep 5", "sc 1 2"]))
    for k in range(ops_n):
        r = rng.random()
        if r < 0.12 or not sim.started:
            ids = rng.sample(range(1, 7), rng.randrange(0, 6))
            interval = rng.choice([5, 10, 20])
            base, maxej, pct = rng.choice([0, 10, 20, 40]), rng.choice([0, 15, 50]), rng.choice([0, 25, 50, 100])
            sr = rng.choice([None, (0, 100, 2, 2), (1000, 100, 1, 1), (1900, rng.choice([0, 50, 100]), 3, 4)])
            fp = rng.choice([None, (50, 100, 1, 2), (0, 100, 2, 1), (80, rng.choice([0, 50, 100]), 1, 5)])
            sim.cfg(interval, base, maxej, pct, sr, fp, ids)
        elif r < 0.45:
            s = rng.randrange(1, sim.serial + 2)
            sim.op("calls %d %d %d" % (s, rng.choice([0, 1, 2, 4, 8]), rng.choice([0, 0, 1, 3, 8])))
        elif r < 0.6:
            sim.op("sleep %d" % rng.choice([1, 5, 10, 20, 35]))
        elif r < 0.65:
            sim.op("fire")
        elif r < 0.75:
            s = rng.randrange(1, sim.serial + 2)
            st = rng.randrange(4)
            if st == 2 and rng.random() < 0.8:
                st = 3
            sim.op("sc %d %d" % (s, st))
        elif r < 0.83:
            sim.op("health %d %d" % (rng.randrange(1, sim.serial + 2), rng.randrange(4)))
        elif r < 0.88:
            sim.newsc(rng.randrange(1, 7))
        elif r < 0.92:
            sim.rmsc(rng.randrange(1, sim.serial + 2))
        elif r < 0.96:
            sim.op("childstate %d" % rng.randrange(4))
        else:
            sim.op("quiet %d" % rng.randrange(2))
    return sim.ops


def sc_early_ready(rng):
    sim = Sim()
    ids = [1, 2, 3]
    sim.cfg(10, 30, 300, 100, None, (50, 100, 1, 1), ids)
    for s in sorted(sim.live):
        sim.op("sc %d %d" % (s, rng.choice([1, 2, 2])))
    traffic(sim, rng, ids, {1, 2}, (2, 0), (0, 2))
    sim.op("sleep 10")
    sim.op("health 1 2")
    sim.op("health 3 %d" % rng.randrange(4))
    sim.op("sleep %d" % rng.choice([10, 30, 50]))
    return sim.ops


def witness_float_share():
    """F5b (fixed by da1d093): 50 endpoints, max_ejection_percent 58, 29 ejected: float64(29)/float64(50)*100 < 58"""
    sim = Sim()
    ids = list(range(1, 51))
    sim.cfg(1000, 100000, 300000, 58, None, (50, 100, 1, 1), ids)
    for i in range(1, 30):
        sim.calls(i, 0, 1)
    sim.op("fire")
    sim.calls(30, 0, 1)
    sim.op("fire")
    return sim.ops


def witness_exact_share(n, pct, k):
    """k failing endpoints of n at max_ejection_percent pct: exactly floor boundary behaviour"""
    sim = Sim()
    ids = list(range(1, n + 1))
    sim.cfg(10, 1000, 1000, pct, None, (50, 100, 1, 1), ids)
    for i in range(1, k + 1):
        sim.calls(i, 0, 2)
    sim.op("sleep 10")
    for i in range(1, k + 1):
        sim.calls(i, 0, 2)
    sim.op("sleep 10")
    return sim.ops


def witness_tight():
    sim = Sim()
    ids = [1, 2, 3]
    sim.cfg(10, 30, 300, 100, (0, 100, 2, 5), None, ids)
    for i in ids:
        sim.calls(i, 1, 9)
    sim.op("sleep 10")
    sim.op("sleep 10")
    return sim.ops


def witness_known(kind):
    sim = Sim()
    ids = [1, 2, 3, 4]
    sim.cfg(10, 100, 300, 50, None, (50, 100, 1, 2), ids)
    sim.ready_all(True)
    for i in (1, 2, 3):
        sim.calls(i, 4, 0)
    sim.calls(4, 0, 4)
    sim.op("sleep 10")
    if kind == "removed":        # F5a
        sim.cfg(10, 100, 300, 50, None, (50, 100, 1, 2), [1, 2, 3])
        sim.cfg(10, 100, 300, 50, None, (50, 100, 1, 2), [1, 2, 3, 4])
        sim.op("sleep 20")
    elif kind == "again":        # F5c
        sim.calls(4, 0, 4)
        sim.op("sleep 10")
        sim.op("sleep 300")
    elif kind == "late":         # F5d
        sim.op("sc 4 0")
        sim.op("sc 4 2")
        sim.op("health 4 2")
    return sim.ops


FAMILIES = [(sc_success_rate, 5), (sc_failure_pct, 5), (sc_multiplier, 3), (sc_config_changes, 4), (sc_subconns, 3),
            (sc_soup, 4), (sc_early_ready, 1)]


def gen(rng, tier):
    n = {"quick": 160, "thorough": 5000, "search": 2500}[tier]
    yield Case("s_outlier", witness_float_share(), "witness-29-of-50-at-58")
    yield Case("s_outlier", witness_tight(), "witness-equal-rates")
    for k in ("removed", "again", "late"):
        yield Case("s_outlier", witness_known(k), "witness-" + k)
    for (nn, pct, k) in ((4, 25, 2), (4, 26, 2), (4, 50, 3), (3, 34, 2), (3, 33, 2), (2, 50, 2), (5, 0, 1), (5, 100, 5), (20, 55, 12), (25, 28, 8)):
        yield Case("s_outlier", witness_exact_share(nn, pct, k), "share-%d-%d-%d" % (nn, pct, k))
    tot = sum(w for _, w in FAMILIES)
    for i in range(n):
        x = rng.randrange(tot)
        for f, w in FAMILIES:
            if x < w:
                yield Case("s_outlier", f(rng), f.__name__)
                break
            x -= w


def nontrivial(case, impl_lines):
    return any("ev=E." in l or ";E." in l for l in impl_lines)
