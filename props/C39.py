"""C39 Priority failover uses the best available priority."""
from vlib.core import Case

ID = "C39"
COMPONENTS = ["s_priority"]
T4 = ["Priority"]
PROOF_MODULES = ["GrpcProofs.Properties.C39"]
THEOREMS = ["GrpcProofs.C39." + t for t in (
    "run_reach", "in_use_is_first_usable", "not_usable_means_failed_or_timed_out",
    "lower_started_only_after_higher_failed_or_timed_out", "lower_closed_when_higher_ready",
    "parent_picker_is_in_use_childs", "init_timer_only_before_failure",
    "started_iff_active_in_balancer_group", "stopped_child_is_cached_or_closed",
    "callbacks_wait_only_after_deadline", "stale_callback_is_noop", "callback_acts_only_on_its_own_expired_timer")]
DESIGN_REF = "DESIGN.md section 8, C39"
TECHNIQUE = "Lean 4 inductive invariant over an executable model of the priority policy (+ the balancer group's sub-balancer cache) + T2 correspondence under testing/synctest"
LEVEL_TEXT = ("Machine-checked proof of an inductive invariant of a model of the priority policy, for every history of config updates "
              "(adding, removing, re-ordering priorities, changing a child's policy type), child state reports (from any child, also "
              "stopped or removed ones, also replayed from the balancer group's cache), init-timer and cache expirations: the child in "
              "use is the highest priority that is READY, IDLE or CONNECTING within its init timeout, else the lowest; every priority "
              "above it is started and has failed or timed out; every priority below it is stopped; the state last sent to the parent "
              "is the in-use child's connectivity state and picker; the callback of an init timer acts only if that timer is still the "
              "child's current one and its deadline has passed (a stopped timer's callback that was already dispatched is a no-op, so a "
              "child that re-connects keeps its whole new timeout). The model is diffed against the real balancer (built by its "
              "builder, real balancergroup, virtual time) after every operation.")
LEVEL_NOTE = ("Trusted: Lean kernel; the hand model in lean/GrpcModel/Model/Priority.lean (tied by the differential run: childInUse, "
              "priorities, every child's started flag / connectivity state / picker identity / reportedTF / init-timer presence, every "
              "state sent to the parent and every Build / UpdateClientConnState / Close the stub children see are compared after every "
              "op); T4: DefaultPriorityInitTimeout and DefaultSubBalancerCloseTimeout are regenerated from source. Readings: `closed` = "
              "stopped by the policy (removed from the balancer group, state reset, updates ignored); the balancer group keeps the "
              "sub-balancer in its cache for 15 minutes before Close unless GRPC_EXPERIMENTAL_ENABLE_PRIORITY_LB_CHILD_POLICY_CACHE "
              "semantics change that - the tie observes the delayed Close. `failed or timed out` = TRANSIENT_FAILURE, or CONNECTING "
              "with no init timer (expired, or re-connecting after a failure). Statements hold at quiescence (after the run goroutine "
              "has handled the queued updates); during UpdateClientConnState picker updates are inhibited by design. The window "
              "between an init timer firing and its callback obtaining the balancer's mutex is driven explicitly: the harness wraps "
              "the package's timeAfterFunc (overlay shim) so that a fired callback can be parked (`hold 1`) and released later "
              "(`release`), ops `dispatch` / `runcb` of the model; monitor P6 checks on the implementation's own snapshots that a started "
              "child which did not report and was not restarted loses its init timer only after the timer's deadline.")
GAP = "child policies whose UpdateClientConnState fails; duplicate names in `priorities`; ExitIdle / ResolverError forwarding; Close"
ASSUMPTIONS = ["priority names are distinct", "children report IDLE/CONNECTING/READY/TRANSIENT_FAILURE only"]
RULE = ("1..4 priorities out of 6 names with two child policy types: fail-over chains (CONNECTING/TF/READY/IDLE reports, sleeps "
        "around the 10 s init timeout and the 15 min cache timeout), config updates that re-order, insert at any position, remove, "
        "retype or remove all priorities between reports, reports from stopped / removed / never-built children, CONNECTING after "
        "READY (timer restart) vs after TF (no restart); held init-timer callbacks (the window between a timer firing and its callback "
        "taking the mutex: the child reports READY/IDLE/TF and CONNECTING again, configs are re-ordered, then the parked callbacks "
        "are released in order); non-trivial = at least three different values of childInUse in the case")


def cfg(prios, types):
    return "cfg %s %s" % (",".join(str(p) for p in prios) or "-", ",".join("%d:%s" % (p, types[p]) for p in sorted(set(prios))) or "-")


def sc_failover(rng):
    n = rng.randrange(1, 5)
    prios = rng.sample(range(1, 7), n)
    types = {p: rng.choice("AB") for p in range(1, 7)}
    ops = [cfg(prios, types)]
    for k in range(rng.randrange(5, 30)):
        r = rng.random()
        if r < 0.55:
            p = rng.choice(prios) if rng.random() < 0.9 else rng.randrange(1, 7)
            ops.append("child %d %d" % (p, rng.choice([1, 1, 2, 2, 3, 3, 0])))
        elif r < 0.8:
            ops.append("sleep %d" % rng.choice([1, 5000, 9999, 10000, 10001, 20000, 3000]))
        elif r < 0.85:
            ops.append("sleep %d" % rng.choice([900000, 899999, 450000]))
        else:
            ops.append(cfg(prios, types))
    return ops


def sc_reconfig(rng):
    pool = list(range(1, 6))
    types = {p: "A" for p in pool}
    prios = rng.sample(pool, rng.randrange(1, 5))
    ops = [cfg(prios, types)]
    for k in range(rng.randrange(6, 35)):
        r = rng.random()
        if r < 0.45:
            p = rng.choice(prios) if prios and rng.random() < 0.85 else rng.choice(pool)
            ops.append("child %d %d" % (p, rng.choice([1, 2, 3, 0, 2, 3])))
        elif r < 0.6:
            ops.append("sleep %d" % rng.choice([1000, 10000, 10000, 30000, 900000]))
        else:
            q = rng.random()
            if q < 0.3 and prios:                      # reorder
                rng.shuffle(prios)
            elif q < 0.5:                              # add one (top, middle or bottom)
                cand = [p for p in pool if p not in prios]
                if cand and len(prios) < 4:
                    prios.insert(rng.randrange(len(prios) + 1), rng.choice(cand))
            elif q < 0.7 and prios:                    # remove one
                prios.pop(rng.randrange(len(prios)))
            elif q < 0.8 and prios:                    # change a child's policy type
                p = rng.choice(prios)
                types[p] = "B" if types[p] == "A" else "A"
            elif q < 0.85:                             # remove all
                prios = []
            else:                                      # completely new list
                prios = rng.sample(pool, rng.randrange(1, 5))
            ops.append(cfg(prios, types))
    return ops


def sc_timers(rng):
    """init timer edge cases: CONNECTING restarts the timer only when coming from READY/IDLE"""
    prios = [1, 2, 3][:rng.randrange(2, 4)]
    types = {p: "A" for p in prios}
    ops = [cfg(prios, types)]
    t = 0
    for k in range(rng.randrange(6, 25)):
        r = rng.random()
        if r < 0.5:
            ops.append("child %d %d" % (rng.choice(prios), rng.choice([1, 1, 1, 2, 0, 3])))
        else:
            ops.append("sleep %d" % rng.choice([2500, 5000, 7500, 9999, 1, 10000]))
    return ops


def sc_held_callbacks(rng):
    """the window between an init timer firing and its callback obtaining the balancer's mutex: with `hold 1` a fired
    callback parks; the child may meanwhile report READY/IDLE/TF (timer stopped) and CONNECTING again (new timer armed);
    `release` lets the oldest parked callback run"""
    prios = [1, 2, 3][:rng.randrange(2, 4)]
    types = {p: "A" for p in prios}
    ops = [cfg(prios, types), "hold 1"]
    for p in prios:
        if rng.random() < 0.6:
            ops.append("child %d 1" % p)
    for rnd in range(rng.randrange(1, 4)):
        ops.append("sleep %d" % rng.choice([10000, 10000, 9999, 10001, 20000]))
        # between the dispatch and the release: stop the timer and possibly arm a new one
        for k in range(rng.randrange(0, 5)):
            p = rng.choice(prios)
            r = rng.random()
            if r < 0.45:
                ops.append("child %d %d" % (p, rng.choice([2, 0, 3])))
                if rng.random() < 0.7:
                    if rng.random() < 0.4:
                        ops.append("child %d 0" % p)
                    ops.append("child %d 1" % p)
            elif r < 0.6:
                ops.append("child %d 1" % p)
            elif r < 0.7:
                ops.append("sleep %d" % rng.choice([1, 5000, 10000]))
            elif r < 0.8:
                q = list(prios)
                rng.shuffle(q)
                ops.append(cfg(q, types))
            else:
                ops.append("release")
        for k in range(rng.randrange(1, 4)):
            ops.append("release")
        if rng.random() < 0.3:
            ops.append("hold %d" % rng.randrange(2))
        if rng.random() < 0.5:
            ops.append("child %d %d" % (rng.choice(prios), rng.choice([1, 2, 3, 0])))
    ops.append("sleep %d" % rng.choice([10000, 20000]))
    ops.append("release")
    ops.append("release")
    return ops


FAMILIES = [(sc_failover, 4), (sc_reconfig, 5), (sc_timers, 3), (sc_held_callbacks, 4)]


def gen(rng, tier):
    n = {"quick": 300, "thorough": 8000, "search": 4000}[tier]
    tot = sum(w for _, w in FAMILIES)
    for i in range(n):
        x = rng.randrange(tot)
        for f, w in FAMILIES:
            if x < w:
                yield Case("s_priority", f(rng), f.__name__)
                break
            x -= w


def nontrivial(case, impl_lines):
    uses = set()
    for l in impl_lines:
        if l.startswith("use="):
            uses.add(l.split(" ")[0])
    return len(uses) >= 3
