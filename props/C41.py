"""C41 RLS keys are faithful and the RLS cache is consistent."""
from vlib.core import Case

ID = "C41"
COMPONENTS = ["rlskeys", "rlsadaptive", "s_rlscache"]
T4 = ["RLS"]
PROOF_MODULES = ["GrpcProofs.Properties.C41"]
THEOREMS = ["GrpcProofs.C41." + t for t in (
    "key_contents_spec", "key_none_iff_no_builder", "map_to_string_not_injective_counterexample",
    "distinct_key_maps_distinct_cache_keys_counterexample", "distinct_key_maps_distinct_cache_keys_partial",
    "cache_size_is_sum", "cache_size_needs_contract", "evicts_lru_first_stops_at_unevictable",
    "lookback_sum_is_window_sum", "probability_formula", "window_is_30_seconds")]
DESIGN_REF = "DESIGN.md section 8, C41"
TECHNIQUE = ("Lean 4 theorems over three ported models (key builder as list/assoc-list functions; dataCache = map + LRU list with an "
             "inductive invariant; lookback ring buffer with a representation invariant relating every bin to the history of adds, "
             "throttle probability in Rat) + T1/T2 differential correspondence on the real keys.BuilderMap, dataCache (in a synctest "
             "bubble for time.Now), lookback and Throttler (clock and random source overridden) + T4 for defaultBins/defaultDuration")
LEVEL_TEXT = ("Machine-checked proofs that the RLS key map of a request is exactly constants > method > service > host > first-present-"
              "header per key builder (for every config and header set), that dataCache.currentSize equals the sum of the entries' "
              "sizes after every op sequence respecting the add-only-absent-keys contract, that resize evicts a prefix of the LRU "
              "order consisting of evictable entries, no more than needed, and stops only when small enough or at an unevictable "
              "entry, that lookback's total always equals the sum of the adds whose bin lies in (head-bins, head] for every timeline "
              "(including clock jumps backwards and forwards), and that ShouldThrottle is (requests-2*accepts)/(requests+8) > r over "
              "those window sums with 100 bins x 300 ms = 30 s. The clause 'different key maps never share a cache entry' is FALSE "
              "of the code (F6): proved as a counterexample in the model and reproduced on the real code; listed as a known finding.")
LEVEL_NOTE = ("Trusted: Lean kernel; the hand models lean/GrpcModel/Model/RLS{Keys,Cache,Adaptive}.lean; float64 arithmetic of "
              "ShouldThrottle modelled in Rat (operands are small exact integers; random draws in the tie are k/2^j); ASCII header "
              "names for metadata.MD.Get's ToLower; 'exactly the last 30 seconds' is at bin granularity: the window is the last 100 "
              "bins of 300 ms ending with the bin of the latest clock reading (29.7 s .. 30 s). defaultRatioForAccepts / "
              "defaultRequestsPadding are float literals the T4 extractor cannot read (framework note); they are literals in the "
              "model and guarded by the differential run only.")
GAP = "picker / control-channel glue around the cache (only the cacheKey composition of the picker is exercised, by op `share`); int64 overflow"
ASSUMPTIONS = ["callers add only keys that are not in the cache (checked at the picker's call site by reading: getEntry == nil before addEntry)",
               "times are non-negative UnixNano values; bins > 0, duration >= bins",
               "header names in key builders are ASCII"]
RULE = ("rlskeys: random RouteLookupConfigs (1-3 key builders, valid and invalid: repeated keys, required_match, empty service, slash in "
        "method, repeated names) x requests over paths with/without builder, header sets with 0-3 values, values containing ',' and "
        "'='; `share` pairs incl. the F6 witness; rlsadaptive: lookbacks with 1..100 bins, timelines with forward steps, jumps beyond "
        "the window and backward jumps, throttler timelines with draws k/1024 around the current probability; s_rlscache: random "
        "add/get/resize/evict/upd/rm/rbo/stop/sleep with evictable and unevictable, expired and unexpired entries, backoff timers. "
        "One op = one evaluation; non-trivial = key op with a non-empty map, lookback op with non-zero sum, cache op on a non-empty cache")


def hx(s):
    return s.encode().hex() if s else "-"


KEYPOOL = ["a", "b", "k", "id", "", "a", "b"]
HDRS = ["ha", "hb", "x-id", "Ha", "hc"]
VALS = ["1", "2", "v", "1,b=2", "x=y", "", "a b", "/"]


def gen_cfg(rng):
    ops = []
    for _ in range(rng.randrange(1, 4)):
        names = []
        for _ in range(rng.randrange(0 if rng.random() < 0.05 else 1, 3)):
            svc = rng.choice(["s", "t", "s", "u.v"]) if rng.random() > 0.04 else ""
            m = rng.choice(["", "m", "n", ""]) if rng.random() > 0.04 else "a/b"
            names.append(hx(svc) + ":" + hx(m))
        hs = []
        for _ in range(rng.randrange(0, 4)):
            key = rng.choice(KEYPOOL)
            ns = "|".join(hx(rng.choice(HDRS)) for _ in range(rng.choice([0, 1, 2, 3, 3, 4]))) or "-"
            hs.append("%s:%d:%s" % (hx(key), 1 if rng.random() < 0.03 else 0, ns))
        cs = []
        for _ in range(rng.randrange(0, 3)):
            cs.append(hx(rng.choice(["c1", "c2", "k", "const"])) + ":" + hx(rng.choice(VALS)))
        ex = [hx(rng.choice(["", "", "host", "a", "svc"])), hx(rng.choice(["", "", "service", "svc", "b"])),
              hx(rng.choice(["", "", "method", "m"]))]
        ops.append("kb %s %s %s %s" % (";".join(names) or "-", ";".join(hs) or "-", ";".join(cs) or "-", " ".join(ex)))
    ops.append("build")
    return ops


def gen_md(rng):
    items = []
    for h in rng.sample(["ha", "hb", "x-id", "hc", "Ha", "zz"], rng.choice([0, 1, 2, 3, 4, 5, 5])):
        vals = [hx(rng.choice(VALS)) for _ in range(rng.choice([0, 1, 1, 2, 3]))]
        items.append(hx(h) + ":" + "|".join(vals))
    return ";".join(items) or "-"


PATHS = ["/s/m", "/s/n", "/t/m", "/x/y", "/s/", "nopath", "/s/m/extra", "/u.v/m", "/t/", "/"]


def rlskeys_case(rng, n):
    ops = gen_cfg(rng)
    for _ in range(n):
        host = hx(rng.choice(["h", "example.com", ""]))
        path = hx(rng.choice(PATHS))
        if rng.random() < 0.75:
            ops.append("key %s %s %s" % (host, path, gen_md(rng)))
        else:
            ops.append("share %s %s %s %s" % (host, path, gen_md(rng), gen_md(rng)))
    return ops


def f6_case():
    # key a from header ha, key b from header hb; {a:"1,b=2"} vs {a:"1", b:"2"}
    return ["kb %s:- %s:0:%s;%s:0:%s - - - -" % (hx("s"), hx("a"), hx("ha"), hx("b"), hx("hb")), "build",
            "key %s %s %s:%s" % (hx("h"), hx("/s/m"), hx("ha"), hx("1,b=2")),
            "key %s %s %s:%s;%s:%s" % (hx("h"), hx("/s/m"), hx("ha"), hx("1"), hx("hb"), hx("2")),
            "share %s %s %s:%s %s:%s;%s:%s" % (hx("h"), hx("/s/m"), hx("ha"), hx("1,b=2"), hx("ha"), hx("1"), hx("hb"), hx("2"))]


def lookback_case(rng, n):
    bins = rng.choice([1, 2, 3, 4, 5, 10, 100])
    w = rng.choice([1, 7, 100, 300000000])
    ops = ["lnew %d %d" % (bins, bins * w + rng.randrange(0, bins))]
    t = rng.choice([0, 5 * w, 10 ** 6 * w])
    for _ in range(n):
        r = rng.random()
        if r < 0.55:
            t += rng.randrange(0, 2 * w)
        elif r < 0.75:
            t += rng.randrange(w, (bins + 2) * w)
        elif r < 0.85:
            t += rng.randrange(bins * w, 3 * bins * w + 1)
        else:
            t = max(0, t - rng.randrange(0, (bins + 2) * w))
        if rng.random() < 0.7:
            ops.append("ladd %d %d" % (t, rng.choice([1, 1, 1, 2, 5, -1])))
        else:
            ops.append("lsum %d" % t)
    return ops


def throttle_directed():
    t = 10 ** 9
    # 8 throttles, no accepts: probability exactly 1/2; the draw 1/2 must not throttle, a hair below must
    yield ["tnew"] + ["resp %d 1" % t] * 8 + ["should %d 512 1024" % t, "should %d 511 1024" % t, "should %d 512 1024" % t]
    # 1 accept, 11 throttles: (12-2)/(12+8) = 1/2
    yield ["tnew", "resp %d 0" % t] + ["resp %d 1" % t] * 11 + ["should %d 1 2" % t, "should %d 499 1000" % t]
    # accepts dominate: probability negative, never throttles even with draw 0
    yield ["tnew"] + ["resp %d 0" % t] * 5 + ["resp %d 1" % t] * 2 + ["should %d 0 1" % t]
    # window edge: a throttle recorded 29.9 s ago still counts, 30.0 s ago does not
    yield ["tnew"] + ["resp %d 1" % t] * 8 + ["should %d 511 1024" % (t + 29700 * 10 ** 6), "should %d 0 1024" % (t + 30000 * 10 ** 6)]


def throttle_case(rng, n):
    ops = ["tnew"]
    t = rng.choice([10 ** 9, 1700000000 * 10 ** 9])
    acc = thr = 0
    for _ in range(n):
        r = rng.random()
        if r < 0.7:
            t += rng.randrange(0, 400 * 10 ** 6)
        elif r < 0.9:
            t += rng.randrange(0, 20 * 10 ** 9)
        elif r < 0.95:
            t += rng.randrange(25 * 10 ** 9, 40 * 10 ** 9)
        else:
            t = max(0, t - rng.randrange(0, 5 * 10 ** 9))
        x = rng.random()
        if x < 0.35:
            ops.append("resp %d 1" % t)
            thr += 1
        elif x < 0.55:
            ops.append("resp %d 0" % t)
            acc += 1
        else:
            ops.append("should %d %d 1024" % (t, rng.choice([0, 1, 100, 300, 512, 700, 900, 1000, 1023, rng.randrange(1024)])))
    return ops


def cache_case(rng, n):
    ops = ["new %d" % rng.choice([10, 20, 50, 5])]
    now = 1000
    nextkey = 1
    known = []
    for _ in range(n):
        r = rng.random()
        if r < 0.40:
            if known and rng.random() < 0.05:
                k = rng.choice(known)          # possibly still present: caller-contract violation, rarely
            else:
                k = nextkey
                nextkey += 1
                known.append(k)
            ee = now + rng.choice([0, 0, 5, 5, -3, 1])
            ex = now + rng.choice([10, 100, 0, 3])
            hb = 1 if rng.random() < 0.3 else 0
            bx = now + rng.choice([20, 2]) if hb and rng.random() < 0.7 else 0
            ta = now + rng.choice([30, 4]) if hb and rng.random() < 0.7 else 0
            ops.append("add %d %d %d %d %d %d %d" % (k, rng.choice([1, 2, 3, 5, 8, 30]), ee, ex, bx, hb, ta))
        elif r < 0.55 and known:
            ops.append("get %d" % rng.choice(known))
        elif r < 0.67:
            ops.append("resize %d" % rng.choice([0, 3, 5, 8, 10, 20, 50]))
        elif r < 0.75:
            ops.append("evict")
        elif r < 0.82 and known:
            ops.append("upd %d %d" % (rng.choice(known), rng.choice([1, 4, 9])))
        elif r < 0.86 and known:
            ops.append("rm %d" % rng.choice(known))
        elif r < 0.89:
            ops.append("rbo")
        elif r < 0.90:
            ops.append("stop")
        else:
            s = rng.choice([1, 2, 5, 6, 10, 50])
            now += s
            ops.append("sleep %d" % s)
    return ops


def gen(rng, tier):
    n = {"quick": 250, "thorough": 6000, "search": 8000}[tier]
    yield Case("rlskeys", f6_case(), "f6-witness")
    for i in range(n):
        yield Case("rlskeys", rlskeys_case(rng, rng.randrange(3, 14)), "keys-%d" % i)
    for i in range(n):
        yield Case("rlsadaptive", lookback_case(rng, rng.randrange(5, 60)), "lookback-%d" % i)
    for i, ops in enumerate(throttle_directed()):
        yield Case("rlsadaptive", ops, "throttle-directed-%d" % i)
    for i in range(n // 2):
        yield Case("rlsadaptive", throttle_case(rng, rng.randrange(10, 80)), "throttle-%d" % i)
    for i in range(n):
        yield Case("s_rlscache", cache_case(rng, rng.randrange(5, 45)), "cache-%d" % i)


UNIT = "op"


def nontrivial_op(op, out):
    if op.startswith("key "):
        return out.startswith("map=") and not out.startswith("map=- ")
    if op.startswith("share "):
        return True
    if op.startswith("ladd") or op.startswith("lsum") or op.startswith("should") or op.startswith("resp"):
        return "total=0 " not in out
    if op.split()[0] in ("add", "get", "resize", "evict", "upd", "rm", "rbo", "sleep"):
        return " n=0" not in out
    return False
