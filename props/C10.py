"""C10 A handler's status reaches the client unchanged."""
from vlib.core import Case

ID = "C10"
COMPONENTS = ["s_status", "statusfn", "s_rawpeer"]
T4 = ["MdWire", "Timeout"]
PROOF_MODULES = ["GrpcProofs.Properties.C10"]
THEOREMS = ["GrpcProofs.C10." + t for t in (
    "status_roundtrip_partial", "status_roundtrip_counterexample_code", "status_roundtrip_counterexample_details",
    "code_ge_2p31_malformed", "details_lost_when_unmarshalable", "handler_nil_client_nil", "nonok_never_nil",
    "plain_error_unknown", "paths_agree", "message_roundtrip", "message_roundtrip_valid", "grpc_status_decimal",
    "details_bin_roundtrip", "proto_roundtrip", "client_switch_names")]
DESIGN_REF = "DESIGN.md section 8, C10"
TECHNIQUE = ("Lean 4 theorems about a model of writeStatus -> trailer fields -> client operateHeaders/NewWithProto "
             "(list induction, omega for base64/varint/decimal arithmetic) + T2 end-to-end correspondence (real grpc.Server and "
             "grpc.NewClient over bufconn in a synctest bubble) + T1 on the codec functions + T4 regenerated header tables")
LEVEL_TEXT = ("Machine-checked Lean proofs about a model of writeStatus -> trailer header fields -> client operateHeaders -> NewWithProto -> Err: "
              "for every response shape, trailer metadata, message byte string and detail list, a status with code < 2^31 arrives with the same code, "
              "the message with invalid UTF-8 replaced by U+FFFD and the same details; nil stays nil; a non-OK status never becomes nil (all codes, all inputs); "
              "the two inputs classes on which the statement fails on the unchanged code (codes >= 2^31; invalid-UTF-8 message with details) are proved to fail and "
              "characterised exactly. The model is diffed against real RPCs (grpc.Server + grpc.NewClient over bufconn) and against the codec functions on every run.")
LEVEL_NOTE = ("Readings: (1) the statement's domain is handlers that do not themselves put grpc-status-details-bin into the trailer (the code deliberately "
              "lets such a value stand in for the details: theorem hypothesis hu, monitor checks only the never-nil clause on those ops); (2) detail type URLs are "
              "valid UTF-8 (proto3 string); (3) a non-nil handler error whose GRPCStatus() is OK is outside the statement (observed: client sees nil, or INTERNAL "
              "cardinality violation on a unary call without reply). Trusted: the Lean ports of the protobuf wire encoding of google.rpc.Status, strconv.Itoa/ParseInt, "
              "unicode/utf8 and encoding/base64 (the round-trip theorems are proved ABOUT these ports; the ports are tied to the Go code by the differential "
              "runs, incl. crafted wire encodings), HPACK/http2 framing (fields are delivered as sent).")
GAP = ("header-list-size limits (a status larger than the peer's MaxHeaderListSize is turned into RST_STREAM/INTERNAL by writeStatus; not modelled, "
       "generator keeps statuses small); HPACK and HTTP/2 framing; goroutine scheduling of the real transports (exercised, not modelled)")
ASSUMPTIONS = ["the marshalled google.rpc.Status is shorter than 2^64 bytes (hypothesis hsz; every Go slice is)",
               "the http2 framer/HPACK deliver the trailer fields exactly as writeStatus queued them",
               "utf8.DecodeRune followed by string(r) reproduces the bytes of a valid encoding (canonical UTF-8)"]
RULE = ("s_status: one real RPC per op; every response path (unary, unary-on-stream with reply, stream trailers-only with/without reading, "
        "SendHeader first, 1 or 2 messages first) x every code 0..16 and boundary codes up to 2^31-1 exhaustively, a fixed list of 45 edge messages "
        "(percent signs, spaces, controls, valid/invalid/truncated/overlong UTF-8, 300 bytes) with and without details, then random cases of 25 RPCs "
        "(random path, kind status/GRPCStatus()-error/plain error, code incl. >= 2^31, message, 0-3 details, sometimes a handler-supplied "
        "grpc-status-details-bin: matching, mismatching, garbage, empty, doubled, mutated); ops that hit a listed known finding travel in single-op cases. "
        "statusfn: encodeGrpcMessage/decodeGrpcMessage (all 1-byte strings, byte pairs around every UTF-8 class boundary, all strings <= 4 over a 10-symbol "
        "alphabet), encodeBinHeader/decodeBinHeader (all strings <= 5 over {A,Q,/,=,\\n,\\r,-,space}, mutated valid encodings), proto.Marshal/Unmarshal of "
        "google.rpc.Status and NewWithProto on crafted wire encodings (unknown fields of every wire type, wrong wire types, groups, over-long varints, truncations). "
        "A case is non-trivial when at least one RPC ended with a non-nil error. s_rawpeer: the real client against a scripted raw HTTP/2 server: every listed grpc-status text (signs, leading zeros, blanks, non-digits, 2^31 boundaries, 20 digits), every listed grpc-message text, missing / repeated grpc-status and grpc-message, grpc-status-details-bin raw, padded, invalid, mismatching, doubled, with and without a preceding HEADERS frame.")

MAXU32 = 2**32 - 1
PATHS = ["u", "ub", "bx", "b0", "bh", "b1", "b2"]


def hexs(bs):
    return bytes(bs).hex() or "-"


def valid_utf8(bs):
    try:
        bytes(bs).decode("utf-8")
        return True
    except UnicodeDecodeError:
        return False


# ---- protobuf wire encoding of google.rpc.Status (for handler-supplied grpc-status-details-bin values)

def varint(v):
    out = []
    while True:
        if v < 128:
            out.append(v)
            return bytes(out)
        out.append(v % 128 + 128)
        v //= 128


def ld(tag, b):
    return bytes([tag]) + varint(len(b)) + bytes(b)


def marshal_status(code, msg, details):
    out = b""
    if code:
        out += b"\x08" + varint(code if code < 2**31 else code + 2**64 - 2**32)
    if msg:
        out += ld(0x12, msg)
    for (u, v) in details:
        body = (ld(0x0A, u) if u else b"") + (ld(0x12, v) if v else b"")
        out += ld(0x1A, body)
    return out


MSGS = [b"", b"m", b"hello world", b" lead", b"trail ", b"  ", b"%", b"%%", b"%4", b"%41", b"a%4", b"a%", b"100%", b"%zz", b"%4g", b"%e4%b8%ad",
        b"\x00", b"\n", b"\r\n", b"\t", b"\x7f", b"~", b"a\x1fb",
        "é".encode(), "中文".encode(), "😀".encode(), "aé中\U0001F600z".encode(), "�".encode(),
        b"\xff", b"\xc3", b"\xc3(", b"\xe0\x80\x80", b"\xed\xa0\x80", b"\xf4\x90\x80\x80", b"\xe4\xb8", b"\xf0\x9f\x98", b"a\xffb", b"\x80\x80",
        b"\xc0\xaf", b"\xf5\x80\x80\x80", b"\xef\xbf\xbd\xff", b"x" * 300, ("中" * 40).encode()]
URLS = [b"", b"t", b"type.googleapis.com/google.rpc.ErrorInfo", b"type.googleapis.com/x.Y", "ty/é".encode(), b"a.b/c"]
CODES_SMALL = list(range(0, 17)) + [17, 18, 99, 100, 255, 256, 65535, 65536, 2**31 - 2, 2**31 - 1]
CODES_BIG = [2**31, 2**31 + 1, 2**31 + 5, 2**32 - 2, 2**32 - 1, 3000000000]


def rand_bytes(rng, n):
    return bytes(rng.randrange(256) for _ in range(n))


def rand_msg(rng):
    r = rng.random()
    if r < 0.45:
        return rng.choice(MSGS)
    if r < 0.6:
        return bytes(rng.choice(b"abc %~4Ff1") for _ in range(rng.randrange(1, 12)))
    if r < 0.8:
        s = "".join(rng.choice(["a", " ", "%", "é", "中", "😀", "\x01", "~", "0"]) for _ in range(rng.randrange(1, 10)))
        return s.encode()
    return rand_bytes(rng, rng.randrange(1, 10))


def rand_details(rng, allow_bad_url=False):
    r = rng.random()
    if r < 0.5:
        return []
    n = 1 if r < 0.8 else rng.randrange(2, 4)
    ds = []
    for _ in range(n):
        u = rng.choice(URLS)
        if allow_bad_url and rng.random() < 0.5:
            u = b"bad\xff"
        k = rng.random()
        v = b"" if k < 0.2 else rand_bytes(rng, rng.randrange(1, 8)) if k < 0.9 else rand_bytes(rng, 200)
        ds.append((u, v))
    return ds


def show_details(ds):
    return ",".join(hexs(u) + "." + hexs(v) for u, v in ds) or "-"


def rand_ut(rng, code, msg):
    """values the handler puts under grpc-status-details-bin itself"""
    k = rng.randrange(7)
    m2 = msg if valid_utf8(msg) else b"other"
    if k == 0:
        vals = [marshal_status(code, m2, [])]
    elif k == 1:
        vals = [marshal_status(code, b"user message", [(b"u/t", b"\x01\x02")])]
    elif k == 2:
        vals = [marshal_status((code + 1) % 17, m2, [])]
    elif k == 3:
        vals = [rand_bytes(rng, rng.randrange(1, 9))]
    elif k == 4:
        vals = [b""]
    elif k == 5:
        vals = [marshal_status(code, m2, []), marshal_status(code, m2, [])]
    else:
        b = bytearray(marshal_status(code, b"mutated", [(b"u/t", b"v")]))
        if b:
            b[rng.randrange(len(b))] = rng.randrange(256)
        vals = [bytes(b)]
    return ",".join(hexs(v) if v else "~" for v in vals)


def op(path, kind, code, msg, details, ut="-"):
    return "rpc %s %s %d %s %s %s" % (path, kind, code, hexs(msg), show_details(details), ut)


def is_known(kind, code, msg, details, ut):
    """ops that hit a listed known finding travel alone, so that they cannot mask another violation of their case"""
    if kind == "plain" or ut != "-":
        return False
    if code >= 2**31:
        return True
    if code != 0 and details and not valid_utf8(msg) and all(valid_utf8(u) for u, _ in details):
        return True
    return False


def gen(rng, tier):
    n_cases = {"quick": 70, "thorough": 3000, "search": 1500}[tier]
    max_singles = {"quick": 90, "thorough": 1500, "search": 600}[tier]
    per = 25
    singles = []
    # exhaustive small part: every path x every small code, plain message
    ops = []
    for p in PATHS:
        for c in CODES_SMALL:
            ops.append(op(p, "st", c, b"m%d" % c if c % 2 else b"", []))
        ops.append(op(p, "plain", 0, b"plain error \xff!", []))
        ops.append(op(p, "gs", 0, b"ok but error", []))
        ops.append(op(p, "gs", 5, b"nf", [(b"t/u", b"\x01")]))
    for i in range(0, len(ops), per):
        yield Case("s_status", ops[i:i + per], "paths-x-codes")
    # every listed message on two paths, with and without details
    ops = []
    for m in MSGS:
        for p in ("u", "b1"):
            for ds in ([], [(b"type.googleapis.com/x.Y", b"\x08\x01")]):
                t = (p, "st", 3, m, ds, "-")
                (singles if is_known("st", 3, m, ds, "-") else ops).append(op(*t))
    for i in range(0, len(ops), per):
        yield Case("s_status", ops[i:i + per], "messages")
    for c in CODES_BIG:
        for p in ("u", "bx", "b2"):
            singles.append(op(p, "st", c, b"big", []))
    # random
    for k in range(n_cases):
        ops = []
        for _ in range(per):
            path = rng.choice(PATHS)
            kind = "st" if rng.random() < 0.8 else rng.choice(["gs", "plain"])
            r = rng.random()
            code = rng.randrange(0, 17) if r < 0.7 else rng.choice(CODES_SMALL) if r < 0.85 else rng.randrange(17, 2**31) if r < 0.95 else rng.randrange(2**31, 2**32)
            msg = rand_msg(rng)
            ds = rand_details(rng, allow_bad_url=rng.random() < 0.03) if kind != "plain" else []
            ut = rand_ut(rng, code, msg) if rng.random() < 0.12 else "-"
            o = op(path, kind, code, msg, ds, ut)
            if is_known(kind, code, msg, ds, ut):
                singles.append(o)
            else:
                ops.append(o)
        yield Case("s_status", ops, "random-%d" % k)
    fixed_singles = singles[:60]      # the listed-message and big-code ones come first
    rest = singles[60:]
    if len(rest) > max_singles - len(fixed_singles):
        rest = rng.sample(rest, max(0, max_singles - len(fixed_singles)))
    for o in fixed_singles + rest:
        yield Case("s_status", [o], "known-finding-candidates")


    yield from gen_fn(rng, tier)
    yield from gen_peer(rng, tier)


# ---- the real client against a scripted raw HTTP/2 server (component s_rawpeer) ------------------

def fld(n, v):
    return (hexs(n) if n else "~") + "=" + (hexs(v) if v else "~")


def fields(fs):
    return ";".join(fld(n, v) for n, v in fs) or "-"


ST200 = (b":status", b"200")
CTG = (b"content-type", b"application/grpc")
STATUS_VALS = [b"%d" % c for c in range(0, 18)] + [b"+5", b"-1", b"-0", b"+0", b"007", b"7x", b"", b" 5", b"5 ", b"2147483647", b"2147483648",
               b"-2147483648", b"-2147483649", b"4294967295", b"99999999999999999999", b"1_0", b"0x10", b"1e1", b"+", b"-", b"--1", b"5.0",
               "５".encode(), b"\"5\"", b"5\\"]
MSG_VALS = [b"", b"hi", b"hi%21", b"%", b"%4", b"%41", b"%zz", b"%E4%B8%AD", b"%e4%b8%ad", b"%FF", b"a b", b"%25", b"100%", b"%C3", b"a%20b%", b"\xe4\xb8\xad", b"\xff"]


def gen_peer(rng, tier):
    import base64
    n = {"quick": 150, "thorough": 4000, "search": 1500}[tier]
    ops = []
    for sv in STATUS_VALS:
        ops.append("srv %s 0 %s" % (fields([ST200, CTG]), fields([(b"grpc-status", sv), (b"grpc-message", b"m")])))
        ops.append("srv - 0 %s" % fields([ST200, CTG, (b"grpc-status", sv)]))
    for mv in MSG_VALS:
        ops.append("srv %s 1 %s" % (fields([ST200, CTG]), fields([(b"grpc-status", b"3"), (b"grpc-message", mv)])))
    ops.append("srv %s 0 %s" % (fields([ST200, CTG]), fields([(b"t", b"v")])))                      # no grpc-status at all
    ops.append("srv %s 0 %s" % (fields([ST200, CTG]), fields([(b"grpc-status", b"0"), (b"grpc-status", b"3")])))
    ops.append("srv %s 0 %s" % (fields([ST200, CTG]), fields([(b"grpc-status", b"3"), (b"grpc-status", b"0")])))
    ops.append("srv %s 0 %s" % (fields([ST200, CTG]), fields([(b"grpc-message", b"a"), (b"grpc-message", b"b"), (b"grpc-status", b"9")])))
    for _ in range(n):
        code = rng.choice([0, 1, 3, 5, 13, 16, 17, 300])
        st = marshal_status(code, rng.choice([b"", b"proto msg", "é".encode()]), rand_details(rng))
        k = rng.randrange(8)
        if k == 0:
            dv = [base64.b64encode(st).rstrip(b"=")]
        elif k == 1:
            dv = [base64.b64encode(st)]                         # padded, as some peers send it
        elif k == 2:
            dv = [base64.b64encode(marshal_status(code + 1, b"other", []))]
        elif k == 3:
            dv = [rng.choice([b"A", b"====", b"AQI==", b"A Q", b"AQ=I", b"!!!!"])]
        elif k == 4:
            dv = [base64.b64encode(st), base64.b64encode(st)]
        elif k == 5:
            dv = [base64.b64encode(rand_bytes(rng, rng.randrange(0, 9)))]
        else:
            dv = []
        trl = [(b"grpc-status", rng.choice(STATUS_VALS[:18] + [b"%d" % code] * 20)), (b"grpc-message", rng.choice(MSG_VALS))]
        trl += [(b"grpc-status-details-bin", v) for v in dv]
        if rng.random() < 0.3:
            trl.append((b"t-bin", rng.choice([b"AQI", b"AQI=", b"AQ", b"AQ==", b"A", b""])))
        rng.shuffle(trl)
        if rng.random() < 0.6:
            ops.append("srv %s %d %s" % (fields([ST200, CTG]), rng.randrange(2), fields(trl)))
        else:
            ops.append("srv - 0 %s" % fields([ST200, CTG] + trl))
    per = 25
    for i in range(0, len(ops), per):
        yield Case("s_rawpeer", ops[i:i + per], "rawpeer-%d" % (i // per))


# ---- T1: the codec functions on their own (component statusfn) ---------------------------------

def tag(num, wt):
    return varint(num * 8 + wt)


def crafted_protos(rng):
    """encodings of google.rpc.Status that exercise the parser: unknown fields of every wire type, known
    fields with the wrong wire type, groups, non-canonical and over-long varints, truncations, repeats"""
    ok = marshal_status(5, b"hi", [(b"t/u", b"\x01\x02")])
    out = [b"", ok, marshal_status(0, b"", []), marshal_status(2**31, b"", []), marshal_status(2**32 - 1, "é".encode(), [(b"", b""), (b"u", b"")]),
           ok + tag(1, 0) + varint(7),                      # code repeated: last wins
           ok + ld(0x12, b"second message"),               # message repeated
           tag(1, 0) + b"\x85\x80\x00",                    # non-canonical varint 5
           tag(1, 0) + b"\xff" * 9 + b"\x01",               # -1
           tag(1, 0) + b"\xff" * 9 + b"\x02",               # overflow
           tag(1, 0) + b"\xff" * 10,                         # 11 bytes
           tag(1, 0) + b"\x80",                              # truncated
           tag(1, 2) + varint(2) + b"ab",                    # code with wire type 2 -> unknown
           tag(1, 5) + b"\x01\x02\x03\x04", tag(1, 5) + b"\x01\x02", tag(1, 1) + b"\x00" * 8, tag(1, 1) + b"\x00" * 7,
           tag(2, 0) + varint(9),                            # message with wire type 0 -> unknown
           tag(2, 2) + varint(2) + b"\xff\xfe",             # invalid UTF-8 message
           tag(2, 2) + varint(5) + b"ab",                    # truncated bytes
           tag(3, 2) + varint(2) + b"\x0a\x05",             # detail with truncated type_url
           tag(3, 2) + varint(3) + b"\x0a\x01\xff",         # detail with invalid UTF-8 type_url
           tag(3, 2) + varint(4) + tag(9, 0) + b"\x01" + tag(2, 2) + b"\x00",   # detail with unknown field
           tag(3, 0) + varint(1),                            # details with wire type 0
           tag(4, 0) + varint(1) + ok, tag(4, 2) + varint(3) + b"abc" + ok, tag(100, 5) + b"abcd" + ok, tag(2**29 - 1, 0) + b"\x00", tag(2**29, 0) + b"\x00",
           tag(0, 0) + b"\x00", b"\x00", b"\x07", tag(5, 6) + b"\x00", tag(5, 7),
           tag(5, 3) + tag(5, 4) + ok, tag(5, 3) + tag(6, 0) + b"\x01" + tag(5, 4), tag(5, 3) + tag(6, 4), tag(5, 3), tag(5, 4), tag(1, 4),
           tag(5, 3) + tag(7, 3) + tag(7, 4) + tag(5, 4) + ok, tag(5, 3) + tag(2**31, 0) + b"\x00" + tag(5, 4), tag(5, 3) + tag(2**29, 0) + b"\x00" + tag(5, 4) + ok,
           tag(1, 3) + tag(1, 4) + ok, tag(3, 3) + tag(3, 4),
           b"\x88\x00\x05", b"\x88\x80\x00\x05",      # over-long tag encodings of field 1
           ]
    for _ in range(40):
        b = bytearray(rng.choice([ok, marshal_status(rng.randrange(17), rand_msg(rng)[:20] if True else b"", [(b"a/b", b"xyz"), (b"", b"q")])]))
        if b:
            k = rng.randrange(3)
            i = rng.randrange(len(b))
            if k == 0:
                b[i] = rng.randrange(256)
            elif k == 1:
                del b[i]
            else:
                b.insert(i, rng.randrange(256))
        out.append(bytes(b))
    for _ in range(40):
        out.append(rand_bytes(rng, rng.randrange(1, 12)))
    return out


B64 = b"ABCDEFGHIJKLMNOPQRSTUVWXYZabcdefghijklmnopqrstuvwxyz0123456789+/"


def b64(bs, pad):
    import base64
    e = base64.b64encode(bytes(bs))
    return e if pad else e.rstrip(b"=")


def gen_fn(rng, tier):
    scale = {"quick": 1, "thorough": 15, "search": 6}[tier]
    ops = set()
    for m in MSGS:
        ops.add("encmsg " + hexs(m))
        ops.add("decmsg " + hexs(m))
    for a in range(256):
        ops.add("encmsg %02x" % a)
        ops.add("b64enc %02x" % a)
        ops.add("b64dec %02x" % a)
        for b in (0x20, 0x25, 0x41, 0x80, 0xbf, 0xc3, 0xe0, 0xed, 0xf0, 0xf4, 0xa0, 0x9f, 0x90, 0x8f):
            ops.add("encmsg %02x%02x" % (a, b))
            ops.add("encmsg %02x%02x" % (b, a))
    for lead in (0xe0, 0xe1, 0xed, 0xee, 0xef, 0xf0, 0xf1, 0xf4):
        for b1 in (0x7f, 0x80, 0x8f, 0x90, 0x9f, 0xa0, 0xbf, 0xc0):
            for b2 in (0x7f, 0x80, 0xbf, 0xc0):
                ops.add("encmsg %02x%02x%02x" % (lead, b1, b2))
                ops.add("encmsg %02x%02x%02x80" % (lead, b1, b2))
                ops.add("encmsg 41%02x%02x%02x42" % (lead, b1, b2))
    alpha = [0x25, 0x34, 0x31, 0x46, 0x66, 0x67, 0x61, 0x20, 0x47, 0x2b]
    import itertools
    for n in range(1, 5):
        for t in itertools.product(alpha, repeat=n):
            ops.add("decmsg " + hexs(t))
    for _ in range(1500 * scale):
        m = rand_msg(rng)
        ops.add("encmsg " + hexs(m))
        ops.add("decmsg " + hexs(m))
        ops.add("decmsg " + hexs(bytes(rng.choice(b"%%%4aAfFgG09 \xff") for _ in range(rng.randrange(1, 9)))))
    balpha = [0x41, 0x51, 0x2f, 0x3d, 0x0a, 0x0d, 0x2d, 0x20]
    for n in range(0, 6):
        for t in itertools.product(balpha, repeat=n):
            ops.add("b64dec " + hexs(t))
    for _ in range(1500 * scale):
        bs = rand_bytes(rng, rng.randrange(0, 11))
        ops.add("b64enc " + hexs(bs))
        for pad in (False, True):
            e = bytearray(b64(bs, pad))
            ops.add("b64dec " + hexs(e))
            if e and rng.random() < 0.7:
                k = rng.randrange(5)
                i = rng.randrange(len(e))
                if k == 0:
                    e[i] = rng.choice(b"=\n\r-_ A/+") if rng.random() < 0.7 else rng.randrange(256)
                elif k == 1:
                    e.insert(i, rng.choice(b"\n\r=A"))
                elif k == 2:
                    del e[i]
                elif k == 3:
                    e += rng.choice([b"=", b"==", b"\n", b"=\n", b"A", b"=A", b"=\n="])
                else:
                    e[-1] = rng.choice(B64)   # non-zero trailing bits (non-strict decoding accepts them)
                ops.add("b64dec " + hexs(e))
    for _ in range(300 * scale):
        code = rng.choice(CODES_SMALL + CODES_BIG)
        msg = rand_msg(rng)
        ds = rand_details(rng, allow_bad_url=rng.random() < 0.1)
        ops.add("marshal %d %s %s" % (code, hexs(msg), show_details(ds)))
        if valid_utf8(msg) and all(valid_utf8(u) for u, _ in ds):
            b = marshal_status(code, msg, ds)
            ops.add("unmarshal " + hexs(b))
            ops.add("nwp %d %s %s" % (code, hexs(b"hdr"), hexs(b) if b else "~"))
            ops.add("nwp %d %s %s" % ((code + 1) % 2**32, hexs(b"hdr"), hexs(b) if b else "~"))
    for rep in range(scale):
        for b in crafted_protos(rng):
            ops.add("unmarshal " + hexs(b))
            ops.add("nwp 5 %s %s" % (hexs(b"hdr"), hexs(b) if b else "~"))
            ops.add("nwp 0 - %s" % (hexs(b) if b else "~"))
    ops.add("nwp 7 6d -")
    ops.add("nwp 7 6d 0807,0807")
    ops = sorted(ops)
    chunk = 5000
    for i in range(0, len(ops), chunk):
        yield Case("statusfn", ops[i:i + chunk], "statusfn-batch-%d" % (i // chunk))


def nontrivial(case, impl_lines):
    if case.component == "statusfn":
        return True
    if case.component == "s_rawpeer":
        return any(not l.startswith("st=ok") for l in impl_lines)
    return any(l.startswith("err ") for l in impl_lines)
