"""C10 A handler's status reaches the client unchanged."""
from vlib.core import Case

ID = "C10"
COMPONENTS = ["s_status"]
T4 = ["MdWire"]
PROOF_MODULES = ["GrpcProofs.Properties.C10"]
THEOREMS = ["GrpcProofs.C10." + t for t in (
)]
DESIGN_REF = "DESIGN.md section 8, C10"
TECHNIQUE = ("Lean 4 theorems about a model of writeStatus -> trailer fields -> client operateHeaders/NewWithProto "
             "(list induction, omega for base64/varint/decimal arithmetic) + T2 end-to-end correspondence (real grpc.Server and "
             "grpc.NewClient over bufconn in a synctest bubble) + T1 on the codec functions + T4 regenerated header tables")
LEVEL_TEXT = ""
LEVEL_NOTE = ""
GAP = ""
ASSUMPTIONS = []
RULE = ""

MAXU32 = 2**32 - 1
PATHS = ["u", "ub", "bx", "b0", "bh", "b1", "b2"]


def hexs(bs):
    return bytes(bs).hex() or "-"


def valid_utf8(bs):
    try:
        bytes(bs).decode("utf-8")
        return True
    except UnicodeDecodeError:
        return False


# ---- protobuf wire encoding of google.rpc.Status (for handler-supplied grpc-status-details-bin values)

def varint(v):
    out = []
    while True:
        if v < 128:
            out.append(v)
            return bytes(out)
        out.append(v % 128 + 128)
        v //= 128


def ld(tag, b):
    return bytes([tag]) + varint(len(b)) + bytes(b)


def marshal_status(code, msg, details):
    out = b""
    if code:
        out += b"\x08" + varint(code if code < 2**31 else code + 2**64 - 2**32)
    if msg:
        out += ld(0x12, msg)
    for (u, v) in details:
        body = (ld(0x0A, u) if u else b"") + (ld(0x12, v) if v else b"")
        out += ld(0x1A, body)
    return out


MSGS = [b"", b"m", b"hello world", b" lead", b"trail ", b"  ", b"%", b"%%", b"%4", b"%41", b"a%4", b"a%", b"100%", b"%zz", b"%4g", b"%e4%b8%ad",
        b"\x00", b"\n", b"\r\n", b"\t", b"\x7f", b"~", b"a\x1fb",
        "é".encode(), "中文".encode(), "😀".encode(), "aé中\U0001F600z".encode(), "�".encode(),
        b"\xff", b"\xc3", b"\xc3(", b"\xe0\x80\x80", b"\xed\xa0\x80", b"\xf4\x90\x80\x80", b"\xe4\xb8", b"\xf0\x9f\x98", b"a\xffb", b"\x80\x80",
        b"\xc0\xaf", b"\xf5\x80\x80\x80", b"\xef\xbf\xbd\xff", b"x" * 300, ("中" * 40).encode()]
URLS = [b"", b"t", b"type.googleapis.com/google.rpc.ErrorInfo", b"type.googleapis.com/x.Y", "ty/é".encode(), b"a.b/c"]
CODES_SMALL = list(range(0, 17)) + [17, 18, 99, 100, 255, 256, 65535, 65536, 2**31 - 2, 2**31 - 1]
CODES_BIG = [2**31, 2**31 + 1, 2**31 + 5, 2**32 - 2, 2**32 - 1, 3000000000]


def rand_bytes(rng, n):
    return bytes(rng.randrange(256) for _ in range(n))


def rand_msg(rng):
    r = rng.random()
    if r < 0.45:
        return rng.choice(MSGS)
    if r < 0.6:
        return bytes(rng.choice(b"abc %~4Ff1") for _ in range(rng.randrange(1, 12)))
    if r < 0.8:
        s = "".join(rng.choice(["a", " ", "%", "é", "中", "😀", "\x01", "~", "0"]) for _ in range(rng.randrange(1, 10)))
        return s.encode()
    return rand_bytes(rng, rng.randrange(1, 10))


def rand_details(rng, allow_bad_url=False):
    r = rng.random()
    if r < 0.5:
        return []
    n = 1 if r < 0.8 else rng.randrange(2, 4)
    ds = []
    for _ in range(n):
        u = rng.choice(URLS)
        if allow_bad_url and rng.random() < 0.5:
            u = b"bad\xff"
        k = rng.random()
        v = b"" if k < 0.2 else rand_bytes(rng, rng.randrange(1, 8)) if k < 0.9 else rand_bytes(rng, 200)
        ds.append((u, v))
    return ds


def show_details(ds):
    return ",".join(hexs(u) + "." + hexs(v) for u, v in ds) or "-"


def rand_ut(rng, code, msg):
    """values the handler puts under grpc-status-details-bin itself"""
    k = rng.randrange(7)
    m2 = msg if valid_utf8(msg) else b"other"
    if k == 0:
        vals = [marshal_status(code, m2, [])]
    elif k == 1:
        vals = [marshal_status(code, b"user message", [(b"u/t", b"\x01\x02")])]
    elif k == 2:
        vals = [marshal_status((code + 1) % 17, m2, [])]
    elif k == 3:
        vals = [rand_bytes(rng, rng.randrange(1, 9))]
    elif k == 4:
        vals = [b""]
    elif k == 5:
        vals = [marshal_status(code, m2, []), marshal_status(code, m2, [])]
    else:
        b = bytearray(marshal_status(code, b"mutated", [(b"u/t", b"v")]))
        if b:
            b[rng.randrange(len(b))] = rng.randrange(256)
        vals = [bytes(b)]
    return ",".join(hexs(v) if v else "~" for v in vals)


def op(path, kind, code, msg, details, ut="-"):
    return "rpc %s %s %d %s %s %s" % (path, kind, code, hexs(msg), show_details(details), ut)


def is_known(kind, code, msg, details, ut):
    """ops that hit a listed known finding travel alone, so that they cannot mask another violation of their case"""
    if kind == "plain" or ut != "-":
        return False
    if code >= 2**31:
        return True
    if code != 0 and details and not valid_utf8(msg) and all(valid_utf8(u) for u, _ in details):
        return True
    return False


def gen(rng, tier):
    n_cases = {"quick": 120, "thorough": 3000, "search": 1500}[tier]
    per = 25
    singles = []
    # exhaustive small part: every path x every small code, plain message
    ops = []
    for p in PATHS:
        for c in CODES_SMALL:
            ops.append(op(p, "st", c, b"m%d" % c if c % 2 else b"", []))
        ops.append(op(p, "plain", 0, b"plain error \xff!", []))
        ops.append(op(p, "gs", 0, b"ok but error", []))
        ops.append(op(p, "gs", 5, b"nf", [(b"t/u", b"\x01")]))
    for i in range(0, len(ops), per):
        yield Case("s_status", ops[i:i + per], "paths-x-codes")
    # every listed message on two paths, with and without details
    ops = []
    for m in MSGS:
        for p in ("u", "b1"):
            for ds in ([], [(b"type.googleapis.com/x.Y", b"\x08\x01")]):
                t = (p, "st", 3, m, ds, "-")
                (singles if is_known("st", 3, m, ds, "-") else ops).append(op(*t))
    for i in range(0, len(ops), per):
        yield Case("s_status", ops[i:i + per], "messages")
    for c in CODES_BIG:
        for p in ("u", "bx", "b2"):
            singles.append(op(p, "st", c, b"big", []))
    # random
    for k in range(n_cases):
        ops = []
        for _ in range(per):
            path = rng.choice(PATHS)
            kind = "st" if rng.random() < 0.8 else rng.choice(["gs", "plain"])
            r = rng.random()
            code = rng.randrange(0, 17) if r < 0.7 else rng.choice(CODES_SMALL) if r < 0.85 else rng.randrange(17, 2**31) if r < 0.95 else rng.randrange(2**31, 2**32)
            msg = rand_msg(rng)
            ds = rand_details(rng, allow_bad_url=rng.random() < 0.03) if kind != "plain" else []
            ut = rand_ut(rng, code, msg) if rng.random() < 0.12 else "-"
            o = op(path, kind, code, msg, ds, ut)
            if is_known(kind, code, msg, ds, ut):
                singles.append(o)
            else:
                ops.append(o)
        yield Case("s_status", ops, "random-%d" % k)
    for o in singles:
        yield Case("s_status", [o], "known-finding-candidates")


def nontrivial(case, impl_lines):
    return any(l.startswith("err ") for l in impl_lines)
