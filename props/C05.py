"""C05 Received stream bytes are delivered in order, once, then the end/error."""
from vlib.core import Case

ID = "C05"
COMPONENTS = ["recvbuffer"]
T4 = ["RecvBuffer"]
PROOF_MODULES = ["GrpcProofs.Properties.C05"]
THEOREMS = ["GrpcProofs.C05." + t for t in (
    "ledger", "monitor_accepts_model", "fifo_refinement", "delivered_is_prefix",
    "error_after_all_prior_data", "nothing_after_error", "put_after_error_dropped",
    "blocks_only_when_drained", "compaction_preserves_bytes", "model_never_panics")]
DESIGN_REF = "DESIGN.md section 8, C05"
TECHNIQUE = ("Lean 4 theorems (forward simulation of the ported recvBuffer/recvBufferReader step function by a FIFO byte-queue "
             "automaton, invariant induction over op lists) + T1 op-level differential correspondence on the real recvBuffer and "
             "recvBufferReader + T4 regenerated constants")
LEVEL_TEXT = ("Machine-checked Lean proof, for every sequence of producer puts (data/error), loads and reader calls (whole or split at "
              "the channel receive), with compaction on or off, that the delivered bytes are exactly the accepted bytes in order, the "
              "error comes after all prior data and nothing after it, and the compaction ledger is exact; the model is diffed op by op "
              "(answers, channel/backlog/ledger/last fields) against the real code on every run.")
LEVEL_NOTE = ("Trusted: Lean kernel; the hand model lean/GrpcModel/Model/RecvBuffer.lean (atomic steps = mutex sections and the channel "
              "receive; tied by the differential run); mem.Buffer Split/Read/Free are modelled as list take/drop (the harness pool "
              "poisons freed buffers so a use-after-free shows up as wrong bytes). The reader's split point (rbegin/fin) repeats the "
              "three-line prefix of Read in the harness. recvMsgSize (unsafe.Sizeof) is compared at run time via the `consts` op. "
              "Reading: 'nothing is delivered after it' = every later read returns the same error and no bytes. "
              "F19 (a second error put panicked: nil buffer Free) is fixed by /repo 6c0457f; the model ports the fixed put, the theorems "
              "no longer carry a no-panic hypothesis and put_after_error_dropped covers data and errors.")
GAP = "client flavour of the reader (ctx cancellation path readClient, covered by C22); real goroutine scheduling is replaced by op order (mutex-serialised steps)"
ASSUMPTIONS = ["one reader goroutine per stream (Read/ReadMessageHeader are not called concurrently)",
               "recvMsg values are {buffer} or {err} (all constructor sites)", "64-bit platform (recvMsgSize = 56)"]
RULE = ("Each case: cfg (compaction on/off), then one of five profiles: burst of 500-1300 sub-57-byte frames with a slow reader "
        "(compaction fires, ledger head-decrements), utilisation-boundary sizes 55/56/57, interleaved random puts/reads/headers with "
        "frames up to 20000 bytes (pooled buffers, suffix resets), split reads (rbegin, puts, fin) and bare loads, error injection "
        "anywhere with data and further errors put after it; reads of 0..70000 bytes. Non-trivial = some read returned data; distinct = distinct op list.")


def hexs(bs):
    return "".join("%02x" % b for b in bs) or "-"


class Gen:
    def __init__(self, rng):
        self.rng = rng
        self.ops = []
        self.pending_fin = False
        self.erred = False

    def data(self, n):
        r = self.rng
        return hexs(bytes(r.getrandbits(8) for _ in range(n)))

    def put(self, n):
        self.ops.append("put d " + self.data(n))

    def small(self):
        r = self.rng
        x = r.random()
        if x < 0.05:
            return 0
        if x < 0.6:
            return r.randrange(1, 9)
        if x < 0.9:
            return r.randrange(1, 57)
        return r.randrange(50, 64)

    def readop(self, big=False):
        r = self.rng
        x = r.random()
        if x < 0.05:
            n = 0
        elif x < 0.5:
            n = r.randrange(1, 10)
        elif x < 0.8:
            n = r.randrange(1, 300)
        elif x < 0.95 or not big:
            n = r.randrange(300, 5000)
        else:
            n = r.randrange(5000, 70001)
        y = r.random()
        if self.pending_fin:
            self.pending_fin = False
            self.ops.append(("fin %d" if y < 0.6 else "finh %d") % n)
        elif y < 0.55:
            self.ops.append("read %d" % n)
        elif y < 0.8:
            self.ops.append("hdr %d" % (n if n < 5000 else 5))
        elif y < 0.95:
            self.ops.append("rbegin")
            self.pending_fin = True
        else:
            self.ops.append("load")

    def err(self, force=False):
        # errors put after the first one must be dropped (before /repo 6c0457f they panicked: F19)
        self.erred = True
        self.ops.append("put e %d" % self.rng.choice([1, 1, 2, 3, 14]))

    def drain(self, k):
        for _ in range(k):
            self.readop(big=True)


def one_case(rng, idx, scale):
    g = Gen(rng)
    r = rng
    comp = 0 if r.random() < 0.3 else 1
    g.ops.append("cfg %d" % comp)
    if idx % 7 == 0:
        g.ops.append("consts")
    prof = ["burst", "boundary", "mixed", "split", "burst"][idx % 5]
    err_at = r.random()
    if prof == "burst":
        rounds = r.randrange(1, 3)
        for _ in range(rounds):
            n = int(r.randrange(500, 1300) * scale)
            pr = r.choice([0.0, 0.01, 0.05, 0.2])
            mode = r.choice(["tiny", "small", "one"])
            for i in range(n):
                if mode == "one":
                    g.put(1)
                elif mode == "tiny":
                    g.put(r.randrange(0, 4))
                else:
                    g.put(g.small())
                if r.random() < pr:
                    g.readop()
                if r.random() < 0.002:
                    g.put(r.randrange(1025, 5000))
            if r.random() < 0.5:
                g.drain(r.randrange(1, 60))
        if err_at < 0.6:
            g.err()
            if r.random() < 0.5:
                g.put(g.small())
                g.err()
        g.drain(r.randrange(5, 120))
    elif prof == "boundary":
        n = int(r.randrange(400, 900) * scale)
        for i in range(n):
            g.put(r.choice([55, 55, 55, 56, 56, 57, 1, 54, 58]))
            if r.random() < 0.03:
                g.readop()
        if err_at < 0.5:
            g.err()
        g.drain(r.randrange(5, 80))
    elif prof == "mixed":
        n = int(r.randrange(200, 1500) * scale)
        ep = int(n * (0.4 + err_at))
        for i in range(n):
            x = r.random()
            if i == ep:
                g.err()
            elif x < 0.45:
                g.put(g.small())
            elif x < 0.5:
                g.put(r.choice([100, 1000, 1024, 1025, 2000, 5000, 20000]))
            elif x < 0.52:
                g.err() if r.random() < 0.1 else g.put(0)
            else:
                g.readop(big=True)
        g.drain(r.randrange(0, 200) if not g.erred else r.randrange(0, 30))
    else:  # split: rbegin / puts in the window / fin, plus bare loads
        n = int(r.randrange(100, 800) * scale)
        ep = int(n * (0.4 + err_at))
        for i in range(n):
            if i == ep:
                g.err()
            x = r.random()
            if x < 0.3:
                g.ops.append("rbegin")
                for _ in range(r.randrange(0, 4)):
                    g.put(g.small()) if r.random() < 0.9 else g.err()
                if r.random() < 0.2:
                    g.ops.append("load")
                if r.random() < 0.1:
                    g.ops.append("read 3")      # answered `busy`
                g.ops.append(("fin %d" if r.random() < 0.6 else "finh %d") % r.choice([0, 1, 2, 5, 50, 1000]))
            elif x < 0.65:
                g.put(g.small())
            elif x < 0.7:
                g.ops.append("load")
            else:
                g.readop()
        g.drain(r.randrange(0, 100))
    if idx % 10 == 9:
        g.err()
        g.err(force=True)
        g.drain(3)
    return Case("recvbuffer", g.ops, "%s-c%d-%d" % (prof, comp, idx))


def fixed_cases():
    """hand-written edge cases"""
    out = []
    # error first, data after it is dropped; error is sticky
    out.append(["cfg 1", "consts", "put e 1", "put d 0102", "read 5", "read 5", "hdr 5", "put e 2", "read 1"])
    # data then error then data: error only after all data
    out.append(["cfg 1", "put d 010203", "put d 0405", "put e 7", "put d 06", "read 2", "read 2", "hdr 5", "hdr 5", "read 1", "read 1"])
    # the receive/load window: put lands in the channel while the reader holds a message
    out.append(["cfg 1", "put d 01", "rbegin", "put d 02", "put d 03", "fin 5", "read 5", "read 5", "read 5"])
    out.append(["cfg 0", "put d 01", "put d 02", "rbegin", "put d 03", "put e 1", "finh 5", "hdr 5", "hdr 5", "hdr 5", "hdr 5"])
    # exactly reach the compaction threshold with 1-byte frames (1024 frames stay, the 1025th compacts)
    for c in (0, 1):
        ops = ["cfg %d" % c, "put d aa"] + ["put d %02x" % (i % 251) for i in range(1030)] + ["read 70000", "read 70000", "read 70000", "read 1"]
        out.append(ops)
    # head-decrement of the ledger then compaction
    ops = ["cfg 1", "put d aa"] + ["put d %02x%02x" % (i % 256, i // 256) for i in range(600)]
    ops += ["read 1", "read 9", "hdr 5", "hdr 1", "read 100"] * 20
    ops += ["put d %02x" % (i % 256) for i in range(1100)] + ["put e 1"] + ["read 70000"] * 8
    out.append(ops)
    # zero-length frames only: compaction of an all-empty suffix
    out.append(["cfg 1", "put d 01"] + ["put d -"] * 1100 + ["read 4"] * 6 + ["put e 3", "read 4", "read 4"])
    return [Case("recvbuffer", o, "fixed-%d" % i) for i, o in enumerate(out)]


def gen(rng, tier):
    n, scale = {"quick": (36, 1.0), "thorough": (900, 1.0), "search": (300, 1.0)}[tier]
    for c in fixed_cases():
        yield c
    for i in range(n):
        yield one_case(rng, i, scale)


def nontrivial(case, impl_lines):
    return any(l.startswith("d ") and not l.startswith("d - ") for l in impl_lines)
