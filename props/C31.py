"""C31 Serialized callbacks run in FIFO order exactly once (CallbackSerializer, buffer.Unbounded, PubSub)."""
import itertools

from vlib.core import Case

ID = "C31"
COMPONENTS = ["unbounded", "s_serializer", "s_pubsub"]
T4 = []
PROOF_MODULES = ["GrpcProofs.Properties.C31"]
THEOREMS = ["GrpcProofs.C31." + t for t in (
    "unbounded_fifo", "unbounded_eos_only_after_all_consumed", "unbounded_put_after_close_rejected",
    "unbounded_no_panic", "unbounded_monitor_ok",
    "serializer_runs_each_once_in_order", "serializer_all_before_shutdown_run_before_done",
    "serializer_after_shutdown_never_runs_and_caller_told", "serializer_never_stuck",
    "serializer_shutdown_completes", "serializer_monitor_ok", "serializer_quiescent_ok",
    "pubsub_nothing_after_unsubscribe", "pubsub_unsubscribe_removes",
    "pubsub_subscriber_sees_latest_then_publish_order", "pubsub_all_owed_delivered_when_idle",
    "pubsub_resubscribe_counterexample")]
DESIGN_REF = "DESIGN.md section 8, C31"
TECHNIQUE = ("Lean 4 theorems over small-step interleaving models (every method of Unbounded / every locked section of PubSub is one "
             "atomic action; the serializer's run goroutine, the AfterFunc goroutine, cancel and any number of schedulers interleave "
             "freely): FIFO refinement by induction over the action list, reachable-state invariant for the close-while-draining window, "
             "progress measure for shutdown, and 'the executable trace monitor never fires on the model'. Tie: T1 on the real "
             "buffer.Unbounded (one goroutine, channel receive as its own op) and T2 (testing/synctest bubbles) on the real "
             "CallbackSerializer and PubSub with concurrent scheduler goroutines, blocking and re-entrant callbacks, cancellation.")
LEVEL_TEXT = ("Machine-checked Lean proofs, for every interleaving (arbitrary action lists, no bounds), that the modelled Unbounded delivers "
              "exactly the accepted Puts once and in order, never panics, rejects every Put after Close and signals end-of-stream only "
              "after everything was consumed (and does signal it for a consumer that follows the Load contract); that the modelled "
              "CallbackSerializer starts callbacks one at a time in submission order exactly once, reports done only after cancel when "
              "every accepted callback has returned, rejects (and tells the submitter) everything after Close, is never parked while "
              "work or a requested close is pending and reaches done after cancel; and that the modelled PubSub gives every subscriber "
              "the value current at Subscribe and then every later publish in order, nothing after unsubscription - for Subscriber values "
              "that subscribe at most once; for a re-subscribing Subscriber the statement is proved FALSE of the code as written "
              "(known finding F31.1). The models are replayed against the real code on every run.")
LEVEL_NOTE = ("Trusted: Lean kernel; the hand models lean/GrpcModel/Model/{Unbounded,Serializer,PubSub}.lean; the Go memory model for "
              "sync.Mutex / buffered channels / context.AfterFunc (these are the atomic steps of the models). Reading of 'shutdown': the "
              "point where the AfterFunc goroutine runs callbacks.Close, which is at or after ctx cancellation - a ScheduleOr that slips in "
              "between cancel() and Close is accepted AND run before done (consistent; the doc comment 'if the context has been cancelled "
              "before this method is called' is slightly stronger than the code). The T2 tie is op-level: every op runs to quiescence in a "
              "synctest bubble; the one thing the model cannot predict - the linearization order of the op's concurrent Puts / API calls and "
              "which of them fell after Close - is reported exactly by the harness (calls are made under a harness mutex and logged before it "
              "is released; they are atomic under the component's own mutex anyway, so no behaviour is lost) and replayed on the small-step "
              "model, which must then observe the same callback start/end sequence, rejections, ScheduleAndWait results, deliveries and done. "
              "Interleavings of the run goroutine's receive/Load with Put/Close inside an op are exercised by the real scheduler but only "
              "covered exhaustively by the theorems. PubSub.Publish ranges over a Go map; the model uses subscription order, the monitor and the "
              "theorems are per subscriber. balancer_wrapper.go (a user of the serializer) is not modelled.")
GAP = ("goroutine scheduling inside one op is whatever the Go runtime does in the bubble (not enumerated); callbacks that block forever / "
       "panic are outside the model; map iteration order in Publish")
ASSUMPTIONS = ["Go: a send on a closed channel panics, receive on a closed buffered channel drains the buffer first",
               "sync.Mutex critical sections are atomic; context.AfterFunc runs f once, in its own goroutine, after ctx is done",
               "PubSub subscribers do not block in OnMessage (documented contract)"]
RULE = ("unbounded: every op sequence over {put,load,close,recv} up to length 5 (quick) / 7 (thorough), plus random long sequences, half of them "
        "with a consumer that follows the recv-then-Load contract; s_serializer: random cases of 5-14 ops: concurrent scheduler goroutines "
        "(1-4 goroutines x 1-4 callbacks; plain, blocking-until-released and re-entrant callbacks), concurrent or sequential cancel, releases, "
        "ScheduleAndWait, and more submissions after shutdown; s_pubsub: random cases over 4 subscribers with sequential and concurrent "
        "Subscribe/unsubscribe/Publish, the serializer parked behind a gate so that deliveries are pending during unsubscribe/re-subscribe, "
        "cancel; ~10% of the pubsub cases re-subscribe a Subscriber (known finding). A case is non-trivial if something was delivered / run / "
        "received; distinct = distinct op text.")


# ----------------------------------------------------------------------------- unbounded

def ub_render(seq):
    ops = []
    v = 0
    for o in seq:
        if o == "put":
            v += 1
            ops.append("put %d" % v)
        else:
            ops.append(o)
    return ops


def gen_unbounded(rng, tier):
    maxlen = {"quick": 5, "thorough": 7, "search": 6}[tier]
    nrand = {"quick": 300, "thorough": 6000, "search": 3000}[tier]
    alpha = ["put", "load", "close", "recv"]
    for n in range(1, maxlen + 1):
        for seq in itertools.product(alpha, repeat=n):
            yield Case("unbounded", ub_render(seq), "ub-exh-%d" % n)
    for i in range(nrand):
        seq = []
        proto = rng.random() < 0.5
        n = rng.randrange(5, 70)
        closed_at = rng.randrange(0, n + 10)
        for k in range(n):
            if k == closed_at:
                seq.append("close")
            r = rng.random()
            if proto:
                if r < 0.45:
                    seq.append("put")
                elif r < 0.9:
                    seq += ["recv", "load"]
                elif r < 0.95:
                    seq.append("load")
                else:
                    seq.append("close")
            else:
                seq.append(rng.choice(alpha if rng.random() < 0.9 else ["put", "put", "recv"]))
        if proto:
            seq += ["recv", "load"] * rng.randrange(0, 8)
            if rng.random() < 0.7:
                seq += ["close", "recv", "load", "recv", "load"]
        yield Case("unbounded", ub_render(seq), "ub-rand-%s" % ("proto" if proto else "free"))


# ----------------------------------------------------------------------------- serializer

def gen_serializer(rng, tier):
    n = {"quick": 250, "thorough": 6000, "search": 4000}[tier]
    for i in range(n):
        ops = []
        nid = [0]

        def fresh():
            nid[0] += 1
            return nid[0]

        blockers = []
        cancelled = False
        for _ in range(rng.randrange(5, 15)):
            r = rng.random()
            if r < 0.55:
                gs = []
                for _g in range(rng.randrange(1, 5)):
                    items = []
                    for _k in range(rng.randrange(1, 5)):
                        q = rng.random()
                        if q < 0.6:
                            items.append("p%d" % fresh())
                        elif q < 0.75 and len(blockers) < 3:
                            b = fresh()
                            blockers.append(b)
                            items.append("b%d" % b)
                        else:
                            a = fresh()
                            c = fresh()
                            items.append("n%d.%d" % (a, c))
                    gs.append("g:" + ",".join(items))
                if rng.random() < (0.2 if not cancelled else 0.05):
                    gs.insert(rng.randrange(0, len(gs) + 1), "cancel")
                    cancelled = True
                ops.append("conc " + " ".join(gs))
            elif r < 0.75 and blockers:
                b = blockers.pop(0 if rng.random() < 0.7 else rng.randrange(len(blockers)))
                ops.append("rel %d" % b)
            elif r < 0.87:
                ops.append("wait %d" % fresh())
            elif r < 0.93:
                ops.append("cancel")
                cancelled = True
            else:
                ops.append("rel %d" % (blockers.pop(0) if blockers else 99999))
        # drain: release what is still blocked (in random order), sometimes cancel, submit afterwards
        rng.shuffle(blockers)
        tail = ["rel %d" % b for b in blockers]
        if rng.random() < 0.7:
            tail.insert(rng.randrange(0, len(tail) + 1), "cancel")
            tail.append("conc g:p%d,p%d g:n%d.%d" % (fresh(), fresh(), fresh(), fresh()))
            tail.append("wait %d" % fresh())
        ops += tail
        yield Case("s_serializer", ops, "ser-rand")
    # directed: cancel racing with schedulers, nothing else
    for i in range({"quick": 60, "thorough": 1500, "search": 800}[tier]):
        k = rng.randrange(1, 5)
        ops = ["conc " + " ".join(["g:" + ",".join("p%d" % (10 * g + j + 1) for j in range(rng.randrange(1, 6))) for g in range(k)] + ["cancel"]),
               "conc g:p900", "wait 901"]
        if rng.random() < 0.5:
            ops.insert(0, "conc g:b1000,p1001 g:p1002")
            ops.insert(2, "rel 1000")
        yield Case("s_serializer", ops, "ser-cancel-race")


# ----------------------------------------------------------------------------- pubsub

def gen_pubsub(rng, tier):
    n = {"quick": 250, "thorough": 6000, "search": 4000}[tier]
    for i in range(n):
        allow_resub = rng.random() < 0.10
        ops = []
        subscribed = set()
        ever = set()
        val = [0]
        blocked = False

        def pubv():
            val[0] += 1
            return val[0]

        def can_sub():
            return [s for s in (1, 2, 3, 4) if s not in subscribed and (allow_resub or s not in ever)]

        for _ in range(rng.randrange(6, 18)):
            r = rng.random()
            if r < 0.2:
                c = can_sub()
                if c:
                    s = rng.choice(c)
                    subscribed.add(s); ever.add(s)
                    ops.append("sub %d" % s)
            elif r < 0.3 and subscribed:
                s = rng.choice(sorted(subscribed))
                subscribed.discard(s)
                ops.append("unsub %d" % s)
            elif r < 0.5:
                ops.append("pub %d" % pubv())
            elif r < 0.8:
                items = []
                touched = set()
                for _k in range(rng.randrange(2, 6)):
                    q = rng.random()
                    if q < 0.5:
                        items.append("pub:%d" % pubv())
                    elif q < 0.75:
                        c = [s for s in can_sub() if s not in touched]
                        if c:
                            s = rng.choice(c)
                            touched.add(s); subscribed.add(s); ever.add(s)
                            items.append("sub:%d" % s)
                    else:
                        c = [s for s in sorted(subscribed) if s not in touched]
                        if c:
                            s = rng.choice(c)
                            touched.add(s); subscribed.discard(s)
                            items.append("unsub:%d" % s)
                if items:
                    ops.append("conc " + " ".join(items))
            elif r < 0.9:
                ops.append("unblock" if blocked else "block")
                blocked = not blocked
            elif r < 0.94:
                ops.append("cancel")
            else:
                ops.append("pub %d" % pubv())
        if blocked:
            ops.append("unblock")
        if rng.random() < 0.5:
            ops += ["cancel", "pub %d" % pubv()]
        yield Case("s_pubsub", ops, "ps-resub" if allow_resub else "ps-rand")
    # the witness of pubsub_resubscribe_counterexample on the real code (known finding F31.1)
    yield Case("s_pubsub", ["sub 1", "block", "pub 7", "unsub 1", "pub 8", "sub 1", "unblock"], "ps-resub-witness")


def gen(rng, tier):
    yield from gen_unbounded(rng, tier)
    yield from gen_serializer(rng, tier)
    yield from gen_pubsub(rng, tier)


def nontrivial(case, impl_lines):
    if case.component == "unbounded":
        return any(l.startswith("got") for l in impl_lines)
    if case.component == "s_serializer":
        return any("run=s" in l for l in impl_lines)
    return any(" d=" in l and " d=- " not in l for l in impl_lines)
