"""C29 A channel never goes idle under an active RPC."""
from vlib.core import Case

ID = "C29"
COMPONENTS = ["idle"]
T4 = []
PROOF_MODULES = ["GrpcProofs.Properties.C29"]
THEOREMS = ["GrpcProofs.C29." + t for t in (
    "reach_inv", "never_idle_under_active_rpc", "enter_idle_only_without_active_rpc",
    "begin_returns_only_when_not_idle", "exit_only_when_balanced", "enter_only_after_exit",
    "counter_in_range", "no_rpc_returns_during_exit_callback", "no_rpc_during_enter_callback")]
DESIGN_REF = "DESIGN.md section 8, C29"
TECHNIQUE = ("Lean 4 inductive invariant over a 40-rule interleaving model (counting abstraction: any number of goroutines), "
             "proved per rule with grind; tie T3: the real idle.Manager is stepped one atomic access at a time through yield "
             "points regenerated from the current source, and every step is checked to be an instance of a model rule")
LEVEL_TEXT = ("Machine-checked proof that in every reachable state of every interleaving of any number of RPC goroutines, timer "
              "callbacks, Connect calls and Close, the manager is never idle while an RPC is between OnCallBegin's return and "
              "OnCallEnd, OnCallBegin returns only when not idle, and enter/exit callbacks alternate. The model's rules are the "
              "individual atomic accesses and lock acquisitions of idle.go; the correspondence replays random and directed "
              "schedules on the real Manager at exactly that grain and diffs label, counter, flags and callback counts after "
              "every step.")
LEVEL_NOTE = ("Trusted: Lean kernel; Go memory model for sync/atomic and sync.RWMutex (each access is one atomic step; a lock "
              "acquisition is a retried TryLock); tools/instrument (inserts the yield points); the thread-to-rule glue in "
              "lean/GrpcModel/Driver/Idle.lean. Statements hold while the manager is not closed; after Close an RPC that began "
              "before Close may finish its OnCallBegin while idle (the channel is shut down then). UnsafeSetNotIdle and "
              "EnterIdleModeForTesting are outside the model (documented caller contracts). int32 range: fewer than 2^31-1 concurrent RPCs.")
GAP = "real timers (a timer callback may start at any time in the model, a superset); goroutine scheduling fairness"
ASSUMPTIONS = ["fewer than 2^31-1 concurrent RPCs", "sync/atomic operations are sequentially consistent (Go memory model)"]
RULE = ("schedules over threads r1..r4 (RPC begin/end loops), t1..t2 (timer callbacks), c1 (Connect), k (Close): directed prefixes "
        "that park a timer callback after its CAS / after its lock / before its loads while RPCs start, followed by random bursts; "
        "a case is non-trivial if it contains an exit-idle and at least one timer step; distinct = distinct schedule")

R = ["r1", "r2", "r3", "r4"]


def burst(rng, threads, n):
    ops = []
    while len(ops) < n:
        t = rng.choice(threads)
        k = 1 + int(rng.expovariate(0.45))
        ops += ["step " + t] * k
    return ops[:n]


def steps(t, n):
    return ["step " + t] * n


# r1 begins while idle and completes OnCallBegin (8 steps), ends (4 steps)
BEGIN_IDLE = steps("r1", 9)
END = steps("r1", 4)
# timer callback from quiescent non-idle state with act=1: isClosed, load cnt, load act, store act, load time, lock, isClosed/unlock, done
TIMER_ACT = steps("t1", 8)
# timer callback with act=0 up to and including the CAS: call start, isClosed, load cnt, load act, CAS
TIMER_TO_CAS = steps("t1", 5)


def directed(rng):
    pre = BEGIN_IDLE + END + TIMER_ACT      # non-idle, no calls, act=0, timer thread idle
    yield pre + TIMER_TO_CAS + steps("r2", 8) + steps("t1", 6) + steps("r2", 4)            # RPC wins the lock after the CAS
    yield pre + TIMER_TO_CAS + steps("r2", 3) + steps("t1", 5) + steps("r2", 9)            # timer wins the lock; RPC must exit idle
    yield steps("r1", 5) + steps("r2", 6) + steps("c1", 3) + steps("r1", 5) + steps("r2", 6)           # r1 parked INSIDE cc.ExitIdleMode while r2 / Connect start
    yield pre + TIMER_TO_CAS + steps("t1", 4) + steps("r2", 5) + steps("t1", 2) + steps("r2", 9)       # timer parked INSIDE cc.EnterIdleMode while an RPC starts
    yield pre + TIMER_TO_CAS + steps("t1", 1) + steps("r2", 3) + steps("t1", 5) + steps("r2", 8)
    yield pre + steps("t1", 4) + steps("r2", 4) + steps("r2", 4) + steps("t1", 8)           # short RPC between the act load and the CAS
    yield pre + TIMER_TO_CAS + steps("t1", 5) + steps("c1", 7) + steps("r1", 6)             # idle again, Connect exits
    yield pre + steps("t1", 3) + steps("t2", 3) + steps("t1", 3) + steps("t2", 6) + steps("t1", 6)   # two timer callbacks race
    yield pre + TIMER_TO_CAS + ["step k"] * 3 + steps("t1", 5) + steps("r2", 6)             # Close while entering idle
    yield BEGIN_IDLE[:3] + steps("r2", 3) + steps("r1", 5) + steps("r2", 6) + steps("c1", 5)  # two RPCs + Connect race to exit idle
    for _ in range(6):
        a, b = rng.randrange(0, 7), rng.randrange(0, 9)
        yield pre + steps("t1", a) + steps("r2", b) + burst(rng, ["t1", "r2", "r3", "t2", "c1"], 30)


def gen(rng, tier):
    n = {"quick": 400, "thorough": 12000, "search": 20000}[tier]
    ln = {"quick": 70, "thorough": 110, "search": 90}[tier]
    for i, ops in enumerate(directed(rng)):
        yield Case("idle", ops, "directed-%d" % i)
    for i in range(n):
        k = rng.randrange(1, 5)
        threads = R[:k] + ["t1"] * 2 + (["t2"] if rng.random() < 0.5 else []) + (["c1"] if rng.random() < 0.4 else [])
        ops = burst(rng, threads, ln)
        if rng.random() < 0.15:
            pos = rng.randrange(len(ops))
            ops[pos:pos] = ["step k"] * rng.randrange(1, 4)
        if rng.random() < 0.5:
            ops = BEGIN_IDLE + END + TIMER_ACT + ops
        yield Case("idle", ops, "random-%d" % i)


def nontrivial(case, impl):
    return any("ex=1" in l or "ex=2" in l for l in impl) and any(op.startswith("step t") for op in case.ops)
