"""C13 Client never exceeds the server's MAX_CONCURRENT_STREAMS."""
from vlib.core import Case

ID = "C13"
COMPONENTS = ["s_quota"]
T4 = ["StreamQuota"]
PROOF_MODULES = ["GrpcProofs.Properties.C13"]
THEOREMS = ["GrpcProofs.C13." + t for t in (
    "quota_ledger", "quota_ledger_live", "open_le_latest_max", "settings_sets_latest_max",
    "ids_odd_increasing", "lowered_limit_blocks", "lowered_limit_blocks_until_enough_close",
    "waiting_ge_waiters", "no_waiter_while_quota_free_partial", "no_waiter_while_quota_free_counterexample",
    "progress_when_quota_free_partial", "no_admission_while_draining", "nextID_bound", "ids_valid_partial")]
DESIGN_REF = "DESIGN.md section 8, C13"
TECHNIQUE = ("Lean 4 inductive invariants over a small-step interleaving model (one rule per controlBuf critical section / channel "
             "operation, any number of callers), proved by case analysis + omega; tie T2: real http2Client over net.Pipe against a "
             "raw-frame peer inside a synctest bubble, every quiescent implementation state must be one of the outcomes the model "
             "reaches over ALL schedules of the op (explored exhaustively by the driver with the same `step` the theorems are about)")
LEVEL_TEXT = ("Machine-checked proof, for every interleaving of NewStream callers, stream closes, SETTINGS (raise/lower/0), header-list "
              "limit changes, ctx expiry and GOAWAY, that streamQuota = max - open (- units leaked while draining), that every HEADERS "
              "is emitted with open <= latest MAX_CONCURRENT_STREAMS, that ids are odd and strictly increasing, that a lowered limit "
              "admits nothing until enough streams close, and (for runs in which the header-list limit does not change under a parked "
              "caller) that a caller is never parked with quota free unless a wake-up is in flight. The unrestricted wake-up claim is "
              "refuted in the model by a concrete schedule that the real transport reproduces (known finding F19).")
LEVEL_NOTE = ("Trusted: Lean kernel; the hand model lean/GrpcModel/Model/StreamQuota.lean; atomicity of closures run by "
              "controlBuf.executeAndPut (its source is pinned by T4); Go channel semantics (one-slot buffered send with default, close "
              "wakes all receivers); testing/synctest quiescence; the glue in Driver/S_quota.lean that enumerates schedules. "
              "Reading: 'open' = HEADERS sent and closeStream not yet run; on the wire the RST_STREAM of a close precedes the next "
              "HEADERS (the monitor counts the peer's view). 'latest MAX_CONCURRENT_STREAMS' = the value of the last SETTINGS the "
              "client has processed (quiescent stepping makes that the last one sent). 'admitted once quota frees' is stated as: no "
              "quiescent state has a parked caller and free quota. After GracefulClose without GOAWAY a NewStream caller parks until the "
              "transport closes: outside the statement (the transport no longer admits streams), not modelled beyond the drain point. "
              "nextID is a Nat in the model; uint32 wrap is excluded by nextID_bound under the stated assumption.")
GAP = "data races (closures are assumed atomic); GracefulClose-draining behaviour of parked callers; keepalive and flow control are off"
ASSUMPTIONS = ["controlBuf.executeAndPut runs its closure under controlBuf.mu (source pinned by T4)",
               "fewer than 2^28 NewStream calls are admitted between nextID passing MaxStreamID and the first GracefulClose",
               "NewStream is not called before NewHTTP2Client returns (server preface processed)"]
RULE = ("cases = start (MAX_CONCURRENT_STREAMS none/0..5, optional header-list limit) followed by 12-40 ops: concurrent NewStream "
        "bursts (1-4 callers, optional ctx deadline, big header list), SETTINGS raise/lower/0/none/duplicate, server END_STREAM / "
        "RST_STREAM, client cancel / half-close, double closes, closes of unknown ids, ctx cancel of a parked caller, virtual sleep past "
        "deadlines, GOAWAY, Close, MaxStreamID drain, bursts (peer frames back to back + concurrent client-side closes/calls with no settle in between); directed prefixes for lower-below-open, limit 0, raise-with-waiters, stale token, "
        "lost wake-up; a case is non-trivial if a caller was parked in it; distinct = distinct op list")

KNOWN_DIRECTED = [
    # F19: woken waiter fails the header-list-size check, the other stays parked with quota free
    ["start 1", "new 1", "new 1 sz=B", "new 1", "hls 1000", "srvend 1", "new 1", "srvend 3"],
    ["start 2", "new 2", "new 2 sz=B", "new 1", "hls 1000", "cclose 1", "cclose 3", "settings 4"],
]

DIRECTED = [
    # lower below open, then closes; nothing opens until enough closed
    ["start 3", "new 3", "settings 1", "new 2", "srvend 1", "srvend 3", "srvend 5", "srvend 7", "srvend 9"],
    # limit 0 then raise
    ["start 0", "new 2", "settings 0", "settings 1", "settings 3", "new 1", "settings 0", "new 1", "cclose 1", "cclose 3", "cclose 5", "settings 1"],
    ["start none", "new 3", "settings 0", "new 2", "settings 2", "srvend 1", "srvend 3", "srvend 5", "settings 5"],
    # raise with waiters: broadcast, stale token
    ["start 1", "new 4", "settings 3", "srvend 1", "srvend 3", "new 2", "settings 1", "srvrst 5 2", "srvrst 7 2", "srvrst 9 2"],
    ["start 1", "new 3", "settings 3", "new 1", "settings 1", "new 1", "cclose 1", "cclose 3", "cclose 5", "cclose 7"],
    # two closes in a row with two waiters (one-slot channel: re-signal by the admitted waiter)
    ["start 2", "new 4", "srvend 1", "srvend 3", "srvend 5", "srvend 7"],
    # double close / close of unknown ids must not mint quota
    ["start 1", "new 2", "srvend 1", "cclose 1", "srvend 1", "srvrst 1 8", "srvend 99", "cclose 3", "cclose 3", "new 2"],
    ["start 2", "new 1", "chalf 1", "srvend 1", "cclose 1", "new 3", "chalf 3", "chalf 3", "srvrst 3 0", "srvend 5"],
    # ctx expiry / cancellation of parked callers, leaked waitingStreams, spurious tokens
    ["start 1", "new 1", "new 2 dl=100", "new 1", "sleep 150", "srvend 1", "srvend 3", "new 1"],
    ["start 1", "new 3", "cancelb 0", "cancelb 0", "srvend 1", "new 2", "srvend 3", "cancelb 5", "srvend 5"],
    ["start 1", "new 2", "cancelb 0", "srvend 1", "new 2", "settings 2", "srvend 3"],
    # duplicate setting in one frame: last wins
    ["start 3", "new 3", "settings2 5 1", "new 1", "settings2 0 4", "new 1"],
    # SETTINGS without the parameter leaves the limit alone
    ["start 1", "new 2", "settings none", "srvend 1", "settings none"],
    # GOAWAY releases every parked caller; nothing opens afterwards
    ["start 1", "new 3", "goaway 1", "new 1", "srvend 1", "new 1"],
    ["start 2", "new 4", "goaway 1", "new 2", "cclose 1"],
    ["start 2", "new 3", "goaway 3", "new 1", "srvend 3", "srvend 1"],
    # Close releases every parked caller
    ["start 1", "new 3", "close", "new 1"],
    ["start 0", "new 2 dl=50", "close", "sleep 100"],
    # MaxStreamID drain
    ["start 3 maxid=5", "new 1", "new 1", "new 1", "new 1"],
    ["start 5 maxid=3", "new 3", "srvend 1"],
    # bursts: several closes before any woken waiter runs (one-slot token: the admitted waiter must re-signal)
    ["start 2", "new 4", "burst srvend:1 srvend:3", "burst cclose:5 cclose:7"],
    ["start 3", "new 6", "burst srvend:1 srvrst:3:8 srvend:5", "burst cclose:7 cclose:9 cclose:11"],
    ["start 1", "new 3", "burst cclose:1 new:1", "burst srvend:3 settings:2", "burst srvend:5 srvend:7 settings:0 new:1"],
    ["start 2", "new 3", "burst srvend:1 cclose:3 new:2 settings:3", "burst srvrst:5:8 cclose:5 settings:1 new:1", "burst srvend:7 srvend:9 cclose:11"],
    # header list limit from the preface
    ["start 2 hl=1000", "new 1 sz=B", "new 2", "new 1 sz=B", "new 1", "srvend 1"],
]


class Mirror:
    """rough python mirror used only to aim ops at plausible ids (never to judge)"""

    def __init__(self, n):
        self.max = 2**32 - 1 if n is None else n
        self.open = []
        self.next = 1
        self.blocked = 0

    def admit(self):
        while self.blocked > 0 and len(self.open) < self.max:
            self.open.append(self.next)
            self.next += 2
            self.blocked -= 1

    def new(self, k):
        self.blocked += k
        self.admit()

    def close(self, i):
        if i in self.open:
            self.open.remove(i)
            self.admit()

    def settings(self, n):
        self.max = n
        self.admit()


def random_case(rng, with_hls):
    n = rng.choice([None, 0, 1, 1, 2, 2, 3, 5])
    ops = ["start %s%s" % ("none" if n is None else n, " hl=1000" if with_hls and rng.random() < 0.3 else "")]
    m = Mirror(n)
    callers = 0
    length = rng.randrange(12, 40)
    dead = False
    for _ in range(length):
        r = rng.random()
        if dead and rng.random() < 0.5:
            break
        if r < 0.22 and callers < 8:
            k = rng.choice([1, 1, 1, 2, 2, 3, 4])
            k = min(k, 8 - callers)
            op = "new %d" % k
            if rng.random() < 0.2:
                op += " dl=%d" % rng.choice([50, 100, 200, 1000])
            if with_hls and rng.random() < 0.35:
                op += " sz=B"
            callers += k
            m.new(k)
            ops.append(op)
        elif r < 0.40:
            v = rng.choice([0, 0, 1, 1, 2, 3, 4, 5, 7, max(0, len(m.open) - 1), len(m.open), len(m.open) + 1])
            rr = rng.random()
            if rr < 0.08:
                ops.append("settings none")
            elif rr < 0.16:
                w = rng.randrange(0, 6)
                ops.append("settings2 %d %d" % (w, v))
                m.settings(v)
            else:
                ops.append("settings %d" % v)
                m.settings(v)
        elif r < 0.72:
            if m.open and rng.random() < 0.9:
                i = rng.choice(m.open)
            else:
                i = rng.choice([1, 3, 5, 7, 9, 2, m.next, m.next + 2])
            kind = rng.choice(["srvend", "srvend", "srvrst", "cclose", "cclose", "chalf"])
            if kind == "srvrst":
                ops.append("srvrst %d %d" % (i, rng.choice([0, 2, 7, 8])))
            else:
                ops.append("%s %d" % (kind, i))
            if kind != "chalf":
                m.close(i)
                if rng.random() < 0.15:
                    k2 = rng.choice(["srvend", "cclose", "srvrst"])
                    ops.append("srvrst %d 8" % i if k2 == "srvrst" else "%s %d" % (k2, i))
        elif r < 0.80:
            subs = []
            ids = list(m.open)
            rng.shuffle(ids)
            for i in ids[:rng.choice([1, 2, 2, 3])]:
                k2 = rng.choice(["srvend", "srvend", "cclose", "cclose", "srvrst"])
                subs.append("srvrst:%d:8" % i if k2 == "srvrst" else "%s:%d" % (k2, i))
                if rng.random() < 0.1:
                    subs.append("cclose:%d" % i)
            if rng.random() < 0.3:
                v = rng.choice([0, 1, 2, 3, len(m.open)])
                subs.append("settings:%d" % v)
            if rng.random() < 0.3 and callers < 7:
                k = rng.choice([1, 1, 2])
                k = min(k, 8 - callers)
                subs.append("new:%d" % k)
                callers += k
            rng.shuffle(subs)
            if subs:
                ops.append("burst " + " ".join(subs))
                for sub in subs:
                    pp = sub.split(":")
                    if pp[0] in ("srvend", "cclose", "srvrst"):
                        m.close(int(pp[1]))
                    elif pp[0] == "settings":
                        m.settings(int(pp[1]))
                    elif pp[0] == "new":
                        m.new(int(pp[1]))
        elif r < 0.84:
            ops.append("cancelb %d" % rng.randrange(0, 4))
            if m.blocked:
                m.blocked -= 1
        elif r < 0.90:
            ops.append("sleep %d" % rng.choice([10, 60, 120, 250, 1100]))
        elif r < 0.94 and with_hls:
            ops.append("hls %d" % rng.choice([10, 1000, 1000, 100000]))
        elif r < 0.965:
            last = rng.choice([0, 1, 3, 5, m.next - 2 if m.next > 2 else 1, 2147483647])
            ops.append("goaway %d" % last)
            dead = True
        elif r < 0.98:
            ops.append("close")
            dead = True
        else:
            ops.append("settings 0")
            m.settings(0)
    return ops


def gen(rng, tier):
    n_rand = {"quick": 500, "thorough": 12000, "search": 5000}[tier]
    for i, ops in enumerate(DIRECTED):
        yield Case("s_quota", ops, "directed-%d" % i)
    for i, ops in enumerate(KNOWN_DIRECTED):
        yield Case("s_quota", ops, "known-directed-%d" % i)
    for i in range(n_rand):
        yield Case("s_quota", random_case(rng, with_hls=(i % 10 == 0)), "random-%d" % i)


def nontrivial(case, impl_lines):
    return any(" blk=" in l and " blk=- " not in l for l in impl_lines)
